(* CBaseProofs.v — BpEndecodeBaseType, BpHandleIntSignAfterEndecode, BpEndecodeInt and the
   extensible-ahead helpers, for the two coherent configurations
   (B,E) = (LE,LE) and (BE,BE):  what they write to / read from the stream, in the
   bit-vector view, in terms of the NATIVE VALUE of the C object. *)
From Coq Require Import ZArith List Bool Lia ZifyBool.
From BP Require Import Bits Schema Spec CMem CMemProofs CRt ByteStep PyEncStep CCopyProofs.
From BPGen Require Import GenC.
Import ListNotations.
Open Scope Z_scope.
Ltac Zify.zify_post_hook ::= Z.div_mod_to_equations.

Lemma good_cfg_ok B E : B = E -> cfg_ok B E.
Proof.
  intros <-. unfold cfg_ok. destruct B; [reflexivity|].
  intros H. vm_compute in H. discriminate H.
Qed.

(* the stream context during encoding: bits at and after the cursor are zero, room for n *)
Definition cenc_pre (x : cctx) (n : Z) : Prop :=
  bytes_ok (xs x) /\ 0 <= xi x /\ 0 <= bufZ (xs x) < 2 ^ xi x /\
  xi x + n <= 8 * Z.of_nat (length (xs x)).

(* ---------- lists ---------- *)

Lemma nth_upd {A} (l : list A) k j x d :
  (k < length l)%nat -> nth j (upd l k x) d = if Nat.eqb j k then x else nth j l d.
Proof.
  revert k j; induction l as [|a l IH]; intros k j Hk; [cbn in Hk; lia|].
  destruct k as [|k]; destruct j as [|j]; cbn [upd nth Nat.eqb]; try reflexivity.
  apply IH. cbn in Hk. lia.
Qed.

Lemma nth_firstn_lt {A} (l : list A) n j d : (j < n)%nat -> nth j (firstn n l) d = nth j l d.
Proof.
  revert n j; induction l as [|a l IH]; intros n j H.
  - now rewrite firstn_nil.
  - destruct n as [|n]; [lia|]. destruct j as [|j]; cbn [firstn nth]; [reflexivity|]. apply IH. lia.
Qed.

Lemma zeros_nth n j : nth j (zeros n) 0 = 0.
Proof. revert j; induction n; intros [|j]; cbn; auto. Qed.

Lemma bufZ_app_zeros l n : bufZ (l ++ zeros n) = bufZ l.
Proof. rewrite bufZ_app, bufZ_zeros. lia. Qed.

(* ---------- staging loops of the BP_BIG_ENDIAN build ---------- *)

Definition sweep_stage : bool :=
  forallb (fun s => forallb (fun k =>
    (bt_enc_src s k =? s - 1 - k) && (bt_dec_dst s k =? s - 1 - k)) (zrange 9)) (zrange 9) &&
  (bt_stage_len =? 8).
Lemma sweep_stage_ok : sweep_stage = true.
Proof. vm_compute. reflexivity. Qed.

Lemma stage_idx s k : 0 <= s <= 8 -> 0 <= k <= 8 ->
  bt_enc_src s k = s - 1 - k /\ bt_dec_dst s k = s - 1 - k.
Proof.
  intros Hs Hk. pose proof sweep_stage_ok as H. unfold sweep_stage in H.
  apply andb_true_iff in H. destruct H as [H _].
  rewrite forallb_forall in H. specialize (H s (in_zrange 9 s ltac:(lia))).
  rewrite forallb_forall in H. specialize (H k (in_zrange 9 k ltac:(lia))).
  apply andb_true_iff in H. destruct H as [H1 H2]. split; now apply Z.eqb_eq.
Qed.

Lemma stage_len : bt_stage_len = 8.
Proof. reflexivity. Qed.

Lemma stage_in_spec : forall cnt k size p le,
  0 <= k -> k + Z.of_nat cnt = size -> size <= 8 ->
  size <= Z.of_nat (length p) -> size <= Z.of_nat (length le) ->
  exists le', stage_in cnt k size p le = COk le' /\ length le' = length le /\
    forall j, 0 <= j ->
      nth (Z.to_nat j) le' 0 =
      if (k <=? j) && (j <? size) then (nth (Z.to_nat (size - 1 - j)) p 0) mod 256
      else nth (Z.to_nat j) le 0.
Proof.
  induction cnt as [|c IH]; intros k size p le Hk Hsz H8 Hp Hle.
  - exists le. split; [reflexivity|]. split; [reflexivity|].
    intros j Hj. replace ((k <=? j) && (j <? size)) with false; [reflexivity|].
    symmetry. apply andb_false_iff. destruct (k <=? j) eqn:E; [right; apply Z.ltb_ge; lia|now left].
  - cbn [stage_in].
    destruct (stage_idx size k ltac:(lia) ltac:(lia)) as [Ei _]. rewrite Ei.
    rewrite rd_ok by lia. cbn [cbind]. rewrite wr_ok by lia. cbn [cbind].
    set (b := nth (Z.to_nat (size - 1 - k)) p 0).
    destruct (IH (k + 1) size p (upd le (Z.to_nat k) (b mod 256))) as (le' & E1 & L1 & N1);
      try lia; try (rewrite upd_length; lia).
    exists le'. split; [exact E1|]. split; [rewrite L1; apply upd_length|].
    intros j Hj. rewrite (N1 j Hj).
    destruct (Z.eq_dec j k) as [->|Hne].
    + replace ((k + 1 <=? k) && (k <? size)) with false by lia.
      replace ((k <=? k) && (k <? size)) with true by lia.
      rewrite nth_upd by lia. now rewrite Nat.eqb_refl.
    + rewrite nth_upd by lia.
      replace (Nat.eqb (Z.to_nat j) (Z.to_nat k)) with false by (symmetry; apply Nat.eqb_neq; lia).
      destruct (k <=? j) eqn:E2; destruct (k + 1 <=? j) eqn:E3; cbn [andb]; try reflexivity; lia.
Qed.

Lemma stage_out_spec : forall cnt k size le p,
  0 <= k -> k + Z.of_nat cnt = size -> size <= 8 ->
  size <= Z.of_nat (length le) -> size <= Z.of_nat (length p) ->
  exists p', stage_out cnt k size le p = COk p' /\ length p' = length p /\
    forall j, 0 <= j ->
      nth (Z.to_nat j) p' 0 =
      if (0 <=? size - 1 - j) && (k <=? size - 1 - j) && (size - 1 - j <? size)
      then (nth (Z.to_nat (size - 1 - j)) le 0) mod 256
      else nth (Z.to_nat j) p 0.
Proof.
  induction cnt as [|c IH]; intros k size le p Hk Hsz H8 Hle Hp.
  - exists p. split; [reflexivity|]. split; [reflexivity|].
    intros j Hj. replace ((0 <=? size - 1 - j) && (k <=? size - 1 - j) && (size - 1 - j <? size)) with false by lia.
    reflexivity.
  - cbn [stage_out].
    destruct (stage_idx size k ltac:(lia) ltac:(lia)) as [_ Ei]. rewrite Ei.
    rewrite rd_ok by lia. cbn [cbind]. rewrite wr_ok by lia. cbn [cbind].
    set (b := nth (Z.to_nat k) le 0).
    destruct (IH (k + 1) size le (upd p (Z.to_nat (size - 1 - k)) (b mod 256))) as (p' & E1 & L1 & N1);
      try lia; try (rewrite upd_length; lia).
    exists p'. split; [exact E1|]. split; [rewrite L1; apply upd_length|].
    intros j Hj. rewrite (N1 j Hj).
    destruct (Z.eq_dec j (size - 1 - k)) as [->|Hne].
    + replace (size - 1 - (size - 1 - k)) with k by lia.
      replace ((0 <=? k) && (k + 1 <=? k) && (k <? size)) with false by lia.
      replace ((0 <=? k) && (k <=? k) && (k <? size)) with true by lia.
      rewrite nth_upd by lia. now rewrite Nat.eqb_refl.
    + rewrite nth_upd by lia.
      replace (Nat.eqb (Z.to_nat j) (Z.to_nat (size - 1 - k))) with false by (symmetry; apply Nat.eqb_neq; lia).
      destruct (0 <=? size - 1 - j) eqn:E1'; destruct (k <=? size - 1 - j) eqn:E2;
        destruct (k + 1 <=? size - 1 - j) eqn:E3; destruct (size - 1 - j <? size) eqn:E4;
        cbn [andb]; try reflexivity; lia.
Qed.

(* the staged little-endian view of a native big-endian object *)
Lemma stage_in_full size p :
  bytes_ok p -> 0 <= size <= 8 -> Z.of_nat (length p) = size ->
  exists le', stage_in (Z.to_nat size) 0 size p (zeros 8) = COk le' /\
              length le' = 8%nat /\ bytes_ok le' /\ bufZ le' = bufZ (rev p).
Proof.
  intros Hp Hs Hl.
  destruct (stage_in_spec (Z.to_nat size) 0 size p (zeros 8)) as (le' & E1 & L1 & N1);
    try lia; try (rewrite zeros_length; lia).
  rewrite zeros_length in L1.
  assert (Heq : le' = rev p ++ zeros (8 - length p)).
  { apply (nth_ext _ _ 0 0).
    - rewrite app_length, rev_length, zeros_length. lia.
    - intros n Hn. specialize (N1 (Z.of_nat n) ltac:(lia)). rewrite Nat2Z.id in N1. rewrite N1.
      cbn [Z.leb Z.compare andb]. replace (0 <=? Z.of_nat n) with true by lia. cbn [andb].
      destruct (Z.of_nat n <? size) eqn:E2.
      + rewrite app_nth1 by (rewrite rev_length; lia). rewrite rev_nth by lia.
        replace (Z.to_nat (size - 1 - Z.of_nat n)) with (length p - S n)%nat by lia.
        apply Z.mod_small. apply (nth_bytes_ok p _ Hp).
      + rewrite app_nth2 by (rewrite rev_length; lia). now rewrite !zeros_nth. }
  exists le'. split; [exact E1|]. split; [exact L1|]. split.
  - rewrite Heq. apply bytes_ok_app; [apply bytes_ok_rev, Hp|apply zeros_bytes_ok].
  - rewrite Heq. apply bufZ_app_zeros.
Qed.

Lemma stage_out_full size le :
  bytes_ok le -> 0 <= size <= 8 -> length le = 8%nat -> 0 <= bufZ le < 256 ^ size ->
  exists p', stage_out (Z.to_nat size) 0 size le (zeros (Z.to_nat size)) = COk p' /\
             length p' = Z.to_nat size /\ bytes_ok p' /\ bufZ (rev p') = bufZ le.
Proof.
  intros Hle Hs Hl Hb.
  destruct (stage_out_spec (Z.to_nat size) 0 size le (zeros (Z.to_nat size))) as (p' & E1 & L1 & N1);
    try lia; try (rewrite zeros_length; lia).
  rewrite zeros_length in L1.
  assert (Heq : p' = rev (firstn (Z.to_nat size) le)).
  { apply (nth_ext _ _ 0 0).
    - rewrite rev_length, firstn_length_le by lia. exact L1.
    - intros n Hn. specialize (N1 (Z.of_nat n) ltac:(lia)). rewrite Nat2Z.id in N1. rewrite N1.
      replace ((0 <=? size - 1 - Z.of_nat n) && (0 <=? size - 1 - Z.of_nat n) && (size - 1 - Z.of_nat n <? size))
        with true by lia.
      rewrite rev_nth by (rewrite firstn_length_le by lia; lia).
      rewrite firstn_length_le by lia.
      rewrite nth_firstn_lt by lia.
      replace (Z.to_nat (size - 1 - Z.of_nat n)) with (Z.to_nat size - S n)%nat by lia.
      apply Z.mod_small. apply (nth_bytes_ok le _ Hle). }
  exists p'. split; [exact E1|]. split; [exact L1|]. split.
  - rewrite Heq. apply bytes_ok_rev, bytes_ok_firstn, Hle.
  - rewrite Heq, rev_involutive.
    (* the bytes of le at and above index size are zero because bufZ le < 256^size *)
    rewrite <- (firstn_skipn (Z.to_nat size) le) at 2. rewrite bufZ_app.
    rewrite firstn_length_le by lia.
    pose proof (bufZ_range (firstn (Z.to_nat size) le) (bytes_ok_firstn _ _ Hle)) as R1.
    pose proof (bufZ_range (skipn (Z.to_nat size) le) (bytes_ok_skipn _ _ Hle)) as R2.
    rewrite firstn_length_le in R1 by lia.
    rewrite <- (firstn_skipn (Z.to_nat size) le), bufZ_app, firstn_length_le in Hb by lia.
    rewrite Z2Nat.id in * by lia.
    pose proof (pow256_pos size ltac:(lia)) as P.
    assert (bufZ (skipn (Z.to_nat size) le) = 0) by nia. lia.
Qed.

(* ---------- widths 1..64: storage sizes, sign-handling tables (sweep, 64 cases) ---------- *)

Definition opt_eqb (a : option Z) (b : Z) : bool := match a with Some x => x =? b | None => false end.

Definition sweep_widths : bool :=
  forallb (fun n => implb (1 <=? n)
    ((BpBaseTypeStorageSize n =? int_size n) &&
     existsb (Z.eqb (int_size n)) [1; 2; 4; 8] &&
     (n <=? 8 * int_size n) &&
     implb (sg_skip n) (n =? 8 * int_size n) &&
     opt_eqb (lookup (sg_n (int_size n)) sg_cases) (int_size n) &&
     (sg_testmask (sg_n (int_size n)) n =? 2 ^ (n - 1)) &&
     (sg_ormask (sg_n (int_size n)) n =? 2 ^ (8 * int_size n) - 2 ^ n)))
    (zrange 65) &&
  (ah_size =? 2) && (ah_nbits =? 16) && (BpBool_nbits =? 1) && (BpByte_nbits =? 8).
Lemma sweep_widths_ok : sweep_widths = true.
Proof. vm_compute. reflexivity. Qed.

Lemma width_facts n : 1 <= n <= 64 ->
  BpBaseTypeStorageSize n = int_size n /\
  (int_size n = 1 \/ int_size n = 2 \/ int_size n = 4 \/ int_size n = 8) /\
  n <= 8 * int_size n /\
  (sg_skip n = true -> n = 8 * int_size n) /\
  lookup (sg_n (int_size n)) sg_cases = Some (int_size n) /\
  sg_testmask (sg_n (int_size n)) n = 2 ^ (n - 1) /\
  sg_ormask (sg_n (int_size n)) n = 2 ^ (8 * int_size n) - 2 ^ n.
Proof.
  intros Hn. pose proof sweep_widths_ok as H. unfold sweep_widths in H.
  rewrite !andb_true_iff in H. destruct H as ((((H & _) & _) & _) & _).
  rewrite forallb_forall in H. specialize (H n (in_zrange 65 n ltac:(lia))).
  replace (1 <=? n) with true in H by lia. cbn [implb] in H.
  rewrite !andb_true_iff in H. destruct H as ((((((H1 & H2) & H3) & H4) & H5) & H6) & H7).
  split; [now apply Z.eqb_eq|]. split.
  { apply existsb_exists in H2. destruct H2 as (y & Hy & Ey). apply Z.eqb_eq in Ey. subst y.
    cbn [In] in Hy. intuition. }
  split; [lia|]. split.
  { intros Hs. rewrite Hs in H4. cbn [implb] in H4. now apply Z.eqb_eq. }
  split.
  { destruct (lookup (sg_n (int_size n)) sg_cases); cbn [opt_eqb] in H5; [|discriminate].
    f_equal. now apply Z.eqb_eq. }
  split; now apply Z.eqb_eq.
Qed.

Lemma ah_facts : ah_size = 2 /\ ah_nbits = 16 /\ BpBool_nbits = 1 /\ BpByte_nbits = 8.
Proof. repeat split; reflexivity. Qed.

(* ---------- BpEndecodeBaseType ---------- *)

Lemma base_enc B E nbits x data :
  B = E -> 0 <= nbits -> cenc_pre x nbits -> bytes_ok data ->
  nbits <= 8 * Z.of_nat (length data) ->
  (B = BE -> 1 <= nbits <= 64 /\ Z.of_nat (length data) = BpBaseTypeStorageSize nbits) ->
  exists s',
    base_type B E true nbits x data = COk ({| xs := s'; xi := xi x + nbits |}, data) /\
    length s' = length (xs x) /\ bytes_ok s' /\
    bufZ s' = bufZ (xs x) + 2 ^ xi x * (native_val E data mod 2 ^ nbits).
Proof.
  intros HBE Hn (Hs & Hi & Hz & Hlen) Hd Hdl Hbe. subst E.
  pose proof (good_cfg_ok B B eq_refl) as Hcfg.
  unfold base_type. destruct B.
  - destruct (copy_bits_spec LE LE Hcfg (copy_fuel nbits) nbits (xs x) 0 data 0 (xi x) 0)
      as (s' & E1 & L1 & O1 & B1); try assumption; try (unfold copy_fuel; lia).
    rewrite E1. cbn [cbind]. exists s'. split; [reflexivity|]. split; [exact L1|]. split; [exact O1|].
    rewrite B1. cbn [native_val]. change (8 * 0 + 0) with 0. change (2 ^ 0) with 1.
    rewrite Z.div_1_r. replace (8 * 0 + xi x) with (xi x) by lia. reflexivity.
  - destruct (Hbe eq_refl) as (Hn64 & Hsz).
    destruct (width_facts nbits Hn64) as (Hst & Hcases & _).
    rewrite stage_len. change (Z.to_nat 8) with 8%nat.
    destruct (stage_in_full (BpBaseTypeStorageSize nbits) data Hd ltac:(lia) Hsz)
      as (le' & E0 & L0 & O0 & B0).
    rewrite E0. cbn [cbind].
    assert (Hf : (Z.to_nat nbits <= copy_fuel nbits)%nat) by (unfold copy_fuel; lia).
    assert (Hz' : 0 <= bufZ (xs x) < 2 ^ (8 * 0 + xi x)) by (replace (8 * 0 + xi x) with (xi x) by lia; exact Hz).
    assert (Hld : 8 * 0 + xi x + nbits <= 8 * Z.of_nat (length (xs x))) by lia.
    assert (Hls : 8 * 0 + 0 + nbits <= 8 * Z.of_nat (length le')) by (rewrite L0; lia).
    destruct (copy_bits_spec BE BE Hcfg (copy_fuel nbits) nbits (xs x) 0 le' 0 (xi x) 0
                Hf Hn Hs O0 ltac:(lia) ltac:(lia) Hi ltac:(lia) Hz' Hld Hls)
      as (s' & E1 & L1 & O1 & B1).
    rewrite E1. cbn [cbind]. exists s'. split; [reflexivity|]. split; [exact L1|]. split; [exact O1|].
    rewrite B1, B0. cbn [native_val]. change (8 * 0 + 0) with 0. change (2 ^ 0) with 1.
    rewrite Z.div_1_r. replace (8 * 0 + xi x) with (xi x) by lia. reflexivity.
Qed.

Lemma base_dec B E nbits x (k : nat) :
  B = E -> 0 <= nbits -> bytes_ok (xs x) -> 0 <= xi x ->
  xi x + nbits <= 8 * Z.of_nat (length (xs x)) ->
  nbits <= 8 * Z.of_nat k ->
  (B = BE -> 1 <= nbits <= 64 /\ Z.of_nat k = BpBaseTypeStorageSize nbits) ->
  exists data',
    base_type B E false nbits x (zeros k) = COk ({| xs := xs x; xi := xi x + nbits |}, data') /\
    length data' = k /\ bytes_ok data' /\
    native_val E data' = (bufZ (xs x) / 2 ^ xi x) mod 2 ^ nbits.
Proof.
  intros HBE Hn Hs Hi Hlen Hk Hbe. subst E.
  pose proof (good_cfg_ok B B eq_refl) as Hcfg.
  unfold base_type. destruct B.
  - destruct (copy_bits_spec LE LE Hcfg (copy_fuel nbits) nbits (zeros k) 0 (xs x) 0 0 (xi x))
      as (d' & E1 & L1 & O1 & B1); try assumption; try (unfold copy_fuel; lia);
      try apply zeros_bytes_ok; try (rewrite zeros_length; lia).
    { rewrite bufZ_zeros. change (8 * 0 + 0) with 0. change (2 ^ 0) with 1. lia. }
    rewrite E1. cbn [cbind]. exists d'. split; [reflexivity|].
    split; [now rewrite L1, zeros_length|]. split; [exact O1|].
    cbn [native_val]. rewrite B1, bufZ_zeros. change (8 * 0 + 0) with 0. change (2 ^ 0) with 1.
    replace (8 * 0 + xi x) with (xi x) by lia. lia.
  - destruct (Hbe eq_refl) as (Hn64 & Hsz).
    destruct (width_facts nbits Hn64) as (Hst & Hcases & Hle8 & _).
    rewrite stage_len. change (Z.to_nat 8) with 8%nat.
    destruct (copy_bits_spec BE BE Hcfg (copy_fuel nbits) nbits (zeros 8) 0 (xs x) 0 0 (xi x))
      as (le' & E1 & L1 & O1 & B1); try assumption; try (unfold copy_fuel; lia);
      try apply zeros_bytes_ok; try (rewrite zeros_length; lia).
    { rewrite bufZ_zeros. change (8 * 0 + 0) with 0. change (2 ^ 0) with 1. lia. }
    rewrite E1. cbn [cbind].
    rewrite bufZ_zeros in B1. change (8 * 0 + 0) with 0 in B1. change (2 ^ 0) with 1 in B1.
    replace (8 * 0 + xi x) with (xi x) in B1 by lia.
    set (u := (bufZ (xs x) / 2 ^ xi x) mod 2 ^ nbits) in *.
    assert (Hu : 0 <= u < 2 ^ nbits) by (apply Z.mod_pos_bound, pow2_pos; lia).
    assert (Hb : 0 <= bufZ le' < 256 ^ BpBaseTypeStorageSize nbits).
    { rewrite B1. rewrite pow256_2 by lia.
      assert (2 ^ nbits <= 2 ^ (8 * BpBaseTypeStorageSize nbits)) by (apply Z.pow_le_mono_r; lia). lia. }
    rewrite zeros_length in L1.
    replace k with (Z.to_nat (BpBaseTypeStorageSize nbits)) by lia.
    destruct (stage_out_full (BpBaseTypeStorageSize nbits) le' O1 ltac:(lia) L1 Hb)
      as (p' & E2 & L2 & O2 & B2).
    rewrite E2. cbn [cbind]. exists p'. split; [reflexivity|]. split; [exact L2|]. split; [exact O2|].
    cbn [native_val]. rewrite B2, B1. lia.
Qed.

(* ---------- sign handling ---------- *)

Lemma land_pow2_testbit x k : 0 <= k -> (Z.land x (2 ^ k) =? 0) = negb (Z.testbit x k).
Proof.
  intros Hk. destruct (Z.testbit x k) eqn:T; cbn [negb].
  - apply Z.eqb_neq. intros H0.
    assert (Z.testbit (Z.land x (2 ^ k)) k = true).
    { rewrite Z.land_spec, T, Z.pow2_bits_true by lia. reflexivity. }
    rewrite H0, Z.bits_0 in H. discriminate.
  - apply Z.eqb_eq. apply Z.bits_inj'. intros i Hi. rewrite Z.land_spec, Z.bits_0.
    destruct (Z.eq_dec i k) as [->|Hne]; [now rewrite T|].
    rewrite Z.pow2_bits_false by lia. apply andb_false_r.
Qed.

Lemma lor_high_mask x n w : 0 <= n <= w -> 0 <= x < 2 ^ n -> Z.lor x (2 ^ w - 2 ^ n) = x + 2 ^ w - 2 ^ n.
Proof.
  intros Hn Hx.
  replace (2 ^ w - 2 ^ n) with (2 ^ n * (2 ^ (w - n) - 1)).
  2:{ rewrite Z.mul_sub_distr_l, <- Z.pow_add_r by lia. replace (n + (w - n)) with w by lia. lia. }
  assert (Hm : 0 <= 2 ^ (w - n) - 1) by (pose proof (pow2_pos (w - n) ltac:(lia)); lia).
  replace (x + 2 ^ n * (2 ^ (w - n) - 1)) with (x + 2 ^ n * (2 ^ (w - n) - 1)) by reflexivity.
  rewrite <- Z.add_sub_assoc. 
  replace (2 ^ w - 2 ^ n) with (2 ^ n * (2 ^ (w - n) - 1)).
  2:{ rewrite Z.mul_sub_distr_l, <- Z.pow_add_r by lia. replace (n + (w - n)) with w by lia. lia. }
  apply Z.bits_inj'. intros i Hi.
  rewrite Z.lor_spec, (testbit_add_shift x n _ i) by lia.
  destruct (i <? n) eqn:E.
  - apply Z.ltb_lt in E. rewrite Z.mul_comm, Z.mul_pow2_bits_low by lia. apply orb_false_r.
  - apply Z.ltb_ge in E. rewrite (Z.mul_comm (2 ^ n)), Z.mul_pow2_bits by lia.
    replace (Z.testbit x i) with false; [reflexivity|].
    symmetry. rewrite <- (Z.mod_small x (2 ^ n)) by lia. apply Z.mod_pow2_bits_high. lia.
Qed.

Lemma native_bytes_mod E w v : native_bytes E w (v mod 256 ^ Z.of_nat w) = native_bytes E w v.
Proof.
  assert (H : bytes_of w (v mod 256 ^ Z.of_nat w) = bytes_of w v).
  { apply bufZ_inj; try apply bytes_of_ok.
    - now rewrite !bytes_of_length.
    - rewrite !bufZ_bytes_of. apply Z.mod_mod. apply Z.pow_nonzero; lia. }
  unfold native_bytes, bytes_le. rewrite H. reflexivity.
Qed.

Lemma native_bytes_congr E w v1 v2 :
  v1 mod 256 ^ Z.of_nat w = v2 mod 256 ^ Z.of_nat w -> native_bytes E w v1 = native_bytes E w v2.
Proof. intros H. rewrite <- (native_bytes_mod E w v1), <- (native_bytes_mod E w v2), H. reflexivity. Qed.

Lemma sign_spec E n data :
  1 <= n <= 64 -> bytes_ok data -> Z.of_nat (length data) = int_size n ->
  0 <= native_val E data < 2 ^ n ->
  sign_after E false (int_size n) n data =
  COk (native_bytes E (length data) (sext n (native_val E data))).
Proof.
  intros Hn Hd Hl Hu.
  destruct (width_facts n Hn) as (_ & Hcases & Hle & Hskip & Hlook & Htm & Hom).
  set (u := native_val E data) in *. set (w := int_size n) in *.
  assert (Hw : 1 <= w <= 8) by lia.
  assert (Hp : 256 ^ Z.of_nat (length data) = 2 ^ (8 * w)) by (rewrite Hl, pow256_2 by lia; reflexivity).
  unfold sign_after. destruct (sg_skip n) eqn:Es.
  - (* standard width: n = 8w, nothing to do; u - 2^n = u (mod 2^(8w)) *)
    specialize (Hskip eq_refl). f_equal.
    rewrite <- (native_bytes_val E data Hd) at 1. fold u.
    apply native_bytes_congr. rewrite Hp, <- Hskip. unfold sext.
    destruct (Z.testbit u (n - 1)); [|reflexivity].
    pose proof (pow2_pos n ltac:(lia)).
    replace (u - 2 ^ n) with (u + (-1) * 2 ^ n) by lia. now rewrite Z.mod_add by lia.
  - rewrite Hlook. replace (Z.to_nat w) with (length data) by lia.
    rewrite (ld_whole E data Hd). cbn [cbind]. fold u.
    rewrite Htm, land_pow2_testbit by lia. rewrite negb_involutive.
    unfold sext. destruct (Z.testbit u (n - 1)) eqn:T.
    + rewrite st_whole, Hom. f_equal. rewrite lor_high_mask by lia.
      apply native_bytes_congr. rewrite Hp.
      pose proof (pow2_pos (8 * w) ltac:(lia)).
      replace (u + 2 ^ (8 * w) - 2 ^ n) with (u - 2 ^ n + 1 * 2 ^ (8 * w)) by lia.
      now rewrite Z.mod_add by lia.
    + f_equal. symmetry. apply native_bytes_val. exact Hd.
Qed.
