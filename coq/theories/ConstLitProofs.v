(* ConstLitProofs.v — lemmas about ConstLit: decimal/hex printing and reading, integer, boolean
   and string literal round trips per language. *)
From Coq Require Import ZArith List Bool Lia.
From BPGen Require Import GenC13.
From BP Require Import ConstLit.
Import ListNotations.
Open Scope Z_scope.

(* ------------------------------------------------------------------------------------ *)
(* digits                                                                               *)
(* ------------------------------------------------------------------------------------ *)

Lemma digit_val_char : forall d, 0 <= d < 16 -> digit_val (digit_char d) = Some d.
Proof.
  intros d Hd. unfold digit_char, digit_val.
  destruct (Z.ltb_spec d 10) as [H|H].
  - replace ((48 <=? 48 + d) && (48 + d <=? 57)) with true.
    + f_equal; lia.
    + symmetry. apply andb_true_iff; split; apply Z.leb_le; lia.
  - replace ((48 <=? 87 + d) && (87 + d <=? 57)) with false.
    + replace ((97 <=? 87 + d) && (87 + d <=? 102)) with true.
      * f_equal; lia.
      * symmetry. apply andb_true_iff; split; apply Z.leb_le; lia.
    + symmetry. apply andb_false_iff; right. apply Z.leb_gt; lia.
Qed.

Lemma text_eqb_refl : forall a, text_eqb a a = true.
Proof. induction a as [|x a IH]; cbn [text_eqb]; [reflexivity|]. rewrite Z.eqb_refl, IH. reflexivity. Qed.

Lemma text_eqb_eq : forall a b, text_eqb a b = true -> a = b.
Proof.
  induction a as [|x a IH]; destruct b as [|y b]; cbn [text_eqb]; intro H; try discriminate; [reflexivity|].
  apply andb_true_iff in H. destruct H as [H1 H2]. apply Z.eqb_eq in H1. subst. f_equal. auto.
Qed.

Lemma pow2_S : forall f : nat, 2 ^ Z.of_nat (S f) = 2 * 2 ^ Z.of_nat f.
Proof. intro f. rewrite Nat2Z.inj_succ, Z.pow_succ_r by lia. reflexivity. Qed.

Lemma div_small : forall b n f, 2 <= b -> 0 <= n < 2 * 2 ^ Z.of_nat f -> 0 <= n / b < 2 ^ Z.of_nat f.
Proof.
  intros b n f Hb Hn. set (P := 2 ^ Z.of_nat f) in *.
  split.
  - apply Z.div_pos; lia.
  - apply Z.div_lt_upper_bound; [lia|]. nia.
Qed.

Lemma le_digits_val : forall fuel b n, 2 <= b -> 0 <= n < 2 ^ Z.of_nat fuel ->
  le_val b (le_digits fuel b n) = n.
Proof.
  induction fuel as [|f IH]; intros b n Hb Hn.
  - cbn in Hn. cbn. lia.
  - rewrite pow2_S in Hn. cbn [le_digits le_val fold_right].
    pose proof (div_small b n f Hb Hn) as Hq.
    pose proof (Z.div_mod n b ltac:(lia)) as Hdm.
    destruct (Z.eqb_spec (n / b) 0) as [E|E].
    + cbn [fold_right]. lia.
    + fold (le_val b (le_digits f b (n / b))). rewrite IH by assumption. lia.
Qed.

Lemma le_digits_range : forall fuel b n, 2 <= b -> 0 <= n ->
  Forall (fun d => 0 <= d < b) (le_digits fuel b n).
Proof.
  induction fuel as [|f IH]; intros b n Hb Hn; cbn [le_digits]; [constructor|].
  constructor.
  - apply Z.mod_pos_bound; lia.
  - destruct (n / b =? 0); [constructor|]. apply IH; [assumption|]. apply Z.div_pos; lia.
Qed.

Lemma le_digits_last : forall fuel b n, 2 <= b -> 0 < n < 2 ^ Z.of_nat fuel ->
  exists ds d, le_digits fuel b n = ds ++ [d] /\ 0 < d < b.
Proof.
  induction fuel as [|f IH]; intros b n Hb Hn.
  - cbn in Hn. lia.
  - rewrite pow2_S in Hn. cbn [le_digits].
    pose proof (div_small b n f Hb ltac:(lia)) as Hq.
    pose proof (Z.div_mod n b ltac:(lia)) as Hdm.
    pose proof (Z.mod_pos_bound n b ltac:(lia)) as Hm.
    destruct (Z.eqb_spec (n / b) 0) as [E|E].
    + exists [], (n mod b). split; [reflexivity|]. lia.
    + destruct (IH b (n / b) Hb ltac:(lia)) as (ds & d & Hds & Hd).
      exists (n mod b :: ds), d. rewrite Hds. split; [reflexivity|assumption].
Qed.

Lemma le_digits_length : forall fuel b n k, 2 <= b -> 0 <= n < b ^ k -> 1 <= k ->
  Z.of_nat (length (le_digits fuel b n)) <= k.
Proof.
  induction fuel as [|f IH]; intros b n k Hb Hn Hk; cbn [le_digits length]; [lia|].
  destruct (Z.eqb_spec (n / b) 0) as [E|E].
  - cbn [length]. lia.
  - rewrite Nat2Z.inj_succ.
    assert (Hk2 : 2 <= k).
    { destruct (Z.eq_dec k 1) as [->|]; [|lia]. rewrite Z.pow_1_r in Hn.
      rewrite Z.div_small in E by lia. congruence. }
    assert (Hp : b ^ k = b * b ^ (k - 1)).
    { replace k with (Z.succ (k - 1)) at 1 by lia. rewrite Z.pow_succ_r by lia. reflexivity. }
    assert (0 <= n / b < b ^ (k - 1)).
    { split; [apply Z.div_pos; lia|]. apply Z.div_lt_upper_bound; [lia|]. lia. }
    specialize (IH b (n / b) (k - 1) Hb H ltac:(lia)). lia.
Qed.

Lemma horner_app : forall b s1 s2 acc,
  horner b acc (s1 ++ s2) = match horner b acc s1 with Some a => horner b a s2 | None => None end.
Proof.
  induction s1 as [|c s1 IH]; intros s2 acc; cbn [app horner]; [reflexivity|].
  destruct (digit_val c) as [d|]; [|reflexivity].
  destruct (d <? b); [apply IH|reflexivity].
Qed.

Lemma horner_rev_digits : forall b ds, 2 <= b <= 16 -> Forall (fun d => 0 <= d < b) ds ->
  horner b 0 (map digit_char (rev ds)) = Some (le_val b ds).
Proof.
  intros b ds Hb. induction ds as [|d ds IH]; intro HF; [reflexivity|].
  inversion HF as [|? ? Hd HF']; subst.
  cbn [rev]. rewrite map_app, horner_app, IH by assumption.
  cbn [map horner]. rewrite digit_val_char by lia.
  replace (d <? b) with true by (symmetry; apply Z.ltb_lt; lia).
  cbn [le_val fold_right]. f_equal. fold (le_val b ds). lia.
Qed.

Lemma log2_fuel : forall n, 0 <= n -> n < 2 ^ Z.of_nat (S (Z.to_nat (Z.log2 n))).
Proof.
  intros n Hn. rewrite Nat2Z.inj_succ, Z2Nat.id by apply Z.log2_nonneg.
  destruct (Z.eq_dec n 0) as [->|Hz]; [cbn; lia|].
  apply Z.log2_spec. lia.
Qed.

Lemma nat_digits_value : forall b n, 2 <= b <= 16 -> 0 <= n ->
  horner b 0 (nat_digits b n) = Some n.
Proof.
  intros b n Hb Hn. unfold nat_digits.
  rewrite horner_rev_digits by (try assumption; apply le_digits_range; lia).
  f_equal. apply le_digits_val; [lia|]. split; [assumption|apply log2_fuel; assumption].
Qed.

Lemma nat_digits_zero : forall b, 2 <= b -> nat_digits b 0 = [48].
Proof.
  intros b Hb. unfold nat_digits. change (Z.to_nat (Z.log2 0)) with 0%nat.
  cbn [le_digits]. rewrite Z.mod_0_l, Z.div_0_l by lia. reflexivity.
Qed.

(* a positive number is printed without a leading zero (and never starts with a minus sign) *)
Lemma nat_digits_head : forall b n, 2 <= b <= 16 -> 0 < n ->
  exists c r, nat_digits b n = c :: r /\ c <> 48 /\ c <> 45.
Proof.
  intros b n Hb Hn. unfold nat_digits.
  destruct (le_digits_last (S (Z.to_nat (Z.log2 n))) b n ltac:(lia)
              ltac:(split; [assumption|apply log2_fuel; lia])) as (ds & d & Hds & Hd).
  rewrite Hds, rev_app_distr. cbn [rev app map].
  eexists _, _. split; [reflexivity|]. unfold digit_char. destruct (d <? 10); lia.
Qed.

Lemma nat_digits_nonempty : forall b n, nat_digits b n <> [].
Proof.
  intros b n. unfold nat_digits. cbn [le_digits rev].
  intro H. apply (f_equal (@length Z)) in H. rewrite map_length, app_length in H. cbn in H. lia.
Qed.

Lemma int_of_text_digits : forall b n, 2 <= b <= 16 -> 0 <= n -> int_of_text b (nat_digits b n) = Some n.
Proof.
  intros b n Hb Hn. unfold int_of_text.
  destruct (nat_digits b n) eqn:E; [exfalso; eapply nat_digits_nonempty; eassumption|].
  rewrite <- E. apply nat_digits_value; assumption.
Qed.

Lemma nat_digits_length : forall b n k, 2 <= b -> 0 <= n < b ^ k -> 1 <= k ->
  Z.of_nat (length (nat_digits b n)) <= k.
Proof.
  intros b n k Hb Hn Hk. unfold nat_digits. rewrite map_length, rev_length.
  apply le_digits_length; assumption.
Qed.

(* ------------------------------------------------------------------------------------ *)
(* integer literals                                                                      *)
(* ------------------------------------------------------------------------------------ *)

(* the templates of the three formatters are the bare "{0}" (checked against the translated
   tables; a different template makes this lemma — and every theorem below — fail) *)
Lemma int_templates_bare : forall l, int_prefix l = [] /\ int_suffix l = [].
Proof. intros []; split; reflexivity. Qed.

Lemma format_int_is_dec : forall l z, format_int l z = dec_text z.
Proof.
  intros l z. unfold format_int. destruct (int_templates_bare l) as [-> ->].
  cbn [app]. apply app_nil_r.
Qed.

Section Unsigned.
Variable n : Z.
Hypothesis Hn : 0 <= n.
Let s := nat_digits 10 n.

Lemma dec_shape : s = [48] /\ n = 0 \/ exists c r, s = c :: r /\ c <> 48 /\ c <> 45.
Proof.
  destruct (Z.eq_dec n 0) as [E|E].
  - left. subst s. rewrite E. split; [apply nat_digits_zero; lia|reflexivity].
  - right. apply nat_digits_head; lia.
Qed.

Lemma dec_split_sign : split_sign s = (false, s).
Proof.
  destruct dec_shape as [[E _]|(c & r & E & _ & Hc)]; rewrite E; cbn [split_sign]; [reflexivity|].
  apply Z.eqb_neq in Hc. rewrite Hc. reflexivity.
Qed.

Lemma dec_c_read : c_read_unsigned s = Some n.
Proof.
  pose proof (int_of_text_digits 10 n ltac:(lia) Hn) as HV. fold s in HV.
  destruct dec_shape as [[E _]|(c & r & E & Hc & _)]; rewrite E in *; unfold c_read_unsigned.
  - exact HV.
  - destruct r as [|c1 r]; [exact HV|]. apply Z.eqb_neq in Hc. rewrite Hc. exact HV.
Qed.

Lemma dec_go_read : go_read_unsigned s = Some n.
Proof.
  pose proof (int_of_text_digits 10 n ltac:(lia) Hn) as HV. fold s in HV.
  destruct dec_shape as [[E _]|(c & r & E & Hc & _)]; rewrite E in *; unfold go_read_unsigned.
  - exact HV.
  - destruct r as [|c1 r]; [exact HV|]. apply Z.eqb_neq in Hc. rewrite Hc. exact HV.
Qed.

Lemma dec_py_read : n < 10 ^ py_max_str_digits -> py_read_unsigned s = Some n.
Proof.
  intro Hlt.
  pose proof (int_of_text_digits 10 n ltac:(lia) Hn) as HV. fold s in HV.
  assert (HL : py_read_decimal s = Some n).
  { unfold py_read_decimal.
    pose proof (nat_digits_length 10 n py_max_str_digits ltac:(lia) ltac:(lia) ltac:(unfold py_max_str_digits; lia)) as HL.
    fold s in HL. apply Z.leb_le in HL. rewrite HL. exact HV. }
  destruct dec_shape as [[E _]|(c & r & E & Hc & _)]; rewrite E in *; unfold py_read_unsigned.
  - exact HL.
  - destruct r as [|c1 r]; [exact HL|]. apply Z.eqb_neq in Hc. rewrite Hc. exact HL.
Qed.
End Unsigned.

Lemma dec_text_neg : forall z, z < 0 -> dec_text z = 45 :: nat_digits 10 (- z).
Proof. intros z Hz. unfold dec_text. apply Z.ltb_lt in Hz. rewrite Hz. reflexivity. Qed.
Lemma dec_text_pos : forall z, 0 <= z -> dec_text z = nat_digits 10 z.
Proof. intros z Hz. unfold dec_text. apply Z.ltb_ge in Hz. rewrite Hz. reflexivity. Qed.

Lemma int_literal_c : forall z, in_range_c z -> read_int LC (format_int LC z) = Some z.
Proof.
  intros z Hr. unfold in_range_c in Hr. rewrite format_int_is_dec. cbn [read_int]. unfold c_read_int.
  destruct (Z.lt_ge_cases z 0) as [Hz|Hz].
  - rewrite dec_text_neg by assumption. cbn [split_sign]. rewrite Z.eqb_refl.
    rewrite dec_c_read by lia.
    replace (- z <=? c_llong_max) with true by (symmetry; apply Z.leb_le; lia).
    cbn [signed]. f_equal. lia.
  - rewrite dec_text_pos by assumption. rewrite dec_split_sign by assumption.
    rewrite dec_c_read by assumption.
    replace (z <=? c_llong_max) with true by (symmetry; apply Z.leb_le; lia).
    reflexivity.
Qed.

Lemma int_literal_go : forall bits z, in_range_go bits z -> go_read_int bits (format_int LGo z) = Some z.
Proof.
  intros bits z Hr. unfold in_range_go in Hr. rewrite format_int_is_dec. unfold go_read_int.
  set (P := 2 ^ (bits - 1)) in *.
  destruct (Z.lt_ge_cases z 0) as [Hz|Hz].
  - rewrite dec_text_neg by assumption. cbn [split_sign]. rewrite Z.eqb_refl.
    rewrite dec_go_read by lia. cbn [signed]. replace (- - z) with z by lia.
    replace ((- P <=? z) && (z <? P)) with true; [reflexivity|].
    symmetry; apply andb_true_iff; split; [apply Z.leb_le|apply Z.ltb_lt]; lia.
  - rewrite dec_text_pos by assumption. rewrite dec_split_sign by assumption.
    rewrite dec_go_read by assumption. cbn [signed].
    replace ((- P <=? z) && (z <? P)) with true; [reflexivity|].
    symmetry; apply andb_true_iff; split; [apply Z.leb_le|apply Z.ltb_lt]; lia.
Qed.

Lemma int_literal_py : forall z, in_range_py z -> read_int LPy (format_int LPy z) = Some z.
Proof.
  intros z Hr. unfold in_range_py in Hr. rewrite format_int_is_dec. cbn [read_int]. unfold py_read_int.
  set (P := 10 ^ py_max_str_digits) in *.
  destruct (Z.lt_ge_cases z 0) as [Hz|Hz].
  - rewrite dec_text_neg by assumption. cbn [split_sign]. rewrite Z.eqb_refl.
    rewrite dec_py_read by (fold P; lia). cbn [signed]. f_equal. lia.
  - rewrite dec_text_pos by assumption. rewrite dec_split_sign by assumption.
    rewrite dec_py_read by (fold P; lia). reflexivity.
Qed.

(* outside the ranges the emitted text does not denote the value (witnesses) *)
Lemma int_literal_c_out_of_range : read_int LC (format_int LC (2 ^ 63)) = None.
Proof. vm_compute. reflexivity. Qed.
Lemma int_literal_go_out_of_range : read_int LGo (format_int LGo (2 ^ 63)) = None.
Proof. vm_compute. reflexivity. Qed.

(* booleans *)
Lemma bool_literal : forall l b, read_bool l (format_bool l b) = Some b.
Proof. intros [] []; vm_compute; reflexivity. Qed.

(* ------------------------------------------------------------------------------------ *)
(* string literals                                                                       *)
(* ------------------------------------------------------------------------------------ *)

Ltac split_unsafe H :=
  unfold safe_char, unsafe_chars in H; cbn [existsb] in H;
  rewrite negb_true_iff in H; repeat (apply orb_false_iff in H; destruct H as [? H]).

Lemma py_scan_safe : forall s acc, safe_string_in LPy s = true ->
  py_scan (s ++ [34]) true acc = RdOk (rev acc ++ s).
Proof.
  induction s as [|c s IH]; intros acc Hs.
  - cbn. rewrite app_nil_r. reflexivity.
  - cbn [safe_string_in forallb] in Hs. apply andb_true_iff in Hs. destruct Hs as [Hc Hs].
    split_unsafe Hc.
    cbn [app py_scan].
    repeat match goal with E : (c =? _) = false |- _ => rewrite E; clear E end.
    cbn [orb]. rewrite IH by assumption. cbn [rev]. rewrite <- app_assoc. reflexivity.
Qed.

Lemma starts_two_quotes_safe : forall s, safe_string_in LPy s = true -> starts_two_quotes (s ++ [34]) = false.
Proof.
  intros [|a s] Hs; [reflexivity|].
  cbn [safe_string_in forallb] in Hs. apply andb_true_iff in Hs. destruct Hs as [Hc _].
  split_unsafe Hc. destruct s as [|b s]; cbn [app starts_two_quotes];
  match goal with E : (a =? 34) = false |- _ => rewrite E end; reflexivity.
Qed.

Lemma go_scan_safe : forall s acc, safe_string_in LGo s = true ->
  go_scan (s ++ [34]) true acc = RdOk (rev acc ++ s).
Proof.
  induction s as [|c s IH]; intros acc Hs.
  - cbn. rewrite app_nil_r. reflexivity.
  - cbn [safe_string_in forallb] in Hs. apply andb_true_iff in Hs. destruct Hs as [Hc Hs].
    split_unsafe Hc.
    cbn [app go_scan].
    repeat match goal with E : (c =? _) = false |- _ => rewrite E; clear E end.
    cbn [orb]. rewrite IH by assumption. cbn [rev]. rewrite <- app_assoc. reflexivity.
Qed.

Lemma c_splice_safe : forall s, safe_string_in LC s = true -> c_splice (s ++ [34]) = s ++ [34].
Proof.
  induction s as [|c s IH]; intro Hs; [reflexivity|].
  cbn [safe_string_in forallb] in Hs. apply andb_true_iff in Hs. destruct Hs as [Hc Hs].
  split_unsafe Hc. cbn [app c_splice].
  match goal with E : (c =? 92) = false |- _ => rewrite E end.
  rewrite IH by assumption. reflexivity.
Qed.

Lemma c_scan_safe : forall s acc f, safe_string_in LC s = true -> (length s + 2 <= f)%nat ->
  c_scan f (s ++ [34]) true acc = RdOk (rev acc ++ s).
Proof.
  induction s as [|c s IH]; intros acc f Hs Hf.
  - destruct f as [|[|f]]; cbn [length] in Hf; try lia. cbn. rewrite app_nil_r. reflexivity.
  - cbn [safe_string_in forallb] in Hs. apply andb_true_iff in Hs. destruct Hs as [Hc Hs].
    split_unsafe Hc. destruct f as [|f]; cbn [length] in Hf; [lia|].
    cbn [app c_scan].
    repeat match goal with E : (c =? _) = false |- _ => rewrite E; clear E end.
    cbn [orb]. rewrite IH by (try assumption; lia). cbn [rev]. rewrite <- app_assoc. reflexivity.
Qed.

(* ------------------------------------------------------------------------------------ *)
(* the lexer's escape loop: every string is declarable                                    *)
(* ------------------------------------------------------------------------------------ *)

(* facts about the translated table: keys are distinct, the backslash, the double quote and the
   newline are producible, no key is a newline *)
Definition esc_table_ok : bool :=
  forallb (fun p : Z * Z => match lookup_esc (fst p) escaping_chars with
                            | Some v => (v =? snd p) && negb (fst p =? 10)
                            | None => false end) escaping_chars
  && forallb (fun c => match rev_lookup_esc c escaping_chars with Some _ => true | None => false end) [92; 34; 10].

Lemma esc_table_checked : esc_table_ok = true.
Proof. vm_compute. reflexivity. Qed.

Lemma rev_lookup_in : forall c tbl k, rev_lookup_esc c tbl = Some k -> In (k, c) tbl.
Proof.
  induction tbl as [|[k' v] tbl IH]; intros k H; cbn [rev_lookup_esc] in H; [discriminate|].
  destruct (Z.eqb_spec v c) as [->|Hne].
  - injection H as <-. left. reflexivity.
  - right. apply IH. assumption.
Qed.

Lemma rev_lookup_none : forall c tbl v, rev_lookup_esc c tbl = None -> In v (map snd tbl) -> v <> c.
Proof.
  induction tbl as [|[k' v'] tbl IH]; intros v H Hin; cbn in *; [contradiction|].
  destruct (Z.eqb_spec v' c) as [->|Hne]; [discriminate|].
  destruct Hin as [<-|Hin]; [assumption|]. apply IH; assumption.
Qed.

Lemma src_char_unescape : forall c rest acc,
  unescape (src_char c ++ rest) acc = unescape rest (c :: acc).
Proof.
  intros c rest acc. unfold src_char.
  pose proof esc_table_checked as HT. unfold esc_table_ok in HT.
  apply andb_true_iff in HT. destruct HT as [HT1 HT2]. rewrite forallb_forall in HT1.
  destruct (rev_lookup_esc c escaping_chars) as [k|] eqn:E.
  - apply rev_lookup_in in E. specialize (HT1 _ E). cbn [fst snd] in HT1.
    cbn [app unescape]. rewrite Z.eqb_refl.
    destruct (lookup_esc k escaping_chars) as [v|]; [|discriminate].
    apply andb_true_iff in HT1. destruct HT1 as [HT1 _]. apply Z.eqb_eq in HT1. subst v. reflexivity.
  - cbn [app unescape].
    assert (Hc : c <> 92).
    { intro Hc. subst c. cbn [forallb] in HT2. rewrite E in HT2. discriminate. }
    apply Z.eqb_neq in Hc. rewrite Hc. reflexivity.
Qed.

Lemma unescape_src_escape_acc : forall v acc, unescape (src_escape v) acc = LexOk (rev acc ++ v).
Proof.
  induction v as [|c v IH]; intro acc.
  - cbn. rewrite app_nil_r. reflexivity.
  - unfold src_escape. cbn [flat_map]. fold (src_escape v). rewrite src_char_unescape, IH.
    cbn [rev]. rewrite <- app_assoc. reflexivity.
Qed.

Lemma string_declarable : forall v, unescape (src_escape v) [] = LexOk v.
Proof. intro v. apply unescape_src_escape_acc. Qed.

Lemma src_char_lexable : forall c rest, lexable (src_char c ++ rest) = lexable rest.
Proof.
  intros c rest. unfold src_char.
  pose proof esc_table_checked as HT. unfold esc_table_ok in HT.
  apply andb_true_iff in HT. destruct HT as [HT1 HT2]. rewrite forallb_forall in HT1.
  destruct (rev_lookup_esc c escaping_chars) as [k|] eqn:E.
  - apply rev_lookup_in in E. specialize (HT1 _ E). cbn [fst snd] in HT1.
    destruct (lookup_esc k escaping_chars) as [v|]; [|discriminate].
    apply andb_true_iff in HT1. destruct HT1 as [_ HT1].
    cbn [app lexable]. rewrite Z.eqb_refl. rewrite HT1. reflexivity.
  - cbn [forallb] in HT2.
    assert (c <> 92 /\ c <> 34 /\ c <> 10) as (H1 & H2 & H3).
    { repeat split; intro Hc; subst c; rewrite E in HT2; cbn in HT2; discriminate. }
    cbn [app lexable]. apply Z.eqb_neq in H1, H2, H3. rewrite H1, H2, H3. reflexivity.
Qed.

Lemma src_escape_lexable : forall v, lexable (src_escape v) = true.
Proof.
  induction v as [|c v IH]; [reflexivity|].
  unfold src_escape. cbn [flat_map]. fold (src_escape v). rewrite src_char_lexable. assumption.
Qed.

(* on the token's regular language the loop never indexes past the end *)
Lemma unescape_total : forall s acc, lexable s = true -> unescape s acc <> LexIndexError.
Proof.
  fix IH 1. intros s acc H. destruct s as [|c s]; [discriminate|].
  cbn [unescape]. cbn [lexable] in H.
  destruct (c =? 92).
  - destruct s as [|e s]; [discriminate|]. apply andb_true_iff in H. destruct H as [_ H].
    destruct (lookup_esc e escaping_chars); [apply IH; assumption|discriminate].
  - apply andb_true_iff in H. destruct H as [_ H]. apply IH; assumption.
Qed.

(* ------------------------------------------------------------------------------------ *)
(* the standard escaping (format_str_fixed) is read back as the value by all three languages *)
(* ------------------------------------------------------------------------------------ *)

Definition ctrl_codes : list Z :=
  [0; 1; 2; 3; 4; 5; 6; 7; 8; 9; 10; 11; 12; 13; 14; 15; 16; 17; 18; 19; 20; 21; 22; 23; 24; 25; 26; 27;
   28; 29; 30; 31; 127].

Lemma ctrl_in : forall c, 0 <= c -> (c <? 32) || (c =? 127) = true -> In c ctrl_codes.
Proof.
  intros c H0 H. apply orb_true_iff in H. unfold ctrl_codes. cbn [In].
  destruct H as [H|H]; [apply Z.ltb_lt in H|apply Z.eqb_eq in H]; lia.
Qed.

Lemma esc_ctrl_py : Forall (fun c => forall rest acc,
  py_scan (esc_char_std c ++ rest) true acc = py_scan rest true (c :: acc)) ctrl_codes.
Proof. repeat constructor; intros; reflexivity. Qed.
Lemma esc_ctrl_go : Forall (fun c => forall rest acc,
  go_scan (esc_char_std c ++ rest) true acc = go_scan rest true (c :: acc)) ctrl_codes.
Proof. repeat constructor; intros; reflexivity. Qed.
Lemma esc_ctrl_c : Forall (fun c => forall f rest acc,
  c_scan (S f) (esc_char_std c ++ rest) true acc = c_scan f rest true (c :: acc)) ctrl_codes.
Proof. repeat constructor; intros; reflexivity. Qed.

(* the five cases of esc_char_std *)
Ltac esc_cases c :=
  unfold esc_char_std;
  destruct (Z.eqb_spec c 92) as [->|N92]; [|
  destruct (Z.eqb_spec c 34) as [->|N34]; [|
  destruct (Z.eqb_spec c 10) as [->|N10]; [|
  destruct (Z.eqb_spec c 13) as [->|N13]; [|
  destruct (Z.eqb_spec c 9) as [->|N9]; [|
  destruct ((c <? 32) || (c =? 127)) eqn:Ctl]]]]].

Lemma esc_char_py : forall c rest acc, 0 <= c ->
  py_scan (esc_char_std c ++ rest) true acc = py_scan rest true (c :: acc).
Proof.
  intros c rest acc H0.
  pose proof esc_ctrl_py as HC. rewrite Forall_forall in HC.
  esc_cases c; try reflexivity.
  - pose proof (HC c (ctrl_in c H0 Ctl) rest acc) as HH. unfold esc_char_std in HH.
    apply Z.eqb_neq in N92, N34, N10, N13, N9. rewrite N92, N34, N10, N13, N9, Ctl in HH. exact HH.
  - apply orb_false_iff in Ctl. destruct Ctl as [C1 C2]. apply Z.ltb_ge in C1.
    cbn [app py_scan]. apply Z.eqb_neq in N92, N34, N10, N13.
    rewrite N34, N10, N13, N92. replace (c =? 0) with false by (symmetry; apply Z.eqb_neq; lia).
    reflexivity.
Qed.

Lemma esc_char_go : forall c rest acc, 0 <= c ->
  go_scan (esc_char_std c ++ rest) true acc = go_scan rest true (c :: acc).
Proof.
  intros c rest acc H0.
  pose proof esc_ctrl_go as HC. rewrite Forall_forall in HC.
  esc_cases c; try reflexivity.
  - pose proof (HC c (ctrl_in c H0 Ctl) rest acc) as HH. unfold esc_char_std in HH.
    apply Z.eqb_neq in N92, N34, N10, N13, N9. rewrite N92, N34, N10, N13, N9, Ctl in HH. exact HH.
  - apply orb_false_iff in Ctl. destruct Ctl as [C1 C2]. apply Z.ltb_ge in C1.
    cbn [app go_scan]. apply Z.eqb_neq in N92, N34, N10.
    rewrite N34, N10, N92. replace (c =? 0) with false by (symmetry; apply Z.eqb_neq; lia).
    reflexivity.
Qed.

Lemma esc_char_c : forall c f rest acc, 0 <= c ->
  c_scan (S f) (esc_char_std c ++ rest) true acc = c_scan f rest true (c :: acc).
Proof.
  intros c f rest acc H0.
  pose proof esc_ctrl_c as HC. rewrite Forall_forall in HC.
  esc_cases c; try reflexivity.
  - pose proof (HC c (ctrl_in c H0 Ctl) f rest acc) as HH. unfold esc_char_std in HH.
    apply Z.eqb_neq in N92, N34, N10, N13, N9. rewrite N92, N34, N10, N13, N9, Ctl in HH. exact HH.
  - cbn [app c_scan]. apply Z.eqb_neq in N92, N34, N10, N13.
    rewrite N34, N10, N13, N92. reflexivity.
Qed.

Lemma esc_char_shape : forall c, 0 <= c ->
  exists h t, esc_char_std c = h :: t /\ h <> 34 /\ forallb (fun x => negb (x =? 10) && negb (x =? 13)) (esc_char_std c) = true.
Proof.
  intros c H0. esc_cases c; try (eexists _, _; split; [reflexivity|split; [lia|reflexivity]]).
  - eexists _, _. split; [reflexivity|]. split; [lia|].
    pose proof (ctrl_in c H0 Ctl) as HI. unfold ctrl_codes in HI. cbn [In] in HI.
    repeat (destruct HI as [<-|HI]; [reflexivity|]). contradiction.
  - eexists _, _. split; [reflexivity|]. split; [assumption|].
    cbn [forallb]. apply Z.eqb_neq in N10, N13. rewrite N10, N13. reflexivity.
Qed.

Lemma c_splice_no_newline : forall s, forallb (fun x => negb (x =? 10) && negb (x =? 13)) s = true -> c_splice s = s.
Proof.
  induction s as [|c s IH]; intro H; [reflexivity|].
  cbn [forallb] in H. apply andb_true_iff in H. destruct H as [Hc Hs].
  cbn [c_splice]. destruct (c =? 92).
  - destruct s as [|d s1]; [reflexivity|].
    pose proof Hs as Hs'. cbn [forallb] in Hs'. apply andb_true_iff in Hs'. destruct Hs' as [Hd _].
    apply andb_true_iff in Hd. destruct Hd as [Hd1 Hd2].
    apply negb_true_iff in Hd1, Hd2. rewrite Hd1, Hd2. rewrite IH by assumption. reflexivity.
  - rewrite IH by assumption. reflexivity.
Qed.

Lemma py_scan_fixed : forall s acc, Forall (fun c => 0 <= c) s ->
  py_scan (flat_map esc_char_std s ++ [34]) true acc = RdOk (rev acc ++ s).
Proof.
  induction s as [|c s IH]; intros acc HF.
  - cbn. rewrite app_nil_r. reflexivity.
  - inversion HF; subst. cbn [flat_map]. rewrite <- app_assoc, esc_char_py, IH by assumption.
    cbn [rev]. rewrite <- app_assoc. reflexivity.
Qed.

Lemma go_scan_fixed : forall s acc, Forall (fun c => 0 <= c) s ->
  go_scan (flat_map esc_char_std s ++ [34]) true acc = RdOk (rev acc ++ s).
Proof.
  induction s as [|c s IH]; intros acc HF.
  - cbn. rewrite app_nil_r. reflexivity.
  - inversion HF; subst. cbn [flat_map]. rewrite <- app_assoc, esc_char_go, IH by assumption.
    cbn [rev]. rewrite <- app_assoc. reflexivity.
Qed.

Lemma c_scan_fixed : forall s acc f, Forall (fun c => 0 <= c) s -> (length s + 2 <= f)%nat ->
  c_scan f (flat_map esc_char_std s ++ [34]) true acc = RdOk (rev acc ++ s).
Proof.
  induction s as [|c s IH]; intros acc f HF Hf.
  - destruct f as [|[|f]]; cbn [length] in Hf; try lia. cbn. rewrite app_nil_r. reflexivity.
  - inversion HF; subst. destruct f as [|f]; cbn [length] in Hf; [lia|].
    cbn [flat_map]. rewrite <- app_assoc, esc_char_c, IH by (try assumption; lia).
    cbn [rev]. rewrite <- app_assoc. reflexivity.
Qed.

Lemma fixed_no_newline : forall s, Forall (fun c => 0 <= c) s ->
  forallb (fun x => negb (x =? 10) && negb (x =? 13)) (flat_map esc_char_std s ++ [34]) = true.
Proof.
  induction s as [|c s IH]; intro HF; [reflexivity|]. inversion HF; subst.
  cbn [flat_map]. rewrite <- app_assoc, forallb_app, IH by assumption.
  destruct (esc_char_shape c ltac:(assumption)) as (h & t & _ & _ & E). rewrite E. reflexivity.
Qed.

Lemma fixed_length : forall s, Forall (fun c => 0 <= c) s -> (length s <= length (flat_map esc_char_std s))%nat.
Proof.
  induction s as [|c s IH]; intro HF; [cbn; lia|]. inversion HF; subst.
  cbn [flat_map length]. rewrite app_length.
  destruct (esc_char_shape c ltac:(assumption)) as (h & t & E & _). rewrite E. cbn [length].
  specialize (IH ltac:(assumption)). lia.
Qed.
Lemma string_literal_fixed : forall l s, Forall (fun c => 0 <= c) s ->
  read_string l (format_str_fixed s) = RdOk s.
Proof.
  intros l s HF. unfold format_str_fixed. destruct l; cbn [read_string].
  - unfold c_read_string.
    rewrite (c_splice_no_newline (34 :: flat_map esc_char_std s ++ [34]))
      by (cbn [forallb]; rewrite fixed_no_newline by assumption; reflexivity).
    rewrite Z.eqb_refl. rewrite c_scan_fixed; [reflexivity|assumption|].
    rewrite app_length. cbn [length]. pose proof (fixed_length s HF). lia.
  - unfold go_read_string. rewrite Z.eqb_refl. rewrite go_scan_fixed by assumption. reflexivity.
  - unfold py_read_string. rewrite Z.eqb_refl.
    replace (starts_two_quotes (flat_map esc_char_std s ++ [34])) with false.
    + rewrite py_scan_fixed by assumption. reflexivity.
    + destruct s as [|c s]; [reflexivity|]. inversion HF; subst. cbn [flat_map].
      destruct (esc_char_shape c ltac:(assumption)) as (h & t & E & Hh & _). rewrite E.
      cbn [app]. apply Z.eqb_neq in Hh.
      match goal with |- false = starts_two_quotes (h :: ?X) => destruct X end;
        cbn [starts_two_quotes]; [reflexivity|]. rewrite Hh. reflexivity.
Qed.

(* ------------------------------------------------------------------------------------ *)
(* the translated escape table has the conventional meaning                               *)
(* ------------------------------------------------------------------------------------ *)

Definition tables_agree (a b : list (Z * Z)) : bool :=
  forallb (fun p : Z * Z => match lookup_esc (fst p) b with Some v => v =? snd p | None => false end) a.

Lemma lookup_esc_in : forall c tbl v, lookup_esc c tbl = Some v -> In (c, v) tbl.
Proof.
  induction tbl as [|[k w] tbl IH]; intros v H; cbn [lookup_esc] in H; [discriminate|].
  destruct (Z.eqb_spec k c) as [->|Hne].
  - injection H as <-. left. reflexivity.
  - right. apply IH. assumption.
Qed.

Lemma tables_agree_lookup : forall a b, tables_agree a b = true -> tables_agree b a = true ->
  forall c, lookup_esc c a = lookup_esc c b.
Proof.
  intros a b Hab Hba c. unfold tables_agree in *. rewrite forallb_forall in Hab, Hba.
  destruct (lookup_esc c a) as [v|] eqn:Ea.
  - apply lookup_esc_in in Ea. specialize (Hab _ Ea). cbn [fst snd] in Hab.
    destruct (lookup_esc c b) as [w|]; [|discriminate]. apply Z.eqb_eq in Hab. congruence.
  - destruct (lookup_esc c b) as [w|] eqn:Eb; [|reflexivity].
    apply lookup_esc_in in Eb. specialize (Hba _ Eb). cbn [fst snd] in Hba.
    rewrite Ea in Hba. discriminate.
Qed.

Lemma escape_table_standard : forall c, lookup_esc c escaping_chars = lookup_esc c std_escapes.
Proof. apply tables_agree_lookup; vm_compute; reflexivity. Qed.

Lemma escapes_standard : forall s acc, unescape s acc = spec_unescape s acc.
Proof.
  fix IH 1. intros [|c s] acc; [reflexivity|]. cbn [unescape spec_unescape].
  destruct (c =? 92).
  - destruct s as [|e s]; [reflexivity|]. rewrite escape_table_standard.
    destruct (lookup_esc e std_escapes); [apply IH|reflexivity].
  - apply IH.
Qed.


(* ------------------------------------------------------------------------------------ *)
(* the translated helper IS the standard escaping, and the three formatters use it         *)
(* ------------------------------------------------------------------------------------ *)

Lemma esc_char_is_std : forall c, esc_char c = esc_char_std c.
Proof.
  intro c. unfold esc_char, esc_char_std, str_escapes, str_ctrl, str_ctrl_prefix, octal3.
  cbn [lookup_rep].
  destruct (c =? 92); [reflexivity|]. destruct (c =? 34); [reflexivity|].
  destruct (c =? 10); [reflexivity|]. destruct (c =? 13); [reflexivity|].
  destruct (c =? 9); [reflexivity|]. destruct ((c <? 32) || (c =? 127)); reflexivity.
Qed.

Lemma str_templates : forall l, str_prefix l = [34] /\ str_suffix l = [34] /\ str_escaped l = true.
Proof. intros []; repeat split; reflexivity. Qed.

Lemma format_str_is_fixed : forall l s, format_str l s = format_str_fixed s.
Proof.
  intros l s. unfold format_str, format_str_fixed.
  destruct (str_templates l) as (-> & -> & ->). cbn [app]. f_equal. f_equal.
  induction s as [|c s IH]; [reflexivity|]. cbn [flat_map]. rewrite esc_char_is_std, IH. reflexivity.
Qed.

Lemma string_literal : forall l s, Forall (fun c => 0 <= c) s ->
  read_string l (format_str l s) = RdOk s.
Proof. intros l s H. rewrite format_str_is_fixed. apply string_literal_fixed. exact H. Qed.
