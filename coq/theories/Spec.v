(* Spec.v — THE SPECIFICATION of the bitproto wire format.
   Readable in minutes:
   - a message's fields appear in ascending field number ([norm] sorts them), no gap;
   - each scalar occupies exactly its declared width, least significant bit first;
     signed values as two's complement truncated to the width ([bits_of] on Z does that);
   - an extensible message is prefixed by its own bit size (INCLUDING the 16 prefix bits),
     an extensible array by its capacity, both as 16-bit numbers;
   - stream bit k lives in byte k/8 at bit position k mod 8 ([pack]); padding is zero. *)
From Coq Require Import ZArith List Bool.
From BP Require Import Bits Schema.
Import ListNotations.
Open Scope Z_scope.

Fixpoint enc_bits (t : ty) (v : val) : list bool :=
  match t with
  | TBool => [match v with VB b => b | _ => false end]
  | TByte => bits_of 8 (zof v)
  | TUint n => bits_of (Z.to_nat n) (zof v)
  | TInt n => bits_of (Z.to_nat n) (zof v)
  | TEnum n _ => bits_of (Z.to_nat n) (zof v)
  | TAlias t => enc_bits t v
  | TArr x cap e =>
      (if x then bits_of 16 (Z.of_nat cap) else []) ++
      flat_map (enc_bits e) (vlist v)
  | TMsg x fs =>
      (if x then bits_of 16 (nbits (TMsg x fs)) else []) ++
      (fix go (l : list (Z * ty)) : list bool :=
         match l with
         | [] => []
         | kf :: r => enc_bits (snd kf) (vfield (fst kf) v) ++ go r
         end) fs
  end.

Definition wire (t : ty) (v : val) : list Z := pack (enc_bits (norm t) v).

(* ---- the specification decoder: reads a value of type t from a bit list ---- *)

Definition sext (n : Z) (u : Z) : Z := if Z.testbit u (n - 1) then u - 2 ^ n else u.

(* dec_bits t bits = (value, remaining bits).  [avail] for extensible nodes is read
   from the prefix, so that a decoder for an OLDER schema skips what it does not know. *)
Fixpoint dec_bits (t : ty) (bs : list bool) : val * list bool :=
  match t with
  | TBool => (VB (hd false bs), skipn 1 bs)
  | TByte => (VZ (Z_of_bits (firstn 8 bs)), skipn 8 bs)
  | TUint n => (VZ (Z_of_bits (firstn (Z.to_nat n) bs)), skipn (Z.to_nat n) bs)
  | TInt n => (VZ (sext n (Z_of_bits (firstn (Z.to_nat n) bs))), skipn (Z.to_nat n) bs)
  | TEnum n _ => (VZ (Z_of_bits (firstn (Z.to_nat n) bs)), skipn (Z.to_nat n) bs)
  | TAlias t => dec_bits t bs
  | TArr x cap e =>
      let body := if x then skipn 16 bs else bs in
      let fix go (k : nat) (b : list bool) : list val * list bool :=
        match k with
        | O => ([], b)
        | S k' => let (v, b1) := dec_bits e b in
                  let (vs, b2) := go k' b1 in (v :: vs, b2)
        end in
      let (vs, rest) := go cap body in
      (VL vs, rest)
  | TMsg x fs =>
      let body := if x then skipn 16 bs else bs in
      let (vs, rest) :=
        (fix go (l : list (Z * ty)) (b : list bool) : list (Z * val) * list bool :=
           match l with
           | [] => ([], b)
           | kf :: r => let (v, b1) := dec_bits (snd kf) b in
                        let (vs, b2) := go r b1 in ((fst kf, v) :: vs, b2)
           end) fs body in
      (VM vs, rest)
  end.
