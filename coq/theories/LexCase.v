(* LexCase.v — what a T2 case file evaluates for one input text: the implementation's observed
   token stream against (1) the model Lex.lex (tie), (2) the line-number statement of C20,
   (3) the tiling statement of C08, (4) the direct scanner LexSpec.spec_lex (C08/C09). *)
From Coq Require Import String NArith ZArith List Bool.
From BP Require Import TotalBase LexBase Lex LexSpec.
From BPGen Require Import GenLexer.
Import ListNotations.
Open Scope Z_scope.

Definition count_nl (s : list N) : Z := zlen (filter (N.eqb 10) s).
Definition prefix (n : Z) (s : list N) : list N := firstn (Z.to_nat n) s.
Definition slice (a b : Z) (s : list N) : list N := firstn (Z.to_nat (b - a)) (skipn (Z.to_nat a) s).

(* C20: every token's lineno is 1 + the number of newlines before its first character; an error
   cites the line of the position the lexer stopped at; only NEWLINE contains a newline *)
Definition lineno_ok (inp : list N) (toks : list token) (e : lexend) (epos : Z) : bool :=
  forallb (fun t => Z.eqb (t_line t) (1 + count_nl (prefix (t_pos t) inp))
                    && (Z.eqb (count_nl (slice (t_pos t) (t_end t) inp)) 0
                        || cps_eqb (slice (t_pos t) (t_end t) inp) [10%N])) toks
  && match e with
     | LError _ c l => Z.eqb l (1 + count_nl (prefix epos inp)) && cps_eqb (slice epos (epos + 1) inp) [c]
     | LActErr _ l => Z.eqb l (1 + count_nl (prefix epos inp))
     | _ => true
     end.

(* C08: the lexemes and the skipped characters, in order, are the input up to where the lexer
   stopped: tokens are non-empty, in order, and every gap holds only space / tab / CR *)
Fixpoint tiling_from (inp : list N) (cur : Z) (toks : list token) (stop : Z) : bool :=
  match toks with
  | [] => (cur <=? stop) && forallb (fun c => cp_mem c S_ignore) (slice cur stop inp)
  | t :: r => (cur <=? t_pos t) && (t_pos t <? t_end t) && (t_end t <=? zlen inp)
              && forallb (fun c => cp_mem c S_ignore) (slice cur (t_pos t) inp)
              && tiling_from inp (t_end t) r stop
  end.
Definition tiling_ok (inp : list N) (toks : list token) (e : lexend) (epos : Z) : bool :=
  match e with
  | LDone => tiling_from inp 0 toks (zlen inp)
  | LError _ _ _ => tiling_from inp 0 toks epos
  | _ => tiling_from inp 0 toks (match rev toks with t :: _ => t_end t | [] => 0 end)
  end.

Definition run_eqb (a b : list token * lexend) : bool :=
  list_eqb token_eqb (fst a) (fst b) && lexend_eqb (snd a) (snd b).

(* 1: model <> implementation; 2: line numbers; 4: tiling; 8: direct scanner <> implementation *)
Definition case_code (inp : list N) (toks : list token) (e : lexend) (epos : Z) : Z :=
  (if run_eqb (lex uni_word inp) (toks, e) then 0 else 1)
  + (if lineno_ok inp toks e epos then 0 else 2)
  + (if tiling_ok inp toks e epos then 0 else 4)
  + (if run_eqb (spec_lex uni_word inp) (toks, e) then 0 else 8).
