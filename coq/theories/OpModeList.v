(* OpModeList.v — composition over the list of scalar objects of a struct: running the
   statements of all fields in order writes the concatenation of their bits (encode) resp.
   rebuilds every object from its own bits (decode).  Independent of [ty]: only the list of
   (chain, leaf, value) triples with pairwise distinct chains matters. *)
From Coq Require Import ZArith List Bool Lia ZifyBool.
From BP Require Import Bits Schema OpMode OpModeStep OpModeLeaf OpModeLeafDec.
From BPGen Require Import GenOpMode.
Import ListNotations.
Open Scope Z_scope.

Definition cellT : Type := (chain * (leaf * val))%type.

Definition lview (x : cellT) : chain * leaf := (fst x, fst (snd x)).
Definition cbits (x : leaf * val) : Z := leaf_bits (fst x).
Definition cpat (x : leaf * val) : Z := leaf_pat (fst x) (snd x).
Definition zero_of (x : cellT) : chain * cell := (fst x, mkcell (leaf_cty (fst (snd x))) 0).

Fixpoint total_bits (cs : list (leaf * val)) : Z :=
  match cs with [] => 0 | x :: r => cbits x + total_bits r end.

(* the bits of all fields, first field lowest *)
Fixpoint packZ (cs : list (leaf * val)) : Z :=
  match cs with
  | [] => 0
  | x :: r => cpat x mod 2 ^ cbits x + 2 ^ cbits x * packZ r
  end.

(* a value of the right kind and range for its leaf *)
Definition cell_ty_ok (x : leaf * val) : Prop :=
  match lk (fst x) with
  | KBool => exists b, snd x = VB b
  | KByte => 0 <= zof (snd x) < 256
  | KUint n | KEnum n => 1 <= n <= 64 /\ 0 <= zof (snd x) < 2 ^ n
  | KInt n => 1 <= n <= 64 /\ - 2 ^ (n - 1) <= zof (snd x) < 2 ^ (n - 1)
  end.

Lemma cell_ty_leaf_ok x : cell_ty_ok x -> leaf_ok (fst x).
Proof. unfold cell_ty_ok, leaf_ok. destruct (lk (fst x)); intros H; try exact I; apply H. Qed.

Lemma cbits_pos x : leaf_ok (fst x) -> 1 <= cbits x.
Proof. intros H. destruct (leaf_facts _ H) as (A & _). cbv zeta in A. unfold cbits. lia. Qed.

Lemma total_bits_nonneg cs : Forall (fun x => leaf_ok (fst x)) cs -> 0 <= total_bits cs.
Proof.
  induction 1 as [|x r Hx Hr IH]; cbn [total_bits]; [lia|]. pose proof (cbits_pos x Hx). lia.
Qed.

Lemma cpat_ok lf v : leaf_ok lf -> pat_ok lf (leaf_pat lf v).
Proof.
  intros Hok. destruct (leaf_facts lf Hok) as (_ & Hsz & _). cbv zeta in Hsz.
  unfold pat_ok, leaf_pat. destruct (lk lf) eqn:E.
  - destruct v as [[|]| | |]; auto.
  - apply Z.mod_pos_bound, pow2_pos. lia.
  - apply Z.mod_pos_bound, pow2_pos. lia.
  - apply Z.mod_pos_bound, pow2_pos. lia.
  - apply Z.mod_pos_bound, pow2_pos. lia.
Qed.

Lemma packZ_range cs :
  Forall (fun x => leaf_ok (fst x)) cs -> 0 <= packZ cs < 2 ^ total_bits cs.
Proof.
  induction 1 as [|x r Hx Hr IH]; cbn [packZ total_bits]; [cbn; lia|].
  pose proof (cbits_pos x Hx). pose proof (total_bits_nonneg r Hr).
  assert (0 < 2 ^ cbits x) by (apply pow2_pos; lia).
  pose proof (Z.mod_pos_bound (cpat x) (2 ^ cbits x) ltac:(lia)).
  rewrite Z.pow_add_r by lia. nia.
Qed.

(* ---------- memory as done ++ current :: todo ---------- *)

Lemma chain_neq_eqb a b : a <> b -> chain_eqb a b = false.
Proof.
  intros H. destruct (chain_eqb a b) eqn:E; [|reflexivity]. apply chain_eqb_eq in E. contradiction.
Qed.

Lemma mem_get_mid (d : mem) ch c r :
  ~ In ch (map fst d) -> mem_get (d ++ (ch, c) :: r) ch = Some c.
Proof.
  induction d as [|x d IH]; intros Hn; cbn [app mem_get fst snd].
  - now rewrite chain_eqb_refl.
  - cbn [map] in Hn. rewrite chain_neq_eqb by (intros E; apply Hn; left; exact E).
    apply IH. intros Hin. apply Hn. right. exact Hin.
Qed.

Lemma mem_set_mid (d : mem) ch c r u :
  ~ In ch (map fst d) ->
  mem_set (d ++ (ch, c) :: r) ch u = d ++ (ch, mkcell (cty_of c) u) :: r.
Proof.
  induction d as [|x d IH]; intros Hn; cbn [app mem_set fst snd].
  - now rewrite chain_eqb_refl.
  - cbn [map] in Hn. rewrite chain_neq_eqb by (intros E; apply Hn; left; exact E).
    f_equal. apply IH. intros Hin. apply Hn. right. exact Hin.
Qed.

Lemma map_fst_cell_of (cs : list cellT) : map fst (map cell_of cs) = map fst cs.
Proof. rewrite map_map. apply map_ext. reflexivity. Qed.

Lemma all_stmts_cons L enc x r i :
  all_stmts L enc (x :: r) i =
  leaf_stmts L enc x i ++ all_stmts L enc r (plan_end i (leaf_plan i (leaf_bits (snd x)))).
Proof. reflexivity. Qed.

(* ---------- encode ---------- *)

Lemma all_enc L : forall (todo done : list cellT) i s,
  NoDup (map fst (done ++ todo)) ->
  Forall (fun x => leaf_ok (fst x)) (map snd todo) ->
  0 <= i -> bytes_ok s -> 0 <= bufZ s < 2 ^ i ->
  i + total_bits (map snd todo) <= 8 * Z.of_nat (length s) ->
  exists s',
    run (all_stmts L true (map lview todo) i) (mkst s (map cell_of (done ++ todo))) =
      Some (mkst s' (map cell_of (done ++ todo))) /\
    bytes_ok s' /\ length s' = length s /\
    bufZ s' = bufZ s + 2 ^ i * packZ (map snd todo).
Proof.
  induction todo as [|x r IH]; intros done i s Hnd Hok Hi Hs HB Hlen.
  - exists s. cbn [map all_stmts run packZ]. repeat split; try assumption. lia.
  - cbn [map] in Hok. inversion Hok as [|? ? Hx Hr]; subst.
    cbn [map total_bits] in Hlen. pose proof (cbits_pos _ Hx) as Hb1.
    pose proof (total_bits_nonneg _ Hr) as Hb2.
    set (M := map cell_of (done ++ x :: r)) in *.
    assert (HM : mem_get M (fst x) = Some (mkcell (leaf_cty (fst (snd x))) (cpat (snd x)))).
    { unfold M. rewrite map_app. cbn [map]. unfold cell_of at 2.
      apply mem_get_mid. rewrite map_fst_cell_of.
      pose proof Hnd as Hnd2. rewrite map_app in Hnd2. cbn [map] in Hnd2.
      apply NoDup_remove_2 in Hnd2. intros Hin. apply Hnd2. apply in_or_app. left. exact Hin. }
    cbn [map]. rewrite all_stmts_cons, run_app.
    change (lview x) with (fst x, fst (snd x)). cbn [snd fst].
    destruct (leaf_encode L (fst (snd x)) (fst x) M (cpat (snd x)) i s Hx (cpat_ok _ _ Hx) HM Hi Hs HB
                ltac:(unfold cbits in *; lia)) as (s1 & R1 & Hs1 & Hl1 & Hb1').
    rewrite R1. cbn [bind]. rewrite plan_end_leaf by (unfold cbits in *; lia).
    fold (cbits (snd x)).
    assert (Hp : 0 < 2 ^ i) by (apply pow2_pos; lia).
    assert (Hpn : 0 < 2 ^ cbits (snd x)) by (apply pow2_pos; lia).
    pose proof (Z.mod_pos_bound (cpat (snd x)) (2 ^ cbits (snd x)) ltac:(lia)) as Hmr.
    fold (cbits (snd x)) in Hb1'.
    destruct (IH (done ++ [x]) (i + cbits (snd x)) s1) as (s2 & R2 & Hs2 & Hl2 & Hb2').
    + rewrite <- app_assoc. exact Hnd.
    + exact Hr.
    + lia.
    + exact Hs1.
    + rewrite Hb1', Z.pow_add_r by lia. nia.
    + rewrite Hl1. lia.
    + rewrite <- app_assoc in R2. cbn [app] in R2. fold M in R2.
      exists s2. split; [exact R2|]. split; [exact Hs2|]. split; [congruence|].
      rewrite Hb2', Hb1'. cbn [packZ]. rewrite Z.pow_add_r by lia. ring.
Qed.

(* ---------- decode ---------- *)

Fixpoint dec_cells (S : list Z) (i : Z) (cs : list cellT) : mem :=
  match cs with
  | [] => []
  | x :: r => (fst x, mkcell (leaf_cty (fst (snd x))) (dec_pat (fst (snd x)) (bufZ S / 2 ^ i)))
              :: dec_cells S (i + cbits (snd x)) r
  end.

Lemma all_dec L S : forall (todo : list cellT) (dm : mem) i,
  NoDup (map fst dm ++ map fst todo) ->
  Forall (fun x => leaf_ok (fst x)) (map snd todo) ->
  0 <= i -> bytes_ok S -> i + total_bits (map snd todo) <= 8 * Z.of_nat (length S) ->
  run (all_stmts L false (map lview todo) i) (mkst S (dm ++ map zero_of todo)) =
  Some (mkst S (dm ++ dec_cells S i todo)).
Proof.
  induction todo as [|x r IH]; intros dm i Hnd Hok Hi HS Hlen.
  - reflexivity.
  - cbn [map] in Hok. inversion Hok as [|? ? Hx Hr]; subst.
    cbn [map total_bits] in Hlen. pose proof (cbits_pos _ Hx) as Hb1.
    pose proof (total_bits_nonneg _ Hr) as Hb2.
    cbn [map] in Hnd.
    assert (Hnin : ~ In (fst x) (map fst dm)).
    { apply NoDup_remove_2 in Hnd. intros Hin. apply Hnd. apply in_or_app. left. exact Hin. }
    cbn [map]. rewrite all_stmts_cons, run_app.
    change (lview x) with (fst x, fst (snd x)). cbn [snd fst]. unfold zero_of at 1.
    rewrite (leaf_decode L (fst (snd x)) (fst x) _ S i Hx (mem_get_mid dm _ _ _ Hnin) Hi HS
               ltac:(unfold cbits in *; lia)).
    cbn [bind]. rewrite mem_set_mid by exact Hnin. cbn [cty_of].
    rewrite plan_end_leaf by (unfold cbits in *; lia). fold (cbits (snd x)).
    replace (dm ++ (fst x, mkcell (leaf_cty (fst (snd x))) (dec_pat (fst (snd x)) (bufZ S / 2 ^ i))) :: map zero_of r)
      with ((dm ++ [(fst x, mkcell (leaf_cty (fst (snd x))) (dec_pat (fst (snd x)) (bufZ S / 2 ^ i)))]) ++ map zero_of r)
      by (rewrite <- app_assoc; reflexivity).
    rewrite IH.
    + rewrite <- app_assoc. reflexivity.
    + rewrite map_app. cbn [map fst]. rewrite <- app_assoc. exact Hnd.
    + exact Hr.
    + lia.
    + exact HS.
    + lia.
Qed.

(* ---------- what decode rebuilds is the stored pattern ---------- *)

Lemma mod_mod_pow z a b : 0 <= a <= b -> (z mod 2 ^ b) mod 2 ^ a = z mod 2 ^ a.
Proof.
  intros H. replace (2 ^ b) with (2 ^ a * 2 ^ (b - a)).
  2:{ rewrite <- Z.pow_add_r by lia. f_equal. lia. }
  rewrite Z.rem_mul_r by (try apply Z.pow_nonzero; try apply pow2_pos; lia).
  rewrite Z.mul_comm, Z.mod_add by (apply Z.pow_nonzero; lia). apply Z.mod_mod.
  apply Z.pow_nonzero; lia.
Qed.

Lemma cpat_mod lf v :
  leaf_ok lf -> cell_ty_ok (lf, v) ->
  leaf_pat lf v mod 2 ^ leaf_bits lf =
  match lk lf with KBool => leaf_pat lf v | _ => zof v mod 2 ^ leaf_bits lf end.
Proof.
  intros Hok Hty. destruct (leaf_facts lf Hok) as (Hn & Hsz & _). cbv zeta in *.
  unfold leaf_pat, leaf_bits, cell_ty_ok in *. cbn [fst snd] in *.
  destruct (lk lf) eqn:E.
  - change bool_nbits with 1. change (2 ^ 1) with 2. destruct Hty as [b ->]. destruct b; reflexivity.
  - apply mod_mod_pow. lia.
  - apply mod_mod_pow. lia.
  - apply mod_mod_pow. lia.
  - apply mod_mod_pow. lia.
Qed.

Lemma dec_pat_ok lf v X :
  cell_ty_ok (lf, v) ->
  X mod 2 ^ leaf_bits lf = leaf_pat lf v mod 2 ^ leaf_bits lf ->
  dec_pat lf X = leaf_pat lf v.
Proof.
  intros Hty HX. pose proof (cell_ty_leaf_ok _ Hty) as Hok. cbn [fst] in Hok.
  rewrite (cpat_mod lf v Hok Hty) in HX.
  destruct (leaf_facts lf Hok) as (Hn & Hsz & _). cbv zeta in *.
  unfold dec_pat, leaf_pat, leaf_bits, leaf_cty, cell_ty_ok in *. cbn [fst snd csz] in *.
  destruct (lk lf) as [| |n|n|n] eqn:E; cbn [csz] in *.
  - exact HX.
  - rewrite HX. change byte_nbits with 8. reflexivity.
  - rewrite HX. destruct Hty as (Hr & Hz).
    assert (2 ^ n <= 2 ^ storage_bits n) by (apply Z.pow_le_mono_r; lia).
    rewrite !Z.mod_small by lia. reflexivity.
  - cbv zeta. rewrite HX. destruct Hty as (Hr & Hz).
    assert (Hh : 0 < 2 ^ (n - 1)) by (apply pow2_pos; lia).
    assert (H2n : 2 ^ n = 2 * 2 ^ (n - 1)).
    { replace n with (1 + (n - 1)) at 1 by lia. rewrite Z.pow_add_r by lia. reflexivity. }
    destruct (Z.lt_ge_cases (zof v) 0) as [Hneg|Hpos].
    + replace (zof v mod 2 ^ n) with (zof v + 2 ^ n).
      2:{ symmetry. replace (zof v) with (zof v + 2 ^ n + (-1) * 2 ^ n) at 1 by ring.
          rewrite Z.mod_add by lia. apply Z.mod_small. lia. }
      replace (zof v + 2 ^ n <? 2 ^ (n - 1)) with false by lia.
      f_equal. lia.
    + rewrite (Z.mod_small (zof v) (2 ^ n)) by lia.
      replace (zof v <? 2 ^ (n - 1)) with true by lia. reflexivity.
  - rewrite HX. destruct Hty as (Hr & Hz).
    assert (2 ^ n <= 2 ^ storage_bits n) by (apply Z.pow_le_mono_r; lia).
    rewrite !Z.mod_small by lia. reflexivity.
Qed.

Lemma dec_cells_eq S : forall (cs : list cellT) i,
  0 <= i -> Forall cell_ty_ok (map snd cs) ->
  bufZ S / 2 ^ i = packZ (map snd cs) ->
  dec_cells S i cs = map cell_of cs.
Proof.
  induction cs as [|x r IH]; intros i Hi Hty HX; [reflexivity|].
  cbn [map] in Hty. inversion Hty as [|? ? Hx Hr]; subst.
  pose proof (cell_ty_leaf_ok _ Hx) as Hok. pose proof (cbits_pos _ Hok) as Hb.
  assert (Hpn : 0 < 2 ^ cbits (snd x)) by (apply pow2_pos; lia).
  cbn [map packZ] in HX. cbn [dec_cells map]. unfold cell_of at 1. f_equal.
  - f_equal. f_equal. destruct x as [ch [lf v]]. cbn [fst snd] in *. apply dec_pat_ok; [exact Hx|].
    rewrite HX. unfold cbits, cpat in *. cbn [fst snd] in *.
    replace (leaf_pat lf v mod 2 ^ leaf_bits lf + 2 ^ leaf_bits lf * packZ (map snd r))
      with (leaf_pat lf v mod 2 ^ leaf_bits lf + packZ (map snd r) * 2 ^ leaf_bits lf) by ring.
    rewrite Z.mod_add by lia. apply Z.mod_mod. lia.
  - apply IH; [lia|exact Hr|].
    rewrite Z.pow_add_r by lia. rewrite <- Z.div_div by (try apply pow2_pos; lia).
    rewrite HX.
    pose proof (Z.mod_pos_bound (cpat (snd x)) (2 ^ cbits (snd x)) ltac:(lia)).
    replace (cpat (snd x) mod 2 ^ cbits (snd x) + 2 ^ cbits (snd x) * packZ (map snd r))
      with (cpat (snd x) mod 2 ^ cbits (snd x) + packZ (map snd r) * 2 ^ cbits (snd x)) by ring.
    rewrite Z.div_add by lia. rewrite Z.div_small by lia. lia.
Qed.
