(* ConstExpr.v — constant expressions of bitproto (property C13).

   MODEL (follows the code; tables and actions come from BPGen.GenC13, translated from
   parser.py / lexer.py on every run):
     token, eval_tokens   a precedence-climbing evaluator over the token list, driven by
                          Parser.precedence (levels, associativity) and the four semantic actions;
                          values are computed at the moment yacc would reduce
     const_value, run_stmts, run_files
                          const declarations, constant references (also through an import alias),
                          array capacities and option values
   SPECIFICATION (independent of the code):
     expr, denote         ordinary arithmetic on an expression tree: + - * and floor division,
                          decimal / hexadecimal literals, references
     pretty               prints a tree with only the parentheses that standard precedence and
                          left associativity require

   ply's tokenizer and LALR driver are not modelled (trusted; tied by T2): the evaluator stands
   for "the LALR automaton of the calculation_expression rules with its shift/reduce conflicts
   resolved by Parser.precedence". *)
From Coq Require Import ZArith List Bool String Lia.
From BPGen Require Import GenC13.
From BP Require Import ConstLit.
Import ListNotations.
Open Scope list_scope.
Open Scope Z_scope.

Inductive op := OPlus | OMinus | OTimes | ODivide.

Definition op_name (o : op) : string :=
  match o with OPlus => "PLUS" | OMinus => "MINUS" | OTimes => "TIMES" | ODivide => "DIVIDE" end%string.

(* INT_LITERAL carries its digit text, HEX_LITERAL the digits after 0x; TIdent is a dotted identifier *)
Inductive token :=
| TInt (s : text) | THex (s : text) | TIdent (x : string)
| TOp (o : op) | TLParen | TRParen.

Notation TPlus := (TOp OPlus).
Notation TMinus := (TOp OMinus).
Notation TTimes := (TOp OTimes).
Notation TDivide := (TOp ODivide).

Inductive err :=
| EGrammar                     (* GrammarError *)
| EUndefined (x : string)      (* ReferencedConstantNotDefined *)
| ENotInteger (x : string)     (* CalculationExpressionError / InvalidArrayCap: non-integer constant referenced *)
| EDivisionByZero              (* a diagnosed division by zero (what the property expects) *)
| ECrashZeroDivision           (* Python ZeroDivisionError escaping from the semantic action *)
| EBadLiteral
| EDuplicated (x : string)     (* DuplicatedDefinition *)
| EInvalidEscape               (* InvalidEscapingChar *)
| ECrashIndex                  (* IndexError in the escape loop *)
| EBadImport
| EFuel.

Inductive res (A : Type) := Ok (a : A) | Err (e : err).
Arguments Ok {A} a.
Arguments Err {A} e.

Definition bind {A B} (x : res A) (k : A -> res B) : res B :=
  match x with Ok a => k a | Err e => Err e end.

(* ------------------------------------------------------------------------------------ *)
(* precedence table                                                                      *)
(* ------------------------------------------------------------------------------------ *)

Fixpoint mem_string (x : string) (l : list string) : bool :=
  match l with [] => false | y :: r => String.eqb x y || mem_string x r end.

(* level (1 = lowest) and associativity of a token name; level 0 = not listed *)
Fixpoint find_level (nm : string) (tbl : list (string * list string)) (k : nat) : nat * string :=
  match tbl with
  | [] => (O, ""%string)
  | (a, names) :: r => if mem_string nm names then (k, a) else find_level nm r (S k)
  end.

Definition prec (o : op) : nat := fst (find_level (op_name o) precedence 1).
Definition is_right (o : op) : bool := String.eqb (snd (find_level (op_name o) precedence 1)) "right".

(* ------------------------------------------------------------------------------------ *)
(* values, environment, semantic actions                                                 *)
(* ------------------------------------------------------------------------------------ *)

Definition env := list (string * cvalue).

Fixpoint lookup (x : string) (e : env) : option cvalue :=
  match e with
  | [] => None
  | (y, v) :: r => if String.eqb x y then Some v else lookup x r
  end.

(* p_constant_reference + p_constant_reference_for_calculation *)
Definition ref_value (e : env) (x : string) : res Z :=
  match lookup x e with
  | None => Err (EUndefined x)
  | Some (VInt z) => Ok z
  | Some _ => Err (ENotInteger x)
  end.

(* t_INT_LITERAL / t_HEX_LITERAL: int(text, base) *)
Definition lit_value (base : Z) (s : text) : res Z :=
  match int_of_text base s with Some v => Ok v | None => Err EBadLiteral end.

Definition div_zero_err : err := if divide_guard then EDivisionByZero else ECrashZeroDivision.

(* the action bound to the operator token; a zero divisor raises in Python *)
Definition apply_op (o : op) (a b : Z) : res Z :=
  let '(v, ds) := match o with
                  | OPlus => (act_PLUS a b, act_PLUS_divisors a b)
                  | OMinus => (act_MINUS a b, act_MINUS_divisors a b)
                  | OTimes => (act_TIMES a b, act_TIMES_divisors a b)
                  | ODivide => (act_DIVIDE a b, act_DIVIDE_divisors a b)
                  end in
  if existsb (Z.eqb 0) ds then Err div_zero_err else Ok v.

(* ------------------------------------------------------------------------------------ *)
(* the evaluator                                                                         *)
(* ------------------------------------------------------------------------------------ *)

Section Eval.
Variable E : env.

Fixpoint parse_expr (fuel : nat) (minp : nat) (ts : list token) {struct fuel} : res (Z * list token) :=
  match fuel with
  | O => Err EFuel
  | S f =>
    match ts with
    | TInt s :: r => bind (lit_value int_literal_base s) (fun v => parse_loop f minp v r)
    | THex s :: r => bind (lit_value hex_literal_base s) (fun v => parse_loop f minp v r)
    | TIdent x :: r => bind (ref_value E x) (fun v => parse_loop f minp v r)
    | TLParen :: r =>
        bind (parse_expr f 0 r) (fun vr =>
          match snd vr with
          | TRParen :: r' => parse_loop f minp (fst vr) r'
          | _ => Err EGrammar
          end)
    | _ => Err EGrammar
    end
  end
with parse_loop (fuel : nat) (minp : nat) (lhs : Z) (ts : list token) {struct fuel} : res (Z * list token) :=
  match fuel with
  | O => Err EFuel
  | S f =>
    match ts with
    | TOp o :: r =>
        if (prec o <? minp)%nat then Ok (lhs, ts)
        else bind (parse_expr f (if is_right o then prec o else S (prec o)) r) (fun vr =>
               bind (apply_op o lhs (fst vr)) (fun v => parse_loop f minp v (snd vr)))
    | _ => Ok (lhs, ts)
    end
  end.

Definition eval_fuel (ts : list token) : nat := (2 * List.length ts + 2)%nat.

Definition eval_tokens (ts : list token) : res Z :=
  bind (parse_expr (eval_fuel ts) 0 ts) (fun vr =>
    match snd vr with [] => Ok (fst vr) | _ => Err EGrammar end).

End Eval.

(* ------------------------------------------------------------------------------------ *)
(* specification: trees, ordinary arithmetic, minimal parentheses                         *)
(* ------------------------------------------------------------------------------------ *)

Inductive expr :=
| EDec (n : N)                 (* decimal literal *)
| EHex (n : N)                 (* hexadecimal literal *)
| ERef (x : string)            (* reference to an earlier constant *)
| EBin (o : op) (l r : expr).

Definition spec_op (o : op) (a b : Z) : res Z :=
  match o with
  | OPlus => Ok (a + b)
  | OMinus => Ok (a - b)
  | OTimes => Ok (a * b)
  | ODivide => if b =? 0 then Err EDivisionByZero else Ok (a / b)     (* floor division *)
  end.

Fixpoint denote (e : expr) (E : env) : res Z :=
  match e with
  | EDec n => Ok (Z.of_N n)
  | EHex n => Ok (Z.of_N n)
  | ERef x => ref_value E x
  | EBin o l r => bind (denote l E) (fun a => bind (denote r E) (fun b => spec_op o a b))
  end.

(* standard precedence: * and / bind tighter than + and - ; everything associates to the left *)
Definition sprec (o : op) : nat :=
  match o with OPlus | OMinus => 1%nat | OTimes | ODivide => 2%nat end.

Fixpoint pp (ctx : nat) (e : expr) : list token :=
  match e with
  | EDec n => [TInt (nat_digits 10 (Z.of_N n))]
  | EHex n => [THex (nat_digits 16 (Z.of_N n))]
  | ERef x => [TIdent x]
  | EBin o l r =>
      let body := pp (sprec o) l ++ TOp o :: pp (S (sprec o)) r in
      if (sprec o <? ctx)%nat then TLParen :: body ++ [TRParen] else body
  end.

Definition pretty (e : expr) : list token := pp 0 e.

(* what the current tree does instead of diagnosing a division by zero *)
Definition crashify {A} (r : res A) : res A :=
  match r with Err EDivisionByZero => Err div_zero_err | _ => r end.

(* ------------------------------------------------------------------------------------ *)
(* declarations: const, array capacity, option value, import                              *)
(* ------------------------------------------------------------------------------------ *)

Inductive rhs :=
| RCalc (ts : list token)       (* calculation_expression, or a lone constant_reference *)
| RBool (spelling : text)       (* BOOL_LITERAL *)
| RStr (raw : text).            (* STRING_LITERAL: the text between the quotes *)

Inductive useref :=
| UInt (s : text)               (* INT_LITERAL *)
| UHex (s : text)               (* HEX_LITERAL (option values only) *)
| UBool (spelling : text)
| UStr (raw : text)
| URef (x : string).            (* constant_reference *)

Inductive stmt :=
| SConst (x : string) (r : rhs)
| SCap (u : useref)             (* T[u] *)
| SOpt (u : useref)             (* option name = u *)
| SImport (alias : string) (k : nat).   (* import alias "file k" (an earlier element of the list) *)

Definition lex_string (raw : text) : res cvalue :=
  match unescape raw [] with
  | LexOk v => Ok (VStr v)
  | LexInvalidEscape => Err EInvalidEscape
  | LexIndexError => Err ECrashIndex
  end.

Definition lex_bool (sp : text) : res cvalue :=
  if text_mem sp bool_spellings then Ok (VBool (text_mem sp bool_true_spellings)) else Err EGrammar.

(* p_const_value: `const X = Y` with a lone reference reduces by const_value : constant_reference
   (the earlier rule wins ply's reduce/reduce conflict), so Y may be of any kind *)
Definition const_value (E : env) (r : rhs) : res cvalue :=
  match r with
  | RCalc [TIdent y] => match lookup y E with Some v => Ok v | None => Err (EUndefined y) end
  | RCalc ts => bind (eval_tokens E ts) (fun z => Ok (VInt z))
  | RBool sp => lex_bool sp
  | RStr raw => lex_string raw
  end.

(* p_array_capacity / p_constant_reference_for_array_capacity *)
Definition cap_value (E : env) (u : useref) : res cvalue :=
  match u with
  | UInt s => bind (lit_value int_literal_base s) (fun z => Ok (VInt z))
  | URef x => bind (ref_value E x) (fun z => Ok (VInt z))
  | _ => Err EGrammar
  end.

(* p_option_value *)
Definition opt_value (E : env) (u : useref) : res cvalue :=
  match u with
  | UInt s => bind (lit_value int_literal_base s) (fun z => Ok (VInt z))
  | UHex s => bind (lit_value hex_literal_base s) (fun z => Ok (VInt z))
  | UBool sp => lex_bool sp
  | UStr raw => lex_string raw
  | URef x => match lookup x E with Some v => Ok v | None => Err (EUndefined x) end
  end.

Definition prefix_env (alias : string) (e : env) : env :=
  map (fun p : string * cvalue => (alias ++ "." ++ fst p, snd p)%string) e.

(* state: constants of this file (latest first), entries visible through import aliases,
   observed uses (capacities, option values) in source order *)
Record fstate := { own : env; imported : env; uses : list cvalue }.

Definition visible (st : fstate) : env := own st ++ imported st.

Definition run_stmt (done : list env) (st : fstate) (s : stmt) : res fstate :=
  match s with
  | SConst x r =>
      match lookup x (own st) with
      | Some _ => Err (EDuplicated x)
      | None => bind (const_value (visible st) r) (fun v =>
                  Ok {| own := (x, v) :: own st; imported := imported st; uses := uses st |})
      end
  | SCap u => bind (cap_value (visible st) u) (fun v =>
                Ok {| own := own st; imported := imported st; uses := uses st ++ [v] |})
  | SOpt u => bind (opt_value (visible st) u) (fun v =>
                Ok {| own := own st; imported := imported st; uses := uses st ++ [v] |})
  | SImport alias k =>
      match nth_error done k with
      | Some e => Ok {| own := own st; imported := prefix_env alias e ++ imported st; uses := uses st |}
      | None => Err EBadImport
      end
  end.

Fixpoint run_stmts (done : list env) (st : fstate) (ss : list stmt) : res fstate :=
  match ss with
  | [] => Ok st
  | s :: r => bind (run_stmt done st s) (fun st' => run_stmts done st' r)
  end.

Definition empty_state : fstate := {| own := []; imported := []; uses := [] |}.

(* files in dependency order; the result of each: its constants (declaration order) and uses.
   A failing file contributes an empty environment to later ones and its error is kept. *)
Fixpoint run_files (done : list env) (fs : list (list stmt)) : list (res (env * list cvalue)) :=
  match fs with
  | [] => []
  | f :: r =>
      match run_stmts done empty_state f with
      | Ok st => Ok (rev (own st), uses st) :: run_files (done ++ [rev (own st)]) r
      | Err e => Err e :: run_files (done ++ [[]]) r
      end
  end.

(* ------------------------------------------------------------------------------------ *)
(* equalities for the case files                                                         *)
(* ------------------------------------------------------------------------------------ *)

Definition op_eqb (a b : op) : bool :=
  match a, b with
  | OPlus, OPlus | OMinus, OMinus | OTimes, OTimes | ODivide, ODivide => true
  | _, _ => false
  end.

Definition token_eqb (a b : token) : bool :=
  match a, b with
  | TInt x, TInt y => text_eqb x y
  | THex x, THex y => text_eqb x y
  | TIdent x, TIdent y => String.eqb x y
  | TOp x, TOp y => op_eqb x y
  | TLParen, TLParen => true
  | TRParen, TRParen => true
  | _, _ => false
  end.

Fixpoint tokens_eqb (a b : list token) : bool :=
  match a, b with
  | [], [] => true
  | x :: r, y :: s => token_eqb x y && tokens_eqb r s
  | _, _ => false
  end.

Definition err_code (e : err) : Z :=
  match e with
  | EGrammar => 1 | EUndefined _ => 2 | ENotInteger _ => 3 | EDivisionByZero => 4
  | ECrashZeroDivision => 5 | EBadLiteral => 6 | EDuplicated _ => 7 | EInvalidEscape => 8
  | ECrashIndex => 9 | EBadImport => 10 | EFuel => 11
  end.

Definition resz_eqb (a b : res Z) : bool :=
  match a, b with
  | Ok x, Ok y => x =? y
  | Err x, Err y => err_code x =? err_code y
  | _, _ => false
  end.

Definition resv_eqb (a b : res cvalue) : bool :=
  match a, b with
  | Ok x, Ok y => cvalue_eqb x y
  | Err x, Err y => err_code x =? err_code y
  | _, _ => false
  end.

Fixpoint values_eqb (a b : list cvalue) : bool :=
  match a, b with
  | [], [] => true
  | x :: r, y :: s => cvalue_eqb x y && values_eqb r s
  | _, _ => false
  end.

Fixpoint env_eqb (a b : env) : bool :=
  match a, b with
  | [], [] => true
  | (x, v) :: r, (y, w) :: s => String.eqb x y && cvalue_eqb v w && env_eqb r s
  | _, _ => false
  end.

(* the grammar rules the evaluator stands for, as the model expects them (compared with the
   translated table BPGen.GenC13.grammar by ConstExprProofs.grammar_as_modelled) *)
Definition expected_grammar : list (string * list (list string)) := [
  ("const", [["CONST"; "IDENTIFIER"; "'='"; "const_value"; "optional_semicolon"]]);
  ("const_value", [["boolean_literal"]; ["string_literal"]; ["constant_reference"]; ["calculation_expression"]]);
  ("calculation_expression", [["calculation_expression_plus"]; ["calculation_expression_minus"];
      ["calculation_expression_times"]; ["calculation_expression_divide"]; ["calculation_expression_group"];
      ["integer_literal"]; ["constant_reference_for_calculation"]]);
  ("calculation_expression_plus", [["calculation_expression"; "PLUS"; "calculation_expression"]]);
  ("calculation_expression_minus", [["calculation_expression"; "MINUS"; "calculation_expression"]]);
  ("calculation_expression_times", [["calculation_expression"; "TIMES"; "calculation_expression"]]);
  ("calculation_expression_divide", [["calculation_expression"; "DIVIDE"; "calculation_expression"]]);
  ("calculation_expression_group", [["'('"; "calculation_expression"; "')'"]]);
  ("constant_reference_for_calculation", [["constant_reference"]]);
  ("constant_reference", [["dotted_identifier"]]);
  ("option", [["OPTION"; "dotted_identifier"; "'='"; "option_value"; "optional_semicolon"]]);
  ("option_value", [["boolean_literal"]; ["integer_literal"]; ["string_literal"]; ["constant_reference"]]);
  ("array_capacity", [["INT_LITERAL"]; ["constant_reference_for_array_capacity"]]);
  ("constant_reference_for_array_capacity", [["constant_reference"]]);
  ("boolean_literal", [["BOOL_LITERAL"]]);
  ("integer_literal", [["INT_LITERAL"]; ["HEX_LITERAL"]]);
  ("string_literal", [["STRING_LITERAL"]]);
  ("dotted_identifier", [["IDENTIFIER"; "'.'"; "dotted_identifier"]; ["IDENTIFIER"]])
]%string.

Definition expected_passthrough : list (string * Z) :=
  [("const_value", 1); ("calculation_expression", 1); ("calculation_expression_group", 2);
   ("array_capacity", 1); ("boolean_literal", 1); ("integer_literal", 1); ("string_literal", 1)]%string.

Fixpoint strings_eqb (a b : list string) : bool :=
  match a, b with
  | [], [] => true
  | x :: r, y :: s => String.eqb x y && strings_eqb r s
  | _, _ => false
  end.
Fixpoint alts_eqb (a b : list (list string)) : bool :=
  match a, b with
  | [], [] => true
  | x :: r, y :: s => strings_eqb x y && alts_eqb r s
  | _, _ => false
  end.
Fixpoint grammar_eqb (a b : list (string * list (list string))) : bool :=
  match a, b with
  | [], [] => true
  | (x, p) :: r, (y, q) :: s => String.eqb x y && alts_eqb p q && grammar_eqb r s
  | _, _ => false
  end.
Fixpoint passthrough_eqb (a b : list (string * Z)) : bool :=
  match a, b with
  | [], [] => true
  | (x, p) :: r, (y, q) :: s => String.eqb x y && (p =? q) && passthrough_eqb r s
  | _, _ => false
  end.
