(* LintSpec.v — the style guide as recognisers (definitions only; the lemmas about them are
   in LintProofs.v).  Used by the theorems of props/C20.v and, as the SPECIFICATION side, by
   the T2 case files (CliCases.v). *)
From Coq Require Import ZArith List String Ascii Bool.
From BP Require Import CliBase Lint.
Import ListNotations.
Open Scope string_scope.

(* all adjacent pairs satisfy R *)
Fixpoint adj_all (R : ascii -> ascii -> bool) (s : string) : bool :=
  match s with
  | String x r => match r with String y _ => R x y && adj_all R r | EmptyString => true end
  | EmptyString => true
  end.

Fixpoint ends_us (s : string) : bool :=
  match s with
  | EmptyString => false
  | String c r => match r with EmptyString => is_us c | _ => ends_us r end
  end.

Definition starts_us (s : string) : bool := match s with String c _ => is_us c | EmptyString => false end.

Definition no_double_us (x y : ascii) : bool := negb (is_us x && is_us y).

Definition alnum (c : ascii) : bool := is_alpha c || is_digit c.

(* conforming PascalCase: [A-Z][A-Za-z0-9]*, and the rest is not entirely upper case
   (pascal_case treats a part like "HTTP" as an UPPERCASE word and rewrites it to "Http") *)
Definition pascal_ok (s : string) : bool :=
  match s with
  | EmptyString => false
  | String c rest => is_upper c && sall alnum rest && negb (nonempty rest && py_isupper rest)
  end.

(* clear violations: an underscore anywhere, or a lower-case first letter *)
Definition starts_lower (s : string) : bool := match s with String c _ => is_lower c | EmptyString => false end.

Definition bad_pascal (s : string) : bool := sany is_us s || starts_lower s.

Definition upper_char (c : ascii) : bool := is_upper c || is_digit c || is_us c.

(* conforming UPPER_CASE: [A-Z][A-Z0-9_]* *)
Definition upper_ok (s : string) : bool :=
  match s with String c r => is_upper c && sall upper_char r | EmptyString => false end.

Definition snake_char (c : ascii) : bool := is_lower c || is_digit c || is_us c.

Definition no_alpha_digit (x y : ascii) : bool := negb (is_alpha x && is_digit y).

Definition no_digit_alpha (x y : ascii) : bool := negb (is_digit x && is_alpha y).

(* conforming snake_case: starts with a lower-case letter, only [a-z0-9_], no trailing or
   doubled underscore, letters and digits separated by an underscore (snake_case("a1") is
   "a_1" in utils.py, so "a1" is NOT a fixed point) *)
Definition snake_ok (s : string) : bool :=
  starts_lower s && sall snake_char s && negb (ends_us s) &&
  adj_all no_double_us s && adj_all no_alpha_digit s && adj_all no_digit_alpha s.

Open Scope Z_scope.

Definition name_ok (k : defkind) (n : string) : bool :=
  match k with
  | KAlias | KEnum | KMessage => pascal_ok n
  | KConstant | KEnumField => upper_ok n
  | KMessageField => snake_ok n
  | KOption | KProto => true
  end.

(* a definition that follows the style guide *)
Definition conforming (d : ldef) : Prop :=
  name_ok (l_kind d) (l_name d) = true /\
  1 <= l_depth d /\ l_indent d = 4 * (l_depth d - 1) /\
  (l_kind d = KEnum -> existsb (Z.eqb 0) (l_values d) = true).

(* clear violations and the warning each must produce *)
Definition clear_violations (d : ldef) : list string :=
  match l_kind d with
  | KAlias => if bad_pascal (l_name d) then ["AliasNameNotPascal"] else []
  | KMessage => if bad_pascal (l_name d) then ["MessageNameNotPascal"] else []
  | KEnum => List.app (if bad_pascal (l_name d) then ["EnumNameNotPascal"] else [])
                      (if existsb (Z.eqb 0) (l_values d) then [] else ["EnumHasNoFieldValue0"])
  | KConstant => if sany is_lower (l_name d) then ["ConstantNameNotUpper"] else []
  | KEnumField => if sany is_lower (l_name d) then ["EnumFieldNameNotUpper"] else []
  | KMessageField => if sany is_upper (l_name d) then ["MessageFieldNameNotSnake"] else []
  | KOption | KProto => []
  end%string.

