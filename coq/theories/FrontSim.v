(* FrontSim.v — a SIMULATION for the declarative front end (FrontValid.item_ok): if every scope on
   the stack holds definitions whose resolved types are R-related (R a size-preserving congruence
   on types), then the same statement is valid on both sides and extends the scopes to R-related
   scopes.  In the scope under construction the field NUMBERS may additionally differ by a map g
   (statement [IField … k] against [IField … (g k)]).  Instance: order-preserving renumbering of
   the fields of one message (C12). *)
From Coq Require Import ZArith List Bool String Lia Permutation.
From BP Require Import Bits Schema Spec FrontBase Front FrontProofs FrontValid FrontValidProofs WireEq.
From BPGen Require GenFront.
Import ListNotations.
Open Scope Z_scope.

Definition nrel (g : Z -> Z) (R : ty -> ty -> Prop) (a b : Z * ty) : Prop := fst b = g (fst a) /\ R (snd a) (snd b).

Section Sim.
  Variable R : ty -> ty -> Prop.
  Variable g0 : Z -> Z.                                (* the renumbering of the rewritten message *)
  Definition idz (k : Z) : Z := k.
  (* the numbering relation allowed between the field lists of two related message types *)
  Definition gcond (gb : Z -> Z) (keys : list Z) : Prop := gb = idz \/ (gb = g0 /\ mono_on g0 keys).
  Hypothesis g0_inj : forall a b, g0 a = g0 b -> a = b.
  Hypothesis g0_range : forall k, number_ok k -> number_ok (g0 k).
  Hypothesis R_refl : forall t, R t t.
  Hypothesis R_nbits : forall t t', R t t' -> nbits t = nbits t'.
  Hypothesis R_alias : forall t t', R t t' -> R (TAlias t) (TAlias t').
  Hypothesis R_arr : forall x c t t', R t t' -> R (TArr x c t) (TArr x c t').
  Hypothesis R_msg : forall gb x fs fs',
    gcond gb (map fst fs) -> Forall2 (nrel gb R) fs fs' -> R (TMsg x fs) (TMsg x fs').

  (* definitions related: same kind, same place, same values, R-related types; the number of
     a field is NOT compared (it only matters in the scope under construction) *)
  Fixpoint dsim (d d' : def) {struct d} : Prop :=
    match d, d' with
    | DConst a v, DConst a' v' => a = a' /\ v = v'
    | DAlias a t r, DAlias a' t' r' => a = a' /\ R t t'
    | DEnum a t m, DEnum a' t' m' =>
        a = a' /\ t = t' /\
        (fix go (m m' : list (string * def)) : Prop :=
           match m, m' with
           | [], [] => True
           | nd :: r, nd' :: r' => fst nd = fst nd' /\ dsim (snd nd) (snd nd') /\ go r r'
           | _, _ => False
           end) m m'
    | DMsg a t m, DMsg a' t' m' =>
        a = a' /\ R t t' /\
        (fix go (m m' : list (string * def)) : Prop :=
           match m, m' with
           | [], [] => True
           | nd :: r, nd' :: r' => fst nd = fst nd' /\ dsim (snd nd) (snd nd') /\ go r r'
           | _, _ => False
           end) m m'
    | DProto f n m, DProto f' n' m' =>
        f = f' /\ n = n' /\
        (fix go (m m' : list (string * def)) : Prop :=
           match m, m' with
           | [], [] => True
           | nd :: r, nd' :: r' => fst nd = fst nd' /\ dsim (snd nd) (snd nd') /\ go r r'
           | _, _ => False
           end) m m'
    | DOption a v, DOption a' v' => a = a' /\ v = v'
    | DField a k t r, DField a' k' t' r' => a = a' /\ R t t'
    | DEnumField a v, DEnumField a' v' => a = a' /\ v = v'
    | _, _ => False
    end.

  Fixpoint msim (m m' : list (string * def)) : Prop :=
    match m, m' with
    | [], [] => True
    | nd :: r, nd' :: r' => fst nd = fst nd' /\ dsim (snd nd) (snd nd') /\ msim r r'
    | _, _ => False
    end.

  Lemma dsim_enum a t m a' t' m' : dsim (DEnum a t m) (DEnum a' t' m') <-> a = a' /\ t = t' /\ msim m m'.
  Proof. reflexivity. Qed.
  Lemma dsim_msg a t m a' t' m' : dsim (DMsg a t m) (DMsg a' t' m') <-> a = a' /\ R t t' /\ msim m m'.
  Proof. reflexivity. Qed.
  Lemma dsim_proto f n m f' n' m' : dsim (DProto f n m) (DProto f' n' m') <-> f = f' /\ n = n' /\ msim m m'.
  Proof. reflexivity. Qed.

  Lemma msim_app m1 m1' m2 m2' : msim m1 m1' -> msim m2 m2' -> msim (m1 ++ m2) (m1' ++ m2').
  Proof.
    revert m1'. induction m1 as [|a r IH]; intros [|a' r'] H1 H2; try contradiction; [exact H2|].
    destruct H1 as [E [D H1]]. cbn [app msim]. repeat split; auto.
  Qed.

  Lemma msim_rev m : forall m', msim m m' -> msim (rev m) (rev m').
  Proof.
    induction m as [|a r IH]; intros [|a' r'] H; try contradiction; [exact I|].
    destruct H as [E [D H]]. cbn [rev]. apply msim_app; [now apply IH|]. cbn [msim]. now repeat split.
  Qed.

  Definition orel {A B} (P : A -> B -> Prop) (x : option A) (y : option B) : Prop :=
    match x, y with Some a, Some b => P a b | None, None => True | _, _ => False end.

  Lemma assoc_msim n m : forall m', msim m m' -> orel dsim (assoc n m) (assoc n m').
  Proof.
    induction m as [|a r IH]; intros [|a' r'] H; try contradiction; [exact I|].
    destruct H as [E [D H]]. cbn [assoc]. rewrite <- E. destruct (String.eqb (fst a) n); [exact D|now apply IH].
  Qed.

  Lemma has_name_msim n m m' : msim m m' -> has_name n m' = has_name n m.
  Proof. intros H. pose proof (assoc_msim n m m' H) as Ha. unfold has_name. destruct (assoc n m), (assoc n m'); cbn in Ha; tauto. Qed.

  Lemma def_members_dsim d d' : dsim d d' -> orel msim (def_members d) (def_members d').
  Proof. destruct d, d'; cbn [dsim]; try contradiction; try (intros; exact I); intros [_ [_ H]]; exact H. Qed.

  Lemma get_member_msim p : forall m m', msim m m' -> orel dsim (get_member m p) (get_member m' p).
  Proof.
    induction p as [|n rest IH]; intros m m' H; [exact I|]. cbn [get_member].
    pose proof (assoc_msim n m m' H) as Ha. destruct (assoc n m) as [d|], (assoc n m') as [d'|]; cbn in Ha; try contradiction; [|exact I].
    destruct rest as [|n2 rest2]; [exact Ha|].
    pose proof (def_members_dsim d d' Ha) as Hm.
    destruct (def_members d) as [md|], (def_members d') as [md'|]; cbn in Hm; try contradiction; [|exact I].
    now apply IH.
  Qed.

  Definition ssim (st st' : list frame) : Prop := Forall2 (fun f f' => fk f = fk f' /\ msim (fmem f) (fmem f')) st st'.

  Lemma lookup_ssim p st st' : ssim st st' -> orel dsim (lookup st p) (lookup st' p).
  Proof.
    induction 1 as [|f f' st st' [_ Hm] _ IH]; [exact I|]. cbn [lookup].
    pose proof (get_member_msim p _ _ Hm) as Hg.
    destruct (get_member (fmem f) p), (get_member (fmem f') p); cbn in Hg; try contradiction; [exact Hg|exact IH].
  Qed.

  Lemma def_type_dsim d d' : dsim d d' -> orel R (def_type d) (def_type d').
  Proof.
    destruct d, d'; cbn [dsim def_type orel]; try contradiction; try (intros; exact I).
    - intros [_ H]. now apply R_alias.
    - intros [_ [-> _]]. apply R_refl.
    - intros [_ [H _]]. exact H.
  Qed.

  Lemma def_const_dsim d d' : dsim d d' -> def_const d' = def_const d.
  Proof. destruct d, d'; cbn [dsim def_const]; try contradiction; try reflexivity. intros [_ ->]. reflexivity. Qed.

  Lemma def_loc_dsim d d' : dsim d d' -> def_loc d' = def_loc d.
  Proof. destruct d, d'; cbn [dsim def_loc]; try contradiction; intros H; decompose [and] H; subst; reflexivity. Qed.

  Section Clauses.
    Variable trad div0 : bool.
    Variable st st' : list frame.
    Hypothesis Hst : ssim st st'.

    Lemma const_ref_sim p v : const_ref st p v -> const_ref st' p v.
    Proof.
      intros [d [Hl Hc]]. pose proof (lookup_ssim p st st' Hst) as H. rewrite Hl in H.
      destruct (lookup st' p) as [d'|] eqn:E; cbn in H; [|contradiction]. exists d'. split; [exact E|].
      now rewrite (def_const_dsim d d' H).
    Qed.

    Lemma sty_ok_sim s t r : sty_ok st s t r -> exists t', sty_ok st' s t' r /\ R t t'.
    Proof.
      intros H. inversion H; subst; try (eexists; split; [constructor; assumption|apply R_refl]).
      pose proof (lookup_ssim p st st' Hst) as Hl. rewrite H0 in Hl.
      destruct (lookup st' p) as [d'|] eqn:E; cbn in Hl; [|contradiction].
      pose proof (def_type_dsim d d' Hl) as Ht. rewrite H1 in Ht.
      destruct (def_type d') as [t'|] eqn:E2; cbn in Ht; [|contradiction].
      exists t'. split; [|exact Ht]. rewrite <- (def_loc_dsim d d' Hl). now apply SORef.
    Qed.

    Lemma capx_ok_sim c n : capx_ok st c n -> capx_ok st' c n.
    Proof. intros H. inversion H; subst; constructor. now apply const_ref_sim. Qed.

    Lemma tyx_ok_sim t ty r : tyx_ok trad st t ty r -> exists ty', tyx_ok trad st' t ty' r /\ R ty ty'.
    Proof.
      intros H. inversion H; subst.
      - destruct (sty_ok_sim _ _ _ H0) as [t' [H1 H2]]. exists t'. split; [now constructor|exact H2].
      - destruct (sty_ok_sim _ _ _ H0) as [t' [H4 H5]]. exists (TArr ext (Z.to_nat n) t'). split.
        + apply TOArr; try assumption. now apply capx_ok_sim.
        + now apply R_arr.
    Qed.

    Lemma cexpr_ok_sim e z : cexpr_ok div0 st e z -> cexpr_ok div0 st' e z.
    Proof. induction 1; try (constructor; auto; fail). constructor. now apply const_ref_sim. Qed.

    Lemma cvalx_ok_sim v cv : cvalx_ok div0 st v cv -> cvalx_ok div0 st' v cv.
    Proof. intros H. inversion H; subst; constructor; [now apply const_ref_sim|now apply cexpr_ok_sim]. Qed.

    Lemma optx_ok_sim v cv : optx_ok st v cv -> optx_ok st' v cv.
    Proof. intros H. inversion H; subst; constructor. now apply const_ref_sim. Qed.
  End Clauses.

  (* the scope under construction: numbers related by g *)
  Definition fsim (g : Z -> Z) (f f' : frame) : Prop :=
    fk f = fk f' /\ msim (fmem f) (fmem f') /\ Forall2 (nrel g R) (msg_fields (fmem f)) (msg_fields (fmem f')).

  Lemma enum_values_msim m : forall m', msim m m' -> enum_values m' = enum_values m.
  Proof.
    unfold enum_values. induction m as [|a r IH]; intros [|a' r'] H; try contradiction; [reflexivity|].
    destruct H as [_ [D H]]. cbn [flat_map]. rewrite (IH _ H). f_equal.
    destruct (snd a), (snd a'); cbn [dsim] in D; try contradiction; try reflexivity. destruct D as [_ ->]. reflexivity.
  Qed.

  Lemma imported_files_msim m : forall m', msim m m' -> imported_files m' = imported_files m.
  Proof.
    unfold imported_files. induction m as [|a r IH]; intros [|a' r'] H; try contradiction; [reflexivity|].
    destruct H as [_ [D H]]. cbn [flat_map]. rewrite (IH _ H). f_equal.
    destruct (snd a), (snd a'); cbn [dsim] in D; try contradiction; try reflexivity. destruct D as [-> _]. reflexivity.
  Qed.

  Lemma field_numbers_fields m : field_numbers m = map fst (msg_fields m).
  Proof.
    unfold field_numbers, msg_fields. induction m as [|a r IH]; [reflexivity|].
    cbn [flat_map]. rewrite map_app, <- IH. destruct (snd a); reflexivity.
  Qed.

  Lemma option_value_msim n m m' : msim m m' -> option_value n m' = option_value n m.
  Proof.
    intros H. pose proof (assoc_msim n m m' H) as Ha. unfold option_value.
    destruct (assoc n m) as [d|], (assoc n m') as [d'|]; cbn in Ha; try contradiction; [|reflexivity].
    destruct d, d'; cbn [dsim] in Ha; try contradiction; try reflexivity. destruct Ha as [_ ->]. reflexivity.
  Qed.

  Lemma max_bytes_of_msim m m' : msim m m' -> max_bytes_of m' = max_bytes_of m.
  Proof. intros H. unfold max_bytes_of. now rewrite (option_value_msim _ m m' H). Qed.

  Lemma last_frame_ssim cur cur' outer outer' :
    fk cur = fk cur' /\ msim (fmem cur) (fmem cur') -> ssim outer outer' ->
    fk (last_frame cur outer) = fk (last_frame cur' outer') /\
    msim (fmem (last_frame cur outer)) (fmem (last_frame cur' outer')).
  Proof. intros Hc Ho. revert cur cur' Hc. induction Ho as [|f f' o o' Hf _ IH]; intros cur cur' Hc; [exact Hc|]. cbn [last_frame]. now apply IH. Qed.

  Lemma msg_fields_app m1 m2 : msg_fields (m1 ++ m2) = msg_fields m1 ++ msg_fields m2.
  Proof. unfold msg_fields. apply flat_map_app. Qed.

  Lemma msg_fields_rev m : msg_fields (rev m) = rev (msg_fields m).
  Proof.
    induction m as [|a r IH]; [reflexivity|]. cbn [rev]. rewrite msg_fields_app, IH.
    unfold msg_fields at 2 3. cbn [flat_map]. rewrite app_nil_r.
    fold (msg_fields r). destruct (snd a); cbn [app rev]; try (now rewrite app_nil_r).
    reflexivity.
  Qed.

  (* adding a member that is not a field *)
  Lemma fsim_add g f f' n d d' :
    fsim g f f' -> dsim d d' ->
    (match d with DField _ _ _ _ => False | _ => True end) ->
    fsim g (add_member f n d) (add_member f' n d').
  Proof.
    intros [Hk [Hm Hf]] Hd Hn. unfold fsim, add_member. cbn [fk fmem msim]. repeat split; try assumption.
    unfold msg_fields in *. cbn [flat_map snd].
    destruct d, d'; cbn [dsim] in Hd; try contradiction; cbn [app]; exact Hf.
  Qed.

  Lemma fsim_add_field g f f' n a k t t' r r' :
    fsim g f f' -> R t t' ->
    fsim g (add_member f n (DField a k t r)) (add_member f' n (DField a (g k) t' r')).
  Proof.
    intros [Hk [Hm Hf]] Ht. unfold fsim, add_member. cbn [fk fmem msim dsim]. repeat split; try assumption.
    unfold msg_fields in *. cbn [flat_map snd app]. constructor; [|exact Hf]. split; [reflexivity|exact Ht].
  Qed.

  Definition renum_item (g : Z -> Z) (it : item) : item :=
    match it with IField l t nm k => IField l t nm (g k) | _ => it end.

  Lemma renum_item_id it : renum_item idz it = it.
  Proof. destruct it; reflexivity. Qed.

  (* numbers of the field statements of a scope body, in order *)
  Definition body_numbers (body : list item) : list Z :=
    flat_map (fun it => match it with IField _ _ _ k => [k] | _ => [] end) body.

  Definition gok (g : Z -> Z) : Prop := (forall a b, g a = g b -> a = b) /\ (forall k, number_ok k -> number_ok (g k)).

  Lemma gok_id : gok idz.
  Proof. split; unfold idz; auto. Qed.
  Lemma gok_g0 : gok g0.
  Proof. split; assumption. Qed.

  (* [trel g it it']: it' is it, where (a) in the scope under construction field numbers go
     through g, (b) the fields of ONE OR MORE messages below are renumbered by g0 (monotone on
     that message's numbers), at any depth *)
  Fixpoint trel (g : Z -> Z) (it it' : item) {struct it} : Prop :=
    it' = renum_item g it \/
    match it, it' with
    | IMsg l n x b, IMsg l' n' x' b' =>
        l = l' /\ n = n' /\ x = x' /\
        exists gb, gcond gb (body_numbers b) /\
          (fix go (b b' : list item) : Prop :=
             match b, b' with
             | [], [] => True
             | i :: r, i' :: r' => trel gb i i' /\ go r r'
             | _, _ => False
             end) b b'
    | IEnum l n s b, IEnum l' n' s' b' =>
        l = l' /\ n = n' /\ s = s' /\
        (fix go (b b' : list item) : Prop :=
           match b, b' with
           | [], [] => True
           | i :: r, i' :: r' => trel idz i i' /\ go r r'
           | _, _ => False
           end) b b'
    | _, _ => False
    end.

  Fixpoint lrel (g : Z -> Z) (b b' : list item) : Prop :=
    match b, b' with
    | [], [] => True
    | i :: r, i' :: r' => trel g i i' /\ lrel g r r'
    | _, _ => False
    end.

  Lemma lrel_fix g b : forall b',
    (fix go (b b' : list item) : Prop :=
       match b, b' with
       | [], [] => True
       | i :: r, i' :: r' => trel g i i' /\ go r r'
       | _, _ => False
       end) b b' <-> lrel g b b'.
  Proof.
    induction b as [|i r IH]; intros [|i' r']; cbn [lrel]; try tauto. rewrite (IH r'). tauto.
  Qed.

  Lemma lrel_same g b : lrel g b (map (renum_item g) b).
  Proof. induction b as [|i r IH]; [exact I|]. cbn [map lrel]. split; [|exact IH]. destruct i; now left. Qed.

  Lemma lrel_refl b : lrel idz b b.
  Proof. induction b as [|i r IH]; [exact I|]. split; [|exact IH]. destruct i; left; now rewrite renum_item_id. Qed.

  Section Items.
    Variable vc vc' : list string -> string -> def -> Prop.
    Variable kf kf' : string -> bool.
    Hypothesis Hkf : forall f, kf' f = kf f.
    Variable trad div0 : bool.
    Variable file : string.
    Variable fstack : list string.
    Hypothesis Hvc : forall stk f d, vc stk f d -> exists d', vc' stk f d' /\ dsim d d'.
    Hypothesis Hvc_proto : forall stk f d, vc stk f d -> exists f1 n m, d = DProto f1 n m.

    Notation IOK := (item_ok vc kf trad div0 file fstack).
    Notation IOK' := (item_ok vc' kf' trad div0 file fstack).
    Notation IOKS := (items_ok vc kf trad div0 file fstack).
    Notation IOKS' := (items_ok vc' kf' trad div0 file fstack).

    Lemma inner_items_ok vcx kfx st f0 body fr :
      (fix go (its : list item) (f f' : frame) : Prop :=
         match its with
         | [] => f' = f
         | i :: r => exists fm, item_ok vcx kfx trad div0 file fstack st f i fm /\ go r fm f'
         end) body f0 fr <-> items_ok vcx kfx trad div0 file fstack st f0 body fr.
    Proof.
      revert f0. induction body as [|i r IH]; intros f0; cbn [items_ok]; [tauto|].
      split; intros [fm [H1 H2]]; exists fm; (split; [exact H1|]); now apply IH.
    Qed.

    Lemma scope_pred_sim g f f' : fsim g f f' ->
      (in_file_scope f -> in_file_scope f') /\ (in_message_scope f -> in_message_scope f') /\
      (in_file_or_message f -> in_file_or_message f').
    Proof.
      intros [Hk _]. unfold in_file_or_message, in_file_scope, in_message_scope. rewrite <- Hk. tauto.
    Qed.

    (* the body of a nested scope, given the statement-level simulation for its statements *)
    Lemma body_sim gb body : forall body' st st' f0 f0' fr,
      Forall (fun i => forall i' g outer outer' cur cur' cur1,
                gok g -> trel g i i' -> ssim outer outer' -> fsim g cur cur' -> IOK outer cur i cur1 ->
                exists cur1', IOK' outer' cur' i' cur1' /\ fsim g cur1 cur1') body ->
      gok gb -> lrel gb body body' -> ssim st st' -> fsim gb f0 f0' ->
      IOKS st f0 body fr ->
      exists fr', IOKS' st' f0' body' fr' /\ fsim gb fr fr'.
    Proof.
      induction body as [|i r IHr]; intros [|i' r'] st st' f0 f0' fr HF Hg Hl Hs H0 Hb; try contradiction.
      - cbn [items_ok] in Hb. subst. exists f0'. split; [reflexivity|exact H0].
      - inversion HF as [|? ? Hi Hr]; subst. destruct Hl as [Hl1 Hl2].
        cbn [items_ok] in Hb. destruct Hb as [fm [H1 H2]].
        destruct (Hi i' gb st st' f0 f0' fm Hg Hl1 Hs H0 H1) as [fm' [H1' Hfm]].
        destruct (IHr r' st st' fm fm' fr Hr Hg Hl2 Hs Hfm H2) as [fr' [H2' Hfr]].
        exists fr'. split; [|exact Hfr]. cbn [items_ok]. exists fm'. now split.
    Qed.

    Lemma Forall2_nrel_keys g fs fs' : Forall2 (nrel g R) fs fs' -> map fst fs' = map g (map fst fs).
    Proof. induction 1 as [|a b l l' [E _] _ IH]; [reflexivity|]. cbn [map]. now rewrite E, IH. Qed.

    Lemma Forall2_rev' {A B} (P : A -> B -> Prop) l l' : Forall2 P l l' -> Forall2 P (rev l) (rev l').
    Proof.
      induction 1 as [|a b l l' Hab _ IH]; [constructor|]. cbn [rev]. apply Forall2_app; [exact IH|].
      constructor; [exact Hab|constructor].
    Qed.

    (* numbers of a scope built from an empty frame are the numbers of its field statements *)
    Lemma item_ok_numbers outer cur it cur1 :
      IOK outer cur it cur1 ->
      field_numbers (fmem cur1) = (match it with IField _ _ _ k => [k] | _ => [] end) ++ field_numbers (fmem cur).
    Proof.
      destruct it; cbn [item_ok]; intros H.
      - destruct H as [_ ->]. reflexivity.
      - destruct H as [_ [_ [_ [_ [child [nm [Hv [_ [_ [_ ->]]]]]]]]]].
        destruct (Hvc_proto _ _ _ Hv) as [f1 [n1 [m1 ->]]]. reflexivity.
      - destruct H as [_ [cv [_ [_ [_ ->]]]]]. reflexivity.
      - destruct H as [_ [cv [_ [_ ->]]]]. reflexivity.
      - destruct H as [_ [ty [r [_ [_ [_ ->]]]]]]. reflexivity.
      - destruct H as [_ [n0 [fr [_ [_ [_ [_ ->]]]]]]]. reflexivity.
      - destruct H as [_ [_ [fr [_ Hr]]]]. cbv zeta in Hr. destruct Hr as [_ [_ [_ ->]]]. reflexivity.
      - destruct H as [_ [ty [r [_ [_ [_ [_ ->]]]]]]]. reflexivity.
      - destruct H as [a0 [n0 [_ [_ [_ [_ ->]]]]]]. reflexivity.
    Qed.

    Lemma items_ok_numbers outer body : forall cur fr,
      IOKS outer cur body fr -> field_numbers (fmem fr) = rev (body_numbers body) ++ field_numbers (fmem cur).
    Proof.
      induction body as [|i r IH]; intros cur fr H; cbn [items_ok] in H; [now subst|].
      destruct H as [fm [H1 H2]]. rewrite (IH _ _ H2), (item_ok_numbers _ _ _ _ H1).
      unfold body_numbers. cbn [flat_map]. fold (body_numbers r). rewrite rev_app_distr, <- app_assoc.
      f_equal. destruct i; reflexivity.
    Qed.

    Lemma item_ok_sim : forall it it' g outer outer' cur cur' cur1,
      gok g -> trel g it it' -> ssim outer outer' -> fsim g cur cur' ->
      IOK outer cur it cur1 ->
      exists cur1', IOK' outer' cur' it' cur1' /\ fsim g cur1 cur1'.
    Proof.
      induction it as [l nm|l a gf|l nm v|l nm v|l nm t|l nm b body IH|l nm x body IH|l t nm k|l nm v]
        using item_ind'; intros it' g outer outer' cur cur' cur1 Hg Ht Ho Hc H;
        pose proof Hc as [Hk [Hm Hf]];
        assert (Hst : ssim (cur :: outer) (cur' :: outer')) by (constructor; [split; assumption|exact Ho]);
        destruct (scope_pred_sim g cur cur' Hc) as [Hs1 [Hs2 Hs3]];
        cbn [trel] in Ht.
      - (* proto *)
        destruct Ht as [->|[]]. cbn [renum_item item_ok] in *.
        destruct H as [Hin ->]. eexists. split; [split; [now apply Hs1|reflexivity]|].
        unfold fsim. cbn [fk fmem]. repeat split; assumption.
      - (* import *)
        destruct Ht as [->|[]]. cbn [renum_item item_ok] in *.
        destruct H as [Hin [Hkn [Hc1 [Hc2 [child [name [Hv [Hn [Hf1 [Hf2 ->]]]]]]]]]].
        destruct (Hvc _ _ _ Hv) as [child' [Hv' Hd]].
        destruct (Hvc_proto _ _ _ Hv) as [f1 [n1 [m1 ->]]].
        destruct (last_frame_ssim cur cur' outer outer' (conj Hk Hm) Ho) as [_ Hlm].
        exists (add_member cur' name child'). split.
        + split; [now apply Hs1|]. split; [now rewrite Hkf|]. split; [exact Hc1|].
          split; [now rewrite (imported_files_msim _ _ Hlm)|].
          exists child', name. split; [exact Hv'|]. split.
          { rewrite Hn. destruct a; [reflexivity|]. destruct child'; cbn [dsim] in Hd; try contradiction.
            destruct Hd as [_ [-> _]]. reflexivity. }
          unfold fresh in *. rewrite (has_name_msim _ _ _ Hlm), (has_name_msim _ _ _ Hm). now repeat split.
        + apply fsim_add; [exact Hc|exact Hd|exact I].
      - (* option *)
        destruct Ht as [->|[]]. cbn [renum_item item_ok] in *.
        destruct H as [Hin [cv [Hv [Ho2 [Hfr ->]]]]].
        exists (add_member cur' nm (DOption (mkloc file l) cv)). split.
        + split; [now apply Hs3|]. exists cv. split; [now apply (optx_ok_sim _ _ Hst)|].
          split; [unfold scope_options in *; now rewrite <- Hk|].
          split; [unfold fresh in *; now rewrite (has_name_msim _ _ _ Hm)|reflexivity].
        + apply fsim_add; [exact Hc|cbn; now split|exact I].
      - (* const *)
        destruct Ht as [->|[]]. cbn [renum_item item_ok] in *.
        destruct H as [Hin [cv [Hv [Hfr ->]]]].
        exists (add_member cur' nm (DConst (mkloc file l) cv)). split.
        + split; [now apply Hs1|]. exists cv. split; [now apply (cvalx_ok_sim div0 _ _ Hst)|].
          split; [unfold fresh in *; now rewrite (has_name_msim _ _ _ Hm)|reflexivity].
        + apply fsim_add; [exact Hc|cbn; now split|exact I].
      - (* alias *)
        destruct Ht as [->|[]]. cbn [renum_item item_ok] in *.
        destruct H as [Hin [ty [r [Hty [Ha [Hfr ->]]]]]].
        destruct (tyx_ok_sim trad _ _ Hst _ _ _ Hty) as [ty' [Hty' HR]].
        exists (add_member cur' nm (DAlias (mkloc file l) ty' r)). split.
        + split; [now apply Hs1|]. exists ty', r. split; [exact Hty'|]. split; [exact Ha|].
          split; [unfold fresh in *; now rewrite (has_name_msim _ _ _ Hm)|reflexivity].
        + apply fsim_add; [exact Hc|cbn; now split|exact I].
      - (* enum *)
        assert (Hb' : exists body', it' = IEnum l nm b body' /\ lrel idz body body').
        { destruct Ht as [->|Ht]; [exists body; split; [reflexivity|apply lrel_refl]|].
          destruct it'; try contradiction. destruct Ht as [<- [<- [<- Ht]]]. eexists. split; [reflexivity|now apply lrel_fix]. }
        destruct Hb' as [body' [-> Hl]]. cbn [item_ok] in *.
        destruct H as [Hin [w [fr [-> [Hw [Hb [Hfr ->]]]]]]].
        apply inner_items_ok in Hb.
        destruct (body_sim idz body body' (cur :: outer) (cur' :: outer') (mkframe (FEnum (mkloc file l) w) []) (mkframe (FEnum (mkloc file l) w) []) fr IH gok_id Hl Hst)
          as [fr' [Hb' [Hk' [Hm' _]]]]; [|exact Hb|].
        { unfold fsim. cbn [fk fmem msg_fields flat_map]. repeat split; constructor. }
        exists (add_member cur' nm (close_enum (mkloc file l) w fr')). split.
        + split; [now apply Hs3|]. exists w, fr'. split; [reflexivity|]. split; [exact Hw|].
          split; [apply inner_items_ok; exact Hb'|].
          split; [unfold fresh in *; now rewrite (has_name_msim _ _ _ Hm)|reflexivity].
        + apply fsim_add; [exact Hc| |exact I]. unfold close_enum. apply dsim_enum.
          pose proof (msim_rev _ _ Hm') as Hr. repeat split; [|exact Hr]. now rewrite (enum_values_msim _ _ Hr).
      - (* message *)
        assert (Hb' : exists body' gb, it' = IMsg l nm x body' /\ gcond gb (body_numbers body) /\ lrel gb body body').
        { destruct Ht as [->|Ht]; [exists body, idz; split; [reflexivity|split; [now left|apply lrel_refl]]|].
          destruct it'; try contradiction. destruct Ht as [<- [<- [<- [gb [Hgc Ht]]]]]. exists body0, gb. split; [reflexivity|]. split; [exact Hgc|now apply lrel_fix]. }
        destruct Hb' as [body' [gb [-> [Hgc Hl]]]]. cbn [item_ok] in *.
        destruct H as [Hin [Hx [fr [Hb Hrest]]]]. cbv zeta in Hrest. destruct Hrest as [Hs1' [Hs2' [Hfr ->]]].
        apply inner_items_ok in Hb.
        assert (Hgb : gok gb) by (destruct Hgc as [->|[-> _]]; [apply gok_id|apply gok_g0]).
        destruct (body_sim gb body body' (cur :: outer) (cur' :: outer') (mkframe (FMsg (mkloc file l) x) []) (mkframe (FMsg (mkloc file l) x) []) fr IH Hgb Hl Hst)
          as [fr' [Hb' [Hk' [Hm' Hf']]]]; [|exact Hb|].
        { unfold fsim. cbn [fk fmem msg_fields flat_map]. repeat split; constructor. }
        pose proof (msim_rev _ _ Hm') as Hr.
        assert (HR : R (TMsg x (msg_fields (rev (fmem fr)))) (TMsg x (msg_fields (rev (fmem fr'))))).
        { apply (R_msg gb).
          - rewrite <- field_numbers_fields. pose proof (items_ok_numbers _ _ _ _ Hb) as Hn. cbn [fmem] in Hn.
            unfold field_numbers at 2 in Hn. cbn [flat_map] in Hn. rewrite app_nil_r in Hn.
            assert (En : field_numbers (rev (fmem fr)) = body_numbers body).
            { rewrite field_numbers_fields, msg_fields_rev, map_rev, <- field_numbers_fields, Hn. apply rev_involutive. }
            rewrite En. exact Hgc.
          - rewrite !msg_fields_rev. now apply Forall2_rev'. }
        exists (add_member cur' nm (DMsg (mkloc file l) (TMsg x (msg_fields (rev (fmem fr')))) (rev (fmem fr')))). split.
        + split; [now apply Hs3|]. split; [exact Hx|]. exists fr'. split; [apply inner_items_ok; exact Hb'|]. cbv zeta.
          rewrite <- (R_nbits _ _ HR), (max_bytes_of_msim _ _ Hr).
          split; [exact Hs1'|]. split; [exact Hs2'|].
          split; [unfold fresh in *; now rewrite (has_name_msim _ _ _ Hm)|reflexivity].
        + apply fsim_add; [exact Hc| |exact I]. apply dsim_msg. now repeat split.
      - (* field *)
        destruct Ht as [->|[]]. cbn [renum_item item_ok] in *.
        destruct H as [Hin [ty [r [Hty [Hn [Hu [Hfr ->]]]]]]].
        destruct (tyx_ok_sim trad _ _ Hst _ _ _ Hty) as [ty' [Hty' HR]]. destruct Hg as [Hgi Hgr].
        exists (add_member cur' nm (DField (mkloc file l) (g k) ty' r)). split.
        + split; [now apply Hs2|]. exists ty', r. split; [exact Hty'|]. split; [now apply Hgr|].
          split.
          { rewrite field_numbers_fields, (Forall2_nrel_keys _ _ _ Hf), <- field_numbers_fields.
            intros Hi. apply in_map_iff in Hi. destruct Hi as [j [Ej Hj]]. apply Hgi in Ej. subst j. contradiction. }
          split; [unfold fresh in *; now rewrite (has_name_msim _ _ _ Hm)|reflexivity].
        + now apply fsim_add_field.
      - (* enum member *)
        destruct Ht as [->|[]]. cbn [renum_item item_ok] in *.
        destruct H as [a0 [n0 [E [Hv [Hu [Hfr ->]]]]]].
        exists (add_member cur' nm (DEnumField (mkloc file l) v)). split.
        + exists a0, n0. split; [now rewrite <- Hk|]. split; [exact Hv|].
          split; [now rewrite (enum_values_msim _ _ Hm)|].
          split; [unfold fresh in *; now rewrite (has_name_msim _ _ _ Hm)|reflexivity].
        + apply fsim_add; [exact Hc|cbn; now split|exact I].
    Qed.

    Lemma items_ok_sim g its its' outer outer' cur cur' fr :
      gok g -> lrel g its its' -> ssim outer outer' -> fsim g cur cur' -> IOKS outer cur its fr ->
      exists fr', IOKS' outer' cur' its' fr' /\ fsim g fr fr'.
    Proof.
      intros Hg Hl Ho Hc H. apply (body_sim g its its' outer outer' cur cur' fr); try assumption.
      apply Forall_forall. intros i _ i' g1 o o' c c' c1 Hg1 Ht Ho1 Hc1 H1. now apply (item_ok_sim i i' g1 o o' c c' c1).
    Qed.
  End Items.

  (* files: same keys, related contents *)
  Fixpoint frelT (fs fs' : files) : Prop :=
    match fs, fs' with
    | [], [] => True
    | a :: r, a' :: r' => fst a = fst a' /\ lrel idz (snd a) (snd a') /\ frelT r r'
    | _, _ => False
    end.

  Lemma frelT_assoc fs : forall fs' f, frelT fs fs' ->
    match assoc f fs, assoc f fs' with
    | Some its, Some its' => lrel idz its its'
    | None, None => True
    | _, _ => False
    end.
  Proof.
    induction fs as [|a r IH]; intros [|a' r'] f H; try contradiction; [exact I|].
    destruct H as [E [Hl Hr]]. cbn [assoc]. rewrite <- E. destruct (String.eqb (fst a) f); [exact Hl|now apply IH].
  Qed.

  Lemma frelT_known fs fs' f : frelT fs fs' -> known fs' f = known fs f.
  Proof. intros H. pose proof (frelT_assoc fs fs' f H) as Ha. unfold known. destruct (assoc f fs), (assoc f fs'); tauto. Qed.

  Lemma file_ok_sim fs fs' trad div0 : frelT fs fs' -> forall n fstack f d,
    file_ok n fs trad div0 fstack f d -> exists d', file_ok n fs' trad div0 fstack f d' /\ dsim d d'.
  Proof.
    intros Hf. induction n as [|n IH]; intros fstack f d H; [contradiction|].
    cbn [file_ok] in H. destruct H as [its [fr [name [Ha [Hi [Hk ->]]]]]].
    pose proof (frelT_assoc fs fs' f Hf) as Hr. rewrite Ha in Hr.
    destruct (assoc f fs') as [its'|] eqn:Ea'; [|contradiction].
    destruct (items_ok_sim (file_ok n fs trad div0) (file_ok n fs' trad div0) (known fs) (known fs')
                (fun g => frelT_known fs fs' g Hf) trad div0 f (f :: fstack)
                (fun stk g d => IH stk g d) (file_ok_proto n fs trad div0)
                idz its its' [] [] (mkframe (FProto None) []) (mkframe (FProto None) []) fr gok_id Hr)
      as [fr' [Hi' [Hk' [Hm' _]]]]; [constructor| |exact Hi|].
    { unfold fsim. cbn [fk fmem msg_fields flat_map]. repeat split; constructor. }
    exists (DProto f name (rev (fmem fr'))). split.
    - cbn [file_ok]. exists its', fr', name. repeat split; try assumption. now rewrite <- Hk'.
    - apply dsim_proto. repeat split. now apply msim_rev.
  Qed.

  (* the whole front end: related schemas are accepted together and elaborate to related definitions *)
  Theorem check_sim fs fs' root trad e :
    frelT fs fs' -> check fs root trad = Ok e ->
    exists e', check fs' root trad = Ok e' /\ dsim e e'.
  Proof.
    intros Hf H. apply check_ok_iff_file_ok in H. destruct H as [n H].
    destruct (file_ok_sim fs fs' trad false Hf n [] root e H) as [e' [H' Hd]].
    exists e'. split; [|exact Hd]. apply check_ok_iff_file_ok. now exists n.
  Qed.

  Lemma msg_ty_at_sim e e' p t :
    dsim e e' -> msg_ty_at (Ok e) p = Some t -> exists t', msg_ty_at (Ok e') p = Some t' /\ R t t'.
  Proof.
    intros Hd H. destruct e; try discriminate. destruct e'; cbn [dsim] in Hd; try contradiction.
    apply dsim_proto in Hd. destruct Hd as [_ [_ Hm]]. cbn [msg_ty_at] in *.
    pose proof (get_member_msim p mem mem0 Hm) as Hg.
    destruct (get_member mem p) as [d|]; [|discriminate]. destruct (get_member mem0 p) as [d'|]; cbn in Hg; [|contradiction].
    destruct d; try discriminate. destruct d'; cbn [dsim] in Hg; try contradiction.
    apply dsim_msg in Hg. destruct Hg as [_ [HR _]]. inversion H; subst. eexists. split; [reflexivity|exact HR].
  Qed.
End Sim.
