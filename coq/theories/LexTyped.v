(* LexTyped.v — uintN / intN for EVERY N: at word boundaries on both sides, `uint` (resp. `int`) followed by
   a run of digits is matched by t_UINT_TYPE (resp. t_INT_TYPE) with the WHOLE run — the greedy `[0-9]+`
   followed by `\b` backtracks through the shorter runs, but none of those is at a boundary. *)
From Coq Require Import String NArith ZArith List Bool Lia.
From BP Require Import TotalBase LexBase Lex LexSpec LexCase LexProofs LexClass LexMunch LexOrigin.
From BPGen Require Import GenLexer.
Import ListNotations.

Section Typed.
Variable uw : N -> bool.

Lemma seq_char_fail fuel k R p c s : N.eqb c k = false -> rmatch uw fuel (XSeq (XChar k) R) (p, c :: s) = None.
Proof. intro H. unfold rmatch. cbn [mres]. unfold step1 at 1. cbn [snd atom_ok]. rewrite H. reflexivity. Qed.

Lemma char_fail fuel k p c s : N.eqb c k = false -> rmatch uw fuel (XChar k) (p, c :: s) = None.
Proof. intro H. unfold rmatch. cbn [mres]. unfold step1. cbn [snd atom_ok]. rewrite H. reflexivity. Qed.

Lemma seq_bound fuel R s : boundary uw s = true -> rmatch uw fuel (XSeq XBound R) s = rmatch uw fuel R s.
Proof. intro H. unfold rmatch. cbn [mres]. rewrite H. cbn [flat_map]. rewrite app_nil_r. reflexivity. Qed.

Lemma seq_bound_char_fail fuel k R p c s :
  N.eqb c k = false -> rmatch uw fuel (XSeq XBound (XSeq (XChar k) R)) (p, c :: s) = None.
Proof.
  intro H. unfold rmatch. cbn [mres]. destruct (boundary uw (p, c :: s)); [|reflexivity].
  cbn [flat_map]. unfold step1 at 1. cbn [snd atom_ok]. rewrite H. reflexivity.
Qed.

Lemma span_app_stop ok : forall a post, forallb ok a = true ->
  match post with c :: _ => ok c = false | [] => True end -> span ok (a ++ post) = (a, post).
Proof.
  induction a as [|x a IH]; intros post Ha Hp.
  - cbn [app]. destruct post as [|c r]; [reflexivity|]. cbn [span]. rewrite Hp. reflexivity.
  - cbn [forallb] in Ha. apply andb_true_iff in Ha. destruct Ha as [Hx Ha].
    cbn [app span]. rewrite Hx, (IH post Ha Hp). reflexivity.
Qed.

Lemma digit_is_word c : ok_digit c = true -> is_word uw c = true.
Proof.
  unfold ok_digit. cbn [atom_ok in_ranges existsb fst snd xorb]. rewrite orb_false_r. intro H.
  destruct ((48 <=? c)%N && (c <=? 57)%N) eqn:H'; [|discriminate H]. clear H. rename H' into H.
  apply andb_true_iff in H. destruct H as [H1 H2]. apply N.leb_le in H1, H2.
  unfold is_word. replace (N.ltb c 128) with true by (symmetry; apply N.ltb_lt; lia).
  unfold ascii_word. replace (N.leb 48 c) with true by (symmetry; apply N.leb_le; lia).
  replace (N.leb c 57) with true by (symmetry; apply N.leb_le; lia). reflexivity.
Qed.

Lemma lastc_digits d0 ds : ok_digit d0 = true -> forallb ok_digit ds = true ->
  exists d, lastc (Some d0) ds = Some d /\ ok_digit d = true.
Proof.
  revert d0. induction ds as [|x ds IH]; intros d0 H0 Hd; [exists d0; auto|].
  cbn [forallb] in Hd. apply andb_true_iff in Hd. destruct Hd as [Hx Hd]. cbn [lastc]. apply IH; assumption.
Qed.

Definition D : rx := XIn false [(48, 57)]%N.

Lemma seq_then fuel A B s x :
  rmatch uw fuel A s = Some x -> mres uw fuel B x = [x] -> rmatch uw fuel (XSeq A B) s = Some x.
Proof.
  unfold rmatch. intros HA HB. cbn [mres]. destruct (mres uw fuel A s) as [|y l]; [discriminate|].
  cbn [hd_error] in HA. inversion HA; subst y. cbn [flat_map]. rewrite HB. reflexivity.
Qed.

(* [0-9]+\b on a run of digits that ends at a boundary: the whole run *)
Lemma plus_digits_bound fuel q d0 ds post :
  ok_digit d0 = true -> forallb ok_digit ds = true -> word_opt uw (hd_error post) = false ->
  (length (ds ++ post) <= fuel)%nat ->
  rmatch uw fuel (XSeq (XPlus true D) XBound) (q, d0 :: ds ++ post) = Some (lastc (Some d0) ds, post).
Proof.
  intros H0 Hd Hq Hl.
  assert (Hstop : match post with c :: _ => ok_digit c = false | [] => True end).
  { destruct post as [|c r]; [exact I|]. cbn [hd_error word_opt] in Hq.
    destruct (ok_digit c) eqn:E; [|reflexivity]. rewrite (digit_is_word c E) in Hq. discriminate. }
  pose proof (class_then_greedy uw fuel D D q (d0 :: ds ++ post) eq_refl eq_refl) as K.
  cbv beta iota in K. change (atom_ok D) with ok_digit in K. rewrite H0 in K. rewrite (span_app_stop ok_digit ds post Hd Hstop) in K. cbn [fst snd] in K.
  destruct (lastc_digits d0 ds H0 Hd) as (d & Hld & Hdd).
  assert (Hb : boundary uw (lastc (Some d0) ds, post) = true).
  { rewrite Hld. unfold boundary. cbn [fst snd word_opt]. rewrite (digit_is_word d Hdd), Hq. reflexivity. }
  apply seq_then.
  - apply K. cbn [length]. lia.
  - cbn [mres]. rewrite Hb. reflexivity.
Qed.

(* t_UINT_TYPE at word boundaries: `uint` + the whole digit run *)
Theorem uint_typed fuel p d0 ds post :
  word_opt uw p = false -> word_opt uw (hd_error post) = false ->
  ok_digit d0 = true -> forallb ok_digit ds = true -> (length (ds ++ post) <= fuel)%nat ->
  exists r, first_rule uw fuel lex_rules (p, W_uint ++ d0 :: ds ++ post) = Some (r, (lastc (Some d0) ds, post))
            /\ r_name r = T_UINT_TYPE.
Proof.
  intros Hp Hq H0 Hd Hl. unfold lex_rules, W_uint. cbn [first_rule r_rx app].
  unfold rx_t_newline. rewrite char_fail by reflexivity.
  unfold rx_t_COMMENT. rewrite seq_char_fail by reflexivity.
  unfold rx_t_BOOL_TYPE. rewrite seq_bound_char_fail by reflexivity.
  unfold rx_t_UINT_TYPE.
  rewrite seq_bound by (unfold boundary; cbn [fst snd hd_error word_opt]; rewrite Hp; reflexivity).
  rewrite !seq_char. fold D. rewrite plus_digits_bound by assumption.
  eexists. split; reflexivity.
Qed.

(* t_INT_TYPE likewise *)
Theorem int_typed fuel p d0 ds post :
  word_opt uw p = false -> word_opt uw (hd_error post) = false ->
  ok_digit d0 = true -> forallb ok_digit ds = true -> (length (ds ++ post) <= fuel)%nat ->
  exists r, first_rule uw fuel lex_rules (p, W_int ++ d0 :: ds ++ post) = Some (r, (lastc (Some d0) ds, post))
            /\ r_name r = T_INT_TYPE.
Proof.
  intros Hp Hq H0 Hd Hl. unfold lex_rules, W_int. cbn [first_rule r_rx app].
  unfold rx_t_newline. rewrite char_fail by reflexivity.
  unfold rx_t_COMMENT. rewrite seq_char_fail by reflexivity.
  unfold rx_t_BOOL_TYPE. rewrite seq_bound_char_fail by reflexivity.
  unfold rx_t_UINT_TYPE. rewrite seq_bound_char_fail by reflexivity.
  unfold rx_t_INT_TYPE.
  rewrite seq_bound by (unfold boundary; cbn [fst snd hd_error word_opt]; rewrite Hp; reflexivity).
  rewrite !seq_char. fold D. rewrite plus_digits_bound by assumption.
  eexists. split; reflexivity.
Qed.

(* whole runs: an IDENTIFIER token spelled uint<digits> / int<digits> is glued to a word character *)
Theorem width_identifier_is_glued s its e rem a t lx b d0 ds :
  lex_run uw s = (its, e, rem) -> its = a ++ ITok t lx :: b ->
  cps_eqb (t_type t) T_IDENTIFIER = true ->
  (lx = W_uint ++ d0 :: ds \/ lx = W_int ++ d0 :: ds) -> ok_digit d0 = true -> forallb ok_digit ds = true ->
  word_opt uw (lastc None (items_text a)) = true \/ word_opt uw (hd_error (items_text b ++ rem)) = true.
Proof.
  intros Hrun -> Hty Hlx H0 Hd. unfold lex_run in Hrun.
  apply lex_items_origins in Hrun; [|lia]. apply origins_split in Hrun.
  destruct (word_opt uw (lastc None (items_text a))) eqn:Hp; [left; reflexivity|].
  destruct (word_opt uw (hd_error (items_text b ++ rem))) eqn:Hq; [right; reflexivity|]. exfalso.
  destruct Hrun as [(r & fuel & l' & Hin & Hfr & Hlen & Hact)|(c & fuel & Hl1 & _ & _ & Hty2 & _)].
  - assert (Hname : cps_eqb (r_name r) T_IDENTIFIER = false).
    { destruct Hlx as [-> | ->].
      - destruct (uint_typed fuel _ d0 ds _ Hp Hq H0 Hd) as (r2 & Hfr2 & Hn2).
        { unfold W_uint, W_int in Hlen. rewrite !app_length in Hlen. cbn [length] in Hlen. rewrite !app_length. lia. }
        rewrite <- app_assoc in Hfr. cbn [app] in Hfr, Hfr2. rewrite Hfr in Hfr2. inversion Hfr2; subst r2. rewrite Hn2. reflexivity.
      - destruct (int_typed fuel _ d0 ds _ Hp Hq H0 Hd) as (r2 & Hfr2 & Hn2).
        { unfold W_uint, W_int in Hlen. rewrite !app_length in Hlen. cbn [length] in Hlen. rewrite !app_length. lia. }
        rewrite <- app_assoc in Hfr. cbn [app] in Hfr, Hfr2. rewrite Hfr in Hfr2. inversion Hfr2; subst r2. rewrite Hn2. reflexivity. }
    pose proof (non_identifier_rule_type r lx (t_line t) _ _ _ Hin Hname Hact) as K. rewrite K in Hty. discriminate.
  - rewrite Hty2 in Hty. unfold T_IDENTIFIER in Hty. cbn [cps_eqb] in Hty. rewrite andb_false_r in Hty. discriminate.
Qed.

End Typed.
