(* NamesChars.v — facts about single characters, each proved by evaluating a boolean
   predicate on all 256 characters (bound: the whole type [ascii]), and the equalities that
   connect the character classes TRANSLATED from utils.py's regular expressions
   (gen/GenNames.v) with the classes the proofs reason about.  If a pattern of utils.py
   changes, the corresponding [cls_*] lemma no longer holds and the build breaks. *)
From Coq Require Import List Bool NArith Ascii String Lia Arith.
From BP Require Import NamesBase Names NamesSpec.
From BPGen Require Import GenNames.
Import ListNotations.
Open Scope list_scope.

Definition all_ascii : list ascii := map ascii_of_nat (seq 0 256).

Lemma all_ascii_complete : forall c, In c all_ascii.
Proof.
  intros c. unfold all_ascii. rewrite <- (ascii_nat_embedding c).
  apply in_map. apply in_seq. pose proof (nat_ascii_bounded c). lia.
Qed.

Lemma by_all_ascii : forall (P : ascii -> bool), forallb P all_ascii = true -> forall c, P c = true.
Proof. intros P H c. exact (proj1 (forallb_forall P all_ascii) H c (all_ascii_complete c)). Qed.

Ltac all_chars := apply by_all_ascii; vm_compute; reflexivity.

(* ---- translated classes = proof classes ------------------------------------------------ *)
Definition is_nl (c : ascii) : bool := is_chr 10 c.
Definition is_letter (c : ascii) : bool := is_upper c || is_lower c.

Lemma cls_b1_first : forall c, Bool.eqb (in_class b1_first c) (negb (is_nl c)) = true.
Proof. all_chars. Qed.
Lemma cls_b1_head : forall c, Bool.eqb (in_class b1_head c) (is_upper c) = true.
Proof. all_chars. Qed.
Lemma cls_b1_run : forall c, Bool.eqb (in_class b1_run c) (is_lower c) = true.
Proof. all_chars. Qed.
Lemma cls_b2_left : forall c, Bool.eqb (in_class b2_left c) (is_lower c || is_digit c) = true.
Proof. all_chars. Qed.
Lemma cls_b2_right : forall c, Bool.eqb (in_class b2_right c) (is_upper c) = true.
Proof. all_chars. Qed.
Lemma cls_a2d_left : forall c, Bool.eqb (in_class a2d_left c) (is_letter c) = true.
Proof. all_chars. Qed.
Lemma cls_a2d_right : forall c, Bool.eqb (in_class a2d_right c) (is_digit c) = true.
Proof. all_chars. Qed.
Lemma cls_d2a_left : forall c, Bool.eqb (in_class d2a_left c) (is_digit c) = true.
Proof. all_chars. Qed.
Lemma cls_d2a_right : forall c, Bool.eqb (in_class d2a_right c) (is_letter c) = true.
Proof. all_chars. Qed.
Lemma cls_leading : forall c, Bool.eqb (in_class leading_class c) (is_us c) = true.
Proof. all_chars. Qed.
Lemma cls_trailing : forall c, Bool.eqb (in_class trailing_class c) (is_us c) = true.
Proof. all_chars. Qed.
Lemma cls_multi : forall c, Bool.eqb (is_chr multi_char c) (is_us c) = true.
Proof. all_chars. Qed.
Lemma cls_sep : forall c, Bool.eqb (is_chr sep_char c) (is_us c) = true.
Proof. all_chars. Qed.
Lemma cls_pascal_split : forall c, Bool.eqb (is_chr pascal_split_char c) (is_us c) = true.
Proof. all_chars. Qed.
Lemma sepc_us : sepc = us.
Proof. reflexivity. Qed.
Lemma sep_char_95 : sep_char = 95%N.
Proof. reflexivity. Qed.
Lemma pascal_split_char_95 : pascal_split_char = 95%N.
Proof. reflexivity. Qed.

Lemma eqb_eq' : forall a b, Bool.eqb a b = true -> a = b.
Proof. intros a b H; apply eqb_prop; exact H. Qed.

Lemma b1_first_eq c : in_class b1_first c = negb (is_nl c). Proof. apply eqb_eq', cls_b1_first. Qed.
Lemma b1_head_eq c : in_class b1_head c = is_upper c. Proof. apply eqb_eq', cls_b1_head. Qed.
Lemma b1_run_eq c : in_class b1_run c = is_lower c. Proof. apply eqb_eq', cls_b1_run. Qed.
Lemma b2_left_eq c : in_class b2_left c = (is_lower c || is_digit c). Proof. apply eqb_eq', cls_b2_left. Qed.
Lemma b2_right_eq c : in_class b2_right c = is_upper c. Proof. apply eqb_eq', cls_b2_right. Qed.
Lemma a2d_left_eq c : in_class a2d_left c = is_letter c. Proof. apply eqb_eq', cls_a2d_left. Qed.
Lemma a2d_right_eq c : in_class a2d_right c = is_digit c. Proof. apply eqb_eq', cls_a2d_right. Qed.
Lemma d2a_left_eq c : in_class d2a_left c = is_digit c. Proof. apply eqb_eq', cls_d2a_left. Qed.
Lemma d2a_right_eq c : in_class d2a_right c = is_letter c. Proof. apply eqb_eq', cls_d2a_right. Qed.
Lemma leading_eq c : in_class leading_class c = is_us c. Proof. apply eqb_eq', cls_leading. Qed.
Lemma trailing_eq c : in_class trailing_class c = is_us c. Proof. apply eqb_eq', cls_trailing. Qed.
Lemma multi_eq c : is_chr multi_char c = is_us c. Proof. apply eqb_eq', cls_multi. Qed.
Lemma sep_eq c : is_chr sep_char c = is_us c. Proof. apply eqb_eq', cls_sep. Qed.

(* ---- disjointness and case mapping ------------------------------------------------------ *)

Lemma impl_true : forall a b : bool, implb a b = true -> a = true -> b = true.
Proof. intros [] []; simpl; congruence. Qed.

Ltac char_fact := intros c; apply impl_true; revert c; all_chars.

Lemma upper_not_lower c : is_upper c = true -> is_lower c = false.
Proof. intros H; apply negb_true_iff; revert H; revert c; char_fact. Qed.
Lemma upper_not_digit c : is_upper c = true -> is_digit c = false.
Proof. intros H; apply negb_true_iff; revert H; revert c; char_fact. Qed.
Lemma upper_not_us c : is_upper c = true -> is_us c = false.
Proof. intros H; apply negb_true_iff; revert H; revert c; char_fact. Qed.
Lemma upper_not_nl c : is_upper c = true -> is_nl c = false.
Proof. intros H; apply negb_true_iff; revert H; revert c; char_fact. Qed.
Lemma lower_not_upper c : is_lower c = true -> is_upper c = false.
Proof. intros H; apply negb_true_iff; revert H; revert c; char_fact. Qed.
Lemma lower_not_digit c : is_lower c = true -> is_digit c = false.
Proof. intros H; apply negb_true_iff; revert H; revert c; char_fact. Qed.
Lemma lower_not_us c : is_lower c = true -> is_us c = false.
Proof. intros H; apply negb_true_iff; revert H; revert c; char_fact. Qed.
Lemma lower_not_nl c : is_lower c = true -> is_nl c = false.
Proof. intros H; apply negb_true_iff; revert H; revert c; char_fact. Qed.
Lemma us_not_upper c : is_us c = true -> is_upper c = false.
Proof. intros H; apply negb_true_iff; revert H; revert c; char_fact. Qed.
Lemma us_not_lower c : is_us c = true -> is_lower c = false.
Proof. intros H; apply negb_true_iff; revert H; revert c; char_fact. Qed.
Lemma us_not_digit c : is_us c = true -> is_digit c = false.
Proof. intros H; apply negb_true_iff; revert H; revert c; char_fact. Qed.
Lemma us_not_dash c : is_us c = true -> is_chr dash_char c = false.
Proof. intros H; apply negb_true_iff; revert H; revert c; char_fact. Qed.
Lemma upper_not_dash c : is_upper c = true -> is_chr dash_char c = false.
Proof. intros H; apply negb_true_iff; revert H; revert c; char_fact. Qed.
Lemma lower_not_dash c : is_lower c = true -> is_chr dash_char c = false.
Proof. intros H; apply negb_true_iff; revert H; revert c; char_fact. Qed.
Lemma digit_not_us c : is_digit c = true -> is_us c = false.
Proof. intros H; apply negb_true_iff; revert H; revert c; char_fact. Qed.

Lemma is_us_eq c : is_us c = true -> c = us.
Proof.
  intros H. unfold is_us, is_chr, code in H. apply N.eqb_eq in H.
  rewrite <- (ascii_N_embedding c). rewrite H. reflexivity.
Qed.
Lemma is_us_us : is_us us = true.
Proof. reflexivity. Qed.

Lemma to_upper_lower_is_upper c : is_lower c = true -> is_upper (to_upper c) = true.
Proof. revert c; char_fact. Qed.
Lemma to_lower_upper_is_lower c : is_upper c = true -> is_lower (to_lower c) = true.
Proof. revert c; char_fact. Qed.
Lemma to_lower_to_upper c : is_lower c = true -> ascii_eqb (to_lower (to_upper c)) c = true.
Proof. revert c; char_fact. Qed.
Lemma to_upper_to_lower c : is_upper c = true -> ascii_eqb (to_upper (to_lower c)) c = true.
Proof. revert c; char_fact. Qed.

Lemma ascii_eqb_eq a b : ascii_eqb a b = true -> a = b.
Proof. unfold ascii_eqb. intros H. apply Ascii.eqb_eq, H. Qed.
Lemma ascii_eqb_refl a : ascii_eqb a a = true.
Proof. unfold ascii_eqb. apply Ascii.eqb_refl. Qed.

Lemma to_lower_to_upper_eq c : is_lower c = true -> to_lower (to_upper c) = c.
Proof. intros H. apply ascii_eqb_eq, to_lower_to_upper, H. Qed.
Lemma to_upper_to_lower_eq c : is_upper c = true -> to_upper (to_lower c) = c.
Proof. intros H. apply ascii_eqb_eq, to_upper_to_lower, H. Qed.

Lemma to_upper_id c : is_lower c = false -> to_upper c = c.
Proof. unfold to_upper. intros ->. reflexivity. Qed.
Lemma to_lower_id c : is_upper c = false -> to_lower c = c.
Proof. unfold to_lower. intros ->. reflexivity. Qed.

Lemma to_upper_not_us c : is_us c = false -> is_us (to_upper c) = false.
Proof. intros H. apply negb_true_iff. apply negb_true_iff in H. revert H; revert c; char_fact. Qed.
Lemma to_lower_not_us c : is_us c = false -> is_us (to_lower c) = false.
Proof. intros H. apply negb_true_iff. apply negb_true_iff in H. revert H; revert c; char_fact. Qed.
Lemma to_upper_not_lower c : is_lower (to_upper c) = false.
Proof. apply negb_true_iff. revert c. all_chars. Qed.
Lemma to_lower_not_upper c : is_upper (to_lower c) = false.
Proof. apply negb_true_iff. revert c. all_chars. Qed.
Lemma to_upper_us_iff c : is_us (to_upper c) = is_us c.
Proof. apply eqb_eq'. revert c. all_chars. Qed.
Lemma to_lower_us_iff c : is_us (to_lower c) = is_us c.
Proof. apply eqb_eq'. revert c. all_chars. Qed.

(* str_eqb decides equality *)
Lemma str_eqb_eq : forall a b, str_eqb a b = true -> a = b.
Proof.
  induction a as [|x a IH]; destruct b as [|y b]; cbn [str_eqb]; try congruence.
  intros H. apply andb_true_iff in H. destruct H as [H1 H2].
  f_equal; [apply ascii_eqb_eq, H1 | apply IH, H2].
Qed.
Lemma str_eqb_refl : forall a, str_eqb a a = true.
Proof. induction a as [|x a IH]; cbn [str_eqb]; [reflexivity|]. rewrite ascii_eqb_refl, IH. reflexivity. Qed.
