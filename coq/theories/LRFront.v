(* LRFront.v — completeness on printed trees: the token sequence of the canonical print of a
   front-end syntax tree (Front.item; printer tools/front_gen.py with trivia PLAIN: one statement
   per line, no semicolons, decimal integers, minimal parentheses) and the sequence of
   productions the LALR parser must reduce by on it (= post-order of the parse tree the
   grammar + ply's conflict resolution select).

   Productions are looked up BY CONTENT (lhs name, rhs symbol names) in the generated grammar,
   so a renumbering of the rules does not matter, a changed rule makes the lookup fail (the
   sentinel 999 never equals a production the parser reports).

   [tree_code] is evaluated by vm_compute for every generated tree of the T2 stage; the
   statement  parse (tokens_of t) = Accept (reds_of t)  for ALL trees is NOT proved (partial). *)
From Coq Require Import ZArith List Bool String Ascii Arith.
From BP Require Import Schema FrontBase Front LR LRConcrete LRCase.
From BPGen Require Import GenLR.
Import ListNotations.
Open Scope nat_scope.

(* ---- symbols and productions by name ---- *)

Local Open Scope string_scope.

Definition tk (s : string) : nat := term_id s.

(* terminals *)
Definition t_NEWLINE := Eval vm_compute in tk "NEWLINE".
Definition t_IDENT := Eval vm_compute in tk "IDENTIFIER".
Definition t_TYPE := Eval vm_compute in tk "TYPE".
Definition t_PROTO := Eval vm_compute in tk "PROTO".
Definition t_IMPORT := Eval vm_compute in tk "IMPORT".
Definition t_OPTION := Eval vm_compute in tk "OPTION".
Definition t_CONST := Eval vm_compute in tk "CONST".
Definition t_ENUM := Eval vm_compute in tk "ENUM".
Definition t_MESSAGE := Eval vm_compute in tk "MESSAGE".
Definition t_STRING := Eval vm_compute in tk "STRING_LITERAL".
Definition t_INT := Eval vm_compute in tk "INT_LITERAL".
Definition t_BOOL := Eval vm_compute in tk "BOOL_LITERAL".
Definition t_BOOLT := Eval vm_compute in tk "BOOL_TYPE".
Definition t_UINTT := Eval vm_compute in tk "UINT_TYPE".
Definition t_INTT := Eval vm_compute in tk "INT_TYPE".
Definition t_BYTET := Eval vm_compute in tk "BYTE_TYPE".
Definition t_PLUS := Eval vm_compute in tk "PLUS".
Definition t_MINUS := Eval vm_compute in tk "MINUS".
Definition t_TIMES := Eval vm_compute in tk "TIMES".
Definition t_DIVIDE := Eval vm_compute in tk "DIVIDE".
Definition t_eq := Eval vm_compute in tk "=".
Definition t_dot := Eval vm_compute in tk ".".
Definition t_colon := Eval vm_compute in tk ":".
Definition t_lb := Eval vm_compute in tk "{".
Definition t_rb := Eval vm_compute in tk "}".
Definition t_lsq := Eval vm_compute in tk "[".
Definition t_rsq := Eval vm_compute in tk "]".
Definition t_lp := Eval vm_compute in tk "(".
Definition t_rp := Eval vm_compute in tk ")".
Definition t_quote := Eval vm_compute in tk "'".

(* productions *)
Definition p_semi_e := Eval vm_compute in P "optional_semicolon" [].
Definition p_start := Eval vm_compute in P "start" ["open_global_scope"; "global_scope"; "close_global_scope"].
Definition p_open_g := Eval vm_compute in P "open_global_scope" [].
Definition p_close_g := Eval vm_compute in P "close_global_scope" [].
Definition p_gscope := Eval vm_compute in P "global_scope" ["global_scope_definitions"].
Definition p_defs_cons := Eval vm_compute in P "global_scope_definitions" ["global_scope_definition_unit"; "global_scope_definitions"].
Definition p_defs_one := Eval vm_compute in P "global_scope_definitions" ["global_scope_definition_unit"].
Definition p_defs_nil := Eval vm_compute in P "global_scope_definitions" [].
Definition p_unit (x : string) : nat := P "global_scope_definition_unit" [x].
Definition p_proto := Eval vm_compute in P "proto" ["PROTO"; "IDENTIFIER"; "optional_semicolon"].
Definition p_newline := Eval vm_compute in P "newline" ["NEWLINE"].
Definition p_import1 := Eval vm_compute in P "import" ["IMPORT"; "STRING_LITERAL"; "optional_semicolon"].
Definition p_import2 := Eval vm_compute in P "import" ["IMPORT"; "IDENTIFIER"; "STRING_LITERAL"; "optional_semicolon"].
Definition p_option := Eval vm_compute in P "option" ["OPTION"; "dotted_identifier"; "="; "option_value"; "optional_semicolon"].
Definition p_ov (x : string) : nat := P "option_value" [x].
Definition p_alias := Eval vm_compute in P "alias" ["TYPE"; "IDENTIFIER"; "="; "type"; "optional_semicolon"].
Definition p_const := Eval vm_compute in P "const" ["CONST"; "IDENTIFIER"; "="; "const_value"; "optional_semicolon"].
Definition p_cv (x : string) : nat := P "const_value" [x].
Definition p_calc (x : string) : nat := P "calculation_expression" [x].
Definition p_bin (nm tok : string) : nat := P nm ["calculation_expression"; tok; "calculation_expression"].
Definition p_group := Eval vm_compute in P "calculation_expression_group" ["("; "calculation_expression"; ")"].
Definition p_cref_calc := Eval vm_compute in P "constant_reference_for_calculation" ["constant_reference"].
Definition p_cref := Eval vm_compute in P "constant_reference" ["dotted_identifier"].
Definition p_type (x : string) : nat := P "type" [x].
Definition p_single (x : string) : nat := P "single_type" [x].
Definition p_base (x : string) : nat := P "base_type" [x].
Definition p_tref := Eval vm_compute in P "type_reference" ["dotted_identifier"].
Definition p_ext_y := Eval vm_compute in P "optional_extensible_flag" ["'"].
Definition p_ext_n := Eval vm_compute in P "optional_extensible_flag" [].
Definition p_array := Eval vm_compute in P "array_type" ["single_type"; "["; "array_capacity"; "]"; "optional_extensible_flag"].
Definition p_cap_int := Eval vm_compute in P "array_capacity" ["INT_LITERAL"].
Definition p_cap_ref := Eval vm_compute in P "array_capacity" ["constant_reference_for_array_capacity"].
Definition p_cref_cap := Eval vm_compute in P "constant_reference_for_array_capacity" ["constant_reference"].
Definition p_enum := Eval vm_compute in P "enum" ["open_enum_scope"; "enum_scope"; "close_enum_scope"].
Definition p_open_e := Eval vm_compute in P "open_enum_scope" ["ENUM"; "IDENTIFIER"; ":"; "UINT_TYPE"; "{"].
Definition p_escope := Eval vm_compute in P "enum_scope" ["enum_items"].
Definition p_close_e := Eval vm_compute in P "close_enum_scope" ["}"].
Definition p_eitems_cons := Eval vm_compute in P "enum_items" ["enum_item"; "enum_items"].
Definition p_eitems_one := Eval vm_compute in P "enum_items" ["enum_item"].
Definition p_eitems_nil := Eval vm_compute in P "enum_items" [].
Definition p_eitem (x : string) : nat := P "enum_item" [x].
Definition p_eunsup (x : string) : nat := P "enum_item_unsupported" [x].
Definition p_efield := Eval vm_compute in P "enum_field" ["IDENTIFIER"; "="; "integer_literal"; "optional_semicolon"].
Definition p_message := Eval vm_compute in P "message" ["open_message_scope"; "message_scope"; "close_message_scope"].
Definition p_open_m := Eval vm_compute in P "open_message_scope" ["MESSAGE"; "IDENTIFIER"; "optional_extensible_flag"; "{"].
Definition p_close_m := Eval vm_compute in P "close_message_scope" ["}"].
Definition p_mscope := Eval vm_compute in P "message_scope" ["message_items"].
Definition p_mitems_cons := Eval vm_compute in P "message_items" ["message_item"; "message_items"].
Definition p_mitems_one := Eval vm_compute in P "message_items" ["message_item"].
Definition p_mitems_nil := Eval vm_compute in P "message_items" [].
Definition p_mitem (x : string) : nat := P "message_item" [x].
Definition p_munsup (x : string) : nat := P "message_item_unsupported" [x].
Definition p_mfield := Eval vm_compute in P "message_field" ["type"; "message_field_name"; "="; "INT_LITERAL"; "optional_semicolon"].
Definition p_mfname (x : string) : nat := P "message_field_name" [x].
Definition p_bool_lit := Eval vm_compute in P "boolean_literal" ["BOOL_LITERAL"].
Definition p_int_lit := Eval vm_compute in P "integer_literal" ["INT_LITERAL"].
Definition p_str_lit := Eval vm_compute in P "string_literal" ["STRING_LITERAL"].
Definition p_dot_cons := Eval vm_compute in P "dotted_identifier" ["IDENTIFIER"; "."; "dotted_identifier"].
Definition p_dot_one := Eval vm_compute in P "dotted_identifier" ["IDENTIFIER"].

(* a pair: tokens, reductions *)
Definition tr : Type := (list nat * list nat)%type.
Definition cat (a b : tr) : tr := ((fst a ++ fst b)%list, (snd a ++ snd b)%list).
Definition tok (t : nat) : tr := ([t], []).
Definition red (p : nat) : tr := ([], [p]).
Fixpoint cats (l : list tr) : tr := match l with [] => ([], []) | x :: r => cat x (cats r) end.

(* ---- dotted identifiers ---- *)
Fixpoint dotted_n (k : nat) : tr :=      (* k+1 components *)
  match k with
  | O => cats [tok t_IDENT; red p_dot_one]
  | S k' => cats [tok t_IDENT; tok t_dot; dotted_n k'; red p_dot_cons]
  end.
Definition dotted (p : path) : tr := dotted_n (pred (List.length p)).

Fixpoint count_dots (s : string) : nat :=
  match s with
  | EmptyString => 0
  | String c r => (if Ascii.eqb c "."%char then 1 else 0) + count_dots r
  end.

(* ---- types ---- *)
Definition sty_tr (s : sty) : tr :=
  match s with
  | SBool => cats [tok t_BOOLT; red (p_base "BOOL_TYPE"); red (p_single "base_type")]
  | SByte => cats [tok t_BYTET; red (p_base "BYTE_TYPE"); red (p_single "base_type")]
  | SUint _ => cats [tok t_UINTT; red (p_base "UINT_TYPE"); red (p_single "base_type")]
  | SInt _ => cats [tok t_INTT; red (p_base "INT_TYPE"); red (p_single "base_type")]
  | SRef p => cats [dotted p; red p_tref; red (p_single "type_reference")]
  end.

Definition cap_tr (c : capx) : tr :=
  match c with
  | CapLit _ => cats [tok t_INT; red p_cap_int]
  | CapRef p => cats [dotted p; red p_cref; red p_cref_cap; red p_cap_ref]
  end.

Definition ext_tr (e : bool) : tr := if e then cats [tok t_quote; red p_ext_y] else red p_ext_n.

Definition tyx_tr (t : tyx) : tr :=
  match t with
  | XSingle s => cats [sty_tr s; red (p_type "single_type")]
  | XArr s c e => cats [sty_tr s; tok t_lsq; cap_tr c; tok t_rsq; ext_tr e; red p_array; red (p_type "array_type")]
  end.

(* ---- expressions (printer: front_gen.Printer.cexpr with spaces = 0) ---- *)
Definition eprec (e : cexpr) : nat :=
  match e with
  | EAdd _ _ | ESub _ _ => 1
  | EMul _ _ | EDiv _ _ => 2
  | _ => 9
  end.

Definition paren (x : tr) : tr :=
  cats [tok t_lp; x; tok t_rp; red p_group; red (p_calc "calculation_expression_group")].

Definition bin_tr (pr : nat) (tokn : nat) (nm tkname : string) (a b : cexpr) (ta tb : tr) : tr :=
  let ta' := if Nat.ltb (eprec a) pr then paren ta else ta in
  let tb' := if Nat.leb (eprec b) pr then paren tb else tb in
  cats [ta'; tok tokn; tb'; red (p_bin nm tkname); red (p_calc nm)].

Fixpoint cexpr_tr (e : cexpr) : tr :=
  match e with
  | EInt _ => cats [tok t_INT; red p_int_lit; red (p_calc "integer_literal")]
  | Front.ERef p => cats [dotted p; red p_cref; red p_cref_calc; red (p_calc "constant_reference_for_calculation")]
  | EAdd a b => bin_tr 1 t_PLUS "calculation_expression_plus" "PLUS" a b (cexpr_tr a) (cexpr_tr b)
  | ESub a b => bin_tr 1 t_MINUS "calculation_expression_minus" "MINUS" a b (cexpr_tr a) (cexpr_tr b)
  | EMul a b => bin_tr 2 t_TIMES "calculation_expression_times" "TIMES" a b (cexpr_tr a) (cexpr_tr b)
  | EDiv a b => bin_tr 2 t_DIVIDE "calculation_expression_divide" "DIVIDE" a b (cexpr_tr a) (cexpr_tr b)
  end.

Definition cvalx_tr (v : cvalx) : tr :=
  match v with
  | CBool _ => cats [tok t_BOOL; red p_bool_lit; red (p_cv "boolean_literal")]
  | CStr _ => cats [tok t_STRING; red p_str_lit; red (p_cv "string_literal")]
  | CRef p => cats [dotted p; red p_cref; red (p_cv "constant_reference")]
  | CExpr (Front.ERef p) => cats [paren (cexpr_tr (Front.ERef p)); red (p_cv "calculation_expression")]
  | CExpr e => cats [cexpr_tr e; red (p_cv "calculation_expression")]
  end.

Definition optx_tr (v : optx) : tr :=
  match v with
  | OLit (CVBool _) => cats [tok t_BOOL; red p_bool_lit; red (p_ov "boolean_literal")]
  | OLit (CVInt _) => cats [tok t_INT; red p_int_lit; red (p_ov "integer_literal")]
  | OLit (CVStr _) => cats [tok t_STRING; red p_str_lit; red (p_ov "string_literal")]
  | ORef p => cats [dotted p; red p_cref; red (p_ov "constant_reference")]
  end.

(* ---- items ---- *)
Inductive scope := ScGlobal | ScMsg | ScEnum.

(* how a finished statement of a kind is wrapped in a scope *)
Definition wrap (sc : scope) (kind : string) : tr :=
  match sc with
  | ScGlobal => red (p_unit kind)
  | ScMsg =>
    if (String.eqb kind "option" || String.eqb kind "enum" || String.eqb kind "message_field"
        || String.eqb kind "message")%bool
    then red (p_mitem kind)
    else cats [red (p_munsup kind); red (p_mitem "message_item_unsupported")]
  | ScEnum =>
    if String.eqb kind "enum_field" then red (p_eitem "enum_field")
    else cats [red (p_eunsup kind); red (p_eitem "enum_item_unsupported")]
  end.

Definition newline_unit (sc : scope) : tr :=
  cats [tok t_NEWLINE; red p_newline;
        match sc with
        | ScGlobal => red (p_unit "newline")
        | ScMsg => red (p_mitem "newline")
        | ScEnum => red (p_eitem "newline")
        end].

(* a right-recursive list  x x x ... : k >= 1 elements already emitted *)
Definition close_list (one cons nil : nat) (k : nat) : tr :=
  match k with
  | O => red nil
  | S k' => ([], one :: repeat cons k')
  end.

Definition field_name_tr (nm : string) : tr :=
  if String.eqb nm "type" then cats [tok t_TYPE; red (p_mfname "TYPE")]
  else cats [tok t_IDENT; red (p_mfname "IDENTIFIER")].

Fixpoint item_tr (sc : scope) (it : item) {struct it} : tr :=
  let body :=
    fix body (sc' : scope) (l : list item) {struct l} : tr * nat :=
      match l with
      | [] => (([], []), 0)
      | x :: r => let (t, k) := body sc' r in (cats [item_tr sc' x; newline_unit sc'; t], S (S k))
      end in
  match it with
  | IProto _ _ => cats [tok t_PROTO; tok t_IDENT; red p_semi_e; red p_proto; wrap sc "proto"]
  | IImport _ None _ => cats [tok t_IMPORT; tok t_STRING; red p_semi_e; red p_import1; wrap sc "import"]
  | IImport _ (Some _) _ =>
    cats [tok t_IMPORT; tok t_IDENT; tok t_STRING; red p_semi_e; red p_import2; wrap sc "import"]
  | IOption _ nm v =>
    cats [tok t_OPTION; dotted_n (count_dots nm); tok t_eq; optx_tr v; red p_semi_e; red p_option; wrap sc "option"]
  | IConst _ _ v => cats [tok t_CONST; tok t_IDENT; tok t_eq; cvalx_tr v; red p_semi_e; red p_const; wrap sc "const"]
  | IAlias _ _ t => cats [tok t_TYPE; tok t_IDENT; tok t_eq; tyx_tr t; red p_semi_e; red p_alias; wrap sc "alias"]
  | IEnum _ _ _ b =>
    let (t, k) := body ScEnum b in
    cats [tok t_ENUM; tok t_IDENT; tok t_colon; tok t_UINTT; tok t_lb; red p_open_e;
          newline_unit ScEnum; t; close_list p_eitems_one p_eitems_cons p_eitems_nil (S k); red p_escope;
          tok t_rb; red p_close_e; red p_enum; wrap sc "enum"]
  | IMsg _ _ e b =>
    let (t, k) := body ScMsg b in
    cats [tok t_MESSAGE; tok t_IDENT; ext_tr e; tok t_lb; red p_open_m;
          newline_unit ScMsg; t; close_list p_mitems_one p_mitems_cons p_mitems_nil (S k); red p_mscope;
          tok t_rb; red p_close_m; red p_message; wrap sc "message"]
  | IField _ t nm _ =>
    cats [tyx_tr t; field_name_tr nm; tok t_eq; tok t_INT; red p_semi_e; red p_mfield; wrap sc "message_field"]
  | IEnumField _ _ _ => cats [tok t_IDENT; tok t_eq; tok t_INT; red p_int_lit; red p_semi_e; red p_efield; wrap sc "enum_field"]
  end.

Fixpoint file_body (l : list item) : tr * nat :=
  match l with
  | [] => (([], []), 0)
  | x :: r => let (t, k) := file_body r in (cats [item_tr ScGlobal x; newline_unit ScGlobal; t], S (S k))
  end.

(* an empty item list prints as one empty line *)
Definition file_tr (l : list item) : tr :=
  let (t, k) := match l with [] => (newline_unit ScGlobal, 1) | _ => file_body l end in
  cats [red p_open_g; t; close_list p_defs_one p_defs_cons p_defs_nil k; red p_gscope; red p_close_g; red p_start].

Definition tokens_of (l : list item) : list nat := fst (file_tr l).
Definition reds_of (l : list item) : list nat := snd (file_tr l).

(* T2: a generated tree, the token types the REAL lexer produced for its canonical print and
   the productions the REAL parser reduced by.
   bit 0: tokens_of differs from the real lexer's output (tie of the printers);
   bit 1: the model parser does not accept tokens_of with reds_of (completeness, per case);
   bit 2: the real parser's reductions differ from reds_of (the implementation does not
          build the documented tree: PROPERTY) *)
Definition tree_code (c : list item * (list nat * obs)) : nat :=
  let '(l, (types, o)) := c in
  (if list_nat_eqb (tokens_of l) types then 0 else 1)
  + (if obs_eqb (model_obs (tokens_of l)) (0, 0, 0, reds_of l) then 0 else 2)
  + (if obs_eqb o (0, 0, 0, reds_of l) then 0 else 4).

Definition tree_code_N (c : list item * (list N * obsN)) : nat :=
  let '(l, (types, o)) := c in tree_code (l, (map N.to_nat types, obs_of_N o)).
