(* PyDecTop.v — top-level statements for C02: decode(encode(v)) is v (field by field, in
   schema order), re-encoding reproduces the bytes, neither direction raises. *)
From Coq Require Import ZArith List Bool Lia ZifyBool.
From BP Require Import Bits Schema Spec PyRt Eqb ByteStep PyEncStep PyEncProofs PyEncTop
                       PyDecStep PyDecLeaf PyDecProofs.
From BPGen Require Import GenPy.
Import ListNotations.
Open Scope Z_scope.

(* ---------- the top-level call (NIL data indexer) from the nested-position lemma ---------- *)

Lemma top_from_nested x fs R s X :
  p_dec (proc_of (TMsg x fs)) (cls_of [(1, TMsg x fs)]) (VM [(1, py_default (TMsg x fs))]) 1 []
        {| cs := s; ci := 0 |} = Ok (VM [(1, R)], X) ->
  p_dec (proc_of (TMsg x fs)) nil_cls (py_default (TMsg x fs)) (-1) [] {| cs := s; ci := 0 |} =
  Ok (R, X).
Proof.
  rewrite proc_of_msg, !p_dec_msg. cbn zeta.
  change (di_is_valid 1) with true. change (di_is_valid (-1)) with false. cbv iota.
  change (get_accessor (cls_of [(1, TMsg x fs)]) (VM [(1, py_default (TMsg x fs))]) 1 [])
    with (Ok (py_default (TMsg x fs))).
  cbn [bind].
  destruct (if x then dec_ahead {| cs := s; ci := 0 |} else Ok (0, {| cs := s; ci := 0 |})) as [r0|e];
    [|discriminate].
  cbn [bind].
  destruct (p_dec_fields (cls_of fs) (map_proc fs) (py_default (TMsg x fs)) (snd r0)) as [r|e];
    [|discriminate].
  cbn [bind].
  change (put_accessor (cls_of [(1, TMsg x fs)]) (VM [(1, py_default (TMsg x fs))]) 1 [] (fst r))
    with (Ok (VM [(1, fst r)])).
  cbn [bind]. intros H. injection H as H1 H2. rewrite H1, <- H2. reflexivity.
Qed.

Definition is_msg := PyEncTop.is_msg.

Theorem py_decode_wire t v :
  is_msg t = true -> wf (norm t) = true -> dec_guard (norm t) = true -> has_ty (norm t) v = true ->
  py_decode t (wire t v) = Ok (canon (norm t) v).
Proof.
  intros Hm Hw Hg Ht. unfold py_decode, py_decode_proc.
  set (T := norm t) in *.
  assert (HT : exists x fs, T = TMsg x fs).
  { subst T. destruct t; try discriminate. cbn [norm]. eauto. }
  destruct HT as (x & fs & ET).
  pose proof (nbits_nonneg T Hw) as Hnn.
  pose proof (wire_length t v Hw Ht) as Hlen. fold T in Hlen.
  replace (Z.of_nat (length (wire t v)) <? nbytes t) with false.
  2:{ symmetry. apply Z.ltb_ge. rewrite Hlen. unfold nbytes. lia. }
  assert (Hlen8 : nbits T <= 8 * Z.of_nat (length (wire t v))).
  { rewrite Hlen. unfold T. rewrite nbits_norm. pose proof (Z.div_mod (nbits t + 7) 8 ltac:(lia)).
    pose proof (Z.mod_pos_bound (nbits t + 7) 8 ltac:(lia)). lia. }
  assert (Hslice : slice (wire t v) 0 (nbits T) = Z_of_bits (enc_bits T v)).
  { unfold slice, wire. fold T. rewrite bufZ_pack. change (2 ^ 0) with 1. rewrite Z.div_1_r.
    apply Z.mod_small. pose proof (Z_of_bits_range (enc_bits T v)) as Hr.
    rewrite (enc_bits_length T v Hw Ht) in Hr. exact Hr. }
  pose proof (dec_ok_all T (cls_of [(1, T)]) [(1, py_default T)] 1 [] (py_default T) v (wire t v) 0
                         Hw Hg Ht) as H.
  rewrite ET in *.
  rewrite (top_from_nested x fs (canon (TMsg x fs) v) (wire t v) {| cs := wire t v; ci := 0 + nbits (TMsg x fs) |}).
  - reflexivity.
  - apply H; try lia; try reflexivity; try apply pack_bytes_ok; try exact Hslice.
    apply (dreach_field [(1, TMsg x fs)] 1 (TMsg x fs)); [reflexivity|now left].
Qed.

(* ---------- canon v is v, field by field ---------- *)

Lemma lookup_canon_fields v fs k ft :
  keys_distinct (map fst fs) = true -> In (k, ft) fs ->
  lookup k (canon_fields v fs) = Some (canon ft (vfield k v)).
Proof.
  induction fs as [|h r IH]; intros Hd Hin; [destruct Hin|].
  cbn [map keys_distinct] in Hd. rewrite andb_true_iff in Hd. destruct Hd as [Hn Hd].
  cbn [canon_fields lookup fst snd]. destruct Hin as [->|Hin].
  - cbn [fst snd]. now rewrite Z.eqb_refl.
  - destruct (fst h =? k) eqn:E.
    + exfalso. apply Z.eqb_eq in E. rewrite negb_true_iff in Hn.
      assert (existsb (Z.eqb (fst h)) (map fst r) = true).
      { apply existsb_exists. exists k. split; [|lia]. apply in_map_iff. exists (k, ft). auto. }
      congruence.
    + apply IH; assumption.
Qed.

Lemma canon_leaf_enc t v : is_leaf t = true -> has_ty t v = true -> enc_bits t (canon t v) = enc_bits t v.
Proof. destruct t, v; cbn; intros; try discriminate; reflexivity. Qed.

Theorem enc_bits_canon t : forall v,
  wf t = true -> has_ty t v = true -> enc_bits t (canon t v) = enc_bits t v.
Proof.
  induction t as [| | n | n | n ms | t IH | x c e IH | x fs IH] using ty_ind'; intros v Hw Ht;
    try (apply canon_leaf_enc; [reflexivity|assumption]).
  - cbn [enc_bits canon wf has_ty] in *. apply IH; assumption.
  - cbn [enc_bits canon wf has_ty vlist] in *.
    rewrite !andb_true_iff in Hw. destruct Hw as [_ He].
    destruct v as [?|?|l|?]; try discriminate.
    rewrite andb_true_iff in Ht. destruct Ht as [_ Hall]. rewrite forallb_forall in Hall.
    cbn [vlist]. f_equal. rewrite flat_map_concat_map, map_map, <- flat_map_concat_map.
    clear - IH He Hall. induction l as [|a r IHl]; [reflexivity|].
    cbn [flat_map]. rewrite IH by (try assumption; apply Hall; now left).
    f_equal. apply IHl. intros y Hy. apply Hall. now right.
  - rewrite canon_msg, !enc_bits_msg. f_equal.
    rewrite wf_msg in Hw. rewrite !andb_true_iff in Hw. destruct Hw as [[Hd _] Hfw].
    destruct v as [?|?|?|vvs]; try discriminate. rewrite has_ty_msg in Ht.
    assert (G : forall l, (forall kf, In kf l -> In kf fs) -> fields_wf l = true ->
                          fields_has_ty vvs l = true ->
                          Forall (fun kf => forall v, wf (snd kf) = true -> has_ty (snd kf) v = true ->
                                     enc_bits (snd kf) (canon (snd kf) v) = enc_bits (snd kf) v) l ->
                          fields_bits (VM (canon_fields (VM vvs) fs)) l = fields_bits (VM vvs) l).
    { induction l as [|kf r IHl]; intros Hsub Hlw Hlt HF; [reflexivity|].
      inversion HF as [|? ? Hk HFr]; subst.
      cbn [fields_wf fields_has_ty] in Hlw, Hlt.
      rewrite !andb_true_iff in Hlw. rewrite !andb_true_iff in Hlt.
      destruct Hlw as [[[_ _] Hwk] Hwr]. destruct Hlt as [Htk Htr].
      cbn [fields_bits]. rewrite IHl; try assumption.
      2:{ intros kf' Hin'. apply Hsub. now right. }
      f_equal. destruct kf as [k ft]. cbn [fst snd] in *.
      unfold vfield at 1.
      rewrite (lookup_canon_fields (VM vvs) fs k ft Hd) by (apply Hsub; now left).
      apply Hk; [assumption|]. unfold vfield. destruct (lookup k vvs); [assumption|discriminate]. }
    apply G; auto.
Qed.

Theorem has_ty_canon t : forall v,
  wf t = true -> has_ty t v = true -> has_ty t (canon t v) = true.
Proof.
  induction t as [| | n | n | n ms | t IH | x c e IH | x fs IH] using ty_ind'; intros v Hw Ht;
    try (destruct v; cbn in *; try discriminate; assumption).
  - cbn [canon wf has_ty] in *. apply IH; assumption.
  - cbn [canon wf has_ty] in *.
    rewrite !andb_true_iff in Hw. destruct Hw as [_ He].
    destruct v as [?|?|l|?]; try discriminate.
    rewrite andb_true_iff in Ht. destruct Ht as [Hlen Hall]. rewrite forallb_forall in Hall.
    cbn [vlist]. rewrite map_length, Hlen. cbn [andb].
    apply forallb_forall. intros y Hy. apply in_map_iff in Hy. destruct Hy as (a & <- & Ha).
    apply IH; [assumption|now apply Hall].
  - rewrite canon_msg, has_ty_msg.
    rewrite wf_msg in Hw. rewrite !andb_true_iff in Hw. destruct Hw as [[Hd _] Hfw].
    destruct v as [?|?|?|vvs]; try discriminate. rewrite has_ty_msg in Ht.
    assert (G : forall l, (forall kf, In kf l -> In kf fs) -> fields_wf l = true ->
                          fields_has_ty vvs l = true ->
                          Forall (fun kf => forall v, wf (snd kf) = true -> has_ty (snd kf) v = true ->
                                     has_ty (snd kf) (canon (snd kf) v) = true) l ->
                          fields_has_ty (canon_fields (VM vvs) fs) l = true).
    { induction l as [|kf r IHl]; intros Hsub Hlw Hlt HF; [reflexivity|].
      inversion HF as [|? ? Hk HFr]; subst.
      cbn [fields_wf fields_has_ty] in Hlw, Hlt.
      rewrite !andb_true_iff in Hlw. rewrite !andb_true_iff in Hlt.
      destruct Hlw as [[[_ _] Hwk] Hwr]. destruct Hlt as [Htk Htr].
      cbn [fields_has_ty]. rewrite IHl; try assumption.
      2:{ intros kf' Hin'. apply Hsub. now right. }
      rewrite andb_true_r. destruct kf as [k ft]. cbn [fst snd] in *.
      rewrite (lookup_canon_fields (VM vvs) fs k ft Hd) by (apply Hsub; now left).
      apply Hk; [assumption|]. unfold vfield. destruct (lookup k vvs); [assumption|discriminate]. }
    apply G; auto.
Qed.

Lemma val_sim_leaf t v : is_leaf t = true -> has_ty t v = true -> val_sim t (canon t v) v = true.
Proof.
  destruct t, v; cbn; intros; try discriminate; try apply Z.eqb_refl.
  destruct b; reflexivity.
Qed.

Theorem val_sim_canon t : forall v,
  wf t = true -> has_ty t v = true -> val_sim t (canon t v) v = true.
Proof.
  induction t as [| | n | n | n ms | t IH | x c e IH | x fs IH] using ty_ind'; intros v Hw Ht;
    try (apply val_sim_leaf; [reflexivity|assumption]).
  - cbn [canon wf has_ty val_sim] in *. apply IH; assumption.
  - cbn [canon wf has_ty val_sim] in *.
    rewrite !andb_true_iff in Hw. destruct Hw as [_ He].
    destruct v as [?|?|l|?]; try discriminate.
    rewrite andb_true_iff in Ht. destruct Ht as [_ Hall]. rewrite forallb_forall in Hall.
    cbn [vlist]. clear - IH He Hall. induction l as [|a r IHl]; [reflexivity|].
    cbn [map]. rewrite IH by (try assumption; apply Hall; now left). cbn [andb].
    apply IHl. intros y Hy. apply Hall. now right.
  - rewrite canon_msg.
    rewrite wf_msg in Hw. rewrite !andb_true_iff in Hw. destruct Hw as [[Hd _] Hfw].
    destruct v as [?|?|?|vvs]; try discriminate. rewrite has_ty_msg in Ht.
    cbn [val_sim].
    assert (G : forall l, (forall kf, In kf l -> In kf fs) -> fields_wf l = true ->
                          fields_has_ty vvs l = true ->
                          Forall (fun kf => forall v, wf (snd kf) = true -> has_ty (snd kf) v = true ->
                                     val_sim (snd kf) (canon (snd kf) v) v = true) l ->
                (fix go (l : list (Z * ty)) : bool :=
                   match l with
                   | [] => true
                   | kf :: r =>
                       match lookup (fst kf) (canon_fields (VM vvs) fs), lookup (fst kf) vvs with
                       | Some x, Some y => val_sim (snd kf) x y
                       | _, _ => false
                       end && go r
                   end) l = true).
    { induction l as [|kf r IHl]; intros Hsub Hlw Hlt HF; [reflexivity|].
      inversion HF as [|? ? Hk HFr]; subst.
      cbn [fields_wf fields_has_ty] in Hlw, Hlt.
      rewrite !andb_true_iff in Hlw. rewrite !andb_true_iff in Hlt.
      destruct Hlw as [[[_ _] Hwk] Hwr]. destruct Hlt as [Htk Htr].
      rewrite IHl; try assumption.
      2:{ intros kf' Hin'. apply Hsub. now right. }
      rewrite andb_true_r. destruct kf as [k ft]. cbn [fst snd] in *.
      rewrite (lookup_canon_fields (VM vvs) fs k ft Hd) by (apply Hsub; now left).
      unfold vfield. destruct (lookup k vvs) as [fv|]; [|discriminate].
      apply Hk; assumption. }
    apply G; auto.
Qed.

(* ---------- re-encoding the decoded message reproduces the bytes ---------- *)

Theorem py_reencode t v :
  is_msg t = true -> wf (norm t) = true -> has_ty (norm t) v = true ->
  py_encode t (canon (norm t) v) = Ok (wire t v).
Proof.
  intros Hm Hw Ht.
  rewrite (py_encode_is_wire t _ Hm Hw (has_ty_canon _ v Hw Ht)).
  unfold wire. now rewrite (enc_bits_canon _ v Hw Ht).
Qed.

Lemma roundtrip_all t v :
  PyEncTop.is_msg t = true -> wf (norm t) = true -> dec_guard (norm t) = true ->
  has_ty (norm t) v = true ->
  exists b v',
    py_encode t v = Ok b /\ py_decode t b = Ok v' /\
    val_sim (norm t) v' v = true /\ py_encode t v' = Ok b.
Proof.
  intros Hm Hw Hg Ht. exists (wire t v), (canon (norm t) v). repeat split.
  - now apply py_encode_is_wire.
  - now apply py_decode_wire.
  - now apply val_sim_canon.
  - now apply py_reencode.
Qed.


(* ---------- the excluded region is exactly the known finding ---------- *)

Definition ex_enum_default : ty := TMsg false [(1, TEnum 2 [1; 0])].
Lemma enum_default_refuted :
  exists t v, is_msg t = true /\ wf (norm t) = true /\ has_ty (norm t) v = true /\
              dec_guard (norm t) = false /\
              py_decode t (wire t v) = Ok (VM [(1, VZ 1)]) /\ v = VM [(1, VZ 0)].
Proof. exists ex_enum_default, (VM [(1, VZ 0)]). vm_compute. repeat split; reflexivity. Qed.
