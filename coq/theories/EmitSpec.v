(* EmitSpec.v — what the front end guarantees about an elaborated schema ([wf]), the
   property's own precondition ([pre]: generated base names distinct after flattening and
   case conversion, not reserved), and the guards that delimit the regions in which the
   faithful model REFUTES the property on the current tree (DESIGN §5 keys in brackets). *)
From Coq Require Import String Ascii List ZArith Bool Arith.
From BP Require Import EmitBase EmitNames Emit.
From BPGen Require Import GenC10.
Import ListNotations.
Open Scope string_scope.
Open Scope list_scope.
Open Scope nat_scope.

(* ---- references of a definition ---- *)
Fixpoint ty_refs (t : tyx) : list ref :=
  match t with TBase _ => [] | TRef r => [r] | TArr e _ _ => ty_refs e end.
Definition def_refs (d : def) : list ref :=
  match d with
  | DAlias _ t => ty_refs t
  | DMsg _ _ _ fs => flat_map (fun fl => ty_refs (fl_ty fl)) fs
  | _ => []
  end.

(* follow a chain of import member names *)
Fixpoint follow (s : schema) (i : nat) (via : list string) : option nat :=
  match via with
  | [] => Some i
  | m :: r => match find (fun mj => String.eqb (fst mj) m) (f_imports (getf s i)) with
              | Some mj => follow s (snd mj) r
              | None => None
              end
  end.

Definition targets (r : ref) (fd : fdef) : bool := fdef_is (r_k r) (r_path r) (r_name r) fd.

(* a reference written without an import chain resolves to a definition of the same file that
   is COMPLETE at that point (parser.py: a scope is pushed into its parent when it closes,
   _lookup_referenced_member only sees members already pushed) = earlier in Scope.filter
   order; a reference through imports resolves to a definition of the file the chain leads to *)
Definition ref_wf (s : schema) (i : nat) (seen : list fdef) (r : ref) : bool :=
  match r_via r with
  | [] => (r_file r =? i) && existsb (targets r) seen
  | via => match follow s i via with
           | Some j => (r_file r =? j) && negb (j =? i) && existsb (targets r) (flat_file (getf s j))
           | None => false
           end
  end.

Fixpoint refs_wf (s : schema) (i : nat) (seen : list fdef) (l : list fdef) : bool :=
  match l with
  | [] => true
  | fd :: r => forallb (ref_wf s i seen) (def_refs (fd_def fd)) && refs_wf s i (seen ++ [fd]) r
  end.

Fixpoint nodup_str (l : list string) : bool :=
  match l with [] => true | x :: r => negb (existsb (String.eqb x) r) && nodup_str r end.

Definition file_wf (s : schema) (i : nat) : bool :=
  let f := getf s i in
  forallb (fun mj => (snd mj <? length s) && negb (snd mj =? i) && negb (String.eqb (fst mj) "")) (f_imports f) &&
  nodup_str (map fst (f_imports f)) &&
  refs_wf s i [] (flat_file f).

(* field numbers of a message are distinct (DuplicatedMessageFieldNumber) *)
Definition fields_wf (s : schema) (i : nat) : bool :=
  forallb (fun fd => match fd_def fd with
                     | DMsg _ _ _ fs => nodup_str (map (fun fl => dec (fl_num fl)) fs)
                     | _ => true end) (flat_file (getf s i)).

(* options of an accepted file pass their validators (options.py, translated into gen/GenC10.v) *)
Definition opts_wf (s : schema) (i : nat) : bool := align_valid (o_calign (f_opts (getf s i))).

Definition wf (s : schema) : bool :=
  forallb (fun i => file_wf s i && fields_wf s i && opts_wf s i) (seq 0 (length s)).

(* ---- the property's precondition ---- *)
Definition ns_macro (L : lang) : ns := match L with LC => NsMacro | _ => NsMod end.
Definition ns_ord (L : lang) : ns := match L with LC => NsOrd | _ => NsMod end.
Definition ns_tag (L : lang) : ns := match L with LC => NsTag | _ => NsMod end.

(* the name of the primary declaration(s) of a definition *)
Definition base_keys (L : lang) (px : string) (fd : fdef) : list key :=
  let pth := fd_path fd in
  match fd_def fd with
  | DConst n _ => [(ns_macro L, dname L KConstant px pth n)]
  | DAlias n _ => [(ns_ord L, dname L KAlias px pth n)]
  | DEnum n _ ms => (ns_ord L, dname L KEnum px pth n)
                    :: map (fun m => (ns_macro L, dname L KEnumField px pth (fst m))) ms
  | DMsg n _ _ _ => [(ns_tag L, dname L KMessage px pth n)]
  end.

Definition file_base_keys (L : lang) (s : schema) (i : nat) : list key :=
  flat_map (base_keys L (own_px s i L)) (flat_file (getf s i)).

Definition msg_names (L : lang) (s : schema) (i : nat) : list string :=
  flat_map (fun fd => match fd_def fd with
                      | DMsg n _ _ _ => [dname L KMessage (own_px s i L) (fd_path fd) n]
                      | _ => [] end) (flat_file (getf s i)).
Definition enum_names (L : lang) (s : schema) (i : nat) : list string :=
  flat_map (fun fd => match fd_def fd with
                      | DEnum n _ _ => [dname L KEnum (own_px s i L) (fd_path fd) n]
                      | _ => [] end) (flat_file (getf s i)).
Definition alias_names (L : lang) (s : schema) (i : nat) : list string :=
  flat_map (fun fd => match fd_def fd with
                      | DAlias n _ => [dname L KAlias (own_px s i L) (fd_path fd) n]
                      | _ => [] end) (flat_file (getf s i)).
Definition array_alias_names (L : lang) (s : schema) (i : nat) : list string :=
  flat_map (fun fd => match fd_def fd with
                      | DAlias n t => if is_arr t then [dname L KAlias (own_px s i L) (fd_path fd) n] else []
                      | _ => [] end) (flat_file (getf s i)).

(* reserved words: language keywords and the identifiers the generated code / runtime use *)
Definition reserved (L : lang) : list string :=
  match L with
  | LC => ["auto";"break";"case";"char";"const";"continue";"default";"do";"double";"else";"enum";"extern";"float";
           "for";"goto";"if";"inline";"int";"long";"register";"restrict";"return";"short";"signed";"sizeof";
           "static";"struct";"switch";"typedef";"union";"unsigned";"void";"volatile";"while";"bool";"true";"false";
           (* C++ (the header is included from C++) *)
           "class";"new";"delete";"this";"template";"namespace";"private";"public";"protected";"virtual";"friend";
           "operator";"try";"catch";"throw";"using";"and";"or";"not";"xor";"asm";"export";"typename";"mutable";
           "explicit";"bitand";"bitor";"compl";"not_eq";"or_eq";"xor_eq";"and_eq";"nullptr";"constexpr";
           "decltype";"noexcept";"static_assert";"thread_local";"alignas";"alignof";"char16_t";"char32_t";"wchar_t";
           "int8_t";"int16_t";"int32_t";"int64_t";"uint8_t";"uint16_t";"uint32_t";"uint64_t";"size_t";"NULL"]
  | LPy => ["False";"None";"True";"and";"as";"assert";"async";"await";"break";"class";"continue";"def";"del";"elif";
            "else";"except";"finally";"for";"from";"global";"if";"import";"in";"is";"lambda";"nonlocal";"not";"or";
            "pass";"raise";"return";"try";"while";"with";"yield";"_";
            (* names the generated module / class body itself uses *)
            "field";"json";"bp";"dataclass";"ClassVar";"Dict";"List";"Union";"IntEnum";"unique";"int";"bool";
            "str";"bytearray";"property";"isinstance";"getattr";"range";"len";"BYTES_LENGTH";"encode";"decode";
            "bp_processor";"bp_set_byte";"bp_get_byte";"bp_get_accessor";"bp_process_int";"dict_factory";
            "to_dict";"to_json"]
  | LGo => ["break";"default";"func";"interface";"select";"case";"defer";"go";"map";"struct";"chan";"else";"goto";
            "package";"switch";"const";"fallthrough";"if";"range";"type";"continue";"for";"import";"return";"var";
            "bool";"byte";"error";"int";"int8";"int16";"int32";"int64";"uint";"uint8";"uint16";"uint32";"uint64";
            "uintptr";"string";"rune";"true";"false";"nil";"iota";"len";"cap";"make";"new";"append";"copy";"panic";
            "bp";"json";"strconv";"formatInt";"jsonMarshal";"Size";"String";"Encode";"Decode";"BpProcessor";
            "BpGetAccessor";"BpSetByte";"BpGetByte";"BpProcessInt"]
  end.
Definition is_reserved (L : lang) (x : string) : bool := existsb (String.eqb x) (reserved L).

Definition field_names_ok (L : lang) (fd : fdef) : bool :=
  match fd_def fd with
  | DMsg _ _ _ fs =>
      let ns := map (fun fl => conv L KMessageField (fl_name fl)) fs in
      nodup_str ns && forallb (fun x => negb (is_reserved L x)) ns
  | _ => true
  end.

(* size-constant stems (C macro BYTES_LENGTH_x, Go const) and Python value-map names are
   derived through a further case conversion that must stay injective *)
Definition derived_stems (L : lang) (s : schema) (i : nat) : list string :=
  match L with
  | LPy => map upper_case (enum_names L s i)
  | _ => map (fun m => upper_case (snake_case m)) (msg_names L s i)
  end.

(* names from which function names are derived: aliases and messages share the C function name
   space although typedef names and struct tags do not *)
Definition fn_stems (L : lang) (s : schema) (i : nat) : list string :=
  flat_map (fun fd => match fd_def fd with
                      | DAlias n _ => [dname L KAlias (own_px s i L) (fd_path fd) n]
                      | DMsg n _ _ _ => [dname L KMessage (own_px s i L) (fd_path fd) n]
                      | _ => [] end) (flat_file (getf s i)).

Definition pre (L : lang) (s : schema) (i : nat) : bool :=
  nodup_keys (file_base_keys L s i) &&
  nodup_str (derived_stems L s i) &&
  nodup_str (fn_stems L s i) &&
  forallb (fun k => negb (is_reserved L (snd k))) (file_base_keys L s i) &&
  forallb (field_names_ok L) (flat_file (getf s i)).

(* ---- guards = complements of the refuted regions ---- *)

Fixpoint last_char (s : string) : option ascii :=
  match s with
  | EmptyString => None
  | String c EmptyString => Some c
  | String _ r => last_char r
  end.
Definition digit_tail (s : string) : bool :=
  match last_char s with Some c => is_digit c | None => false end.

Fixpoint starts_with (p s : string) : bool :=
  match p, s with
  | EmptyString, _ => true
  | String a p', String b s' => Ascii.eqb a b && starts_with p' s'
  | _, _ => false
  end.
Definition starts_any (ps : list string) (x : string) : bool := existsb (fun p => starts_with p x) ps.

(* [helper-collision]: C helper names concatenate message name and field number *)
Definition g_helper (s : schema) (i : nat) : bool :=
  forallb (fun x => negb (digit_tail x)) (msg_names LC s i ++ array_alias_names LC s i).

(* [derived-name-collision]: generated names are a fixed prefix + a user name *)
Definition c_ord_prefixes : list string := ["Encode"; "Decode"; "Json"; "Bp"].
Definition g_derived (L : lang) (s : schema) (i : nat) : bool :=
  match L with
  | LC =>
      forallb (fun x => negb (starts_any c_ord_prefixes x)) (alias_names LC s i ++ enum_names LC s i) &&
      forallb (fun x => negb (starts_with "Array" x)) (msg_names LC s i ++ alias_names LC s i) &&
      forallb (fun k => match fst k with
                        | NsMacro => negb (starts_any ["BYTES_LENGTH_"; "__BITPROTO__"; "BITPROTO_"] (snd k))
                        | _ => true end) (file_base_keys LC s i)
  | LPy => forallb (fun k => negb (starts_any ["bp_"; "_"] (snd k))) (file_base_keys LPy s i)
  | LGo => forallb (fun k => negb (starts_any ["BYTES_LENGTH_"] (snd k))) (file_base_keys LGo s i)
  end.

Definition file_refs (s : schema) (i : nat) : list ref :=
  flat_map (fun fd => def_refs (fd_def fd)) (flat_file (getf s i)).

(* [py-nested-import]: a definition of another file is qualified only when it is a top-level
   definition of a DIRECTLY imported file *)
Definition direct_ref (r : ref) : bool :=
  match r_via r with
  | [] => true
  | [_] => match r_path r with [] => true | _ => false end
  | _ => false
  end.
Definition single_hop (r : ref) : bool := length (r_via r) <=? 1.
Definition g_qualify (L : lang) (s : schema) (i : nat) : bool :=
  match L with
  | LC => forallb single_hop (file_refs s i)
  | _ => forallb direct_ref (file_refs s i)
  end.

(* [import-filename]: include / import lines use the proto name, files the source base name *)
Definition g_import (L : lang) (s : schema) (i : nat) : bool :=
  forallb (fun mj => let g := getf s (snd mj) in
                     match L with
                     | LC => String.eqb (f_proto g) (f_base g)
                     | LPy => String.eqb (py_module_of s (snd mj)) (f_base g ++ "_bp")%string
                     | LGo => true
                     end) (f_imports (getf s i)).

(* [py-attr-collision]: inside the dataclass of a message the renderer adds attributes whose
   names start with an underscore (_enum_field_proxy__<f>, _get_<f>, _set_<f>, __post_init__) *)
Definition g_py_attrs (s : schema) (i : nat) : bool :=
  forallb (fun fd => match fd_def fd with
                     | DMsg _ _ _ fs => forallb (fun fl => negb (starts_with "_" (conv LPy KMessageField (fl_name fl)))) fs
                     | _ => true end) (flat_file (getf s i)).

(* [go-unused-import] *)
Definition g_go_used (s : schema) (i : nat) : bool :=
  forallb (fun mj => existsb (fun r => match r_via r with [m] => String.eqb m (fst mj) | _ => false end)
                             (file_refs s i)) (f_imports (getf s i)).

(* [empty-struct] *)
Definition g_struct_nonempty (s : schema) (i : nat) : bool :=
  forallb (fun fd => match fd_def fd with DMsg _ _ _ [] => false | _ => true end) (flat_file (getf s i)).

(* gcc needs a power of two in aligned(n).  Since the fix of [align-nonpow2] this follows from
   [wf] (EmitProofs.align_of_wf): it is no longer a guard of any theorem *)
Definition g_align (s : schema) (i : nat) : bool := align_ok (o_calign (f_opts (getf s i))).
