(* ByteStep.v — the byte-local facts about the TRANSLATED helpers of bp.py
   (BPGen.GenPy, regenerated every run), proved by exhaustive sweeps of their genuinely
   finite domains, and lifted to lemmas the unbounded proofs use. *)
From Coq Require Import ZArith List Bool Lia.
From BPGen Require Import GenPy.
Import ListNotations.
Open Scope Z_scope.

Definition zrange (n : Z) : list Z := map Z.of_nat (seq 0 (Z.to_nat n)).

Lemma in_zrange n x : 0 <= x < n -> In x (zrange n).
Proof.
  intros H. unfold zrange. apply in_map_iff. exists (Z.to_nat x). split; [lia|].
  apply in_seq. lia.
Qed.

(* ---- encode step: domain 256 x 8 x 8 x 9 ---- *)
Definition sweep_enc : bool :=
  forallb (fun b => forallb (fun i8 => forallb (fun j8 => forallb (fun c =>
    implb ((1 <=? c) && (c <=? 8 - i8) && (c <=? 8 - j8))
          (enc_d b i8 j8 c =? (Z.shiftr b j8 mod 2 ^ c) * 2 ^ i8))
    (zrange 9)) (zrange 8)) (zrange 8)) (zrange 256).

Lemma sweep_enc_ok : sweep_enc = true.
Proof. vm_compute. reflexivity. Qed.

Lemma enc_d_small b i8 j8 c :
  0 <= b < 256 -> 0 <= i8 < 8 -> 0 <= j8 < 8 -> 1 <= c -> c <= 8 - i8 -> c <= 8 - j8 ->
  enc_d b i8 j8 c = (Z.shiftr b j8 mod 2 ^ c) * 2 ^ i8.
Proof.
  intros Hb Hi Hj Hc1 Hc2 Hc3.
  pose proof sweep_enc_ok as H. unfold sweep_enc in H.
  rewrite forallb_forall in H. specialize (H b (in_zrange _ _ Hb)).
  rewrite forallb_forall in H. specialize (H i8 (in_zrange _ _ Hi)).
  rewrite forallb_forall in H. specialize (H j8 (in_zrange _ _ Hj)).
  rewrite forallb_forall in H. specialize (H c (in_zrange 9 c ltac:(lia))).
  replace ((1 <=? c) && (c <=? 8 - i8) && (c <=? 8 - j8)) with true in H.
  2:{ symmetry. rewrite !andb_true_iff. repeat split; apply Z.leb_le; lia. }
  cbn [implb] in H. apply Z.eqb_eq in H. exact H.
Qed.

Lemma enc_d_mod b ci j c : enc_d b ci j c = enc_d b (ci mod 8) (j mod 8) c.
Proof. unfold enc_d. now rewrite !Z.mod_mod by lia. Qed.

(* ---- decode step ---- *)
Definition sweep_dec : bool :=
  forallb (fun b => forallb (fun i8 => forallb (fun j8 => forallb (fun c =>
    implb ((1 <=? c) && (c <=? 8 - i8) && (c <=? 8 - j8))
          (dec_d b i8 j8 c =? (Z.shiftr b i8 mod 2 ^ c) * 2 ^ j8))
    (zrange 9)) (zrange 8)) (zrange 8)) (zrange 256).

Lemma sweep_dec_ok : sweep_dec = true.
Proof. vm_compute. reflexivity. Qed.

Lemma dec_d_small b i8 j8 c :
  0 <= b < 256 -> 0 <= i8 < 8 -> 0 <= j8 < 8 -> 1 <= c -> c <= 8 - i8 -> c <= 8 - j8 ->
  dec_d b i8 j8 c = (Z.shiftr b i8 mod 2 ^ c) * 2 ^ j8.
Proof.
  intros Hb Hi Hj Hc1 Hc2 Hc3.
  pose proof sweep_dec_ok as H. unfold sweep_dec in H.
  rewrite forallb_forall in H. specialize (H b (in_zrange _ _ Hb)).
  rewrite forallb_forall in H. specialize (H i8 (in_zrange _ _ Hi)).
  rewrite forallb_forall in H. specialize (H j8 (in_zrange _ _ Hj)).
  rewrite forallb_forall in H. specialize (H c (in_zrange 9 c ltac:(lia))).
  replace ((1 <=? c) && (c <=? 8 - i8) && (c <=? 8 - j8)) with true in H.
  2:{ symmetry. rewrite !andb_true_iff. repeat split; apply Z.leb_le; lia. }
  cbn [implb] in H. apply Z.eqb_eq in H. exact H.
Qed.

Lemma dec_d_mod b ci j c : dec_d b ci j c = dec_d b (ci mod 8) (j mod 8) c.
Proof. unfold dec_d. now rewrite !Z.mod_mod by lia. Qed.

(* ---- or-ing disjoint bits inside a byte is addition: domain 256 x 9 x 256 ---- *)
Definition sweep_lor : bool :=
  forallb (fun old => forallb (fun i8 => forallb (fun m =>
    implb ((old <? 2 ^ i8) && (m * 2 ^ i8 <? 256))
          (Z.lor old (m * 2 ^ i8) =? old + m * 2 ^ i8))
    (zrange 256)) (zrange 9)) (zrange 256).

Lemma sweep_lor_ok : sweep_lor = true.
Proof. vm_compute. reflexivity. Qed.

Lemma lor_disjoint_byte old i8 m :
  0 <= old < 2 ^ i8 -> 0 <= i8 <= 8 -> 0 <= m -> m * 2 ^ i8 < 256 ->
  Z.lor old (m * 2 ^ i8) = old + m * 2 ^ i8.
Proof.
  intros Ho Hi Hm Hlt.
  assert (H8 : 2 ^ i8 <= 2 ^ 8) by (apply Z.pow_le_mono_r; lia).
  assert (Hp : 0 < 2 ^ i8) by (apply Z.pow_pos_nonneg; lia).
  change (2 ^ 8) with 256 in H8.
  assert (Hm2 : m < 256) by nia.
  pose proof sweep_lor_ok as H. unfold sweep_lor in H.
  rewrite forallb_forall in H. specialize (H old (in_zrange 256 old ltac:(lia))).
  rewrite forallb_forall in H. specialize (H i8 (in_zrange 9 i8 ltac:(lia))).
  rewrite forallb_forall in H. specialize (H m (in_zrange 256 m ltac:(lia))).
  replace ((old <? 2 ^ i8) && (m * 2 ^ i8 <? 256)) with true in H.
  2:{ symmetry. rewrite andb_true_iff. split; apply Z.ltb_lt; lia. }
  cbn [implb] in H. apply Z.eqb_eq in H. exact H.
Qed.

(* ---- step size ---- *)
Lemma nbits_to_copy_range i j n :
  0 <= j < n ->
  1 <= get_nbits_to_copy i j n /\ get_nbits_to_copy i j n <= n - j /\
  get_nbits_to_copy i j n <= 8 - j mod 8 /\ get_nbits_to_copy i j n <= 8 - i mod 8.
Proof.
  intros H. unfold get_nbits_to_copy.
  pose proof (Z.mod_pos_bound j 8 ltac:(lia)). pose proof (Z.mod_pos_bound i 8 ltac:(lia)).
  lia.
Qed.

(* ---- the int casters ---- *)
Lemma int8_spec x : 0 <= x < 256 -> int8 x = if x <? 128 then x else x - 256.
Proof. reflexivity. Qed.
