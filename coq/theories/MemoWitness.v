(* MemoWitness — concrete histories (evaluated by vm_compute):
     * a non-trivial history on which the hypotheses of the transparency theorem hold and
       every branch of the machine is exercised (hit, miss, direct, exception, rejected
       mutation, reclamation, ADDRESS RE-USE);
     * counter-histories showing that each hypothesis is NEEDED (the decorators are not
       transparent by themselves):
         - freezing a node before its children (the parser never does that),
         - a memo key that does not keep its node alive (keyed by id() instead of the object),
         - caching on unfrozen nodes,
         - a method under the unconditional cache that reads mutable state. *)
From Coq Require Import ZArith List Bool Arith.
From BP Require Import Memo MemoProofs.
Import ListNotations.
Open Scope Z_scope.

Definition DW : nat := 8.
Definition run_c (cond : bool -> bool) (pin : bool) (h : list op) : list out :=
  map fst (crun F_test always_test cond pin DW c0 h).
Definition run_aux (h : list op) : list aux :=
  map snd (crun F_test always_test real_cond real_pin DW c0 h).
Definition run_r (h : list op) : list out := rrun F_test DW r0 h.

(* ---- the hypotheses are satisfiable -------------------------------------------------- *)
Definition h_ex : list op := [
  alloc 0 100 1 4 [];      freeze 0;                       (* a leaf, frozen at creation *)
  alloc 1 200 2 7 [0];     call 0 1 5;                     (* unfrozen parent: direct call *)
  push 1 0;  setval 1 8;   freeze 1;
  call 0 1 5;  call 0 1 5;                                 (* miss, then hit *)
  setval 1 9;  push 1 0;   freeze 1;                       (* all three rejected: frozen *)
  call 1 1 1;  call 1 1 1;                                 (* (8+1) mod 3 = 0: raises twice, never cached *)
  call 2 1 3;  call 3 0 2;  call 3 1 2;                    (* class-level method; nested method, child first *)
  alloc 2 300 1 1 [];  freeze 2;  drop 2;  reclaim 300;    (* never a key: reclaimed *)
  alloc 3 300 1 2 [];  freeze 3;  call 0 3 0;              (* same address, another node: miss *)
  drop 1;  reclaim 200;                                    (* a key: the table keeps it alive *)
  drop 0;  reclaim 100;                                    (* referenced by node 1 *)
  call 0 1 5                                               (* dropped name *)
].

Lemma h_ex_ok :
  disciplined F_test DW r0 h_ex = true /\
  env_ok F_test always_test real_cond real_pin DW c0 h_ex = true /\
  outs_eqb (run_c real_cond real_pin h_ex) (run_r h_ex) = true /\
  run_aux h_ex =
    [ANone; ANone; ANone; ADirect; ANone; ANone; ANone; AMiss; AHit; ANone; ANone; ANone;
     AMiss; AMiss; AMiss; AMiss; AMiss; ANone; ANone; ANone; AReclaimed; ANone; ANone; AMiss;
     ANone; ARefused; ANone; ARefused; ANone] /\
  run_r h_ex =
    [OOk; OOk; OOk; ORes (Some (digest (Nd 2 7 false [Nd 1 4 true []]) + 5)); OOk; OOk; OOk;
     ORes (Some ((digest (Nd 2 8 true [Nd 1 4 true []; Nd 1 4 true []]) + 5) mod PM));
     ORes (Some ((digest (Nd 2 8 true [Nd 1 4 true []; Nd 1 4 true []]) + 5) mod PM));
     OErr; OErr; OErr; ORes None; ORes None; ORes (Some 17); ORes (Some 8); ORes (Some 32);
     OOk; OOk; OOk; OOk; OOk; OOk; ORes (Some (digest (Nd 1 2 true []))); OOk; OOk; OOk; OOk; OBad].
Proof. vm_compute. repeat split; reflexivity. Qed.

(* two compilations interleaved: names 0-9 / 10-19 *)
Definition th_ex : list (bool * op) := [
  (true,  alloc 0 100 1 4 []);   (false, alloc 10 500 1 6 []);
  (true,  freeze 0);             (false, alloc 11 600 2 1 [10]);
  (true,  alloc 1 200 2 7 [0]);  (false, freeze 10);
  (false, freeze 11);            (true,  freeze 1);
  (false, call 0 11 3);          (true,  call 0 1 3);
  (true,  call 0 1 3);           (false, call 3 11 2);
  (true,  drop 1);               (false, call 0 11 3)
].
Definition P_ex (n : name) : bool := Nat.ltb n 10.

Lemma th_ex_ok :
  separated P_ex th_ex = true /\
  disciplined F_test DW r0 (map snd th_ex) = true /\
  env_ok F_test always_test real_cond real_pin DW c0 (map snd th_ex) = true /\
  env_ok F_test always_test real_cond real_pin DW c0 (sel true th_ex) = true /\
  env_ok F_test always_test real_cond real_pin DW c0 (sel false th_ex) = true /\
  outs_eqb (sel_out true th_ex (run_c real_cond real_pin (map snd th_ex)))
           (run_c real_cond real_pin (sel true th_ex)) = true /\
  outs_eqb (sel_out false th_ex (run_c real_cond real_pin (map snd th_ex)))
           (run_c real_cond real_pin (sel false th_ex)) = true /\
  length (sel true th_ex) = 7%nat.
Proof. vm_compute. repeat split; reflexivity. Qed.

(* ---- each hypothesis is needed ---------------------------------------------------------- *)
(* (1) the parent is frozen while its child is not: the cached digest of the parent goes stale
       when the child is mutated.  Replayed on the real decorators by tools/props/c18.py
       (corpus/C18/undisciplined.json): the real cache_if_frozen behaves exactly like this. *)
Definition h_undisciplined : list op := [
  alloc 0 100 1 1 [];  alloc 1 200 2 5 [0];  freeze 1;
  call 0 1 0;  setval 0 9;  call 0 1 0 ].

Lemma undisciplined_refuted :
  exists h, env_ok F_test always_test real_cond real_pin DW c0 h = true /\
            disciplined F_test DW r0 h = false /\
            outs_eqb (run_c real_cond real_pin h) (run_r h) = false.
Proof. exists h_undisciplined. vm_compute. repeat split; reflexivity. Qed.

(* (2) a key that does not keep the node alive (e.g. keyed by id(self)): the address is handed
       out again and the new node receives the old node's value *)
Definition h_weak : list op := [
  alloc 0 100 1 1 [];  freeze 0;  call 0 0 0;  drop 0;  reclaim 100;
  alloc 1 100 1 2 [];  freeze 1;  call 0 1 0 ].

Lemma weak_key_refuted :
  exists h, env_ok F_test always_test real_cond false DW c0 h = true /\
            disciplined F_test DW r0 h = true /\
            outs_eqb (run_c real_cond false h) (run_r h) = false.
Proof. exists h_weak. vm_compute. repeat split; reflexivity. Qed.

(* with the real key (the object itself) the same history is transparent: the collector's
   request is refused, so the allocator cannot return that address (the alloc is a clash,
   i.e. not a possible history) *)
Lemma weak_history_impossible_with_real_key :
  env_ok F_test always_test real_cond real_pin DW c0 h_weak = false.
Proof. vm_compute. reflexivity. Qed.

(* (3) caching on unfrozen nodes *)
Definition h_unfrozen : list op := [
  alloc 0 100 1 1 [];  call 0 0 0;  setval 0 2;  call 0 0 0 ].

Lemma cache_unfrozen_refuted :
  exists h, env_ok F_test always_test (fun _ => true) real_pin DW c0 h = true /\
            disciplined F_test DW r0 h = true /\
            outs_eqb (run_c (fun _ => true) real_pin h) (run_r h) = false.
Proof. exists h_unfrozen. vm_compute. repeat split; reflexivity. Qed.

(* (4) a method under the unconditional cache that reads the node's value *)
Lemma always_reads_state_refuted :
  exists h, env_ok F_test (fun _ => true) real_cond real_pin DW c0 h = true /\
            disciplined F_test DW r0 h = true /\
            outs_eqb (map fst (crun F_test (fun _ => true) real_cond real_pin DW c0 h)) (run_r h) = false.
Proof. exists h_unfrozen. vm_compute. repeat split; reflexivity. Qed.

(* the concrete methods used by the correspondence harness satisfy the theorem's hypothesis *)
Lemma F_test_always : forall f, always_test f = true ->
  forall t t' x, root_tag t = root_tag t' -> F_test f t x = F_test f t' x.
Proof.
  intros f Hf t t' x Ht. unfold always_test in Hf. apply Nat.eqb_eq in Hf. subst f.
  cbn [F_test]. rewrite Ht. reflexivity.
Qed.

(* the instances used in props/C18.v *)
Definition memo_transparent_real F always D :=
  memo_transparent F always real_cond real_pin D real_cond_frozen real_pin_true.
Definition memo_table_sound_real F always D :=
  memo_table_sound F always real_cond real_pin D real_cond_frozen real_pin_true.
Definition discipline_keeps_frozen_closed_real F always D :=
  discipline_keeps_frozen_closed F always real_cond real_pin D real_cond_frozen real_pin_true.
Definition interleaving_real F always D :=
  interleaving F always real_cond real_pin D real_cond_frozen real_pin_true.

Lemma source_decisions :
  (forall fr, real_cond fr = true -> fr = true) /\ real_cond true = true /\
  BPGen.GenMemo.frozen_setattr_raises true = true /\ BPGen.GenMemo.frozen_delattr_raises true = true /\
  BPGen.GenMemo.push_member_raises true = true /\ BPGen.GenMemo.frozen_freeze_raises true = true /\
  BPGen.GenMemo.frozen_setattr_raises false = false /\ BPGen.GenMemo.push_member_raises false = false /\
  BPGen.GenMemo.frozen_freeze_raises false = false /\
  real_pin = true /\ (forall a b, BPGen.GenMemo.safe_hash_key a = BPGen.GenMemo.safe_hash_key b -> a = b).
Proof.
  split; [exact real_cond_frozen|].
  repeat split; try reflexivity. exact safe_hash_key_inj.
Qed.
