(* FrontWf.v — every type an accepted schema elaborates to is well formed in the sense the
   wire-level theorems assume (Schema.wf, also after normalisation): the link from C08 to the
   hypotheses of C01 / C02 / C12. *)
From Coq Require Import ZArith List Bool String Lia ZifyBool Permutation.
From BP Require Import Schema FrontBase Front FrontProofs FrontValid FrontValidProofs WireEq.
From BPGen Require GenFront.
Import ListNotations.
Open Scope Z_scope.

(* ---------- wf is stable under norm ---------- *)

Lemma keys_distinct_NoDup l : keys_distinct l = true <-> NoDup l.
Proof.
  induction l as [|k r IH]; cbn [keys_distinct]; [split; [constructor|reflexivity]|].
  rewrite andb_true_iff, negb_true_iff, IH. split.
  - intros [H1 H2]. constructor; [|exact H2]. intros Hin.
    assert (existsb (Z.eqb k) r = true) by (apply existsb_exists; exists k; split; [exact Hin|apply Z.eqb_refl]).
    congruence.
  - intros H. inversion H as [|? ? Hn Hd]; subst. split; [|exact Hd].
    destruct (existsb (Z.eqb k) r) eqn:E; [|reflexivity]. exfalso. apply Hn.
    apply existsb_exists in E. destruct E as [x [Hx Hk]]. apply Z.eqb_eq in Hk. now subst.
Qed.

Definition fields_wf :=
  fix go (l : list (Z * ty)) : bool :=
    match l with
    | [] => true
    | kf :: r => (1 <=? fst kf) && (fst kf <=? 255) && wf (snd kf) && go r
    end.

Lemma wf_msg x fs :
  wf (TMsg x fs) = keys_distinct (map fst fs) && (nbits (TMsg x fs) <=? 65535) && fields_wf fs.
Proof. reflexivity. Qed.

Lemma fields_wf_forall fs :
  fields_wf fs = true <-> forall kf, In kf fs -> 1 <= fst kf <= 255 /\ wf (snd kf) = true.
Proof.
  induction fs as [|h r IH]; cbn [fields_wf In]; [split; [intros _ ? []|reflexivity]|].
  rewrite !andb_true_iff, IH. split.
  - intros [[[H1 H2] H3] H4] kf0 Hor. destruct Hor as [E|Hin]; [subst kf0; split; [lia|exact H3]|now apply H4].
  - intros H. destruct (H h (or_introl eq_refl)) as [H1 H2].
    split; [split; [split; lia|exact H2]|]. intros kf0 Hin. apply H. now right.
Qed.

Lemma sort_fields_perm_self {A} (l : list (Z * A)) : Permutation (sort_fields l) l.
Proof.
  induction l as [|h r IH]; [constructor|]. cbn [sort_fields].
  assert (Hi : forall (s : list (Z * A)), Permutation (insert_field h s) (h :: s)).
  { induction s as [|a s' IHs]; cbn [insert_field]; [apply Permutation_refl|].
    destruct (fst h <? fst a); [apply Permutation_refl|].
    eapply perm_trans; [apply perm_skip, IHs|apply perm_swap]. }
  eapply perm_trans; [apply Hi|]. now apply perm_skip.
Qed.

Lemma wf_norm t : wf t = true -> wf (norm t) = true.
Proof.
  induction t as [| | n | n | n ms | t IH | x c e IH | x fs IH] using ty_ind'; intros H; try exact H.
  - cbn [norm wf] in *. now apply IH.
  - cbn [norm wf] in *. rewrite !andb_true_iff in *. destruct H as [[H1 H2] H3]. repeat split; auto.
  - rewrite norm_msg, wf_msg. rewrite wf_msg in H. rewrite !andb_true_iff in H. destruct H as [[H1 H2] H3].
    rewrite !andb_true_iff. repeat split.
    + apply keys_distinct_NoDup. apply keys_distinct_NoDup in H1.
      eapply Permutation_NoDup; [|exact H1]. apply Permutation_sym.
      eapply perm_trans; [apply Permutation_map, sort_fields_perm_self|].
      rewrite norm_fields_map, map_map. cbn [fst]. apply Permutation_refl.
    + rewrite <- norm_msg, nbits_norm. exact H2.
    + apply fields_wf_forall. rewrite fields_wf_forall in H3. intros kf Hin.
      apply (Permutation_in _ (sort_fields_perm_self _)) in Hin. rewrite norm_fields_map in Hin.
      apply in_map_iff in Hin. destruct Hin as [kf0 [<- Hin0]]. cbn [fst snd].
      destruct (H3 kf0 Hin0) as [Hk Hw]. split; [exact Hk|].
      rewrite Forall_forall in IH. now apply (IH kf0 Hin0).
Qed.

(* ---------- every definition of an accepted schema carries well-formed types ---------- *)

Fixpoint def_ok (d : def) : Prop :=
  match d with
  | DAlias _ t _ => wf t = true
  | DEnum _ t m =>
      wf t = true /\
      (fix go (l : list (string * def)) : Prop := match l with [] => True | nd :: r => def_ok (snd nd) /\ go r end) m
  | DMsg _ t m =>
      wf t = true /\
      (fix go (l : list (string * def)) : Prop := match l with [] => True | nd :: r => def_ok (snd nd) /\ go r end) m
  | DProto _ _ m =>
      (fix go (l : list (string * def)) : Prop := match l with [] => True | nd :: r => def_ok (snd nd) /\ go r end) m
  | DField _ n t _ => wf t = true /\ 1 <= n <= 255
  | _ => True
  end.

Definition mems_ok (m : list (string * def)) : Prop := Forall (fun nd => def_ok (snd nd)) m.

Lemma mems_ok_fix m :
  (fix go (l : list (string * def)) : Prop := match l with [] => True | nd :: r => def_ok (snd nd) /\ go r end) m
  <-> mems_ok m.
Proof.
  unfold mems_ok. induction m as [|nd r IH]; [split; [constructor|exact (fun _ => I)]|].
  rewrite IH. split; [intros [H1 H2]; now constructor|intros H; inversion H; now split].
Qed.

Lemma assoc_ok m n d : mems_ok m -> assoc n m = Some d -> def_ok d.
Proof.
  unfold mems_ok. induction m as [|nd r IH]; cbn [assoc]; [discriminate|].
  intros H E. inversion H as [|? ? H1 H2]; subst. destruct (String.eqb (fst nd) n); [inversion E; now subst|now apply IH].
Qed.

Lemma def_members_ok d m : def_ok d -> def_members d = Some m -> mems_ok m.
Proof.
  destruct d; cbn [def_members def_ok]; try discriminate; intros H E; inversion E; subst;
    try (destruct H as [_ H]); now apply mems_ok_fix.
Qed.

Lemma get_member_ok p : forall m d, mems_ok m -> get_member m p = Some d -> def_ok d.
Proof.
  induction p as [|n rest IH]; intros m d Hm; cbn [get_member]; [discriminate|].
  destruct (assoc n m) as [d0|] eqn:Ea; [|discriminate]. pose proof (assoc_ok _ _ _ Hm Ea) as H0.
  destruct rest as [|n2 rest2]; [intros E; inversion E; now subst|].
  destruct (def_members d0) as [m'|] eqn:Em; [|discriminate].
  apply IH. now apply (def_members_ok d0).
Qed.

Definition stack_ok (st : list frame) : Prop := Forall (fun f => mems_ok (fmem f)) st.

Lemma lookup_ok st p d : stack_ok st -> lookup st p = Some d -> def_ok d.
Proof.
  induction st as [|f r IH]; cbn [lookup]; [discriminate|]. intros H. inversion H as [|? ? H1 H2]; subst.
  destruct (get_member (fmem f) p) as [d0|] eqn:E; [intros E2; inversion E2; subst; now apply (get_member_ok p (fmem f))|now apply IH].
Qed.

Lemma def_type_ok d t : def_ok d -> def_type d = Some t -> wf t = true.
Proof.
  destruct d; cbn [def_type def_ok]; try discriminate; intros H E; inversion E; subst; first [exact H | exact (proj1 H)].
Qed.

Lemma sty_ok_wf st s t r : stack_ok st -> sty_ok st s t r -> wf t = true.
Proof.
  intros Hs H. inversion H; subst; try reflexivity.
  - unfold width_ok in *. cbn [wf]. lia.
  - unfold width_ok in *. cbn [wf]. lia.
  - eapply def_type_ok; [|eassumption]. eapply lookup_ok; eassumption.
Qed.

Lemma tyx_ok_wf trad st t ty r : stack_ok st -> tyx_ok trad st t ty r -> wf ty = true.
Proof.
  intros Hs H. inversion H; subst; [now apply (sty_ok_wf st s ty r)|].
  cbn [wf]. unfold cap_ok in *. rewrite Z2Nat.id by lia.
  rewrite (sty_ok_wf st s t0 r Hs) by assumption. lia.
Qed.

(* scopes under construction *)
Definition frame_ok (f : frame) : Prop :=
  mems_ok (fmem f) /\
  match fk f with
  | FProto _ => True
  | FMsg _ _ => NoDup (field_numbers (fmem f))
  | FEnum _ n => width_ok n /\ forall v, In v (enum_values (fmem f)) -> 0 <= v < 2 ^ n
  end.

Lemma msg_fields_keys m : map fst (msg_fields m) = field_numbers m.
Proof.
  unfold msg_fields, field_numbers. induction m as [|nd r IH]; [reflexivity|].
  cbn [flat_map]. rewrite map_app, IH. destruct (snd nd); reflexivity.
Qed.

Lemma field_numbers_perm m m' : Permutation m m' -> Permutation (field_numbers m) (field_numbers m').
Proof. unfold field_numbers. apply Permutation_flat_map. Qed.

Lemma enum_values_perm m m' : Permutation m m' -> Permutation (enum_values m) (enum_values m').
Proof. unfold enum_values. apply Permutation_flat_map. Qed.

Lemma mems_ok_rev m : mems_ok m -> mems_ok (rev m).
Proof. unfold mems_ok. intros H. apply Forall_rev. exact H. Qed.

Lemma msg_fields_in_ok m kf : mems_ok m -> In kf (msg_fields m) -> 1 <= fst kf <= 255 /\ wf (snd kf) = true.
Proof.
  unfold mems_ok, msg_fields. intros Hm Hin. apply in_flat_map in Hin. destruct Hin as [nd [Hnd Hk]].
  rewrite Forall_forall in Hm. specialize (Hm nd Hnd). destruct (snd nd); try contradiction.
  destruct Hk as [<-|[]]. cbn [def_ok fst snd] in *. tauto.
Qed.

Section Items.
  Variable vc : list string -> string -> def -> Prop.
  Variable kf : string -> bool.
  Variable trad div0 : bool.
  Variable file : string.
  Variable fstack : list string.
  Hypothesis Hvc : forall stk g d, vc stk g d -> def_ok d.

  Lemma add_member_ok f n d : frame_ok f -> def_ok d ->
    (match fk f, d with
     | FMsg _ _, DField _ k _ _ => ~ In k (field_numbers (fmem f))
     | FEnum _ w, DEnumField _ v => 0 <= v < 2 ^ w
     | _, _ => True
     end) ->
    frame_ok (add_member f n d).
  Proof.
    intros [Hm Hk] Hd Hx. unfold frame_ok, add_member. cbn [fk fmem]. split; [now constructor|].
    destruct (fk f) as [pn|a x|a w].
    - exact I.
    - unfold field_numbers in *. cbn [flat_map snd]. destruct d; cbn [app]; try exact Hk. now constructor.
    - destruct Hk as [Hw Hv]. split; [exact Hw|]. unfold enum_values in *. cbn [flat_map snd].
      destruct d; cbn [app]; try exact Hv. intros v0 [<-|Hin]; [exact Hx|now apply Hv].
  Qed.

  Definition erase (k : fkind) : fkind := match k with FProto _ => FProto None | _ => k end.

  Lemma add_member_kind f n d : erase (fk (add_member f n d)) = erase (fk f).
  Proof. reflexivity. Qed.

  Lemma item_ok_frame : forall it outer cur cur',
    stack_ok outer -> frame_ok cur ->
    item_ok vc kf trad div0 file fstack outer cur it cur' ->
    frame_ok cur' /\ erase (fk cur') = erase (fk cur).
  Proof.
    induction it as [l nm|l a g|l nm v|l nm v|l nm t|l nm b body IH|l nm x body IH|l t nm k|l nm v]
      using item_ind'; intros outer cur cur' Ho Hc H; cbn [item_ok] in H.
    - destruct H as [[n E] ->]. destruct Hc as [Hm _]. split; [split; [exact Hm|exact I]|]. cbn [fk]. now rewrite E.
    - destruct H as [[pn E] [_ [_ [_ [child [name [Hv [_ [_ [_ ->]]]]]]]]]]. split; [|reflexivity].
      apply add_member_ok; [exact Hc|now apply (Hvc _ _ _ Hv)|]. rewrite E. exact I.
    - destruct H as [Hin [cv [_ [_ [_ ->]]]]]. split; [|reflexivity]. apply add_member_ok; [exact Hc|exact I|].
      destruct (fk cur); exact I.
    - destruct H as [Hin [cv [_ [_ ->]]]]. split; [|reflexivity].
      apply add_member_ok; [exact Hc|exact I|]. destruct (fk cur); exact I.
    - destruct H as [Hin [ty [r [Ht [_ [_ ->]]]]]]. split; [|reflexivity].
      apply add_member_ok; [exact Hc| |destruct (fk cur); exact I].
      cbn [def_ok]. apply (tyx_ok_wf trad (cur :: outer) t ty r); [|exact Ht]. constructor; [apply Hc|exact Ho].
    - destruct H as [Hin [w [fr [-> [Hw [Hb [_ ->]]]]]]]. split; [|reflexivity].
      assert (Hfr : frame_ok fr /\ erase (fk fr) = FEnum (mkloc file l) w).
      { assert (Hst : stack_ok (cur :: outer)) by (constructor; [apply Hc|exact Ho]).
        assert (H0 : frame_ok (mkframe (FEnum (mkloc file l) w) []) /\
                     erase (fk (mkframe (FEnum (mkloc file l) w) [])) = FEnum (mkloc file l) w).
        { split; [|reflexivity]. split; [constructor|]. cbn [fk fmem]. split; [exact Hw|intros v []]. }
        revert H0 Hb. generalize (mkframe (FEnum (mkloc file l) w) []).
        induction body as [|i r IHr]; intros f0 H0 Hb; [now subst|].
        inversion IH as [|? ? Hi Hr]; subst. destruct Hb as [fm [H1 H2]]. destruct H0 as [H0 H0k].
        apply (IHr Hr fm); [|exact H2].
        destruct (Hi (cur :: outer) f0 fm Hst H0 H1) as [Hf Hk]. split; [exact Hf|congruence]. }
      destruct Hfr as [[Hm Hk] Efk].
      apply add_member_ok; [exact Hc| |destruct (fk cur); exact I].
      unfold close_enum. cbn [def_ok]. split; [|apply mems_ok_fix; now apply mems_ok_rev].
      destruct (fk fr) as [pn|a0 x0|a0 w0] eqn:E; cbn [erase] in Efk; try discriminate.
      inversion Efk; subst. destruct Hk as [Hw0 Hv]. cbn [wf]. unfold width_ok in Hw0.
      rewrite !andb_true_iff. repeat split; try lia.
      apply forallb_forall. intros v0 Hin0.
      assert (In v0 (enum_values (fmem fr))).
      { eapply Permutation_in; [|exact Hin0]. apply enum_values_perm. apply Permutation_sym, Permutation_rev. }
      specialize (Hv v0 H). lia.
    - destruct H as [Hin [Hx [fr [Hb Hrest]]]]. cbv zeta in Hrest. destruct Hrest as [Hs1 [Hs2 [_ ->]]].
      split; [|reflexivity].
      assert (Hfr : frame_ok fr /\ erase (fk fr) = FMsg (mkloc file l) x).
      { assert (Hst : stack_ok (cur :: outer)) by (constructor; [apply Hc|exact Ho]).
        assert (H0 : frame_ok (mkframe (FMsg (mkloc file l) x) []) /\
                     erase (fk (mkframe (FMsg (mkloc file l) x) [])) = FMsg (mkloc file l) x).
        { split; [|reflexivity]. split; [constructor|]. cbn [fk fmem]. constructor. }
        revert H0 Hb. generalize (mkframe (FMsg (mkloc file l) x) []).
        induction body as [|i r IHr]; intros f0 H0 Hb; [now subst|].
        inversion IH as [|? ? Hi Hr]; subst. destruct Hb as [fm [H1 H2]]. destruct H0 as [H0 H0k].
        apply (IHr Hr fm); [|exact H2].
        destruct (Hi (cur :: outer) f0 fm Hst H0 H1) as [Hf Hk]. split; [exact Hf|congruence]. }
      destruct Hfr as [[Hm Hk] Efk].
      apply add_member_ok; [exact Hc| |destruct (fk cur); exact I].
      cbn [def_ok]. split; [|apply mems_ok_fix; now apply mems_ok_rev].
      destruct (fk fr) as [pn|a0 x0|a0 w0] eqn:E; cbn [erase] in Efk; try discriminate.
      rewrite wf_msg, !andb_true_iff. repeat split.
      + apply keys_distinct_NoDup. rewrite msg_fields_keys.
        eapply Permutation_NoDup; [|exact Hk]. apply field_numbers_perm, Permutation_rev.
      + unfold msg_bits_ok in Hs1. lia.
      + apply fields_wf_forall. intros kf0 Hin0. apply (msg_fields_in_ok (rev (fmem fr))); [now apply mems_ok_rev|exact Hin0].
    - destruct H as [[a0 [x0 E]] [ty [r [Ht [Hn [Hu [_ ->]]]]]]]. split; [|reflexivity].
      apply add_member_ok; [exact Hc| |rewrite E; exact Hu].
      cbn [def_ok]. split; [|exact Hn].
      apply (tyx_ok_wf trad (cur :: outer) t ty r); [|exact Ht]. constructor; [apply Hc|exact Ho].
    - destruct H as [a0 [n0 [E [Hv [_ [_ ->]]]]]]. split; [|reflexivity].
      apply add_member_ok; [exact Hc|exact I|]. rewrite E. exact Hv.
  Qed.

  Lemma items_ok_frame : forall its outer cur cur',
    stack_ok outer -> frame_ok cur ->
    items_ok vc kf trad div0 file fstack outer cur its cur' -> frame_ok cur'.
  Proof.
    induction its as [|i r IH]; intros outer cur cur' Ho Hc H; cbn [items_ok] in H; [now subst|].
    destruct H as [fm [H1 H2]]. apply (IH outer fm); [exact Ho| |exact H2].
    now apply (item_ok_frame i outer cur fm).
  Qed.
End Items.

Lemma file_ok_def_ok fs trad div0 : forall n fstack f d, file_ok n fs trad div0 fstack f d -> def_ok d.
Proof.
  induction n as [|n IH]; intros fstack f d H; [contradiction|].
  cbn [file_ok] in H. destruct H as [its [fr [name [_ [Hi [_ ->]]]]]].
  cbn [def_ok]. apply mems_ok_fix. apply mems_ok_rev.
  apply (items_ok_frame (file_ok n fs trad div0) (known fs) trad div0 f (f :: fstack) (fun stk g d => IH stk g d)
           its [] (mkframe (FProto None) []) fr); [constructor|split; [constructor|exact I]|exact Hi].
Qed.

(* every message type of an accepted schema meets the hypotheses of the wire-level theorems *)
Theorem accepted_types_wf fs root trad e p t :
  check fs root trad = Ok e -> msg_ty_at (Ok e) p = Some t -> wf t = true /\ wf (norm t) = true.
Proof.
  intros H Hm. apply check_ok_iff_file_ok in H. destruct H as [n H]. apply file_ok_def_ok in H.
  assert (Hw : wf t = true).
  { destruct e; try discriminate. cbn [msg_ty_at] in Hm. cbn [def_ok] in H. apply mems_ok_fix in H.
    destruct (get_member mem p) as [d|] eqn:Eg; [|discriminate]. pose proof (get_member_ok p mem d H Eg) as Hd.
    destruct d; try discriminate. inversion Hm; subst. now destruct Hd. }
  split; [exact Hw|now apply wf_norm].
Qed.
