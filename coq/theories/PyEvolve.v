(* PyEvolve.v — forward compatibility of the Python decoder model: code generated from an
   OLDER schema t1 decodes a buffer encoded with an EVOLVED schema t2 (fields appended to
   extensible messages, capacity of extensible arrays raised, at any depth) to exactly the
   projection of the value onto t1, and leaves the cursor after the whole t2 node — so
   everything that follows an extended region is decoded from the right position.
   Induction over t1; no bound on depth, widths, capacities, number of steps. *)
From Coq Require Import ZArith List Bool Lia ZifyBool.
From BP Require Import Bits Schema Spec PyRt Eqb ByteStep PyEncStep PyEncProofs PyEncTop
                       PyDecStep PyDecLeaf PyDecProofs PyDecTop Evolve.
From BPGen Require Import GenPy.
Import ListNotations.
Open Scope Z_scope.

Lemma proj_fields_keys v l x : In x (proj_fields v l) -> In (fst x) (map fst l).
Proof.
  induction l as [|h r IH]; cbn [proj_fields map]; intros H; [destruct H|].
  destruct H as [<-|H]; [now left|right; now apply IH].
Qed.

Lemma proj_fields_app v l1 l2 : proj_fields v (l1 ++ l2) = proj_fields v l1 ++ proj_fields v l2.
Proof. induction l1 as [|h r IH]; [reflexivity|]. cbn [app proj_fields]. now rewrite IH. Qed.

Lemma zlist_eqb_eq a b : zlist_eqb a b = true -> a = b.
Proof.
  revert b; induction a as [|x r IH]; intros [|y s] H; cbn in H; try discriminate; [reflexivity|].
  rewrite andb_true_iff in H. destruct H as [E H]. apply Z.eqb_eq in E. subst. f_equal. now apply IH.
Qed.

Lemma proj_leaf t v : is_leaf t = true -> proj t v = canon t v.
Proof. destruct t; cbn; intros; try discriminate; reflexivity. Qed.

Lemma evolvesb_leaf t1 t2 : is_leaf t1 = true -> evolvesb t1 t2 = true -> t2 = t1.
Proof.
  destruct t1, t2; cbn; intros Hl H; try discriminate; try reflexivity.
  - f_equal; lia.
  - f_equal; lia.
  - rewrite andb_true_iff in H. destruct H as [E1 E2]. apply zlist_eqb_eq in E2. f_equal; [lia|congruence].
Qed.

(* bits consumed by the old decoder among the evolved field list *)
Fixpoint matched_nbits (fs gs : list (Z * ty)) : Z :=
  match fs, gs with
  | _ :: r, b :: s => nbits (snd b) + matched_nbits r s
  | _, _ => 0
  end.

Lemma fields_nbits_nonneg l : fields_wf l = true -> 0 <= fields_nbits l.
Proof.
  induction l as [|h r IH]; [cbn; lia|]. intros H.
  cbn [fields_wf] in H. rewrite !andb_true_iff in H. destruct H as [[[_ _] Ha] Hr].
  cbn [fields_nbits fold_right]. pose proof (nbits_nonneg _ Ha). specialize (IH Hr).
  unfold fields_nbits in IH. lia.
Qed.

Lemma matched_le fs gs : fields_wf gs = true -> 0 <= matched_nbits fs gs <= fields_nbits gs.
Proof.
  revert gs; induction fs as [|a r IH]; intros [|b s] H; cbn [matched_nbits].
  - cbn. lia.
  - pose proof (fields_nbits_nonneg _ H). lia.
  - cbn. lia.
  - pose proof H as H'. cbn [fields_wf] in H. rewrite !andb_true_iff in H. destruct H as [[[_ _] Hb] Hs].
    specialize (IH s Hs). pose proof (nbits_nonneg _ Hb).
    unfold fields_nbits in *. cbn [fold_right]. lia.
Qed.

Lemma matched_all fs gs :
  evolves_fields false fs gs = true -> matched_nbits fs gs = fields_nbits gs.
Proof.
  revert gs; induction fs as [|a r IH]; intros [|b s] H; cbn [evolves_fields matched_nbits] in *;
    try discriminate; try reflexivity.
  rewrite !andb_true_iff in H. destruct H as [_ Hr]. rewrite (IH s Hr).
  unfold fields_nbits. reflexivity.
Qed.

(* ---------- the invariant ---------- *)

Definition ev_ok (t1 : ty) : Prop :=
  forall t2 c vs fn stk a v s i0,
    evolvesb t1 t2 = true ->
    wf t1 = true -> wf t2 = true -> dec_guard t1 = true -> has_ty t2 v = true ->
    dreach t1 c fn (length stk) -> 1 <= fn ->
    lookup fn vs = Some a -> index_val a stk = Ok (py_default t1) ->
    bytes_ok s -> 0 <= i0 -> i0 + nbits t2 <= 8 * Z.of_nat (length s) ->
    slice s i0 (nbits t2) = Z_of_bits (enc_bits t2 v) ->
    p_dec (proc_of t1) c (VM vs) fn stk {| cs := s; ci := i0 |} =
    Ok (VM (set_field fn (set_idx a stk (proj t1 v)) vs), {| cs := s; ci := i0 + nbits t2 |}).

Lemma ev_leaf t1 : is_leaf t1 = true -> ev_ok t1.
Proof.
  intros Hleaf t2 c vs fn stk a v s i0 He Hw1 Hw2 Hg Ht Hr Hfn Hl Hi Hs Hi0 Hlen Hslice.
  rewrite (evolvesb_leaf t1 t2 Hleaf He) in *.
  rewrite (proj_leaf t1 v Hleaf).
  apply (dec_ok_all t1); assumption.
Qed.

Lemma skipn_cons_nth (l : list val) k :
  (k < length l)%nat -> skipn k l = nth k l (VZ 0) :: skipn (S k) l.
Proof.
  revert k; induction l as [|a0 r IHl]; intros k Hk; [cbn in Hk; lia|].
  destruct k; [reflexivity|]. cbn [skipn nth]. apply IHl. cbn in Hk. lia.
Qed.

Lemma map_firstn_S (f : val -> val) (l : list val) k :
  (k < length l)%nat -> map f (firstn (S k) l) = map f (firstn k l) ++ [f (nth k l (VZ 0))].
Proof.
  revert k; induction l as [|a0 r IHl]; intros k Hk; [cbn in Hk; lia|].
  destruct k; [reflexivity|]. cbn [firstn map nth app]. f_equal. apply IHl. cbn in Hk. lia.
Qed.

Theorem ev_ok_all t1 : ev_ok t1.
Proof.
  induction t1 as [| | n | n | n ms | t IH | x cap e IH | x fs IH] using ty_ind';
    try (apply ev_leaf; reflexivity);
    unfold ev_ok; intros t2 c vs fn stk a v s i0 He Hw1 Hw2 Hg Ht Hr Hfn Hl Hi Hs Hi0 Hlen Hslice.
  - (* alias *)
    destruct t2; try discriminate.
    cbn [evolvesb proc_of p_dec nbits proj enc_bits wf dec_guard has_ty dreach py_default] in *.
    apply IH; assumption.
  - (* array *)
    destruct t2 as [| | | | |?|y cap2 e2|]; try discriminate.
    cbn [evolvesb] in He. rewrite !andb_true_iff in He. destruct He as [[Exy Hee] Hcap].
    apply eqb_prop in Exy. subst y.
    cbn [proc_of]. rewrite p_dec_array. cbn zeta. cbn [ci cs].
    cbn [wf] in Hw1, Hw2. rewrite !andb_true_iff in Hw1. rewrite !andb_true_iff in Hw2.
    destruct Hw1 as [[Hc1 Hc2] Hwe]. destruct Hw2 as [[Hd1 Hd2] Hwe2].
    cbn [dec_guard] in Hg. cbn [has_ty] in Ht. destruct v as [?|?|l|?]; try discriminate.
    rewrite andb_true_iff in Ht. destruct Ht as [Hlenl Hall]. apply Nat.eqb_eq in Hlenl.
    rewrite forallb_forall in Hall. cbn [dreach] in Hr. cbn [py_default] in Hi.
    cbn [nbits enc_bits vlist proj] in *.
    pose proof (nbits_nonneg e2 Hwe2) as Hne.
    assert (Hcle : (cap <= cap2)%nat) by (destruct x; [apply Nat.leb_le in Hcap|apply Nat.eqb_eq in Hcap]; lia).
    (* the element loop: decodes m elements starting at index k, each nbits e2 wide *)
    assert (Loop : forall m k i,
               (k + m = cap)%nat -> 0 <= i ->
               i + Z.of_nat (cap2 - k) * nbits e2 <= 8 * Z.of_nat (length s) ->
               slice s i (Z.of_nat (cap2 - k) * nbits e2) = Z_of_bits (flat_map (enc_bits e2) (skipn k l)) ->
               p_dec_arr (proc_of e) c fn stk m k
                 (VM (set_field fn (set_idx a stk
                        (VL (map (proj e) (firstn k l) ++ repeat (py_default e) m))) vs))
                 {| cs := s; ci := i |} =
               Ok (VM (set_field fn (set_idx a stk (VL (map (proj e) (firstn cap l)))) vs),
                   {| cs := s; ci := i + Z.of_nat m * nbits e2 |})).
    { induction m as [|m IHm]; intros k i Hkm Hi' Hlen' Hsl.
      - cbn [p_dec_arr repeat]. replace k with cap by lia. rewrite app_nil_r.
        do 3 f_equal. lia.
      - cbn [p_dec_arr].
        assert (Hk : (k < length l)%nat) by lia.
        assert (Hnth : nth_error l k = Some (nth k l (VZ 0))) by (apply nth_error_nth'; lia).
        assert (Hin : In (nth k l (VZ 0)) l) by (eapply nth_error_In; eassumption).
        rewrite (skipn_cons_nth l k Hk) in Hsl. cbn [flat_map] in Hsl.
        replace (Z.of_nat (cap2 - k) * nbits e2)
          with (nbits e2 + Z.of_nat (cap2 - S k) * nbits e2) in * by nia.
        destruct (slice_app_split s i (nbits e2) (Z.of_nat (cap2 - S k) * nbits e2) _ _ Hi' ltac:(nia)
                    (enc_bits_length e2 _ Hwe2 (Hall _ Hin)) Hsl) as [Hs1 Hs2].
        set (done := map (proj e) (firstn k l)).
        assert (Hdl : length done = k) by (unfold done; rewrite map_length, firstn_length; lia).
        set (ak := set_idx a stk (VL (done ++ repeat (py_default e) (S m)))).
        assert (Hlk : lookup fn (set_field fn ak vs) = Some ak) by (eapply lookup_set_field_same; eassumption).
        assert (Hik : index_val ak (stk ++ [k]) = Ok (py_default e)).
        { rewrite index_val_snoc. unfold ak. rewrite (index_set_idx _ _ _ _ Hi). cbn [bind index_val].
          rewrite <- Hdl. now rewrite nth_error_app_repeat. }
        rewrite (IH e2 c (set_field fn ak vs) fn (stk ++ [k]) ak (nth k l (VZ 0)) s i Hee Hwe Hwe2 Hg (Hall _ Hin)).
        + cbn [bind fst snd]. rewrite set_field_twice. unfold ak.
          rewrite (set_idx_snoc a stk _ k _ _ Hi) by (rewrite app_length, repeat_length; lia).
          pose proof (upd_app_repeat done (py_default e) (proj e (nth k l (VZ 0))) m) as Hupd.
          rewrite Hdl in Hupd. rewrite Hupd.
          replace (done ++ [proj e (nth k l (VZ 0))]) with (map (proj e) (firstn (S k) l))
            by (unfold done; apply map_firstn_S; assumption).
          rewrite (IHm (S k) (i + nbits e2)); try lia; try assumption.
          do 3 f_equal. lia.
        + rewrite app_length, Nat.add_1_r. exact Hr.
        + assumption.
        + exact Hlk.
        + exact Hik.
        + assumption.
        + assumption.
        + nia.
        + exact Hs1. }
    assert (Hstart : VM vs = VM (set_field fn (set_idx a stk
                        (VL (map (proj e) (firstn 0 l) ++ repeat (py_default e) cap))) vs)).
    { cbn [firstn map app]. rewrite (set_idx_id _ _ _ Hi). now rewrite (set_field_id _ _ _ Hl). }
    unfold ext_bits in *. destruct x; cbv iota in *.
    + assert (Hb16 : Z.of_nat (length (bits_of 16 (Z.of_nat cap2))) = 16)
        by (rewrite bits_of_length; reflexivity).
      destruct (slice_app_split s i0 16 (Z.of_nat cap2 * nbits e2) _ _ Hi0 ltac:(nia) Hb16 Hslice)
        as [Hp1 Hp2].
      assert (Hahead : dec_ahead {| cs := s; ci := i0 |} = Ok (Z.of_nat cap2, {| cs := s; ci := i0 + 16 |})).
      { rewrite dec_ahead_spec by (try assumption; nia). rewrite Hp1, Z_of_bits_of. do 2 f_equal.
        apply Z.mod_small. change (2 ^ Z.of_nat 16) with 65536. lia. }
      rewrite Hahead. cbn [bind fst snd].
      rewrite Hstart at 1.
      assert (HL1 : i0 + 16 + Z.of_nat (cap2 - 0) * nbits e2 <= 8 * Z.of_nat (length s))
        by (rewrite Nat.sub_0_r; lia).
      assert (HL2 : slice s (i0 + 16) (Z.of_nat (cap2 - 0) * nbits e2) =
                    Z_of_bits (flat_map (enc_bits e2) (skipn 0 l)))
        by (rewrite Nat.sub_0_r; exact Hp2).
      rewrite (Loop cap 0%nat (i0 + 16) ltac:(lia) ltac:(lia) HL1 HL2).
      cbn [bind fst snd ci cs]. do 2 f_equal.
      unfold skip_to, array_ito, ito_taken. cbn [ci cs].
      replace (i0 + 16 + Z.of_nat cap * nbits e2 - i0 - 16) with (nbits e2 * Z.of_nat cap) by lia.
      rewrite Z.div_mul by lia.
      replace (i0 + 16 + Z.of_nat cap2 * nbits e2 >=? i0 + 16 + Z.of_nat cap * nbits e2) with true
        by (symmetry; nia).
      f_equal. lia.
    + apply Nat.eqb_eq in Hcap. subst cap2.
      cbn [bind fst snd]. rewrite Z.add_0_l in *. rewrite Hstart at 1.
      cbn [app] in Hslice.
      assert (HL1 : i0 + Z.of_nat (cap - 0) * nbits e2 <= 8 * Z.of_nat (length s))
        by (rewrite Nat.sub_0_r; lia).
      assert (HL2 : slice s i0 (Z.of_nat (cap - 0) * nbits e2) =
                    Z_of_bits (flat_map (enc_bits e2) (skipn 0 l)))
        by (rewrite Nat.sub_0_r; exact Hslice).
      rewrite (Loop cap 0%nat i0 ltac:(lia) ltac:(lia) HL1 HL2). reflexivity.
  - (* message *)
    destruct t2 as [| | | | |?|? ? ?|y gs]; try discriminate.
    rewrite evolvesb_msg in He. rewrite andb_true_iff in He. destruct He as [Exy Hef].
    apply eqb_prop in Exy. subst y.
    rewrite proc_of_msg, p_dec_msg, proj_msg. cbn zeta. cbn [ci cs].
    replace (di_is_valid fn) with true by (unfold di_is_valid; symmetry; lia).
    cbn [dreach] in Hr. destruct Hr as [Hacc Hprox].
    rewrite py_default_msg in Hi.
    rewrite wf_msg in Hw1, Hw2. rewrite !andb_true_iff in Hw1. rewrite !andb_true_iff in Hw2.
    destruct Hw1 as [[Hd Hsz] Hfw]. destruct Hw2 as [[Hd2 Hsz2] Hfw2].
    rewrite dec_guard_msg in Hg.
    destruct v as [?|?|?|vvs]; try discriminate. rewrite has_ty_msg in Ht.
    rewrite enc_bits_msg, nbits_msg in Hslice. rewrite nbits_msg in Hlen, Hsz2.
    assert (Hget : get_accessor c (VM vs) fn stk = Ok (VM (default_fields fs))).
    { unfold get_accessor. rewrite Hacc.
      rewrite <- (at_leaf_id vs fn stk a Hl _ Hi).
      apply (read_ref_at c vs fn stk a Hl _ Hi Hprox). }
    rewrite Hget. cbn [bind].
    assert (Fields : forall rest rest2 done i,
               fs = done ++ rest -> evolves_fields x rest rest2 = true ->
               fields_wf rest2 = true -> fields_has_ty vvs rest2 = true ->
               0 <= i -> i + fields_nbits rest2 <= 8 * Z.of_nat (length s) ->
               slice s i (fields_nbits rest2) = Z_of_bits (fields_bits (VM vvs) rest2) ->
               p_dec_fields (cls_of fs) (map_proc rest)
                            (VM (proj_fields (VM vvs) done ++ default_fields rest))
                            {| cs := s; ci := i |} =
               Ok (VM (proj_fields (VM vvs) fs), {| cs := s; ci := i + matched_nbits rest rest2 |})).
    { induction rest as [|kf rest' IHr]; intros rest2 done i Hfs Hev Hw2 Ht2 Hi' Hlen' Hsl.
      - cbn [map_proc p_dec_fields default_fields].
        rewrite app_nil_r in *. subst done.
        replace (matched_nbits [] rest2) with 0 by (destruct rest2; reflexivity).
        do 3 f_equal. lia.
      - destruct rest2 as [|kg rest2']; [cbn in Hev; discriminate|].
        cbn [evolves_fields] in Hev. rewrite !andb_true_iff in Hev. destruct Hev as [[Ek Hek] Hev'].
        cbn [map_proc p_dec_fields fst snd].
        assert (Hin : In kf fs) by (rewrite Hfs; apply in_or_app; right; now left).
        pose proof (proj1 (Forall_forall _ _) IH kf Hin) as Hk.
        assert (Hfacts : wf (snd kf) = true /\ dec_guard (snd kf) = true /\ 1 <= fst kf).
        { clear - Hin Hfw Hg. induction fs as [|h r IHf]; [destruct Hin|].
          cbn [fields_wf fields_guard] in *.
          rewrite !andb_true_iff in Hfw. rewrite !andb_true_iff in Hg.
          destruct Hfw as [[[H1 H2] H3] H4]. destruct Hg as [H5 H6].
          destruct Hin as [->|Hin]; [repeat split; try assumption; lia|apply IHf; assumption]. }
        destruct Hfacts as (Hwk & Hgk & Hk1).
        cbn [fields_wf fields_has_ty] in Hw2, Ht2.
        rewrite !andb_true_iff in Hw2. rewrite !andb_true_iff in Ht2.
        destruct Hw2 as [[[_ _] Hwg] Hwr2]. destruct Ht2 as [Htg Htr2].
        destruct (lookup (fst kg) vvs) as [fv|] eqn:Hlk; [|discriminate].
        assert (Hnotin : forall y, In y (proj_fields (VM vvs) done) -> fst y <> fst kf).
        { intros y Hy Heq. apply proj_fields_keys in Hy. rewrite Heq in Hy.
          rewrite Hfs, map_app in Hd. cbn [map] in Hd.
          exact (keys_distinct_app_notin _ _ _ Hd Hy). }
        cbn [default_fields fields_nbits fold_right fields_bits matched_nbits] in *.
        change (fold_right (fun kf0 acc0 => nbits (snd kf0) + acc0) 0 rest2') with (fields_nbits rest2') in *.
        pose proof (fields_nbits_nonneg _ Hwr2) as Hnr.
        pose proof (nbits_nonneg _ Hwg) as Hnk.
        assert (Hvf : vfield (fst kg) (VM vvs) = fv) by (unfold vfield; now rewrite Hlk).
        rewrite Hvf in Hsl.
        destruct (slice_app_split s i (nbits (snd kg)) (fields_nbits rest2') _ _ Hi' Hnr
                    (enc_bits_length _ _ Hwg Htg) Hsl) as [Hs1 Hs2].
        set (cur := proj_fields (VM vvs) done ++ (fst kf, py_default (snd kf)) :: default_fields rest').
        assert (Hlc : lookup (fst kf) cur = Some (py_default (snd kf))).
        { unfold cur. rewrite lookup_app_skip by exact Hnotin. cbn [lookup fst snd].
          now rewrite Z.eqb_refl. }
        rewrite (Hk (snd kg) (cls_of fs) cur (fst kf) [] (py_default (snd kf)) fv s i); try assumption; try lia.
        + cbn [bind fst snd set_idx]. unfold cur.
          rewrite set_field_app_skip by exact Hnotin. cbn [set_field fst]. rewrite Z.eqb_refl.
          replace (proj_fields (VM vvs) done ++ (fst kf, proj (snd kf) fv) :: default_fields rest')
            with (proj_fields (VM vvs) (done ++ [kf]) ++ default_fields rest').
          2:{ rewrite proj_fields_app. cbn [proj_fields].
              replace (vfield (fst kf) (VM vvs)) with fv by (rewrite <- Hvf; f_equal; lia).
              rewrite <- app_assoc. reflexivity. }
          rewrite (IHr rest2' (done ++ [kf]) (i + nbits (snd kg))); try lia; try assumption.
          * do 3 f_equal. lia.
          * rewrite <- app_assoc. exact Hfs.
        + cbn [length]. destruct kf as [k ft]. apply dreach_field; assumption.
        + reflexivity. }
    pose proof (fields_nbits_nonneg _ Hfw2) as Hnf.
    pose proof (matched_le fs gs Hfw2) as Hmle.
    assert (Hput : forall child, put_accessor c (VM vs) fn stk child =
                                 Ok (VM (set_field fn (set_idx a stk child) vs))).
    { intros child. unfold put_accessor. rewrite Hacc.
      rewrite <- (at_leaf_id vs fn stk a Hl _ Hi) at 1.
      apply (write_ref_at c vs fn stk a Hl _ Hi Hprox). }
    unfold ext_bits in *. destruct x; cbv iota in *.
    + assert (Hb16 : Z.of_nat (length (bits_of 16 (nbits (TMsg true gs)))) = 16)
        by (rewrite bits_of_length; reflexivity).
      destruct (slice_app_split s i0 16 (fields_nbits gs) _ _ Hi0 Hnf Hb16 Hslice) as [Hp1 Hp2].
      assert (Hahead : dec_ahead {| cs := s; ci := i0 |} =
                       Ok (16 + fields_nbits gs, {| cs := s; ci := i0 + 16 |})).
      { rewrite dec_ahead_spec by (try assumption; lia). rewrite Hp1, Z_of_bits_of. do 2 f_equal.
        rewrite nbits_msg. unfold ext_bits.
        apply Z.mod_small. change (2 ^ Z.of_nat 16) with 65536. lia. }
      rewrite Hahead. cbn [bind fst snd].
      pose proof (Fields fs gs [] (i0 + 16) eq_refl Hef Hfw2 Ht ltac:(lia) ltac:(lia) Hp2) as HF.
      cbn [proj_fields app] in HF. rewrite HF.
      cbn [bind fst snd]. rewrite Hput. cbn [bind]. do 2 f_equal.
      unfold skip_to, message_ito, ito_taken. cbn [ci cs].
      replace (i0 + (16 + fields_nbits gs) >=? i0 + 16 + matched_nbits fs gs) with true by (symmetry; lia).
      try (f_equal; lia).
    + cbn [bind fst snd]. rewrite Z.add_0_l in *. cbn [app] in Hslice.
      pose proof (Fields fs gs [] i0 eq_refl Hef Hfw2 Ht ltac:(lia) ltac:(lia) Hslice) as HF.
      cbn [proj_fields app] in HF. rewrite HF.
      cbn [bind fst snd]. rewrite Hput. cbn [bind]. rewrite (matched_all fs gs Hef). reflexivity.
Qed.
