(* NamesBase.v — vocabulary shared by the generated tables (gen/GenNames.v) and the
   hand-written naming model (Names.v).

   Strings are [list ascii] (all of Coq's list lemmas apply; [Str "..."] converts a literal).
   A character class of a regular expression is a list of inclusive code ranges. *)
From Coq Require Import List Bool NArith Ascii String.
Import ListNotations.
Open Scope list_scope.

Definition str := list ascii.
Definition Str (s : string) : str := list_ascii_of_string s.

(* languages, definition kinds (the keys of the formatters' case_style_mapping after MRO
   resolution) and the four case styles of renderer/formatter.py:CaseStyle *)
Inductive lang := LC | LGo | LPy.
Inductive kind := KConstant | KAlias | KEnum | KEnumField | KMessage | KMessageField.
Inductive style := SKeep | SSnake | SUpper | SPascal.

Definition cclass := list (N * N).

Definition code (c : ascii) : N := N_of_ascii c.

Definition in_class (cl : cclass) (c : ascii) : bool :=
  existsb (fun r => (fst r <=? code c)%N && (code c <=? snd r)%N) cl.

Definition chr (n : N) : ascii := ascii_of_N n.

Definition lang_eqb (a b : lang) : bool :=
  match a, b with LC, LC | LGo, LGo | LPy, LPy => true | _, _ => false end.
