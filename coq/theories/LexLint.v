(* LexLint.v — connection of the tokenizer model with the position arithmetic of the cli module
   (Lint.v: col_of = Parser._get_col translated by tools/translate_cli.py; linecol = the reference
   notion of 1-based (line, column) of an offset).  Lint.v works on byte strings; positions only
   depend on WHERE the newlines are, so a text of code points is mapped to its "shadow": same
   length, "\n" where the text has U+000A and "x" elsewhere. *)
From Coq Require Import String Ascii NArith ZArith List Bool Lia.
From BP Require Import TotalBase LexBase Lex LexSpec LexCase LexProofs Lint LintProofs.
From BPGen Require Import GenLexer.
Import ListNotations.

Definition shadow_char (c : N) : ascii := if N.eqb c 10 then "010"%char else "x"%char.
Fixpoint shadow (s : list N) : string :=
  match s with [] => EmptyString | c :: r => String (shadow_char c) (shadow r) end.

Lemma shadow_length s : String.length (shadow s) = List.length s.
Proof. induction s as [|c s IH]; cbn [shadow String.length List.length]; [reflexivity|rewrite IH; reflexivity]. Qed.

Lemma shadow_is_nl c : is_nl (shadow_char c) = N.eqb 10 c.
Proof. unfold shadow_char. rewrite (N.eqb_sym 10 c). destruct (N.eqb c 10); reflexivity. Qed.

Lemma shadow_line : forall pos s line col,
  fst (linecol_from (shadow s) pos line col) = (line + LexCase.count_nl (firstn pos s))%Z.
Proof.
  induction pos as [|p IH]; intros s line col.
  - destruct s; cbn [shadow linecol_from firstn fst]; rewrite count_nl_nil; lia.
  - destruct s as [|c r]; [cbn [shadow linecol_from firstn fst]; rewrite count_nl_nil; lia|].
    cbn [shadow linecol_from firstn]. rewrite shadow_is_nl, count_nl_cons.
    destruct (N.eqb 10 c); rewrite IH; lia.
Qed.

(* the lineno the lexer gives a token and the column Parser._get_col computes from its lexpos are the
   1-based (line, column) of the first character of the lexeme *)
Theorem token_linecol uw s its e rem t :
  lex_run uw s = (its, e, rem) -> In t (tokens_of its) ->
  linecol (shadow s) (Z.to_nat (t_pos t)) = (t_line t, col_of (shadow s) (Z.to_nat (t_pos t))).
Proof.
  intros H Hin. destruct (lex_token_position uw s its e rem t H Hin) as (lx & _ & _ & HL & _ & Hp & He).
  assert (Hle : (Z.to_nat (t_pos t) <= String.length (shadow s))%nat).
  { rewrite shadow_length. unfold zlen in He. lia. }
  rewrite (surjective_pairing (linecol (shadow s) (Z.to_nat (t_pos t)))). f_equal.
  - unfold linecol. rewrite shadow_line. rewrite HL. unfold LexCase.prefix. reflexivity.
  - symmetry. apply col_correct. exact Hle.
Qed.
