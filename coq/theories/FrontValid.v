(* FrontValid.v — the DECLARATIVE side of C08: which schemas satisfy the documented
   constraints.  Every clause of the property text is a named predicate with the documented
   bound written as a literal; [item_ok] says, construct by construct, which clauses a
   statement must meet in the scope it appears in and what it declares; [Valid] closes this
   over files and imports.  Nothing here mentions the validators of _ast.py (GenFront) or the
   error outcomes of Front.check: the connection is proved in FrontValidProofs.v. *)
From Coq Require Import ZArith List Bool String.
From BP Require Import Schema FrontBase Front.
From BPGen Require GenFront.
Import ListNotations.
Open Scope Z_scope.

(* ---------- the numeric clauses of the property text ---------- *)

Definition width_ok (n : Z) : Prop := 1 <= n <= 64.              (* integer widths are 1..64 *)
Definition cap_ok (n : Z) : Prop := 1 <= n <= 65535.             (* array capacities 1..65535 *)
Definition number_ok (n : Z) : Prop := 1 <= n <= 255.            (* field numbers 1..255 *)
Definition enum_value_fits (v n : Z) : Prop := 0 <= v < 2 ^ n.   (* representable in the enum's width *)
Definition msg_bits_ok (nb : Z) : Prop := nb <= 65535.           (* at most 65535 bits *)
Definition msg_bytes_ok (max_bytes nb : Z) : Prop :=             (* at most max_bytes bytes when set *)
  max_bytes > 0 -> (nb + 7) / 8 <= max_bytes.

(* options are known and well-typed (and pass the documented range) *)
Definition option_ok (table : list odesc) (name : string) (v : cval) : Prop :=
  exists d, find_odesc name table = Some d /\
            class_of v = class_of (od_default d) /\
            forall f z, od_validator d = Some f -> v = CVInt z -> f z = true.

Section Clauses.
  Variable trad : bool.
  Variable div0 : bool.               (* true: the property TEXT (no clause about dividing by zero) *)
  Variable st : list frame.           (* the scopes enclosing the statement, innermost first *)

  (* every referenced type is declared earlier (C11: lookup) and is a type *)
  Inductive sty_ok : sty -> ty -> option loc -> Prop :=
  | SOBool : sty_ok SBool TBool None
  | SOByte : sty_ok SByte TByte None
  | SOUint n : width_ok n -> sty_ok (SUint n) (TUint n) None
  | SOInt n : width_ok n -> sty_ok (SInt n) (TInt n) None
  | SORef p d t : lookup st p = Some d -> def_type d = Some t -> sty_ok (SRef p) t (Some (def_loc d)).

  (* every referenced constant is declared earlier and is of the right kind *)
  Definition const_ref (p : path) (v : cval) : Prop :=
    exists d, lookup st p = Some d /\ def_const d = Some v.

  Inductive capx_ok : capx -> Z -> Prop :=
  | COLit z : capx_ok (CapLit z) z
  | CORef p z : const_ref p (CVInt z) -> capx_ok (CapRef p) z.

  (* arrays are one-dimensional by construction of [tyx]; extensible marker only outside
     traditional mode *)
  Inductive tyx_ok : tyx -> ty -> option loc -> Prop :=
  | TOSingle s t r : sty_ok s t r -> tyx_ok (XSingle s) t r
  | TOArr s c ext t r n :
      sty_ok s t r -> capx_ok c n -> cap_ok n -> (ext = true -> trad = false) ->
      tyx_ok (XArr s c ext) (TArr ext (Z.to_nat n) t) r.

  Inductive cexpr_ok : cexpr -> Z -> Prop :=
  | EOInt z : cexpr_ok (EInt z) z
  | EORef p z : const_ref p (CVInt z) -> cexpr_ok (ERef p) z
  | EOAdd a b x y : cexpr_ok a x -> cexpr_ok b y -> cexpr_ok (EAdd a b) (x + y)
  | EOSub a b x y : cexpr_ok a x -> cexpr_ok b y -> cexpr_ok (ESub a b) (x - y)
  | EOMul a b x y : cexpr_ok a x -> cexpr_ok b y -> cexpr_ok (EMul a b) (x * y)
  | EODiv a b x y : cexpr_ok a x -> cexpr_ok b y -> (y <> 0 \/ div0 = true) -> cexpr_ok (EDiv a b) (x / y).

  Inductive cvalx_ok : cvalx -> cval -> Prop :=
  | VOBool b : cvalx_ok (CBool b) (CVBool b)
  | VOStr s : cvalx_ok (CStr s) (CVStr s)
  | VORef p v : const_ref p v -> cvalx_ok (CRef p) v
  | VOExpr e z : cexpr_ok e z -> cvalx_ok (CExpr e) (CVInt z).

  Inductive optx_ok : optx -> cval -> Prop :=
  | OOLit v : optx_ok (OLit v) v
  | OORef p v : const_ref p v -> optx_ok (ORef p) v.
End Clauses.

(* aliases name only unnamed types *)
Definition alias_target_unnamed (t : tyx) : Prop :=
  match t with XSingle (SRef _) => False | _ => True end.

(* names are unique per scope *)
Definition fresh (name : string) (f : frame) : Prop := has_name name (fmem f) = false.

Definition add_member (f : frame) (name : string) (d : def) : frame :=
  mkframe (fk f) ((name, d) :: fmem f).

(* nothing is declared in a scope that forbids it *)
Definition in_file_scope (f : frame) : Prop := exists n, fk f = FProto n.
Definition in_message_scope (f : frame) : Prop := exists a x, fk f = FMsg a x.
Definition in_file_or_message (f : frame) : Prop := in_file_scope f \/ in_message_scope f.

Definition scope_options (f : frame) : list odesc :=
  match fk f with
  | FProto _ => GenFront.proto_opttions
  | FMsg _ _ => GenFront.message_options
  | FEnum _ _ => []
  end.

Section Items.
  (* [valid_child stack g d]: file g, imported while [stack] is being parsed, is valid and
     elaborates to d *)
  Variable valid_child : list string -> string -> def -> Prop.
  Variable known_file : string -> bool.
  Variable trad : bool.
  Variable div0 : bool.
  Variable file : string.
  Variable fstack : list string.

  (* [item_ok outer cur it cur']: statement [it], member of scope [cur] inside [outer], meets
     every clause and extends the scope to [cur'] *)
  Fixpoint item_ok (outer : list frame) (cur : frame) (it : item) (cur' : frame) {struct it} : Prop :=
    let st := cur :: outer in
    match it with
    | IProto l name =>
        in_file_scope cur /\ cur' = mkframe (FProto (Some name)) (fmem cur)
    | IImport l asn g =>
        in_file_scope cur /\
        known_file g = true /\
        ~ In g fstack /\                                           (* imports are not cyclic *)
        ~ In g (imported_files (fmem (last_frame cur outer))) /\   (* nor duplicated *)
        exists child name,
          valid_child fstack g child /\
          name = match asn, child with
                 | Some n, _ => n
                 | None, DProto _ n _ => n
                 | None, _ => EmptyString
                 end /\
          fresh name (last_frame cur outer) /\ fresh name cur /\
          cur' = add_member cur name child
    | IOption l name v =>
        in_file_or_message cur /\
        exists cv, optx_ok st v cv /\ option_ok (scope_options cur) name cv /\ fresh name cur /\
                   cur' = add_member cur name (DOption (mkloc file l) cv)
    | IConst l name v =>
        in_file_scope cur /\
        exists cv, cvalx_ok div0 st v cv /\ fresh name cur /\
                   cur' = add_member cur name (DConst (mkloc file l) cv)
    | IAlias l name t =>
        in_file_scope cur /\
        exists ty r, tyx_ok trad st t ty r /\ alias_target_unnamed t /\ fresh name cur /\
                     cur' = add_member cur name (DAlias (mkloc file l) ty r)
    | IEnum l name base body =>
        in_file_or_message cur /\
        exists n fr,
          base = SUint n /\ width_ok n /\
          (fix go (its : list item) (f f' : frame) : Prop :=
             match its with
             | [] => f' = f
             | i :: r => exists fm, item_ok st f i fm /\ go r fm f'
             end) body (mkframe (FEnum (mkloc file l) n) []) fr /\
          fresh name cur /\
          cur' = add_member cur name (close_enum (mkloc file l) n fr)
    | IMsg l name ext body =>
        in_file_or_message cur /\
        (ext = true -> trad = false) /\
        exists fr,
          (fix go (its : list item) (f f' : frame) : Prop :=
             match its with
             | [] => f' = f
             | i :: r => exists fm, item_ok st f i fm /\ go r fm f'
             end) body (mkframe (FMsg (mkloc file l) ext) []) fr /\
          let mem := rev (fmem fr) in
          let t := TMsg ext (msg_fields mem) in
          msg_bits_ok (nbits t) /\ msg_bytes_ok (max_bytes_of mem) (nbits t) /\
          fresh name cur /\
          cur' = add_member cur name (DMsg (mkloc file l) t mem)
    | IField l t name num =>
        in_message_scope cur /\
        exists ty r, tyx_ok trad st t ty r /\
                     number_ok num /\ ~ In num (field_numbers (fmem cur)) /\   (* unique per message *)
                     fresh name cur /\
                     cur' = add_member cur name (DField (mkloc file l) num ty r)
    | IEnumField l name v =>
        exists a n, fk cur = FEnum a n /\
                    enum_value_fits v n /\ ~ In v (enum_values (fmem cur)) /\  (* unique, representable *)
                    fresh name cur /\
                    cur' = add_member cur name (DEnumField (mkloc file l) v)
    end.

  Fixpoint items_ok (outer : list frame) (cur : frame) (its : list item) (cur' : frame) : Prop :=
    match its with
    | [] => cur' = cur
    | i :: r => exists fm, item_ok outer cur i fm /\ items_ok outer fm r cur'
    end.
End Items.

(* a file is valid when its statements are, and it declares its name; [n] bounds the depth of
   the import nesting (any n will do: FrontValidProofs.Valid_iff_check) *)
Fixpoint file_ok (n : nat) (fs : files) (trad div0 : bool) (fstack : list string) (f : string) (d : def) : Prop :=
  match n with
  | O => False
  | S n' =>
      exists its fr name,
        assoc f fs = Some its /\
        items_ok (file_ok n' fs trad div0) (known fs) trad div0 f (f :: fstack) []
                 (mkframe (FProto None) []) its fr /\
        fk fr = FProto (Some name) /\
        d = DProto f name (rev (fmem fr))
  end.

(* THE SPECIFICATION: the schema rooted at [root] satisfies the documented constraints *)
Definition Valid (fs : files) (root : string) (trad : bool) : Prop :=
  exists n e, file_ok n fs trad false [] root e.

(* ... as the property TEXT lists them (no clause about division by zero) *)
Definition ValidText (fs : files) (root : string) (trad : bool) : Prop :=
  exists n e, file_ok n fs trad true [] root e.
