(* GoRt.v — executable model of the Go runtime (lib/go/bitproto.go) and of what the Go
   renderer emits in standard mode (compiler/bitproto/renderer/impls/go/renderer.py):
   struct field types, size constant, BpProcessor tree and the four accessor switch tables
   BpSetByte / BpGetByte / BpProcessInt / BpGetAccessor, with Go's typed-integer semantics.

   Go is never executed in this framework.  The tie is (T0) translation of the runtime's
   byte-local arithmetic into BPGen.GenGo (regenerated every run; the loop / dispatch
   skeleton of every other declaration of bitproto.go is pinned by digest) and (T1) parsing
   of the emitted .go files into the tables below, compared in Coq with [go_proc_of].

   Storage: a Go message value is a [val] tree (struct = VM keyed by field number, array =
   VL, integers = VZ within the range of their Go type, bool = VB).  Go is statically
   typed, so ill-typed leaves (a VZ in a bool field) do not exist; the model is total on
   them only for convenience (it reads them through [int_of]).  Go run-time panics are
   written out: index out of range = IndexError, nil accessor / nil indexer =
   NilAccessorReached; AttributeError / TypeError mark programs the Go compiler rejects. *)
From Coq Require Import ZArith List Bool.
From BP Require Import Bits Schema PyRt.
From BPGen Require Import GenGo.
Import ListNotations.
Open Scope Z_scope.

(* ---------- Go types of struct fields and conversions (names resolved by T1) ---------- *)

Inductive gty :=
| GBool | GByte
| GUint (w : Z) | GInt (w : Z)          (* uint8/16/32/64, int8/16/32/64 *)
| GNamed (g : gty)                      (* type X g : alias or enum type *)
| GArr (cap : nat) (e : gty)            (* [cap]e *)
| GStruct.                              (* a message struct *)

Fixpoint under (g : gty) : gty := match g with GNamed g' => under g' | _ => g end.

(* T(x): conversion of an integer value to the integer type underlying g, and the
   wrap-around of arithmetic carried out at that type *)
Definition conv_to (g : gty) (x : Z) : res Z :=
  match under g with
  | GByte => Ok (wrap_u 8 x)
  | GUint w => Ok (wrap_u w x)
  | GInt w => Ok (wrap_s w x)
  | _ => Raise TypeError
  end.

Fixpoint elem_gty (g : gty) (d : nat) {struct d} : option gty :=
  match d with
  | O => Some g
  | S d' => match under g with GArr _ e => elem_gty e d' | _ => None end
  end.

(* ---------- accessor tables (what T1 parses out of the emitted .go file) ---------- *)

Inductive gskind :=
| GSOr                         (* m.F[..] |= (T(b) << lshift) *)
| GSBool.                      (* m.F[..] = bp.Byte2bool(b)   or   = T(bp.Byte2bool(b)) *)
Record gsent := { gs_depth : nat; gs_conv : gty; gs_kind : gskind }.

Inductive ggkind :=
| GGInt                        (* return byte(m.F[..] >> rshift) *)
| GGBool (conv : bool).        (* return bp.Bool2byte(m.F[..]) >> rshift ; conv: bool(m.F[..]) *)
Record ggent := { gg_depth : nat; gg_kind : ggkind }.

Record gient := { gi_depth : nat; gi_d : Z }.     (* m.F[..] <<= d ; m.F[..] >>= d *)

Record gcls := {
  gc_struct : list (Z * gty);      (* struct fields in struct order, keyed by field number *)
  gc_size : Z;                     (* BYTES_LENGTH_X const = Size() *)
  gc_get : list (Z * ggent);
  gc_set : list (Z * gsent);
  gc_int : list (Z * gient);
  gc_acc : list (Z * nat)          (* BpGetAccessor: return &(m.F[..]) *)
}.

Inductive gproc :=
| GPBool | GPInt (n : Z) | GPUint (n : Z) | GPByte
| GPArray (ext : bool) (cap : nat) (e : gproc)
| GPEnum (u : gproc)
| GPAlias (p : gproc)
| GPMsg (ext : bool) (nb : Z) (fs : list (Z * gproc)) (c : gcls).

(* ---------- data references m.F[di.I(0)]...[di.I(d-1)] ---------- *)

Definition go_read_ref (acc : val) (fn : Z) (stk : list nat) (d : nat) : res val :=
  idx <- stack_prefix stk d ;;
  a <- read_attr_raw acc fn ;;
  index_val a idx.

Definition go_write_ref (acc : val) (fn : Z) (stk : list nat) (d : nat) (nv : val) : res val :=
  idx <- stack_prefix stk d ;;
  match idx with
  | [] => write_attr acc fn nv
  | _ => a <- read_attr_raw acc fn ;;
         a' <- update_val a idx nv ;;
         write_attr acc fn a'
  end.

(* ---------- generated methods ---------- *)

Definition go_get_byte (c : gcls) (acc : val) (fn : Z) (stk : list nat) (rshift : Z) : res Z :=
  match lookup fn (gc_get c) with
  | None => Ok 0                                        (* default: return byte(0) *)
  | Some g =>
      x <- go_read_ref acc fn stk (gg_depth g) ;;
      match gg_kind g, x with
      | GGBool _, VB b => Ok (Z.shiftr (Bool2byte b) rshift)       (* byte >> int *)
      | _, _ => z <- int_of x ;; Ok (wrap_u 8 (Z.shiftr z rshift))  (* byte(x >> rshift) *)
      end
  end.

Definition go_set_byte (c : gcls) (acc : val) (fn : Z) (stk : list nat) (lshift b : Z) : res val :=
  match lookup fn (gc_set c) with
  | None => Ok acc
  | Some s =>
      match gs_kind s with
      | GSBool =>
          match under (gs_conv s) with
          | GBool => go_write_ref acc fn stk (gs_depth s) (VB (Byte2bool b))
          | _ => Raise TypeError
          end
      | GSOr =>
          x <- go_read_ref acc fn stk (gs_depth s) ;;
          z <- int_of x ;;
          tb <- conv_to (gs_conv s) b ;;                           (* T(b) *)
          sh <- conv_to (gs_conv s) (Z.shiftl tb lshift) ;;        (* ... << lshift, at type T *)
          go_write_ref acc fn stk (gs_depth s) (VZ (Z.lor z sh))   (* |= : both operands in T *)
      end
  end.

Definition go_process_int (c : gcls) (acc : val) (fn : Z) (stk : list nat) : res val :=
  match lookup fn (gc_int c) with
  | None => Ok acc
  | Some e =>
      x <- go_read_ref acc fn stk (gi_depth e) ;;
      z <- int_of x ;;
      match lookup fn (gc_struct c) with
      | None => Raise AttributeError
      | Some g =>
          match elem_gty g (gi_depth e) with
          | None => Raise TypeError
          | Some ge =>
              z1 <- conv_to ge (Z.shiftl z (gi_d e)) ;;            (* x <<= d, wraps at x's type *)
              (* x >>= d: arithmetic on signed, logical on unsigned; both are floor division
                 of the (in-range) value *)
              go_write_ref acc fn stk (gi_depth e) (VZ (Z.shiftr z1 (gi_d e)))
          end
      end
  end.

Definition go_get_accessor (c : gcls) (acc : val) (fn : Z) (stk : list nat) : res val :=
  match lookup fn (gc_acc c) with
  | None => Raise NilAccessorReached                    (* default: return nil *)
  | Some d => go_read_ref acc fn stk d
  end.

(* &(m.F[..]) is a pointer: the child is mutated in place; functional update here *)
Definition go_put_accessor (c : gcls) (acc : val) (fn : Z) (stk : list nat) (child : val) : res val :=
  match lookup fn (gc_acc c) with
  | None => Raise NilAccessorReached
  | Some d => go_write_ref acc fn stk d child
  end.

(* ---------- bitproto.go: single byte steps and processBaseType ---------- *)

Definition buf_at (s : list Z) (k : Z) : res Z :=
  if k <? 0 then Raise IndexError
  else match nth_error s (Z.to_nat k) with Some b => Ok b | None => Raise IndexError end.

Definition go_enc_single_byte (c : gcls) (acc : val) (fn : Z) (stk : list nat) (j cnt : Z) (x : ctx)
  : res ctx :=
  b <- go_get_byte c acc fn stk (enc_rshift j) ;;
  let d := enc_d b (ci x) j cnt in
  let k := enc_index (ci x) in
  old <- buf_at (cs x) k ;;
  Ok {| cs := upd (cs x) (Z.to_nat k) (Z.lor old d); ci := ci x |}.     (* byte |= byte *)

(* for j := 0; j < nbits; { c := getNbitsToCopy(ctx.i, j, nbits); ...; ctx.i += c; j += c } *)
Fixpoint go_pbt_enc (fuel : nat) (n : Z) (c : gcls) (acc : val) (fn : Z) (stk : list nat)
         (j : Z) (x : ctx) : res ctx :=
  if j <? n then
    match fuel with
    | O => Raise OutOfFuel
    | S f =>
        let cnt := getNbitsToCopy (ci x) j n in
        x' <- go_enc_single_byte c acc fn stk j cnt x ;;
        go_pbt_enc f n c acc fn stk (wrap_s 64 (j + cnt))
                   {| cs := cs x'; ci := wrap_s 64 (ci x' + cnt) |}
    end
  else Ok x.

Definition go_dec_single_byte (c : gcls) (acc : val) (fn : Z) (stk : list nat) (j cnt : Z) (x : ctx)
  : res val :=
  b <- buf_at (cs x) (dec_index (ci x)) ;;
  go_set_byte c acc fn stk (dec_lshift j) (dec_d b (ci x) j cnt).

Fixpoint go_pbt_dec (fuel : nat) (n : Z) (c : gcls) (acc : val) (fn : Z) (stk : list nat)
         (j : Z) (x : ctx) : res (val * ctx) :=
  if j <? n then
    match fuel with
    | O => Raise OutOfFuel
    | S f =>
        let cnt := getNbitsToCopy (ci x) j n in
        acc' <- go_dec_single_byte c acc fn stk j cnt x ;;
        go_pbt_dec f n c acc' fn stk (wrap_s 64 (j + cnt))
                   {| cs := cs x; ci := wrap_s 64 (ci x + cnt) |}
    end
  else Ok (acc, x).

(* Uint16Accessor{data uint16}, used for the 16-bit "ahead" prefixes *)
Definition u16_cls : gcls :=
  {| gc_struct := [(1, GUint 16)]; gc_size := 2;
     gc_get := [(1, {| gg_depth := 0; gg_kind := GGInt |})];
     gc_set := [(1, {| gs_depth := 0; gs_conv := GUint 16; gs_kind := GSOr |})];
     gc_int := []; gc_acc := [] |}.

(* data := uint16(t.capacity) / uint16(t.nbits) *)
Definition go_enc_ahead (v : Z) (x : ctx) : res ctx :=
  go_pbt_enc 16 16 u16_cls (VM [(1, VZ (wrap_u 16 v))]) 1 [] 0 x.

Definition go_dec_ahead (x : ctx) : res (Z * ctx) :=
  r <- go_pbt_dec 16 16 u16_cls (VM [(1, VZ 0)]) 1 [] 0 x ;;
  z <- int_of (vfield 1 (fst r)) ;;
  Ok (z, snd r).

(* ---------- processors ---------- *)

(* di == nil only at the top-level call m.BpProcessor().Process(ctx, nil, m) *)
Definition need_di {A} (di : option Z) (k : Z -> res A) : res A :=
  match di with Some fn => k fn | None => Raise NilAccessorReached end.

Fixpoint go_enc (p : gproc) (c : gcls) (acc : val) (di : option Z) (stk : list nat) (x : ctx)
  : res ctx :=
  match p with
  | GPBool => need_di di (fun fn => go_pbt_enc (fuel_of 1) 1 c acc fn stk 0 x)
  | GPInt n => need_di di (fun fn => go_pbt_enc (fuel_of n) n c acc fn stk 0 x)
  | GPUint n => need_di di (fun fn => go_pbt_enc (fuel_of n) n c acc fn stk 0 x)
  | GPByte => need_di di (fun fn => go_pbt_enc (fuel_of 8) 8 c acc fn stk 0 x)
  | GPEnum u => go_enc u c acc di stk x
  | GPAlias q => go_enc q c acc di stk x
  | GPArray ext cap e =>
      match di with
      | None => Raise NilAccessorReached                (* di.IndexStackUp() on nil *)
      | Some _ =>
          x1 <- (if ext then go_enc_ahead (Z.of_nat cap) x else Ok x) ;;
          (fix loop (m k : nat) (x : ctx) : res ctx :=
             match m with
             | O => Ok x
             | S m' => x' <- go_enc e c acc di (stk ++ [k]) x ;; loop m' (S k) x'
             end) cap O x1
      end
  | GPMsg ext nb fs c' =>
      acc' <- (match di with Some fn => go_get_accessor c acc fn stk | None => Ok acc end) ;;
      x1 <- (if ext then go_enc_ahead nb x else Ok x) ;;
      (fix go (l : list (Z * gproc)) (x : ctx) : res ctx :=
         match l with
         | [] => Ok x
         | kf :: r => x' <- go_enc (snd kf) c' acc' (Some (fst kf)) [] x ;; go r x'
         end) fs x1
  end.

Definition go_skip_to (ito : Z) (x : ctx) : ctx :=
  if ito_taken ito (ci x) then {| cs := cs x; ci := ito |} else x.

Fixpoint go_dec (p : gproc) (c : gcls) (acc : val) (di : option Z) (stk : list nat) (x : ctx)
  : res (val * ctx) :=
  match p with
  | GPBool => need_di di (fun fn => go_pbt_dec (fuel_of 1) 1 c acc fn stk 0 x)
  | GPInt n =>
      need_di di (fun fn =>
        r <- go_pbt_dec (fuel_of n) n c acc fn stk 0 x ;;
        acc' <- go_process_int c (fst r) fn stk ;;
        Ok (acc', snd r))
  | GPUint n => need_di di (fun fn => go_pbt_dec (fuel_of n) n c acc fn stk 0 x)
  | GPByte => need_di di (fun fn => go_pbt_dec (fuel_of 8) 8 c acc fn stk 0 x)
  | GPEnum u => go_dec u c acc di stk x
  | GPAlias q => go_dec q c acc di stk x
  | GPArray ext cap e =>
      match di with
      | None => Raise NilAccessorReached
      | Some _ =>
          let i0 := ci x in
          r0 <- (if ext then go_dec_ahead x else Ok (0, x)) ;;
          r <- (fix loop (m k : nat) (acc : val) (x : ctx) : res (val * ctx) :=
                  match m with
                  | O => Ok (acc, x)
                  | S m' => r <- go_dec e c acc di (stk ++ [k]) x ;; loop m' (S k) (fst r) (snd r)
                  end) cap O acc (snd r0) ;;
          Ok (fst r, if ext then go_skip_to (array_ito i0 (fst r0) (Z.of_nat cap) (ci (snd r))) (snd r)
                     else snd r)
      end
  | GPMsg ext nb fs c' =>
      child <- (match di with Some fn => go_get_accessor c acc fn stk | None => Ok acc end) ;;
      let i0 := ci x in
      r0 <- (if ext then go_dec_ahead x else Ok (0, x)) ;;
      r <- (fix go (l : list (Z * gproc)) (a : val) (x : ctx) : res (val * ctx) :=
              match l with
              | [] => Ok (a, x)
              | kf :: r => r1 <- go_dec (snd kf) c' a (Some (fst kf)) [] x ;; go r (fst r1) (snd r1)
              end) fs child (snd r0) ;;
      acc' <- (match di with Some fn => go_put_accessor c acc fn stk (fst r) | None => Ok (fst r) end) ;;
      Ok (acc', if ext then go_skip_to (message_ito i0 (fst r0)) (snd r) else snd r)
  end.

Definition go_nil_cls : gcls :=
  {| gc_struct := []; gc_size := 0; gc_get := []; gc_set := []; gc_int := []; gc_acc := [] |}.

Definition go_size_of (p : gproc) : Z := match p with GPMsg _ _ _ c => gc_size c | _ => 0 end.

(* func (m *X) Encode() []byte { ctx := bp.NewEncodeContext(int(m.Size()));
   m.BpProcessor().Process(ctx, nil, m); return ctx.Buffer() } *)
Definition go_encode_proc (p : gproc) (v : val) : res (list Z) :=
  x <- go_enc p go_nil_cls v None [] {| cs := zeros (Z.to_nat (go_size_of p)); ci := 0 |} ;;
  Ok (cs x).

(* func (m *X) Decode(s []byte): no length check; a short buffer panics at s[i/8] *)
Definition go_decode_proc (p : gproc) (fresh : val) (s : list Z) : res val :=
  r <- go_dec p go_nil_cls fresh None [] {| cs := s; ci := 0 |} ;; Ok (fst r).

(* ---------- model of the Go renderer ---------- *)

Definition is_single (t : ty) : bool :=
  match t with TBool | TByte | TUint _ | TInt _ | TEnum _ _ => true | _ => false end.

(* BlockMessageMethodBpGetSetByteItemBase.render / render_array / render_alias:
   Some (array depth, type whose name is the conversion, single type) *)
Fixpoint gleaf_of (t : ty) (d : nat) : option (nat * ty * ty) :=
  match t with
  | TBool | TByte | TUint _ | TInt _ | TEnum _ _ => Some (d, t, t)
  | TArr _ _ e => match e with TArr _ _ _ => None | _ => gleaf_of e (S d) end
  | TAlias t' =>
      match t' with
      | TArr _ _ _ => gleaf_of t' d
      | TBool | TByte | TUint _ | TInt _ | TEnum _ _ => Some (d, t, t')
      | _ => None
      end
  | TMsg _ _ => None
  end.

(* BlockMessageMethodBpGetAccessorItem.render / render_array / render_alias *)
Fixpoint gmsg_depth_of (t : ty) (d : nat) : option nat :=
  match t with
  | TMsg _ _ => Some d
  | TArr _ _ e => match e with TArr _ _ _ => None | _ => gmsg_depth_of e (S d) end
  | TAlias t' => match t' with TArr _ _ _ => gmsg_depth_of t' d | _ => None end
  | _ => None
  end.

(* GoFormatter.format_type: uint{get_nbits_of_integer}, [cap]T, names for enum/alias/message *)
Fixpoint go_type_of (t : ty) : gty :=
  match t with
  | TBool => GBool
  | TByte => GByte
  | TUint n => GUint (get_nbits_of_integer n)
  | TInt n => GInt (get_nbits_of_integer n)
  | TEnum n _ => GNamed (GUint (get_nbits_of_integer n))       (* type E uintW *)
  | TAlias t' => GNamed (go_type_of t')                         (* type A T *)
  | TArr _ cap e => GArr cap (go_type_of e)
  | TMsg _ _ => GStruct
  end.

Definition is_alias (t : ty) : bool := match t with TAlias _ => true | _ => false end.

Definition go_cls_of (x : bool) (fs : list (Z * ty)) : gcls :=
  {| gc_struct := map (fun kf => (fst kf, go_type_of (snd kf))) fs;
     gc_size := type_nbytes (nbits (TMsg x fs));
     gc_get := filter_map (fun kf =>
        match gleaf_of (snd kf) 0 with
        | Some (d, ct, st) =>
            Some (fst kf, {| gg_depth := d;
                             gg_kind := match st with TBool => GGBool (is_alias ct) | _ => GGInt end |})
        | None => None end) fs;
     gc_set := filter_map (fun kf =>
        match gleaf_of (snd kf) 0 with
        | Some (d, ct, st) =>
            Some (fst kf, {| gs_depth := d; gs_conv := go_type_of ct;
                             gs_kind := match st with TBool => GSBool | _ => GSOr end |})
        | None => None end) fs;
     gc_int := filter_map (fun kf =>
        match gleaf_of (snd kf) 0 with
        | Some (d, _, TInt n) =>
            let dd := get_nbits_of_integer n - n in
            if dd <=? 0 then None else Some (fst kf, {| gi_depth := d; gi_d := dd |})
        | _ => None end) fs;
     gc_acc := filter_map (fun kf =>
        match gmsg_depth_of (snd kf) 0 with
        | Some d => Some (fst kf, d)
        | None => None end) fs |}.

Fixpoint go_proc_of (t : ty) : gproc :=
  match t with
  | TBool => GPBool
  | TByte => GPByte
  | TUint n => GPUint n
  | TInt n => GPInt n
  | TEnum n _ => GPEnum (GPUint n)
  | TAlias t' => GPAlias (go_proc_of t')
  | TArr x c e => GPArray x c (go_proc_of e)
  | TMsg x fs =>
      GPMsg x (nbits (TMsg x fs))
            ((fix go (l : list (Z * ty)) : list (Z * gproc) :=
                match l with
                | [] => []
                | kf :: r => (fst kf, go_proc_of (snd kf)) :: go r
                end) fs)
            (go_cls_of x fs)
  end.

(* Go zero value of the struct *)
Fixpoint go_default (t : ty) : val :=
  match t with
  | TBool => VB false
  | TByte | TUint _ | TInt _ | TEnum _ _ => VZ 0
  | TAlias t' => go_default t'
  | TArr _ cap e => VL (repeat (go_default e) cap)
  | TMsg _ fs =>
      VM ((fix go (l : list (Z * ty)) : list (Z * val) :=
             match l with
             | [] => []
             | kf :: r => (fst kf, go_default (snd kf)) :: go r
             end) fs)
  end.

Definition go_encode (t : ty) (v : val) : res (list Z) := go_encode_proc (go_proc_of (norm t)) v.
Definition go_decode (t : ty) (s : list Z) : res val :=
  go_decode_proc (go_proc_of (norm t)) (go_default (norm t)) s.

(* ---------- shapes the front end accepts (alias of single/array; no array of array) ---------- *)

Fixpoint shape_ok (t : ty) : bool :=
  match t with
  | TAlias t' => match t' with TAlias _ | TMsg _ _ => false | _ => shape_ok t' end
  | TArr _ _ e => match e with TArr _ _ _ => false | _ => shape_ok e end
  | TMsg _ fs =>
      (fix go (l : list (Z * ty)) : bool :=
         match l with
         | [] => true
         | kf :: r => shape_ok (snd kf) && go r
         end) fs
  | _ => true
  end.

(* ---------- comparison with the Python output (PyRt.proc as parsed by tools/t1_py.py) ---------- *)

(* processor tree without accessor tables *)
Inductive sk :=
| KBool | KInt (n : Z) | KUint (n : Z) | KByte
| KArray (ext : bool) (cap : nat) (e : sk) | KEnum (u : sk) | KAlias (p : sk)
| KMsg (ext : bool) (nb : Z) (fs : list (Z * sk)).

Fixpoint pskel (p : proc) : sk :=
  match p with
  | PBool => KBool | PInt n => KInt n | PUint n => KUint n | PByte => KByte
  | PArray x c e => KArray x c (pskel e)
  | PEnum u => KEnum (pskel u)
  | PAlias q => KAlias (pskel q)
  | PMsg x nb fs _ =>
      KMsg x nb ((fix go (l : list (Z * proc)) : list (Z * sk) :=
                    match l with [] => [] | kf :: r => (fst kf, pskel (snd kf)) :: go r end) fs)
  end.

Fixpoint gskel (p : gproc) : sk :=
  match p with
  | GPBool => KBool | GPInt n => KInt n | GPUint n => KUint n | GPByte => KByte
  | GPArray x c e => KArray x c (gskel e)
  | GPEnum u => KEnum (gskel u)
  | GPAlias q => KAlias (gskel q)
  | GPMsg x nb fs _ =>
      KMsg x nb ((fix go (l : list (Z * gproc)) : list (Z * sk) :=
                    match l with [] => [] | kf :: r => (fst kf, gskel (snd kf)) :: go r end) fs)
  end.

(* the accessor tables of one message agree: same field numbers with the same array depth in
   get / set / accessor tables; bool entries are the same; sign handling for the same fields,
   Python's bit n-1 test and Go's shift distance d describing the same width n = W - d *)
Definition depths_get (c : cls) := map (fun e => (fst e, g_depth (snd e), g_bool (snd e))) (c_get c).
Definition gdepths_get (c : gcls) :=
  map (fun e => (fst e, gg_depth (snd e), match gg_kind (snd e) with GGBool _ => true | GGInt => false end)) (gc_get c).
Definition depths_set (c : cls) :=
  map (fun e => (fst e, s_depth (snd e), match s_kind (snd e) with SKBool => true | _ => false end)) (c_set c).
Definition gdepths_set (c : gcls) :=
  map (fun e => (fst e, gs_depth (snd e), match gs_kind (snd e) with GSBool => true | GSOr => false end)) (gc_set c).
Definition depths_int (c : cls) := map (fun e => (fst e, i_depth (snd e), i_shift (snd e) + 1)) (c_int c).
Definition gdepths_int (c : gcls) :=
  map (fun e => (fst e, gi_depth (snd e),
                 match lookup (fst e) (gc_set c) with
                 | Some s => match under (gs_conv s) with GInt w => w - gi_d (snd e) | _ => -1 end
                 | None => -1
                 end)) (gc_int c).
