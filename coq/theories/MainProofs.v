(* MainProofs.v — lemmas about Main.v (kept apart so that the model still evaluates when a
   proof breaks after an edit of /repo changed gen/GenCli.v). *)
From Coq Require Import ZArith List String Ascii Bool Lia.
From BP Require Import CliBase Main.
From BPGen Require Import GenCli.
Import ListNotations.
Open Scope string_scope.
Open Scope Z_scope.

(* ------------------------------------------------------------------------------------ *)
(* characterisations of the translated straight-line pieces (fail when the code changes) *)
(* ------------------------------------------------------------------------------------ *)

Lemma root_traditional_mode_id : forall t, root_traditional_mode t = t.
Proof. intros []; reflexivity. Qed.

Lemma child_traditional_mode_id : forall t, child_traditional_mode t = t.
Proof. intros []; reflexivity. Qed.

Lemma ext_flag_raises_spec : forall m t, ext_flag_raises (len_p_of_marker m) t = m && t.
Proof. intros [] []; reflexivity. Qed.

Lemma opt_check_raises_spec : forall o s, opt_check_raises o s = o && negb s.
Proof. intros [] []; reflexivity. Qed.

(* ------------------------------------------------------------------------------------ *)
(* induction principle for the nested type ftree                                         *)
(* ------------------------------------------------------------------------------------ *)

Section ftree_ind'.
  Variable P : ftree -> Prop.
  Hypothesis Hflag : forall m l, P (FFlag m l).
  Hypothesis Hbad : forall l, P (FBad l).
  Hypothesis Himp : forall f items, Forall P items -> P (FImport f items).
  Fixpoint ftree_ind' (t : ftree) : P t :=
    match t with
    | FFlag m l => Hflag m l
    | FBad l => Hbad l
    | FImport f items =>
        Himp f items ((fix go (l : list ftree) : Forall P l :=
                         match l with
                         | [] => Forall_nil _
                         | x :: r => Forall_cons _ (ftree_ind' x) (go r)
                         end) items)
    end.
End ftree_ind'.

Lemma first_err_import : forall trad file f items,
  first_err trad file (FImport f items) = first_err_list (child_traditional_mode trad) f items.
Proof.
  intros trad file f items. induction items as [|x r IH]; [reflexivity|].
  cbn [first_err first_err_list]. destruct (first_err (child_traditional_mode trad) f x); [reflexivity|].
  exact IH.
Qed.

Lemma has_marker_import : forall f items, has_marker (FImport f items) = any_marker items.
Proof.
  intros f items. induction items as [|x r IH]; [reflexivity|].
  cbn [has_marker any_marker]. rewrite <- IH. reflexivity.
Qed.

Lemma has_bad_import : forall f items, has_bad (FImport f items) = any_bad items.
Proof.
  intros f items. induction items as [|x r IH]; [reflexivity|].
  cbn [has_bad any_bad]. rewrite <- IH. reflexivity.
Qed.

(* position of the first marker in parse order *)
Fixpoint first_marker (file : Z) (t : ftree) : option (Z * Z) :=
  match t with
  | FFlag m line => if m then Some (file, line) else None
  | FBad _ => None
  | FImport f items =>
      (fix go (l : list ftree) : option (Z * Z) :=
         match l with
         | [] => None
         | x :: r => match first_marker f x with Some e => Some e | None => go r end
         end) items
  end.
Fixpoint first_marker_list (file : Z) (l : list ftree) : option (Z * Z) :=
  match l with
  | [] => None
  | x :: r => match first_marker file x with Some e => Some e | None => first_marker_list file r end
  end.

Lemma first_marker_import : forall file f items,
  first_marker file (FImport f items) = first_marker_list f items.
Proof.
  intros file f items. induction items as [|x r IH]; [reflexivity|].
  cbn [first_marker first_marker_list]. destruct (first_marker f x); [reflexivity|]. exact IH.
Qed.

Definition ext_err (o : option (Z * Z)) : option perr :=
  match o with Some (f, l) => Some (PEExtensible, f, l) | None => None end.

(* without other errors: the outcome is exactly "first marker, if traditional" *)
Lemma first_err_no_bad : forall t trad file,
  has_bad t = false ->
  first_err trad file t = if trad then ext_err (first_marker file t) else None.
Proof.
  induction t as [m l|l|f items IH] using ftree_ind'; intros trad file Hb.
  - cbn [first_err first_marker]. rewrite ext_flag_raises_spec. destruct m, trad; reflexivity.
  - discriminate Hb.
  - rewrite first_err_import, first_marker_import, child_traditional_mode_id.
    rewrite has_bad_import in Hb.
    induction items as [|x r IHr]; [destruct trad; reflexivity|].
    cbn [any_bad] in Hb. apply orb_false_iff in Hb as [Hx Hr].
    inversion IH as [|? ? IHx IHrest]; subst.
    cbn [first_err_list first_marker_list]. rewrite (IHx trad f Hx).
    destruct trad.
    + destruct (first_marker f x) as [[? ?]|]; [reflexivity|]. cbn [ext_err]. exact (IHr IHrest Hr).
    + exact (IHr IHrest Hr).
Qed.

Lemma first_err_list_no_bad : forall l trad file,
  any_bad l = false ->
  first_err_list trad file l = if trad then ext_err (first_marker_list file l) else None.
Proof.
  induction l as [|x r IH]; intros trad file Hb; [destruct trad; reflexivity|].
  cbn [any_bad] in Hb. apply orb_false_iff in Hb as [Hx Hr].
  cbn [first_err_list first_marker_list]. rewrite (first_err_no_bad x trad file Hx).
  destruct trad.
  - destruct (first_marker file x) as [[? ?]|]; [reflexivity|]. cbn [ext_err]. exact (IH true file Hr).
  - exact (IH false file Hr).
Qed.

Lemma first_marker_some : forall t file, first_marker file t <> None <-> has_marker t = true.
Proof.
  induction t as [m l|l|f items IH] using ftree_ind'; intros file.
  - cbn. destruct m; split; intro H; try reflexivity; try discriminate; congruence.
  - cbn. split; intro H; [congruence|discriminate].
  - rewrite first_marker_import, has_marker_import.
    induction items as [|x r IHr]; [cbn; split; intro H; [congruence|discriminate]|].
    inversion IH as [|? ? IHx IHrest]; subst.
    cbn [first_marker_list any_marker]. rewrite orb_true_iff.
    rewrite <- (IHx f), <- (IHr IHrest).
    destruct (first_marker f x); split; intro H.
    + left; discriminate.
    + discriminate.
    + right; exact H.
    + destruct H as [H|H]; [congruence|exact H].
Qed.

Lemma first_marker_list_some : forall l file, first_marker_list file l <> None <-> any_marker l = true.
Proof.
  induction l as [|x r IH]; intros file; [cbn; split; intro H; [congruence|discriminate]|].
  cbn [first_marker_list any_marker]. rewrite orb_true_iff, <- (first_marker_some x file), <- (IH file).
  destruct (first_marker file x); split; intro H.
  - left; discriminate.
  - discriminate.
  - right; exact H.
  - destruct H as [H|H]; [congruence|exact H].
Qed.

(* with or without other errors: a marker anywhere means the traditional parse fails *)
Lemma first_err_marker : forall t file, has_marker t = true -> first_err true file t <> None.
Proof.
  induction t as [m l|l|f items IH] using ftree_ind'; intros file Hm.
  - cbn [first_err]. rewrite ext_flag_raises_spec. cbn in Hm. subst m. discriminate.
  - discriminate Hm.
  - rewrite first_err_import, child_traditional_mode_id. rewrite has_marker_import in Hm.
    induction items as [|x r IHr]; [discriminate Hm|].
    inversion IH as [|? ? IHx IHrest]; subst.
    cbn [any_marker] in Hm. cbn [first_err_list].
    destruct (first_err true f x) eqn:E; [discriminate|].
    apply orb_true_iff in Hm as [Hm|Hm].
    + exfalso. exact (IHx f Hm E).
    + exact (IHr IHrest Hm).
Qed.

Lemma first_err_list_marker : forall l file, any_marker l = true -> first_err_list true file l <> None.
Proof.
  induction l as [|x r IH]; intros file Hm; [discriminate Hm|].
  cbn [any_marker] in Hm. cbn [first_err_list].
  destruct (first_err true file x) eqn:E; [discriminate|].
  apply orb_true_iff in Hm as [Hm|Hm].
  - exfalso. exact (first_err_marker x file Hm E).
  - exact (IH file Hm).
Qed.

Lemma parse_files_marker : forall root, any_marker root = true -> parse_files true root <> None.
Proof. intros root H. unfold parse_files. rewrite root_traditional_mode_id. apply first_err_list_marker, H. Qed.

Lemma parse_files_no_bad : forall root trad, any_bad root = false ->
  parse_files trad root = if trad then ext_err (first_marker_list 0 root) else None.
Proof. intros root trad H. unfold parse_files. rewrite root_traditional_mode_id. apply first_err_list_no_bad, H. Qed.

Lemma traditional_rejects_iff : forall root, any_bad root = false ->
  ((exists f l, parse_files true root = Some (PEExtensible, f, l)) <-> any_marker root = true) /\
  parse_files false root = None.
Proof.
  intros root Hb. split; [|rewrite parse_files_no_bad by exact Hb; reflexivity].
  rewrite parse_files_no_bad by exact Hb. rewrite <- (first_marker_list_some root 0).
  destruct (first_marker_list 0 root) as [[f l]|]; cbn [ext_err]; split.
  - intros _. discriminate.
  - intros _. exists f, l. reflexivity.
  - intros [f [l H]]. discriminate H.
  - intro H. congruence.
Qed.

(* ------------------------------------------------------------------------------------ *)
(* render()                                                                              *)
(* ------------------------------------------------------------------------------------ *)

Lemma render_classes_std : forall rs, render_classes false rs = ROk.
Proof. induction rs as [|r rs IH]; [reflexivity|]. cbn [render_classes]. rewrite opt_check_raises_spec. exact IH. Qed.

Lemma render_classes_supported : forall o rs, forallb renderer_supports_opt rs = true -> render_classes o rs = ROk.
Proof.
  induction rs as [|r rs IH]; intro H; [reflexivity|].
  cbn [forallb] in H. apply andb_true_iff in H as [H1 H2].
  cbn [render_classes]. rewrite opt_check_raises_spec, H1, andb_false_r. exact (IH H2).
Qed.

Lemma render_classes_unsupported : forall rs, forallb renderer_supports_opt rs = false ->
  render_classes true rs = RRaise ExRendererError.
Proof.
  induction rs as [|r rs IH]; intro H; [discriminate H|].
  cbn [forallb] in H. cbn [render_classes]. rewrite opt_check_raises_spec.
  destruct (renderer_supports_opt r); cbn in *; [exact (IH H)|reflexivity].
Qed.

Lemma lang_supports_opt_table : forall l, lang_supports_opt l = match l with LPy => false | _ => true end.
Proof. intros []; vm_compute; reflexivity. Qed.

(* ------------------------------------------------------------------------------------ *)
(* decide                                                                                *)
(* ------------------------------------------------------------------------------------ *)

Definition trad_flag (a : args) : bool := enable_optimize a && negb (check a).

Lemma decide_parse_error : forall a parse lint render,
  parse (trad_flag a) <> POk ->
  exit_code (decide a parse lint render) <> 0 /\ rendered_of (decide a parse lint render) = None.
Proof.
  intros a parse lint render H. unfold decide, trad_flag in *.
  destruct (parse (enable_optimize a && negb (check a))) as [|[]]; [congruence| | | |]; cbn; split; try reflexivity; lia.
Qed.

Lemma decide_parse_only_flag : forall a p1 p2 lint render,
  p1 (trad_flag a) = p2 (trad_flag a) -> decide a p1 lint render = decide a p2 lint render.
Proof. intros a p1 p2 lint render H. unfold decide, trad_flag in *. rewrite H. reflexivity. Qed.

Lemma decide_traditional_marker : forall a root lint render,
  enable_optimize a = true -> check a = false -> any_marker root = true ->
  exit_code (decide a (parse_of root) lint render) <> 0 /\
  rendered_of (decide a (parse_of root) lint render) = None.
Proof.
  intros a root lint render HO Hc Hm. apply decide_parse_error.
  unfold trad_flag, parse_of. rewrite HO, Hc. cbn.
  destruct (parse_files true root) eqn:E; [discriminate|]. exfalso. exact (parse_files_marker root Hm E).
Qed.

Lemma decide_lang_refused : forall a parse lint io l,
  enable_optimize a = true -> check a = false -> parse true = POk ->
  lang_ a = Some l -> lang_supports_opt l = false ->
  decide a parse lint (render_model io) = AFatal MsgErrorColored 1.
Proof.
  intros a parse lint io l HO Hc HP Hl Hs. unfold decide. rewrite HO, Hc. cbn [negb andb]. rewrite HP, Hl.
  cbn [truthy_opt negb]. unfold render_model. cbn [rr_lang rr_opt].
  rewrite (render_classes_unsupported _ Hs). reflexivity.
Qed.

Lemma decide_F_without_O : forall a parse lint render,
  enable_optimize a = false -> check a = false -> truthy_list (filter_messages a) = true ->
  exit_code (decide a parse lint render) <> 0 /\ rendered_of (decide a parse lint render) = None.
Proof.
  intros a parse lint render HO Hc HF. unfold decide. rewrite HO, Hc, HF. cbn [negb andb].
  destruct (parse false) as [|[]]; cbn; try (split; [lia|reflexivity]).
  destruct (truthy_opt (lang_ a)); cbn; split; try reflexivity; lia.
Qed.

Lemma decide_F_without_O_msg : forall a parse lint render,
  enable_optimize a = false -> check a = false -> truthy_list (filter_messages a) = true ->
  parse false = POk -> truthy_opt (lang_ a) = true ->
  decide a parse lint render = AFatal (MsgLit "-F not available in non-optimization mode.") 1.
Proof.
  intros a parse lint render HO Hc HF HP Hl. unfold decide. rewrite HO, Hc, HF, Hl. cbn [negb andb]. rewrite HP.
  reflexivity.
Qed.

Lemma decide_no_lang : forall a parse lint render,
  check a = false -> lang_ a = None ->
  exit_code (decide a parse lint render) <> 0 /\ rendered_of (decide a parse lint render) = None.
Proof.
  intros a parse lint render Hc Hl. unfold decide. rewrite Hc, Hl. cbn [negb truthy_opt].
  destruct (parse _) as [|[]]; cbn; split; try reflexivity; lia.
Qed.

(* no refusal condition holds  =>  rendered, with -O / -F / --endian handed over unchanged *)
Lemma decide_accepts : forall a parse lint l,
  check a = false -> parse (trad_flag a) = POk -> lang_ a = Some l ->
  (enable_optimize a = true -> lang_supports_opt l = true) ->
  (enable_optimize a = false -> truthy_list (filter_messages a) = false) ->
  decide a parse lint (render_model true) =
  AReturn (Some (mkReq (Some l) (enable_optimize a) (filter_messages a) (endian_ a))).
Proof.
  intros a parse lint l Hc HP Hl HS HF. unfold decide, trad_flag in *. rewrite HP, Hc, Hl. cbn [negb truthy_opt].
  unfold render_model. cbn [rr_lang rr_opt].
  destruct (enable_optimize a) eqn:HO; cbn [negb].
  - rewrite (render_classes_supported true _ (HS eq_refl)). reflexivity.
  - rewrite (HF eq_refl), render_classes_std. reflexivity.
Qed.

(* every refusal is a diagnostic + non-zero exit, and nothing is rendered *)
Lemma decide_exit_nonzero_not_rendered : forall a parse lint render,
  exit_code (decide a parse lint render) <> 0 -> rendered_of (decide a parse lint render) = None.
Proof.
  intros a parse lint render. destruct (decide a parse lint render); cbn; intro H; [reflexivity|reflexivity|lia].
Qed.

(* lint is advisory: outside check mode neither the warning count nor -q is looked at *)
Definition same_but_linter (a b : args) : Prop :=
  lang_ a = lang_ b /\ check a = check b /\ enable_optimize a = enable_optimize b /\
  filter_messages a = filter_messages b /\ endian_ a = endian_ b.

Lemma decide_lint_advisory : forall a b parse l1 l2 render,
  same_but_linter a b -> check a = false ->
  decide a parse l1 render = decide b parse l2 render.
Proof.
  intros a b parse l1 l2 render (H1 & H2 & H3 & H4 & H5) Hc. unfold decide.
  rewrite <- H1, <- H2, <- H3, <- H4, <- H5, Hc. reflexivity.
Qed.

(* in check mode the parser is never in traditional mode and error diagnostics do not depend on lint *)
Lemma decide_check_parse : forall a parse lint render,
  check a = true -> parse false <> POk ->
  exists m, decide a parse lint render = AFatal m 1 /\ m <> MsgNone \/
            exists e, decide a parse lint render = AUncaught e.
Proof.
  intros a parse lint render Hc HP. unfold decide. rewrite Hc, andb_false_r.
  destruct (parse false) as [|[]]; [congruence| | | |].
  - exists MsgErrorColored. left. split; [reflexivity|discriminate].
  - exists MsgErrorStr. left. split; [reflexivity|discriminate].
  - exists MsgNone. right. eexists; reflexivity.
  - exists MsgNone. right. eexists; reflexivity.
Qed.

Lemma decide_check_exit : forall a parse lint render,
  check a = true ->
  (exit_code (decide a parse lint render) <> 0 <->
   parse false <> POk \/ (disable_linter a = false /\ (0 < lint)%nat)).
Proof.
  intros a parse lint render Hc. unfold decide. rewrite Hc, andb_false_r.
  destruct (parse false) as [|[]]; cbn [exit_code].
  - destruct (disable_linter a); cbn [negb].
    + cbn. split; [lia|]. intros [H|[H _]]; [congruence|discriminate].
    + destruct (Nat.ltb 0 lint) eqn:E; cbn [exit_code].
      * apply Nat.ltb_lt in E. split; [intros _; right; split; [reflexivity|exact E]|lia].
      * apply Nat.ltb_ge in E. split; [lia|]. intros [H|[_ H]]; [congruence|lia].
  - split; [intros _; left; discriminate|lia].
  - split; [intros _; left; discriminate|lia].
  - split; [intros _; left; discriminate|lia].
  - split; [intros _; left; discriminate|lia].
Qed.

(* the STATUS seen by the caller (low 8 bits of the code): in check mode the code is 0 or 1,
   never a count that could wrap to 0 *)
Lemma decide_check_code : forall a parse lint render,
  check a = true ->
  exit_code (decide a parse lint render) = 0 \/ exit_code (decide a parse lint render) = 1.
Proof.
  intros a parse lint render Hc. unfold decide. rewrite Hc, andb_false_r.
  destruct (parse false) as [|[]]; cbn [exit_code]; try (right; reflexivity).
  match goal with |- context [Nat.ltb ?x ?y] => destruct (Nat.ltb x y) end; cbn [exit_code]; [right|left]; reflexivity.
Qed.

Lemma decide_check_status : forall a parse lint render,
  check a = true ->
  (process_status (decide a parse lint render) <> 0 <->
   parse false <> POk \/ (disable_linter a = false /\ (0 < lint)%nat)).
Proof.
  intros a parse lint render Hc. rewrite <- (decide_check_exit a parse lint render Hc).
  unfold process_status. destruct (decide_check_code a parse lint render Hc) as [E|E]; rewrite E; cbn; lia.
Qed.

Lemma decide_check_never_renders : forall a parse lint render,
  check a = true -> rendered_of (decide a parse lint render) = None.
Proof.
  intros a parse lint render Hc. unfold decide. rewrite Hc.
  destruct (parse _) as [|[]]; cbn [rendered_of]; try reflexivity.
  match goal with |- context [Nat.ltb ?x ?y] => destruct (Nat.ltb x y) end; reflexivity.
Qed.

(* ------------------------------------------------------------------------------------ *)
(* the -F filter                                                                         *)
(* ------------------------------------------------------------------------------------ *)

Definition not_func_name (b : string) : bool := negb (is_func_name b).

Definition disp_ok (disp : dispatcher) (ex : expander) : Prop :=
  forall k ft ni,
    filter is_func_name (items_of disp ex ft ni k) =
      (if negb ft || ni then filter is_func_name (items_of disp ex false false k) else []) /\
    filter not_func_name (items_of disp ex ft ni k) = filter not_func_name (items_of disp ex false false k).

Lemma filter_map_owner : forall (p : string -> bool) (d : bdef) (l : list string),
  filter (fun e : emitted => p (fst e)) (map (fun s => (s, Some d)) l) =
  map (fun s => (s, Some d)) (filter p l).
Proof.
  intros p d l. induction l as [|s r IH]; [reflexivity|].
  cbn [map filter fst]. destruct (p s); cbn [map]; rewrite IH; reflexivity.
Qed.

Lemma filter_selected_owner : forall f (d : bdef) (l : list string),
  filter (selected f) (map (fun s => (s, Some d)) l) =
  if selected_name f (d_name d) then map (fun s => (s, Some d)) l else [].
Proof.
  intros f d l. induction l as [|s r IH]; [destruct (selected_name f (d_name d)); reflexivity|].
  cbn [map filter]. unfold selected at 1. cbn [snd]. rewrite IH.
  destruct (selected_name f (d_name d)); reflexivity.
Qed.

Lemma truthy_none : truthy_list (@None (list string)) = false. Proof. reflexivity. Qed.
Lemma name_in_none : forall n, name_in None n = false. Proof. reflexivity. Qed.

Lemma emit_disp_funcs : forall disp ex f defs, disp_ok disp ex ->
  funcs (emit_disp disp ex f defs) = filter (selected f) (funcs (emit_disp disp ex None defs)).
Proof.
  intros disp ex f defs Hok. unfold funcs, emit_disp. induction defs as [|d r IH]; [reflexivity|].
  cbn [flat_map]. rewrite !filter_app. f_equal; [|exact IH].
  unfold is_func. rewrite !filter_map_owner, filter_selected_owner.
  destruct (Hok (d_kind d) (truthy_list f) (name_in f (d_name d))) as [H1 _].
  rewrite H1. rewrite truthy_none, name_in_none. unfold selected_name.
  destruct (negb (truthy_list f) || name_in f (d_name d)); reflexivity.
Qed.

Lemma emit_disp_decls : forall disp ex f defs, disp_ok disp ex ->
  decls (emit_disp disp ex f defs) = decls (emit_disp disp ex None defs).
Proof.
  intros disp ex f defs Hok. unfold decls, emit_disp. induction defs as [|d r IH]; [reflexivity|].
  cbn [flat_map]. rewrite !filter_app. f_equal; [|exact IH].
  unfold is_decl, is_func.
  change (fun e : emitted => negb (is_func_name (fst e))) with (fun e : emitted => not_func_name (fst e)).
  rewrite !filter_map_owner.
  destruct (Hok (d_kind d) (truthy_list f) (name_in f (d_name d))) as [_ H2].
  rewrite H2. reflexivity.
Qed.

Lemma assoc_in : forall A k (l : list (string * A)) v, assoc k l = Some v -> exists k', In (k', v) l.
Proof.
  intros A k l v. induction l as [|[k' v'] r IH]; cbn [assoc]; [discriminate|].
  destruct (String.eqb k k').
  - intro H. injection H as ->. exists k'. left. reflexivity.
  - intro H. destruct (IH H) as [k'' Hin]. exists k''. right. exact Hin.
Qed.

Definition table_ok (ds : list (string * dispatcher)) (ex : expander) : Prop :=
  forall k disp, In (k, disp) ds -> disp_ok disp ex.

Lemma emit_file_funcs : forall blocks ds ex f defs, table_ok ds ex ->
  funcs (emit_file blocks ds ex f defs) = filter (selected f) (funcs (emit_file blocks ds ex None defs)).
Proof.
  intros blocks ds ex f defs Hok. unfold emit_file. induction blocks as [|b r IH]; [reflexivity|].
  cbn [flat_map]. unfold funcs in *. rewrite !filter_app. f_equal; [|exact IH].
  destruct (assoc b ds) as [disp|] eqn:E.
  - destruct (assoc_in _ _ _ _ E) as [k Hin]. exact (emit_disp_funcs disp ex f defs (Hok k disp Hin)).
  - cbn [filter]. unfold is_func. cbn [fst]. destruct (is_func_name b); reflexivity.
Qed.

Lemma emit_file_decls : forall blocks ds ex f defs, table_ok ds ex ->
  decls (emit_file blocks ds ex f defs) = decls (emit_file blocks ds ex None defs).
Proof.
  intros blocks ds ex f defs Hok. unfold emit_file. induction blocks as [|b r IH]; [reflexivity|].
  cbn [flat_map]. unfold decls in *. rewrite !filter_app. f_equal; [|exact IH].
  destruct (assoc b ds) as [disp|] eqn:E; [|reflexivity].
  destruct (assoc_in _ _ _ _ E) as [k Hin]. exact (emit_disp_decls disp ex f defs (Hok k disp Hin)).
Qed.

(* the three tables, as they are in the source NOW (finite case analysis over
   definition kind x filter given x name listed, on the translated dispatchers) *)
Ltac table_tac :=
  intros k disp Hin; cbn in Hin;
  repeat (destruct Hin as [Hin|Hin]; [injection Hin as _ <-; intros kd ft ni; destruct kd, ft, ni; vm_compute; split; reflexivity|]);
  contradiction.

Lemma table_c_src : table_ok c_src_dispatchers ex_c_src. Proof. table_tac. Qed.
Lemma table_c_hdr : table_ok c_hdr_dispatchers ex_c_hdr. Proof. table_tac. Qed.
Lemma table_go : table_ok go_dispatchers ex_go. Proof. table_tac. Qed.

Lemma filter_exact : forall t f defs,
  funcs (emit t f defs) = filter (selected f) (funcs (emit t None defs)).
Proof.
  intros [] f defs; cbn [emit]; apply emit_file_funcs; [apply table_c_src|apply table_c_hdr|apply table_go].
Qed.

Lemma decls_kept : forall t f defs, decls (emit t f defs) = decls (emit t None defs).
Proof.
  intros [] f defs; cbn [emit]; apply emit_file_decls; [apply table_c_src|apply table_c_hdr|apply table_go].
Qed.

(* the filter sees only the unqualified name *)
Lemma selected_unqualified : forall f b1 b2 d1 d2,
  d_name d1 = d_name d2 -> selected f (b1, Some d1) = selected f (b2, Some d2).
Proof. intros f b1 b2 d1 d2 H. unfold selected. cbn [snd]. rewrite H. reflexivity. Qed.

(* without -F every message of the proto gets its two functions, nothing else does *)
Lemma funcs_owner_message : forall t defs e,
  In e (funcs (emit t None defs)) -> exists d, snd e = Some d /\ In d defs /\ d_kind d = KMessage.
Proof.
  intros t defs e H. unfold funcs in H. apply filter_In in H as [Hin Hf].
  assert (G : forall blocks ds ex, In e (emit_file blocks ds ex None defs) -> is_func e = true ->
              (forall b, In b blocks -> assoc b ds = None -> is_func_name b = false) ->
              (forall k disp kd, In (k, disp) ds -> kd <> KMessage -> filter is_func_name (items_of disp ex false false kd) = []) ->
              exists d, snd e = Some d /\ In d defs /\ d_kind d = KMessage).
  { intros blocks ds ex Hi Hfe Hplain Hkind. unfold emit_file in Hi. apply in_flat_map in Hi as [b [Hb Hi]].
    destruct (assoc b ds) as [disp|] eqn:E.
    - unfold emit_disp in Hi. apply in_flat_map in Hi as [d [Hd Hi]]. apply in_map_iff in Hi as [s [<- Hs]].
      exists d. split; [reflexivity|]. split; [exact Hd|].
      destruct (defkind_eqb (d_kind d) KMessage) eqn:K; [apply defkind_eqb_eq, K|].
      exfalso. destruct (assoc_in _ _ _ _ E) as [k Hk].
      assert (Hne : d_kind d <> KMessage) by (intro X; rewrite X in K; discriminate K).
      pose proof (Hkind k disp (d_kind d) Hk Hne) as Hnil.
      assert (Hsin : In s (filter is_func_name (items_of disp ex false false (d_kind d)))).
      { apply filter_In. split; [exact Hs|exact Hfe]. }
      rewrite Hnil in Hsin. exact Hsin.
    - destruct Hi as [<-|[]]. unfold is_func in Hfe. cbn [fst] in Hfe. rewrite (Hplain b Hb E) in Hfe. discriminate. }
  destruct t; cbn [emit] in Hin; eapply G; try exact Hin; try exact Hf.
  - intros b Hb _. cbn in Hb. repeat (destruct Hb as [<-|Hb]; [try reflexivity|]); try contradiction.
    all: vm_compute in H; try discriminate.
  - intros k disp kd Hk Hne. cbn in Hk. repeat (destruct Hk as [Hk|Hk]; [injection Hk as _ <-; destruct kd; try congruence; vm_compute; reflexivity|]). contradiction.
  - intros b Hb Ha. cbn in Hb. repeat (destruct Hb as [<-|Hb]; [try reflexivity; vm_compute in Ha; discriminate Ha|]). contradiction.
  - intros k disp kd Hk Hne. cbn in Hk. repeat (destruct Hk as [Hk|Hk]; [injection Hk as _ <-; destruct kd; try congruence; vm_compute; reflexivity|]). contradiction.
  - intros b Hb Ha. cbn in Hb. repeat (destruct Hb as [<-|Hb]; [try reflexivity; vm_compute in Ha; discriminate Ha|]). contradiction.
  - intros k disp kd Hk Hne. cbn in Hk. repeat (destruct Hk as [Hk|Hk]; [injection Hk as _ <-; destruct kd; try congruence; vm_compute; reflexivity|]). contradiction.
Qed.

(* ------------------------------------------------------------------------------------ *)
(* summary lemmas used by props/C17.v                                                    *)
(* ------------------------------------------------------------------------------------ *)

Lemma lang_refused_iff : forall l, lang_supports_opt l = false <-> l = LPy.
Proof. intros []; rewrite lang_supports_opt_table; split; intro H; try reflexivity; try discriminate; congruence. Qed.

Definition refusal (a : args) (root : list ftree) : Prop :=
  (enable_optimize a = true /\ any_marker root = true) \/
  (enable_optimize a = true /\ exists l, lang_ a = Some l /\ lang_supports_opt l = false) \/
  (enable_optimize a = false /\ truthy_list (filter_messages a) = true).

Lemma refusals_nonzero : forall a root lint io,
  check a = false -> refusal a root ->
  exit_code (decide a (parse_of root) lint (render_model io)) <> 0 /\
  rendered_of (decide a (parse_of root) lint (render_model io)) = None.
Proof.
  intros a root lint io Hc [[HO Hm]|[[HO [l [Hl Hs]]]|[HO HF]]].
  - apply decide_traditional_marker; assumption.
  - destruct (parse_of root true) eqn:HP.
    + rewrite (decide_lang_refused a (parse_of root) lint io l HO Hc HP Hl Hs). cbn. split; [lia|reflexivity].
    + apply decide_parse_error. unfold trad_flag. rewrite HO, Hc. cbn. rewrite HP. discriminate.
  - apply decide_F_without_O; assumption.
Qed.

Lemma traditional_cites_first_marker : forall root, any_bad root = false ->
  parse_files true root = ext_err (first_marker_list 0 root).
Proof. intros root H. exact (parse_files_no_bad root true H). Qed.

Lemma filter_membership : forall t f defs e,
  In e (funcs (emit t f defs)) <-> In e (funcs (emit t None defs)) /\ selected f e = true.
Proof. intros t f defs e. rewrite filter_exact. apply filter_In. Qed.
