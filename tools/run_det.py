"""run_det — worker for C18 (process-level half, SAMPLED): compile schemas with the /repo
compiler under varying process conditions and report sha256 of every generated file.

stdin : JSON list of jobs; stdout: JSON list of results.

  {"kind": "fresh", "id", "dir", "files": {name: text}, "main", "targets": [[lang, optimize]],
   "seeds": [..]}
      every compilation is `python -m bitproto._main ...` in a FRESH process:
        base      cwd = source dir, absolute input path, absolute outdir, -q, PYTHONHASHSEED=0
        seed<s>   the same with PYTHONHASHSEED=s
        rel       cwd = parent dir, relative input path, relative outdir
        cwd       cwd = "/", absolute paths
        dots      input path written with ./ and ../ segments
        lint      without -q
        copy      the same files copied to another directory (other absolute path)
        nooutdir  no outdir argument (written next to the copy's source)
        decoycwd  cwd = an unrelated directory holding DIFFERENT files ("decoys") under the relative names
                  the schema imports (the parent directory used by rel/dots/nooutdir holds them too)
        pre_*     the output directory is pre-filled: empty files / first 2/3 of the lines of the expected
                  output / the output plus trailing lines / garbage / the same output
      reports the base hashes, every variant that differs, and any absolute path / cwd found
      inside generated text.

  {"kind": "inproc", "id", "dir", "group": [{"files", "main"}], "plan": [[gi, lang, opt, quiet]],
   "seed", "methods": [[class, method, kind]]}
      ONE child process (PYTHONHASHSEED=seed) runs bitproto._main.main for every plan step in
      order (repeated and interleaved compilation), hashing the outputs after each step, with
        * freeze() of every node class wrapped to check the parser's bottom-up discipline
          (everything a node points to downwards is frozen when it is frozen);
        * after all steps, a transparency audit on the very AST objects the renderers used:
          every memoised method of every reachable node is compared with a fresh evaluation of
          the undecorated function (__wrapped__).
"""
import hashlib
import json
import os
import shutil
import subprocess
import sys

PY = sys.executable
HERE = os.path.abspath(__file__)


def sha(b: bytes) -> str:
    return hashlib.sha256(b).hexdigest()


def write_files(d, files):
    os.makedirs(d, exist_ok=True)
    for name, text in files.items():
        p = os.path.join(d, name)
        os.makedirs(os.path.dirname(p), exist_ok=True)
        with open(p, "w") as f:
            f.write(text)


def hash_dir(d):
    out = {}
    if os.path.isdir(d):
        for name in sorted(os.listdir(d)):
            p = os.path.join(d, name)
            if os.path.isfile(p) and not name.endswith(".bitproto"):
                out[name] = sha(open(p, "rb").read())
    return out


def cli(lang, opt, inp, outdir, quiet, cwd, seed, timeout=120):
    env = dict(os.environ)
    env["PYTHONHASHSEED"] = str(seed)
    cmd = [PY, "-m", "bitproto._main", lang, inp]
    if outdir is not None:
        cmd.append(outdir)
    if quiet:
        cmd.append("-q")
    if opt:
        cmd.append("-O")
    try:
        p = subprocess.run(cmd, cwd=cwd, env=env, capture_output=True, text=True, timeout=timeout)
        return p.returncode, p.stderr[-600:]
    except subprocess.TimeoutExpired:
        return 124, "TIMEOUT"


def job_fresh(job):
    d = job["dir"]
    shutil.rmtree(d, ignore_errors=True)
    src = os.path.join(d, "src")
    cpy = os.path.join(d, "elsewhere", "deeper", "copy")
    write_files(src, job["files"])
    write_files(cpy, job["files"])
    # decoys: DIFFERENT files under the relative names the schema imports, placed in working directories
    # the compiler is started from (never next to the importing files): an import must not pick them up
    decoy_cwd = os.path.join(d, "unrelated", "cwd")
    os.makedirs(decoy_cwd, exist_ok=True)
    if job.get("decoys"):
        write_files(decoy_cwd, job["decoys"])
        write_files(d, job["decoys"])
    main = job["main"]
    res = {"id": job["id"], "targets": []}
    for lang, opt in job["targets"]:
        tag = lang + ("O" if opt else "")
        t = {"lang": lang, "opt": opt, "diffs": [], "leaks": [], "variants": 0}
        base_out = os.path.join(d, "out", "base_" + tag)
        os.makedirs(base_out, exist_ok=True)
        rc, err = cli(lang, opt, os.path.join(src, main), base_out, True, src, 0)
        base = hash_dir(base_out)
        t["rc"] = rc
        t["base"] = base
        if rc != 0:
            t["stderr"] = err
        # generated text must not mention where it was compiled
        for name in base:
            txt = open(os.path.join(base_out, name), errors="replace").read()
            for needle in (d, os.path.realpath(d), src, base_out):
                if needle and needle in txt:
                    t["leaks"].append([name, needle])
        variants = []
        for s in job.get("seeds", []):
            variants.append(("seed%s" % s, dict(inp=os.path.join(src, main), out=os.path.join(d, "out", "seed%s_%s" % (s, tag)),
                                                 quiet=True, cwd=src, seed=s)))
        rel_out = os.path.join("out", "rel_" + tag)
        variants.append(("rel", dict(inp=os.path.join("src", main), out=rel_out, quiet=True, cwd=d, seed=0,
                                     outabs=os.path.join(d, rel_out))))
        variants.append(("cwd", dict(inp=os.path.join(src, main), out=os.path.join(d, "out", "cwd_" + tag), quiet=True,
                                     cwd="/", seed=0)))
        variants.append(("dots", dict(inp=os.path.join(src, "..", "src", ".", main),
                                      out=os.path.join(d, "out", "dots_" + tag), quiet=True, cwd=d, seed=0)))
        variants.append(("lint", dict(inp=os.path.join(src, main), out=os.path.join(d, "out", "lint_" + tag), quiet=False,
                                      cwd=src, seed=0)))
        variants.append(("copy", dict(inp=os.path.join(cpy, main), out=os.path.join(d, "out", "copy_" + tag), quiet=True,
                                      cwd=cpy, seed=0)))
        variants.append(("nooutdir", dict(inp=os.path.join(cpy, main), out=None, quiet=True, cwd=d, seed=0, outabs=cpy)))
        variants.append(("decoycwd", dict(inp=os.path.join(src, main), out=os.path.join(d, "out", "decoycwd_" + tag),
                                          quiet=True, cwd=decoy_cwd, seed=0)))
        # what the output directory holds BEFORE the run must not matter
        if rc == 0 and base:
            for pre in ("pre_empty", "pre_prefix", "pre_longer", "pre_garbage", "pre_same"):
                variants.append((pre, dict(inp=os.path.join(src, main), out=os.path.join(d, "out", pre + "_" + tag),
                                           quiet=True, cwd=src, seed=0, pre=pre)))
        pick = job.get("variants")
        if pick is not None:
            only = job.get("variant_targets")        # path variants on these target indexes only (None: all)
            ti = len(res["targets"])
            variants = [(n, v) for n, v in variants
                        if n.startswith("seed") or (n in pick and (only is None or ti in only))]
        for vname, v in variants:
            # nooutdir writes next to the source: clear earlier outputs of other targets first
            if v["out"] is None:
                for n in os.listdir(cpy):
                    if not n.endswith(".bitproto") and os.path.isfile(os.path.join(cpy, n)):
                        os.remove(os.path.join(cpy, n))
            else:
                os.makedirs(v.get("outabs") or v["out"], exist_ok=True)
            if v.get("pre"):
                for name in base:
                    old = open(os.path.join(base_out, name), errors="replace").read()
                    lines = old.splitlines(True)
                    new = {"pre_empty": "",
                           "pre_prefix": "".join(lines[:max(1, (2 * len(lines)) // 3)]),   # an earlier, shorter revision
                           "pre_longer": old + "\n\n" + "".join(lines[-3:]),              # a later, longer revision
                           "pre_garbage": "\x00\x01 not an output file\n" * 3,
                           "pre_same": old}[v["pre"]]
                    with open(os.path.join(v["out"], name), "w") as f:
                        f.write(new)
            rc2, err2 = cli(lang, opt, v["inp"], v["out"], v["quiet"], v["cwd"], v["seed"])
            got = hash_dir(v.get("outabs") or v["out"])
            t["variants"] += 1
            if rc2 != rc or got != base:
                t["diffs"].append({"variant": vname, "rc": rc2, "got": got, "stderr": err2[-300:]})
        res["targets"].append(t)
    return res


# ---------------------------------------------------------------------------------------------
# child: repeated / interleaved in-process compilation + audits
# ---------------------------------------------------------------------------------------------

def child(job):
    import contextlib
    import dataclasses
    import io

    import bitproto
    import bitproto._ast as A
    import bitproto._main as M


    class Fatal(Exception):
        pass

    def fatal(s="", code=1):
        raise Fatal(str(s)[:300])

    M.fatal = fatal

    # ---- the parser's discipline, checked at every freeze() ---------------------------------
    UP = {"scope_stack", "_bound", "references"}   # upward / never read by a memoised method
    disc = {"freezes": 0, "violations": []}

    def downward_nodes(n):
        for f in dataclasses.fields(n):
            if f.name in UP:
                continue
            v = getattr(n, f.name, None)
            stack = [v]
            while stack:
                x = stack.pop()
                if isinstance(x, A.Node):
                    yield f.name, x
                elif isinstance(x, (list, tuple)):
                    stack.extend(x)
                elif isinstance(x, dict):
                    stack.extend(x.values())

    def wrap_freeze(cls):
        orig = cls.__dict__["freeze"]

        def freeze(self):
            disc["freezes"] += 1
            for fname, x in downward_nodes(self):
                if "__setattr__" in type(x).__dict__ and not x.is_frozen():
                    if len(disc["violations"]) < 5:
                        disc["violations"].append([type(self).__name__, fname, type(x).__name__])
            return orig(self)
        setattr(cls, "freeze", freeze)

    for cname in dir(A):
        c = getattr(A, cname)
        if isinstance(c, type) and issubclass(c, A.Node) and "__setattr__" in c.__dict__ and "freeze" in c.__dict__:
            wrap_freeze(c)

    # ---- pass 1: the plan as given, NOTHING retained between steps (compiled trees become garbage,
    #      their addresses may be handed out again: what a long-lived process really does) ------------
    import gc
    d = job["dir"]
    paths = []
    for gi, g in enumerate(job["group"]):
        sd = os.path.join(d, "g%d" % gi)
        write_files(sd, g["files"])
        paths.append(os.path.join(sd, g["main"]))
    steps = []

    def one_step(si, gi, lang, opt, quiet, tag):
        od = os.path.join(d, "o%s%d" % (tag, si))
        os.makedirs(od, exist_ok=True)
        err = None
        try:
            with contextlib.redirect_stderr(io.StringIO()):
                M.main(paths[gi], lang=lang, outdir=od, disable_linter=quiet, enable_optimize=opt)
        except Fatal as e:
            err = "fatal: " + str(e)
        except BaseException as e:   # noqa
            err = type(e).__name__ + ": " + str(e)[:200]
        steps.append({"gi": gi, "lang": lang, "opt": opt, "hashes": hash_dir(od), "err": err, "pass": tag})

    for si, (gi, lang, opt, quiet) in enumerate(job["plan"]):
        one_step(si, gi, lang, opt, quiet, "a")
        gc.collect()

    # ---- pass 2: every distinct step once more, now recording the AST objects the renderers use ----
    protos = []
    orig_parse = M.parse

    def rec_parse(*a, **k):
        p = orig_parse(*a, **k)
        protos.append(p)
        return p

    M.parse = rec_parse
    seen_steps = set()
    for si, (gi, lang, opt, quiet) in enumerate(job["plan"]):
        if (gi, lang, opt) in seen_steps:
            continue
        seen_steps.add((gi, lang, opt))
        one_step(si, gi, lang, opt, quiet, "b")

    # ---- transparency audit ------------------------------------------------------------------
    def same(a, b, depth=0):
        if a is b:
            return True
        if type(a) is not type(b):
            return False
        if isinstance(a, (list, tuple)):
            return len(a) == len(b) and all(same(x, y, depth + 1) for x, y in zip(a, b))
        if isinstance(a, dict):
            return list(a.keys()) == list(b.keys()) and all(same(a[k], b[k], depth + 1) for k in a)
        if isinstance(a, A.Node):
            # distinct objects: only default options are created on the fly
            return (getattr(a, "name", None), getattr(a, "value", None), a.token, a.lineno) == \
                   (getattr(b, "name", None), getattr(b, "value", None), b.token, b.lineno)
        return a == b

    def outcome(fn):
        try:
            return ("ok", fn())
        except Exception as e:   # noqa
            return ("exc", type(e).__name__)

    nodes = {}

    def walk(n):
        if id(n) in nodes:
            return
        nodes[id(n)] = n
        for _f, x in downward_nodes(n):
            walk(x)

    for p in protos:
        walk(p)
    audit = {"nodes": len(nodes), "compared": 0, "mismatches": [], "unfrozen": 0}
    methods = job.get("methods", [])
    kinds = [A.Enum, A.Message, A.Constant, A.Alias, A.Option, A.MessageField, A.EnumField, A.Proto, A.Definition]
    for n in nodes.values():
        if "__setattr__" in type(n).__dict__ and not n.is_frozen():
            audit["unfrozen"] += 1
        for cname, mname, _kind in methods:
            c = getattr(A, cname, None)
            if c is None or not isinstance(n, c):
                continue
            dec = getattr(type(n), mname, None)
            raw = getattr(dec, "__wrapped__", None)
            if raw is None:
                audit["mismatches"].append([type(n).__name__, mname, "no __wrapped__"])
                continue
            argsets = [()]
            if mname == "filter":
                argsets = [((t,), dict(recursive=r, bound=b)) for t in kinds for r in (False, True)
                           for b in (None, getattr(n, "_bound", None) or n)]
            elif mname == "get_member":
                ks = list(n.members.keys())
                argsets = [((k,), {}) for k in ks] + [(("no_such_member",), {}), ((), {})]
                for k in ks:
                    m = n.members[k]
                    if isinstance(m, A.Scope):
                        argsets += [((k, k2), {}) for k2 in list(m.members.keys())[:4]]
            elif mname == "get_name_by_member":
                argsets = [((m,), {}) for m in n.members.values()] + [((n,), {})]
            elif mname in ("option", "get_option_or_raise"):
                names = list(n.option_descriptors().keys()) + ["no.such.option"]
                argsets = [((k,), {}) for k in names]
            else:
                argsets = [((), {})]
            for a in argsets:
                args, kw = a if a else ((), {})
                got = outcome(lambda: getattr(n, mname)(*args, **kw))
                want = outcome(lambda: raw(n, *args, **kw))
                audit["compared"] += 1
                if got[0] != want[0] or not same(got[1], want[1]):
                    if len(audit["mismatches"]) < 5:
                        audit["mismatches"].append([type(n).__name__, getattr(n, "name", ""), mname,
                                                    repr(args)[:80], repr(got)[:120], repr(want)[:120]])
    return {"id": job["id"], "steps": steps, "audit": audit, "discipline": disc,
            "file": bitproto.__file__, "hashseed": os.environ.get("PYTHONHASHSEED")}


def job_inproc(job):
    d = job["dir"]
    shutil.rmtree(d, ignore_errors=True)
    os.makedirs(d, exist_ok=True)
    env = dict(os.environ)
    env["PYTHONHASHSEED"] = str(job.get("seed", 0))
    try:
        p = subprocess.run([PY, HERE, "--child"], input=json.dumps(job), env=env, capture_output=True, text=True,
                           timeout=300, cwd=d)
    except subprocess.TimeoutExpired:
        return {"id": job["id"], "worker_error": "child timeout"}
    if p.returncode != 0:
        return {"id": job["id"], "worker_error": "child rc=%d %s" % (p.returncode, p.stderr[-800:])}
    try:
        return json.loads(p.stdout)
    except Exception:
        return {"id": job["id"], "worker_error": "child output unreadable: " + p.stdout[-300:]}


def main():
    if len(sys.argv) > 1 and sys.argv[1] == "--child":
        json.dump(child(json.load(sys.stdin)), sys.stdout)
        return
    jobs = json.load(sys.stdin)
    out = []
    for j in jobs:
        try:
            out.append(job_fresh(j) if j["kind"] == "fresh" else job_inproc(j))
        except BaseException as e:   # noqa
            import traceback
            out.append({"id": j.get("id"), "worker_error": type(e).__name__ + ": " + traceback.format_exc()[-800:]})
    json.dump(out, sys.stdout)


if __name__ == "__main__":
    main()
