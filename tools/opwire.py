"""opwire — the C04 harness: generated traditional schemas through the real compiler in
optimization mode; T1 on every emitted Encode/Decode function (C x {little, big, both}, Go);
T2 on gcc-built shared objects (little, big, both, both with -DBP_BIG_ENDIAN); one Coq
evaluation per shard in which EMITTED STATEMENTS, IMPLEMENTATION outputs, MODEL
(OpMode.exec over OpMode.plan) and SPEC (Spec.wire / OpMode.store) meet."""
from __future__ import annotations

import glob
import json
import os
import random
import sys
from typing import Any, Dict, List, Optional, Tuple

import pyside
import schema_gen as sg
from t1_opmode import CT1, GoT1, T1Error, strip_alias
from vlib import VERIF, Broken, Check, cbool, clist, coq_eval_file, cz, parse_zlist, run_workers

HEADER = """From Coq Require Import ZArith List Bool.
From BP Require Import Bits Schema Spec OpMode.
Import ListNotations.
Open Scope Z_scope.
"""

ASSUME = [
    "Coq 8.16.1 kernel and its vm_compute (sweeps, witnesses, correspondence evaluation)",
    "tools/translate_opmode.py (T0) reads the formatters correctly: int(a/b) -> Z.div for 0<=a<2^53,b>0; "
    "the statement templates (f-strings), smart_shift, the message/array/alias recursion and the --endian "
    "selection are pinned by AST digest and modelled by hand in coq/theories/OpMode.v",
    "tools/t1_opmode.py (T1) parses the emitted C and Go faithfully (own expression parser with the "
    "precedence table of each language); unknown shapes are rejected",
    "C semantics of the six statement shapes as written in OpMode.exec: integer promotion to 32-bit int, "
    "modular conversion to unsigned and (gcc) to signed types, arithmetic >> on negative signed values (gcc), "
    "little-endian object representation for the byte-pointer statements, bool objects hold 0/1, "
    "unsigned char is 8 bits; validated by T2 (gcc -O1 on x86-64) on every run",
    "Go is never executed (no toolchain): its typed-integer semantics (8-bit byte shifts, arithmetic >> on "
    "signed, modular conversions, precedence of & << >>) are modelled in OpMode.exec, not validated by running",
    "the -DBP_BIG_ENDIAN branch is value-based; it is executed on x86-64 only; that a big-endian host runs "
    "the same value computations is C semantics, not observed",
    "ctypes + the gcc sizeof/offsetof probe read and write the struct members where the compiler put them",
]

CFG = [("little", "ELittle", False), ("big", "EBig", False), ("both", "EBoth", False), ("both_be", "EBoth", True)]


# ---- leaves of a schema tree, in the order of OpMode.leaves (norm t) ----------------------------

def py_leaves(t: sg.T, des: str = "", out: Optional[List[Tuple[str, sg.T]]] = None) -> List[Tuple[str, sg.T]]:
    """[(C member designator relative to the struct, scalar type)]"""
    if out is None:
        out = []
    u = strip_alias(t)
    if u.kind == "msg":
        for num, nm, ft in sorted(u.fields, key=lambda f: f[0]):
            py_leaves(ft, (des + "." if des else "") + nm, out)
    elif u.kind == "arr":
        for k in range(u.cap):
            py_leaves(u.t, f"{des}[{k}]", out)
    else:
        out.append((des, u))
    return out


def py_leaf_values(t: sg.T, v: Any, out: Optional[List[int]] = None) -> List[int]:
    if out is None:
        out = []
    u = strip_alias(t)
    if u.kind == "msg":
        for num, nm, ft in sorted(u.fields, key=lambda f: f[0]):
            py_leaf_values(ft, v[num] if num in v else v[str(num)], out)
    elif u.kind == "arr":
        for x in v:
            py_leaf_values(u.t, x, out)
    elif u.kind == "bool":
        out.append(1 if v else 0)
    else:
        out.append(int(v))
    return out


def messages_of(s: sg.Schema, extra: Optional[List[sg.T]] = None) -> List[Tuple[str, sg.T]]:
    """named messages: every one reachable from the top plus every other generated definition"""
    seen: Dict[str, sg.T] = {}

    def walk(t: sg.T) -> None:
        if t.kind in ("alias", "arr"):
            walk(t.t)
        elif t.kind == "msg":
            nm = sg.py_type_name(s, t, 0)
            if nm not in seen:
                seen[nm] = t
            for _, _, ft in t.fields:
                walk(ft)

    walk(s.top)
    for t in extra or []:
        if t.kind == "msg":
            walk(t)
    return list(seen.items())


# ---- case generation ---------------------------------------------------------------------------

def params_for(i: int, rng) -> sg.Params:
    r = i % 10
    if r == 0:
        return sg.Params(allow_ext=False, max_bits=9000, max_leaves=500, big_prob=0.3)
    if r == 1:
        return sg.Params(allow_ext=False, max_depth=4, max_fields=8)
    if r == 2:
        return sg.Params(allow_ext=False, allow_import=False, allow_nested=False, max_fields=3, max_bits=200)
    if r == 3:
        return sg.Params(allow_ext=False, allow_enum=False, max_fields=5)
    return sg.Params(allow_ext=False)


def single_field_schema(kind: str, n: int, off: int, form: str) -> sg.Schema:
    """[uint<off> pad = 1;] T x = 2  with T scalar / array element / aliased (the C14 shape)."""
    base = sg.T(kind, n=n) if kind in ("uint", "int") else sg.T(kind)
    if form == "alias":
        ft = sg.T("alias", name="Tal", t=base)
    elif form == "arr":
        ft = sg.T("arr", cap=3, t=base)
    elif form == "alias_arr":
        ft = sg.T("alias", name="Tal", t=sg.T("arr", cap=2, t=base))
    else:
        ft = base
    top = sg.T("msg", name="Tm")
    if off:
        top.fields.append((1, "fpad", sg.T("uint", n=off)))
    top.fields.append((2, "fx", ft))
    top.fields.append((3, "ftail", sg.T("uint", n=3)))
    f = sg.SFile(0, "single", "single")
    if ft.kind == "alias":
        f.defs.append(ft)
    f.defs.append(top)
    s = sg.Schema([f], top)
    g = sg.Gen(random.Random(0), sg.Params(allow_ext=False))
    g.files = [f]
    g.named = [d for d in f.defs]
    s.texts = sg.render_files(g, s)
    return s


def gen_cases(ck: Check, n_schemas: int, n_single: int, n_values: int):
    cases = []
    for i in range(n_schemas):
        rng = random.Random(f"{ck.prop}:{ck.seed}:{i}")
        g = sg.Gen(rng, params_for(i, rng))
        s = g.schema()
        vals = [sg.gen_value(s.top, rng, pyside.MODES[k % len(pyside.MODES)]) for k in range(n_values)]
        cases.append((s, vals, f"gen#{i}", list(g.named)))
    # slice of the finite single-field space (type x offset x position), chosen by the seed
    rng = random.Random(f"{ck.prop}:{ck.seed}:single")
    space = [(k, n, off, form) for k in ("uint", "int") for n in range(1, 65) for off in range(8)
             for form in ("plain", "alias", "arr", "alias_arr")]
    space += [(k, 0, off, form) for k in ("bool", "byte") for off in range(8)
              for form in ("plain", "alias", "arr", "alias_arr")]
    for (k, n, off, form) in (space if n_single >= len(space) else rng.sample(space, n_single)):
        s = single_field_schema(k, n, off, form)
        vals = [sg.gen_value(s.top, rng, m) for m in ("random", "max", "min", "ones", "zero", "random")[:max(2, n_values)]]
        cases.append((s, vals, f"single:{k}{n or ''}@{off}/{form}", []))
    return cases


def load_corpus(prop: str):
    out = []
    for p in sorted(glob.glob(os.path.join(VERIF, "corpus", prop, "*.json"))):
        j = json.load(open(p))
        s = sg.schema_from_json(j["schema"])
        vals = [sg.value_from_json(s.top, v) for v in j["values"]]
        out.append((s, vals, "corpus:" + os.path.basename(p), []))
    return out


def make_job(ck: Check, idx: int, s: sg.Schema, vals: List[Any], rng, run_c: bool = True) -> Dict[str, Any]:
    lv = py_leaves(s.top)
    nb = (s.top.nbits() + 7) // 8
    return dict(id=idx, dir=os.path.join(ck.dir, f"s{idx}"), files=s.texts,
                top_norm=sg.py_type_name(s, s.top, 0).replace("_", "").lower(), nbytes=nb,
                leaves=[d for d, _ in lv], values=[py_leaf_values(s.top, v) for v in vals],
                rand_bufs=[[rng.randrange(256) for _ in range(nb)] for _ in range(1)], run_c=run_c)


def zl(xs) -> str:
    return clist(cz(int(x)) for x in xs)


def explain(ck: Check, s: sg.Schema, v: Any) -> Optional[List[int]]:
    path = os.path.join(ck.dir, f"explain_{abs(hash(json.dumps(sg.value_to_json(s.top, v), sort_keys=True))) % 10**8}.v")
    with open(path, "w") as f:
        f.write("From Coq Require Import ZArith List Bool.\nFrom BP Require Import Bits Schema Spec.\n"
                "Import ListNotations.\nOpen Scope Z_scope.\n"
                f"Eval vm_compute in (wire {s.coq_ty()} {sg.coq_val(s.top, v)}).\n")
    try:
        return parse_zlist(coq_eval_file(path, 300), path)
    except Broken:
        return None



class Pool:
    """Per-schema pool of literals: every distinct literal is defined once and referred to by name
    (the same bytes are observed under four build configurations; the `both` output repeats the
    statements of `little` and `big`): identical text is the identical term."""

    def __init__(self, i: int):
        self.i = i
        self.defs: List[str] = []
        self.names: Dict[Tuple[str, str], str] = {}

    def _get(self, ty: str, term: str) -> str:
        key = (ty, term)
        if key not in self.names:
            nm = f"l_{self.i}_{len(self.names)}"
            self.names[key] = nm
            self.defs.append(f"Definition {nm} : {ty} := {term}.")
        return self.names[key]

    def zl(self, xs) -> str:
        return self._get("list Z", zl(xs))

    def stmts(self, terms: List[str]) -> str:
        return self._get("list stmt", clist(terms))

    def mtypes(self, term: str) -> str:
        return self._get("list (chain * cty)", term)


class Lets:
    """let-bound shared subterms of one result group (vm_compute evaluates each once)."""

    def __init__(self):
        self.vars: Dict[str, str] = {}

    def var(self, term: str) -> str:
        if term not in self.vars:
            self.vars[term] = f"x{len(self.vars)}"
        return self.vars[term]

    def wrap(self, body: str) -> str:
        return "".join(f"let {v} := {t} in\n  " for t, v in self.vars.items()) + body


class OpShards:
    """Like pyside.Shards, but a schema contributes GROUPS: each a term of type list Z with one
    meta per element; the shard's result is the concatenation of its groups."""

    def __init__(self, ck: Check, tag: str, per_shard: int):
        self.ck, self.tag, self.per = ck, tag, per_shard
        self.items: List[Tuple[str, List[Tuple[str, List[Any]]]]] = []

    def add(self, defs: str, groups: List[Tuple[str, List[Any]]]) -> None:
        self.items.append((defs, groups))

    def run(self, header: str, timeout: int = 900) -> List[Tuple[Any, int]]:
        from vlib import coq_eval_many
        files, layout = [], []
        for si in range(0, len(self.items), self.per):
            chunk = self.items[si:si + self.per]
            path = os.path.join(self.ck.dir, f"{self.tag}_{si // self.per}.v")
            body = [header]
            names, metas = [], []
            for defs, groups in chunk:
                body.append(defs)
                for term, ms in groups:
                    nm = f"g_{len(names)}"
                    body.append(f"Definition {nm} : list Z :=\n  {term}.")
                    names.append(nm)
                    metas.extend(ms)
            body.append("Definition results : list Z := " + " ++ ".join(names + ["[]"]) + ".")
            body.append("Eval vm_compute in results.")
            with open(path, "w") as f:
                f.write("\n".join(body) + "\n")
            files.append(path)
            layout.append(metas)
        outs = coq_eval_many(files, timeout)
        res = []
        for path, metas in zip(files, layout):
            codes = parse_zlist(outs[path], path)
            if len(codes) != len(metas):
                raise Broken(f"case file {os.path.basename(path)}: {len(metas)} cases but {len(codes)} results",
                             outs[path][-1500:])
            res.extend(zip(metas, codes))
        return res

# ---- the check ---------------------------------------------------------------------------------

def run_opmode(ck: Check, prop_file: str, n_quick=(70, 30, 3), n_thorough=(1400, 4160, 6)) -> None:
    ck.assumptions.extend(ASSUME)
    ck.coverage["trusted_base"] = ["Coq 8.16.1 kernel + vm_compute", "tools/translate.py + tools/translate_opmode.py",
                                   "tools/t1_opmode.py", "tools/run_opmode.py + gcc + ctypes (x86-64)",
                                   "no axioms (Print Assumptions: closed)"]
    ck.try_prove(prop_file, model_vo=("theories/OpMode.vo",))

    ns, nsingle, nv = n_quick if ck.quick else n_thorough
    if os.environ.get("VERIF_C04_SIZES"):          # development aid: "schemas,single,values"
        ns, nsingle, nv = (int(x) for x in os.environ["VERIF_C04_SIZES"].split(","))
    cases = load_corpus(ck.prop)
    n_corpus = len(cases)
    if ck.replay_file:                              # ./check C04 --replay <file>: only that input
        j = json.load(open(ck.replay_file))
        if "schema" in j and ("value" in j or "values" in j):
            rs = sg.schema_from_json(j["schema"])
            rv = [sg.value_from_json(rs.top, x) for x in (j.get("values") or [j["value"]])]
            cases = [(rs, rv, "replay:" + os.path.basename(ck.replay_file), [])]
            n_corpus = 0
        else:
            print(f"[{ck.prop}] replay file names no concrete input (broken obligation only): running the normal check",
                  file=sys.stderr)
            cases.extend(gen_cases(ck, ns, nsingle, nv))
    else:
        # deterministic boundary catalogue shared by the C04 / C06 / C07 / C14 op-mode stages
        import opboundary
        if os.environ.get("VERIF_OP_BOUNDARY", "1") != "0":
            cases.extend(opboundary.cases(ck.prop, ck.seed, ck.quick, n_values=max(2, min(nv, 3))))
        cases.extend(gen_cases(ck, ns, nsingle, nv))
    jobs = []
    flag_cycle = [["gcc", "-O1"]] if ck.quick else [["gcc", "-O0"], ["gcc", "-O1"], ["gcc", "-O2"], ["gcc", "-O3"],
                                                     ["clang", "-O0"], ["clang", "-O2"]]
    if os.environ.get("VERIF_C04_CFLAGS"):
        flag_cycle = [["gcc"] + os.environ["VERIF_C04_CFLAGS"].split()]
    for i, (s, vals, origin, named) in enumerate(cases):
        j = make_job(ck, i, s, vals, random.Random(f"{ck.prop}:{ck.seed}:buf:{i}"))
        j["cc"] = flag_cycle[i % len(flag_cycle)]
        jobs.append(j)
    import sys as _sys, time as _time
    _t0 = _time.time()
    results = run_workers("run_opmode.py", jobs, chunk=max(2, len(jobs) // 48), timeout=900)
    _t1 = _time.time()

    sh = OpShards(ck, ck.prop.lower(), per_shard=max(1, min(6, -(-len(cases) // 32))))
    model_ok = ck.model_ok
    header = HEADER if model_ok else (
        "From Coq Require Import ZArith List Bool.\nFrom BP Require Import Bits Schema Spec.\n"
        "Import ListNotations.\nOpen Scope Z_scope.\n"
        "Fixpoint zlist_eqb (a b : list Z) : bool := match a, b with [], [] => true | x :: r, y :: s => "
        "(x =? y) && zlist_eqb r s | _, _ => false end.\n")
    n_eval = 0
    n_stmt_funcs = 0
    distinct = set()
    impl_fail = 0
    t1_fail: Dict[int, str] = {}
    for i, ((s, vals, origin, named), r) in enumerate(zip(cases, results)):
        if "c" not in r:
            impl_fail += 1
            err = r.get("compile_error") or r.get("worker_error") or "?"
            ck.violation(f"the compiler could not process a valid traditional schema in optimization mode: {err}",
                         {"schema": sg.schema_to_json(s), "error": err, "origin": origin,
                          "obligation": "tie T1/T2 (implementation could not be run)"}, found_input=True)
            continue
        pool = Pool(i)
        pool.defs.append(f"Definition t_{i} : ty := {s.coq_ty()}.")
        groups: List[Tuple[str, List[Any]]] = []
        # ---------------- T1 ----------------
        if model_ok and "(t2-only)" not in origin:
            try:
                t1x: List[str] = []
                t1m: List[Any] = []
                msgs = messages_of(s, named)
                cts = {e: CT1(r["c"][e], e) for e in ("little", "big", "both")}
                go = GoT1(r["go"])
                for k, (mname, mt) in enumerate(msgs):
                    pool.defs.append(f"Definition m_{i}_{k} : ty := {mt.coq()}.")
                    for e, coqe in (("little", "ELittle"), ("big", "EBig"), ("both", "EBoth")):
                        for enc in (True, False):
                            tag = f"c_{e}_{'enc' if enc else 'dec'}"
                            t1x.append(f"(if cbody_eqb {cts[e].body(mt, mname, enc, pool.stmts)} "
                                       f"(c_body {coqe} {cbool(enc)} m_{i}_{k}) then 0 else 4)")
                            t1m.append((i, "t1", f"{mname}:{tag}"))
                            n_stmt_funcs += 1
                        bl = cts[e].bytes_length.get(mname.replace("_", "").lower())
                        t1x.append(f"(if mtypes_eqb {pool.mtypes(cts[e].member_types(mt, mname))} (member_types m_{i}_{k}) && "
                                   f"({bl if bl is not None else -1} =? nbytes m_{i}_{k}) then 0 else 4)")
                        t1m.append((i, "t1", f"{mname}:c_{e}_struct"))
                    for enc in (True, False):
                        tag = f"go_{'enc' if enc else 'dec'}"
                        t1x.append(f"(if stmts_eqb {go.body(mt, mname, enc, pool.stmts)} (go_body {cbool(enc)} m_{i}_{k}) then 0 else 4)")
                        t1m.append((i, "t1", f"{mname}:{tag}"))
                        n_stmt_funcs += 1
                    gsz = go.size.get(mname.replace("_", "").lower())
                    t1x.append(f"(if mtypes_eqb {pool.mtypes(go.member_types(mt, mname))} (member_types m_{i}_{k}) && "
                               f"({gsz if gsz is not None else -1} =? nbytes m_{i}_{k}) then 0 else 4)")
                    t1m.append((i, "t1", f"{mname}:go_struct"))
                groups.append((clist(t1x), t1m))
            except T1Error as e:
                t1_fail[i] = str(e)
        # ---------------- T2 ----------------
        if "runs" not in r or r.get("build_error"):
            impl_fail += 1
            err = json.dumps(r.get("build_error") or r.get("worker_error") or "?")[:1500]
            ck.violation(f"the generated optimization-mode C could not be built or run: {err}",
                         {"schema": sg.schema_to_json(s), "error": err, "origin": origin,
                          "obligation": "tie T2 (implementation could not be run)"}, found_input=True)
            sh.add("\n".join(pool.defs) + "\n", groups)
            continue
        # which statement list each build configuration compiles (theorem C04_endian_branch)
        branch = {"little": "c_le_body", "both": "c_le_body", "big": "c_be_body", "both_be": "c_be_body"}
        for k, v in enumerate(vals):
            pool.defs.append(f"Definition v_{i}_{k} : val := {sg.coq_val(s.top, v)}.")
            distinct.add((s.texts[s.main], json.dumps(sg.value_to_json(s.top, v), sort_keys=True)))
            lets = Lets()
            xs: List[str] = []
            ms: List[Any] = []
            for cfg, coqe, macro in CFG:
                rr = r["runs"][cfg][k]
                n_eval += 1
                enc_impl = pool.zl(rr["enc"])
                if rr.get("oob"):
                    ck.violation("generated -O code wrote outside the buffer / the struct, or Encode modified the struct",
                                 {"schema": sg.schema_to_json(s), "value": sg.value_to_json(s.top, v), "config": cfg,
                                  "origin": origin}, found_input=True)
                w = lets.var(f"wire t_{i} v_{i}_{k}")
                if not model_ok:
                    xs.append(f"(if zlist_eqb {w} {enc_impl} then 0 else 2)")
                    ms.append((i, "enc", (k, cfg)))
                    continue
                me = lets.var(f"run_encode ({branch[cfg]} true t_{i}) t_{i} v_{i}_{k}")
                xs.append(f"((if opt_zlist_eqb {me} {enc_impl} then 0 else 1) + (if zlist_eqb {w} {enc_impl} then 0 else 2))")
                ms.append((i, "enc", (k, cfg)))
                md = lets.var(f"run_decode ({branch[cfg]} false t_{i}) t_{i} {enc_impl}")
                sp = lets.var(f"mem_pats (store (norm t_{i}) v_{i}_{k})")
                dec_impl = pool.zl(rr["dec"])
                xs.append(f"((if opt_pats_eqb {md} {dec_impl} then 0 else 1) + (if zlist_eqb {sp} {dec_impl} then 0 else 2))")
                ms.append((i, "dec", (k, cfg)))
                if k == 0:           # decode into a struct pre-filled with 0xA5 (tie only)
                    dirty = pool.zl([int.from_bytes(bytes([0xA5] * z), "little") for _, z in r["layout"][cfg]["leaves"]])
                    mdd = lets.var(f"run_decode_from ({branch[cfg]} false t_{i}) (dirty_mem (norm t_{i}) {dirty}) {enc_impl}")
                    xs.append(f"(if opt_pats_eqb {mdd} {pool.zl(rr['dirty'])} then 0 else 1)")
                    ms.append((i, "dirty", (k, cfg)))
            groups.append((lets.wrap(clist(xs)), ms))
        if model_ok:
            lets = Lets()
            xs, ms = [], []
            for cfg, coqe, macro in CFG:
                for k, (data, rr) in enumerate(zip(jobs[i]["rand_bufs"], r["rand"][cfg])):
                    n_eval += 1
                    md = lets.var(f"run_decode ({branch[cfg]} false t_{i}) t_{i} {pool.zl(data)}")
                    xs.append(f"(if opt_pats_eqb {md} {pool.zl(rr['dec'])} then 0 else 1)")
                    ms.append((i, "rand", (k, cfg)))
            # the probe's sizeof of every leaf is the model's storage size
            sizes = pool.zl([8 * z for _, z in r["layout"]["little"]["leaves"]])
            xs.append(f"(if zlist_eqb (map (fun x => csz (snd x)) (member_types t_{i})) {sizes} then 0 else 4)")
            ms.append((i, "t1", "sizeof probe"))
            groups.append((lets.wrap(clist(xs)), ms))
        sh.add("\n".join(pool.defs) + "\n", groups)

    hdr = header + ("Definition dirty_mem (t : ty) (ps : list Z) : mem :=\n"
                    "  map (fun x => (fst (fst x), mkcell (leaf_cty (snd (fst x))) (snd x))) (combine (leaves t) ps).\n"
                    if model_ok else "")
    _t2 = _time.time()
    out = sh.run(header=hdr, timeout=1500)
    ck.coverage["tie"]["timing_s"] = {"compile_build_run": round(_t1 - _t0, 1), "t1_parse_and_case_files": round(_t2 - _t1, 1),
                                      "coq_evaluation": round(_time.time() - _t2, 1)}
    print(f"[{ck.prop}] timing: {ck.coverage['tie']['timing_s']}", file=_sys.stderr)
    counts: Dict[str, int] = {}
    n_tie = n_spec = 0
    found: List[Tuple[int, str, Dict[str, Any]]] = []      # concrete failing inputs, smallest first
    ties: List[Tuple[int, Broken]] = []
    for (i, kind, k), code in out:
        counts[f"{kind}:{code}"] = counts.get(f"{kind}:{code}", 0) + 1
        if code == 0:
            continue
        s, vals, origin, named = cases[i]
        r = results[i]
        if kind == "t1":
            n_tie += 1
            t1_fail.setdefault(i, f"{k}: emitted statements / declarations differ from the model's prediction")
            continue
        vi, cfg = k
        if kind in ("enc", "dec") and code & 2:
            n_spec += 1
            v = vals[vi]
            rr = r["runs"][cfg][vi]
            what = (f"-O C (--endian/config {cfg}): Encode bytes differ from the specification (= standard mode)"
                    if kind == "enc" else
                    f"-O C (--endian/config {cfg}): Decode of the encoded bytes into a zeroed struct does not restore the values")
            replay = {"schema": sg.schema_to_json(s), "value": sg.value_to_json(s.top, v), "config": cfg,
                      "observed": {"enc": rr.get("enc"), "dec_leaf_patterns": rr.get("dec")},
                      "leaves": [d for d, _ in py_leaves(s.top)], "origin": origin, "stage": kind}
            found.append((len(json.dumps(replay["schema"]["texts"])) + len(json.dumps(replay["value"])), what, replay))
        elif code & 1:
            n_tie += 1
            detail = {"schema": s.texts, "config": cfg, "stage": kind, "origin": origin}
            if kind != "rand":
                detail["value"] = sg.value_to_json(s.top, vals[vi])
                detail["observed"] = r["runs"][cfg][vi]
            ties.append((len(json.dumps(detail)),
                         Broken(f"tie T2: the statement semantics (OpMode.exec over the plan) and the gcc-built "
                                f"implementation disagree on {kind} (config {cfg}, schema {origin})",
                                json.dumps(detail)[:2500])))
    found.sort(key=lambda x: x[0])
    for rank, (_, what, replay) in enumerate(found):
        if rank < 3:                       # the smallest failing cases carry the specified bytes
            s_ = sg.schema_from_json(replay["schema"])
            replay["specified_wire"] = explain(ck, s_, sg.value_from_json(s_.top, replay["value"]))
        ck.violation(what, replay, found_input=True)
    ties.sort(key=lambda x: x[0])
    for _, b in ties[:3]:
        ck.broken(b)
    if len(ties) > 3:
        print(f"[{ck.prop}] ... and {len(ties) - 3} more T2 tie mismatches", file=_sys.stderr)
    for i, msg in list(t1_fail.items())[:4]:
        s, vals, origin, named = cases[i]
        ck.broken(Broken(f"tie T1 (emitted -O statements vs OpMode.plan) on schema {origin}: {msg}",
                         json.dumps(s.texts)[:2000]))

    cov = ck.coverage
    cov["evaluations"] = n_eval
    cov["distinct_nontrivial"] = len([1 for (txt, val) in distinct if len(val) > 8])
    cov["rule"] = ("traditional schemas from tools/schema_gen.py (allow_ext=False: nesting, aliases to scalars and arrays, "
                   "enums, imports, permuted field numbers, weighted widths) plus a seed-chosen slice of the finite "
                   "single-field space {bool, byte, uint1..64, int1..64} x offset 0..7 x {plain, alias, array, alias-to-array} "
                   "plus the deterministic boundary catalogue tools/opboundary.py (arrays of capacity 32/64/255/256/300 of every "
                   "whole-byte width, aligned and not, also as last field in front of the guard zone; arrays >= 256 of elements "
                   "narrower than a byte; field names equal to identifiers of the generated code, also as array members of "
                   "whole-byte array elements; same-named definitions in different scopes with different storage widths); "
                   "each x values in modes random/max/min/zero/ones; an evaluation is one (schema, value, build config) "
                   "Encode+Decode run of the gcc-built -O code or one random-buffer Decode; distinct = distinct "
                   "(main schema text, value tree) pairs")
    cov["tie"] = {**cov.get("tie", {}), "schemas": len(cases), "corpus": n_corpus,
                  "boundary_catalogue": len([c for c in cases if c[2].startswith("opboundary:")]),
                  "boundary_catalogue_executed_only": len([c for c in cases if "(t2-only)" in c[2]]),
                  "t1_functions_compared": n_stmt_funcs, "codes": counts, "tie_mismatches": n_tie,
                  "spec_mismatches": n_spec, "impl_failures": impl_fail,
                  "go": "T1 only: Go statements are parsed and compared with the plan; their semantics are modelled, never executed",
                  "c_configs": [c[0] for c in CFG], "compilers": [" ".join(f) for f in flag_cycle]}
    cov["distribution"] = sg.distribution([c[0] for c in cases])
    for (s, vals, origin, named), r in list(zip(cases, results))[:2]:
        if "runs" in r and vals and "little" in r["runs"]:
            cov["samples"].append({"schema": s.texts, "value": sg.value_to_json(s.top, vals[0]),
                                   "implementation_bytes": {c: bytes(r["runs"][c][0].get("enc", [])).hex()
                                                            for c in r["runs"]},
                                   "origin": origin})
