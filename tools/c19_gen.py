"""c19_gen — directed schema classes for C19, next to the shared tools/schema_gen.py stream.

Three classes the random stream (synthetic names f.., favoured widths, shallow arrays) never
reaches, each drawn at random inside the class from the rng that is passed in:

* names:   message fields named after the identifiers the GENERATED Go itself defines or uses
           (methods of the message struct, receiver / parameter / local names, imported package
           names, helper vars) and Go's predeclared identifiers and keywords, in every case
           style the name converter maps to the same exported name (snake, camel, Pascal,
           UPPER); typed as scalar, enum, alias, message, array of messages, alias of array of
           messages.  (Names that are Python keywords or that bitproto reserves are left out:
           the property compares with the Python output, which must exist.)
* pairs:   two arrays of plain integers in one file whose bit totals coincide or differ by the
           16-bit prefix: same capacity, same Go integer type, cap * (w2 - w1) in {16, 0},
           extensible vs non-extensible, signed vs unsigned, as fields and as alias targets.
* deep:    alias chains of arrays giving a field 5..8 array dimensions (capacities 1..2, any
           dimension extensible), over scalar / bool / enum / message elements.
"""
from __future__ import annotations

import keyword
from typing import List, Optional, Tuple

import schema_gen as sg

T = sg.T

GO_METHODS = ["size", "string", "encode", "decode", "bp_processor", "bp_get_accessor", "bp_set_byte",
              "bp_get_byte", "bp_process_int"]
GO_LOCALS = ["m", "di", "bp", "s", "ctx", "v", "b", "lshift", "rshift", "field_descriptors", "format_int",
             "json_marshal", "strconv", "json", "useless", "flag", "process", "buffer"]
GO_KEYWORDS = ["func", "go", "map", "chan", "range", "select", "defer", "var", "package", "interface", "struct",
               "switch", "default", "fallthrough", "goto"]
GO_PREDECLARED = ["len", "cap", "nil", "iota", "error", "uint", "int", "uintptr", "rune", "float64", "complex128",
                  "append", "copy", "make", "new", "panic", "print", "println", "recover", "close", "delete",
                  "uint8", "int64"]
BITPROTO_RESERVED = {"proto", "import", "option", "type", "const", "enum", "message", "typedef", "bool", "byte",
                     "true", "false", "yes", "no"}


def _styles(name: str) -> List[str]:
    parts = name.split("_")
    camel = parts[0] + "".join(p.capitalize() for p in parts[1:])
    pascal = "".join(p.capitalize() for p in parts)
    out = [name, camel, pascal, name.upper()]
    return list(dict.fromkeys(out))


def _valid_name(n: str) -> bool:
    import re
    if not re.fullmatch(r"[A-Za-z_][A-Za-z0-9_]*", n):
        return False
    if n in BITPROTO_RESERVED or re.fullmatch(r"(u?int)[0-9]+", n):
        return False
    if keyword.iskeyword(n) or n in keyword.softkwlist:
        return False
    # names the generated PYTHON class itself defines are C10's business (python side)
    if n in {"encode", "decode", "to_json", "to_dict", "bp_processor", "bp_set_byte", "bp_get_byte",
             "bp_get_accessor", "bp_process_int", "dict_factory", "BYTES_LENGTH", "bp", "field", "dataclass",
             "List", "Dict", "Union", "ClassVar", "IntEnum", "unique", "json", "int", "print", "len", "bool",
             "bytearray", "property", "self"}:
        return False
    return True


def name_catalogue(python_safe: bool = True) -> List[str]:
    out: List[str] = []
    for base in GO_METHODS + GO_LOCALS + GO_KEYWORDS + GO_PREDECLARED:
        for n in _styles(base):
            if n not in out and (_valid_name(n) if python_safe else True):
                out.append(n)
    return out


class _B:
    """builds a one-file schema from T objects in definition order"""

    def __init__(self, rng, base: str):
        self.rng = rng
        self.g = sg.Gen(rng, sg.Params())
        self.g.files[0].base = base
        self.g.files[0].proto = base
        self.n = 0

    def fresh(self, pre: str) -> str:
        self.n += 1
        return f"{pre}{sg._letters(self.n + 30)}"

    def define(self, t: T) -> T:
        t.file, t.parent = 0, None
        self.g.files[0].defs.append(t)
        self.g.named.append(t)
        return t

    def enum(self, n: int) -> T:
        vals = [0] + sorted({self.rng.randrange(1 << n) for _ in range(2)} - {0})
        return self.define(T("enum", n=n, name=self.fresh("E"),
                             members=[(self.fresh("K").upper(), v) for v in vals]))

    def alias(self, t: T) -> T:
        return self.define(T("alias", t=t, name=self.fresh("A")))

    def msg(self, fields: List[Tuple[int, str, T]], ext: bool = False, name: Optional[str] = None) -> T:
        return self.define(T("msg", ext=ext, fields=fields, name=name or self.fresh("M")))

    def scalar(self) -> T:
        r = self.rng.random()
        if r < 0.15:
            return T("bool")
        if r < 0.25:
            return T("byte")
        w = self.rng.choice([1, 3, 7, 8, 9, 13, 16, 17, 24, 32, 33, 64])
        return T("uint" if r < 0.65 else "int", n=w)

    def finish(self, top: T) -> sg.Schema:
        s = sg.Schema(self.g.files, top)
        s.texts = sg.render_files(self.g, s)
        return s


def gen_names(rng) -> sg.Schema:
    b = _B(rng, "mainn" + sg._letters(rng.randrange(26)))
    cat = name_catalogue()
    inner = b.msg([(1, "x", T("uint", n=5)), (2, "y", T("bool"))])
    en = b.enum(rng.choice([3, 9]))
    al = b.alias(T("int", n=13))
    arr_al = b.alias(T("arr", t=inner, cap=2, ext=rng.random() < 0.5))
    names = rng.sample(cat, rng.randint(4, 7))
    # the method names are the sharpest members of the class: always one of them, message-typed
    names[0] = rng.choice([n for base in GO_METHODS for n in _styles(base) if _valid_name(n)])
    fields = []
    nums = rng.sample(range(1, 40), len(names))
    for i, (nm, num) in enumerate(zip(names, nums)):
        k = rng.randrange(7) if i else rng.choice([3, 4, 5])
        ft = [b.scalar(), en, al, inner, T("arr", t=inner, cap=rng.randint(1, 3), ext=rng.random() < 0.3),
              arr_al, T("arr", t=b.scalar(), cap=2)][k]
        fields.append((num, nm, ft))
    # exported names must stay distinct (size / Size / SIZE collapse to one Go name)
    seen, keep = set(), []
    for f in fields:
        e = f[1].replace("_", "").lower()
        if e not in seen:
            seen.add(e)
            keep.append(f)
    return b.finish(b.msg(keep, ext=rng.random() < 0.3, name="T" + sg._letters(rng.randrange(26))))


def pair_space() -> List[Tuple[int, int, int]]:
    """(cap, w_ext, w_plain) with cap * (w_plain - w_ext) == 16 inside one Go storage class"""
    out = []
    for cap in (1, 2, 4, 8, 16):
        d = 16 // cap
        for lo, hi in ((1, 8), (9, 16), (17, 32), (33, 64)):
            for w in range(lo, hi + 1):
                if lo <= w + d <= hi:
                    out.append((cap, w, w + d))
    return out


def gen_pairs(rng) -> sg.Schema:
    b = _B(rng, "mainp" + sg._letters(rng.randrange(26)))
    space = pair_space()
    fields: List[Tuple[int, str, T]] = []
    num = 0

    def add(t: T) -> None:
        nonlocal num
        num += 1
        if rng.random() < 0.4:
            t = b.alias(t)
        fields.append((num, b.fresh("f").lower(), t))

    for _ in range(rng.randint(1, 2)):
        cap, w1, w2 = rng.choice(space)
        kind = rng.choice(["uint", "int"])
        pair = [T("arr", t=T(kind, n=w1), cap=cap, ext=True), T("arr", t=T(kind, n=w2), cap=cap, ext=False)]
        if rng.random() < 0.5:
            pair.reverse()
        for t in pair:
            add(t)
    # coinciding totals: same element, extensible vs not; signed vs unsigned of one width
    w = rng.randint(1, 64)
    cap = rng.choice([1, 2, 3, 8])
    extra = [T("arr", t=T("uint", n=w), cap=cap, ext=True), T("arr", t=T("uint", n=w), cap=cap, ext=False),
             T("arr", t=T("int", n=w), cap=cap, ext=False)]
    rng.shuffle(extra)
    for t in extra[:rng.randint(1, 3)]:
        add(t)
    rng.shuffle(fields)
    if rng.random() < 0.4 and len(fields) > 2:      # the two arrays in different messages of one file
        sub = b.msg(fields[:len(fields) // 2])
        fields = fields[len(fields) // 2:] + [(num + 1, b.fresh("f").lower(), sub)]
    return b.finish(b.msg(fields, ext=rng.random() < 0.3, name="T" + sg._letters(rng.randrange(26))))


def gen_deep(rng) -> sg.Schema:
    b = _B(rng, "maind" + sg._letters(rng.randrange(26)))
    fields = []
    for num in rng.sample(range(1, 30), rng.randint(1, 2)):
        dims = rng.randint(5, 8)
        k = rng.randrange(4)
        if k == 0:
            elem: T = b.scalar()
        elif k == 1:
            elem = b.enum(3)
        elif k == 2:
            elem = b.msg([(1, "x", T("int", n=rng.choice([5, 13, 33]))), (2, "y", T("bool"))],
                         ext=rng.random() < 0.3)
        else:
            elem = b.alias(b.scalar())
        caps = [2 if i < 3 else 1 for i in range(dims)]
        rng.shuffle(caps)
        t = elem
        for i, c in enumerate(caps):
            t = T("arr", t=t, cap=c, ext=rng.random() < 0.2)
            if i < dims - 1 or rng.random() < 0.5:
                t = b.alias(t)                      # only an alias can be an array element again
        fields.append((num, b.fresh("f").lower(), t))
    if rng.random() < 0.5:
        fields.append((31, b.fresh("f").lower(), b.scalar()))
    return b.finish(b.msg(fields, ext=rng.random() < 0.3, name="T" + sg._letters(rng.randrange(26))))


CLASSES = [("names", gen_names), ("pairs", gen_pairs), ("deep", gen_deep)]
