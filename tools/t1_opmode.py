"""t1_opmode — tie T1 for C04: parse the optimization-mode code the compiler EMITS (C with
--endian little / big / both, and Go) into the statement tuples of coq/theories/OpMode.v.

Every statement of every Encode / Decode function is parsed by a real expression parser with
the operator precedence of the language (C: unary/cast > additive > shift > & > |;  Go: shifts
and & share one level, + - | ^ the next) and then matched against the known statement shapes.
Fail-closed: an unknown token, shape, type name, preprocessor line or leftover text raises
T1Error (a broken tie).  Type names are resolved through the emitted typedef / `type`
declarations; struct member types are read from the emitted struct declarations.
"""
from __future__ import annotations

import re
from typing import Any, Dict, List, Optional, Tuple

import schema_gen as sg
from vlib import cbool, clist, cz


class T1Error(Exception):
    pass


# --------------------------------------------------------------------------------------
# tokens and expressions
# --------------------------------------------------------------------------------------

TOK = re.compile(r"\s*(?:(\d+)|([A-Za-z_][A-Za-z_0-9]*)|(<<=|>>=|\|=|<<|>>|[()\[\].*&|=\-;,]))")


def tokenize(src: str) -> List[Tuple[str, Any]]:
    out = []
    pos = 0
    src = src.rstrip()
    while pos < len(src):
        m = TOK.match(src, pos)
        if not m or m.end() == pos:
            raise T1Error(f"cannot tokenize {src[pos:pos + 30]!r} in {src!r}")
        if m.group(1) is not None:
            out.append(("num", int(m.group(1))))
        elif m.group(2) is not None:
            out.append(("id", m.group(2)))
        else:
            out.append(("op", m.group(3)))
        pos = m.end()
    return out


# binary operator precedence (higher binds tighter)
PREC_C = {"|": 1, "&": 2, "<<": 3, ">>": 3, "-": 4}
PREC_GO = {"|": 1, "-": 1, "&": 2, "<<": 2, ">>": 2}


class Parser:
    """Expression parser.  AST: ('num', n) ('name', s) ('idx', e, e) ('mem', e, s) ('deref', e)
    ('addr', e) ('neg', e) ('cast', type, e) ('call', callee_expr, [args]) ('bin', op, l, r)
    ('sizeof', e)."""

    def __init__(self, toks: List[Tuple[str, Any]], lang: str, ctypes: Optional[Dict[str, Any]] = None):
        self.t = toks
        self.p = 0
        self.lang = lang
        self.prec = PREC_C if lang == "c" else PREC_GO
        self.ctypes = ctypes or {}

    def peek(self, k: int = 0) -> Tuple[str, Any]:
        return self.t[self.p + k] if self.p + k < len(self.t) else ("eof", None)

    def next(self) -> Tuple[str, Any]:
        x = self.peek()
        self.p += 1
        return x

    def expect(self, kind: str, val: Any = None) -> Any:
        x = self.next()
        if x[0] != kind or (val is not None and x[1] != val):
            raise T1Error(f"expected {val or kind}, found {x[1]!r}")
        return x[1]

    def at_op(self, v: str) -> bool:
        return self.peek() == ("op", v)

    # ---- C type names inside a cast ----
    def _try_c_type(self) -> Optional[Tuple[str, bool]]:
        """At '(' : if what follows is `type-name [*] )` return (type name, is pointer)."""
        save = self.p
        if not self.at_op("("):
            return None
        self.p += 1
        words = []
        while self.peek()[0] == "id":
            words.append(self.next()[1])
        ptr = False
        if self.at_op("*"):
            self.p += 1
            ptr = True
        name = " ".join(words)
        if words and self.at_op(")") and (name in self.ctypes or name in ("unsigned char", "unsigned")):
            self.p += 1
            return name, ptr
        self.p = save
        return None

    def expr(self, minprec: int = 1):
        left = self.unary()
        while True:
            k, v = self.peek()
            if k == "op" and v in self.prec and self.prec[v] >= minprec:
                self.p += 1
                right = self.expr(self.prec[v] + 1)
                left = ("bin", v, left, right)
            else:
                return left

    def unary(self):
        if self.lang == "c":
            ty = self._try_c_type()
            if ty is not None:
                return ("cast", ty, self.unary())
            if self.at_op("*"):
                self.p += 1
                return ("deref", self.unary())
            if self.at_op("&"):
                self.p += 1
                return ("addr", self.unary())
        if self.at_op("-"):
            self.p += 1
            return ("neg", self.unary())
        return self.postfix()

    def postfix(self):
        k, v = self.next()
        if k == "num":
            e: Any = ("num", v)
        elif k == "id":
            if v == "sizeof" and self.lang == "c":
                self.expect("op", "(")
                inner = self.expr()
                self.expect("op", ")")
                return ("sizeof", inner)
            e = ("name", v)
        elif (k, v) == ("op", "("):
            e = self.expr()
            self.expect("op", ")")
        else:
            raise T1Error(f"unexpected token {v!r}")
        while True:
            if self.at_op("["):
                self.p += 1
                i = self.expr()
                self.expect("op", "]")
                e = ("idx", e, i)
            elif self.at_op("."):
                self.p += 1
                e = ("mem", e, self.expect("id"))
            elif self.at_op("(") and e[0] in ("name", "mem"):
                self.p += 1
                args = []
                if not self.at_op(")"):
                    args.append(self.expr())
                    while self.at_op(","):
                        self.p += 1
                        args.append(self.expr())
                self.expect("op", ")")
                e = ("call", e, args)
            else:
                return e


# --------------------------------------------------------------------------------------
# schema side: names -> selectors, types
# --------------------------------------------------------------------------------------

def _norm(s: str) -> str:
    return s.replace("_", "").lower()


def strip_alias(t: sg.T) -> sg.T:
    while t.kind == "alias":
        t = t.t
    return t


def chain_of_path(msg: sg.T, path: List[Any]) -> List[str]:
    """path: ['name', k, 'name', ...] relative to message type msg -> Coq selectors."""
    out = []
    cur = msg
    for x in path:
        cur = strip_alias(cur)
        if isinstance(x, int):
            if cur.kind != "arr" or not (0 <= x < cur.cap):
                raise T1Error(f"index [{x}] applied to a non-array or out of range")
            out.append(f"SI {x}%nat")
            cur = cur.t
        else:
            if cur.kind != "msg":
                raise T1Error(f"member .{x} applied to a non-message")
            hits = [(n, ft) for n, nm, ft in cur.fields if _norm(nm) == _norm(x)]
            if len(hits) != 1:
                raise T1Error(f"member .{x}: {len(hits)} fields match")
            out.append(f"SF {hits[0][0]}")
            cur = hits[0][1]
    if strip_alias(cur).kind in ("msg", "arr"):
        raise T1Error("a statement addresses a composite object")
    return out


def coq_chain(sel: List[str]) -> str:
    return clist(sel)


def coq_cty(c: Tuple[str, int]) -> str:
    k, sz = c
    return "CBool" if k == "bool" else f"(C{'U' if k == 'u' else 'S'} {sz})"


C_BASE = {"bool": ("bool", 8), "unsigned char": ("u", 8), "unsigned": ("u", 32)}
for _n in (8, 16, 32, 64):
    C_BASE[f"uint{_n}_t"] = ("u", _n)
    C_BASE[f"int{_n}_t"] = ("s", _n)
GO_BASE = {"bool": ("bool", 8), "byte": ("u", 8)}
for _n in (8, 16, 32, 64):
    GO_BASE[f"uint{_n}"] = ("u", _n)
    GO_BASE[f"int{_n}"] = ("s", _n)


def path_of(e: Any, root_ok) -> List[Any]:
    """field chain expression -> path list; root_ok(e) recognises the message variable."""
    if root_ok(e):
        return []
    if e[0] == "mem":
        return path_of(e[1], root_ok) + [e[2]]
    if e[0] == "idx" and e[2][0] == "num":
        return path_of(e[1], root_ok) + [e[2][1]]
    raise T1Error(f"not a field chain: {e!r}")


def shift_of(e: Any) -> Tuple[Any, int]:
    """e or (e >> k) or (e << k) with literal k >= 1 -> (e, signed shift)."""
    if e[0] == "bin" and e[1] in ("<<", ">>") and e[3][0] == "num":
        k = e[3][1]
        if k < 1:
            raise T1Error("shift by 0")
        return e[2], (k if e[1] == ">>" else -k)
    return e, 0


def num_of(e: Any) -> int:
    if e[0] != "num":
        raise T1Error(f"integer literal expected, found {e!r}")
    return e[1]


# --------------------------------------------------------------------------------------
# C
# --------------------------------------------------------------------------------------

C_PREAMBLE_BOTH = [
    "#if !defined(BP_BIG_ENDIAN) && (\\",
    "    (defined(__BYTE_ORDER__) && (__BYTE_ORDER__ == __ORDER_BIG_ENDIAN__)) || \\",
    "    defined(__ARM_BIG_ENDIAN) || \\",
    "    defined(__big_endian__) || \\",
    "    defined(__BIG_ENDIAN__) || \\",
    "    (defined(__LITTLE_ENDIAN__) && (__LITTLE_ENDIAN__ == 0)))",
    "#define BP_BIG_ENDIAN 1",
    "#endif",
    "#ifdef BP_BIG_ENDIAN",
    "#include <string.h>",
    "#endif",
]
C_PREAMBLE = {"little": [], "big": ["#include <string.h>"], "both": C_PREAMBLE_BOTH}


class CT1:
    """All emitted .h/.c files of one schema compiled with one --endian setting."""

    def __init__(self, files: Dict[str, str], endian: str):
        self.endian = endian
        self.typedefs: Dict[str, Tuple[Any, List[int]]] = {}     # name -> (base | ('struct', X), dims)
        self.structs: Dict[str, List[Tuple[str, Any, List[int]]]] = {}
        self.bytes_length: Dict[str, int] = {}
        self.funcs: Dict[str, Dict[str, Any]] = {}              # normalised struct name -> {'enc': body, 'dec': body}
        # headers in dependency order (an importing header uses the typedefs of the imported one)
        hdrs = {n: t for n, t in files.items() if n.endswith(".h")}
        done: List[str] = []

        def visit(n: str, depth: int = 0) -> None:
            if n in done or n not in hdrs or depth > 50:
                return
            for inc in re.findall(r'(?m)^#include "([^"]+)"', hdrs[n]):
                visit(inc, depth + 1)
            if n not in done:
                done.append(n)
                self._header(hdrs[n])

        for n in sorted(hdrs):
            visit(n)
        self.ctypes = dict(C_BASE)
        for n, (base, dims) in self.typedefs.items():
            if not dims and isinstance(base, tuple) and base[0] != "struct":
                self.ctypes[n] = base
        for name, text in sorted(files.items()):
            if name.endswith(".c"):
                self._source(name, text)

    # ---- header ----
    def _base(self, words: str) -> Any:
        words = words.strip()
        if words.startswith("struct "):
            return ("struct", words[7:].strip())
        if words in C_BASE:
            return C_BASE[words]
        if words in self.typedefs:
            b, d = self.typedefs[words]
            if d:
                return ("typedef-array", words)
            return b
        raise T1Error(f"C: unknown type name {words!r}")

    def _header(self, text: str) -> None:
        lines = text.split("\n")
        i = 0
        while i < len(lines):
            ln = lines[i].split("//")[0].rstrip()
            m = re.fullmatch(r"typedef (.+?) (\w+)((?:\[\d+\])*);", ln)
            if m:
                dims = [int(x) for x in re.findall(r"\[(\d+)\]", m.group(3))]
                base = self._base(m.group(1))
                if isinstance(base, tuple) and base[0] == "typedef-array":
                    b2, d2 = self.typedefs[base[1]]
                    base, dims = b2, dims + d2
                self.typedefs[m.group(2)] = (base, dims)
            m = re.fullmatch(r"struct (\w+) \{", ln)
            if m:
                members = []
                i += 1
                while lines[i].split("//")[0].strip() != "};":
                    ml = lines[i].split("//")[0].strip()
                    if ml:
                        mm = re.fullmatch(r"(.+?) (\w+)((?:\[\d+\])*);", ml)
                        if not mm:
                            raise T1Error(f"C: struct member not understood: {ml!r}")
                        dims = [int(x) for x in re.findall(r"\[(\d+)\]", mm.group(3))]
                        base = self._base(mm.group(1))
                        if isinstance(base, tuple) and base[0] == "typedef-array":
                            b2, d2 = self.typedefs[base[1]]
                            base, dims = b2, dims + d2
                        members.append((mm.group(2), base, dims))
                    i += 1
                self.structs[m.group(1)] = members
            m = re.fullmatch(r"#define BYTES_LENGTH_(\w+) (\d+)", ln)
            if m:
                self.bytes_length[_norm(m.group(1))] = int(m.group(2))
            i += 1

    # ---- source ----
    def _source(self, fname: str, text: str) -> None:
        lines = text.split("\n")
        k = 0
        # preamble: comment, blank, #include "x.h", endian block, blank
        while k < len(lines) and (lines[k].startswith("//") or not lines[k].strip()):
            k += 1
        if not re.fullmatch(r'#include "\w+\.h"', lines[k]):
            raise T1Error(f"C: {fname}: first directive is not the header include")
        k += 1
        pre = []
        while k < len(lines) and lines[k].strip():
            pre.append(lines[k])
            k += 1
        if pre != C_PREAMBLE[self.endian]:
            raise T1Error(f"C: {fname}: preprocessor preamble for --endian {self.endian} differs: {pre!r}")
        while k < len(lines):
            ln = lines[k]
            if not ln.strip():
                k += 1
                continue
            m = re.fullmatch(r"int (Encode|Decode)(\w+)\(struct (\w+) \*m, unsigned char \*s\) \{", ln)
            if not m or m.group(2) != m.group(3):
                raise T1Error(f"C: {fname}: unexpected top-level line {ln!r}")
            body = []
            k += 1
            while lines[k] != "}":
                body.append(lines[k])
                k += 1
            k += 1
            if not body or body[-1].strip() != "return 0;":
                raise T1Error(f"C: {m.group(1)}{m.group(2)} does not end with return 0;")
            key = _norm(m.group(2))
            slot = self.funcs.setdefault(key, {"struct": m.group(2)})
            d = "enc" if m.group(1) == "Encode" else "dec"
            if d in slot:
                raise T1Error(f"C: duplicate function {m.group(1)}{m.group(2)}")
            slot[d] = body[:-1]

    # ---- bodies ----
    def body(self, msg: sg.T, name: str, enc: bool, lit=None) -> str:
        """Coq term of type cbody for Encode<name> / Decode<name>.  lit(list of statement terms) may
        intern a statement list (e.g. as a named Definition) and return the term to use for it."""
        mk = lit or clist
        f = self.funcs.get(_norm(name))
        if f is None or ("enc" if enc else "dec") not in f:
            raise T1Error(f"C: no {'Encode' if enc else 'Decode'} function for message {name}")
        lines = [l.strip() for l in f["enc" if enc else "dec"]]
        if any(l.startswith("#") for l in lines):
            try:
                a, b, c = lines.index("#ifndef BP_BIG_ENDIAN"), lines.index("#else"), lines.index("#endif")
            except ValueError:
                raise T1Error(f"C: {name}: preprocessor skeleton is not #ifndef BP_BIG_ENDIAN / #else / #endif")
            if not (a == 0 and a < b < c == len(lines) - 1) or sum(1 for l in lines if l.startswith("#")) != 3:
                raise T1Error(f"C: {name}: preprocessor skeleton is not #ifndef BP_BIG_ENDIAN / #else / #endif")
            le = [self.stmt(msg, l, enc) for l in lines[a + 1:b]]
            be = [self.stmt(msg, l, enc) for l in lines[b + 1:c]]
            return f"(BIfndef {mk(le)} {mk(be)})"
        return f"(BPlain {mk([self.stmt(msg, l, enc) for l in lines])})"

    def _root(self, e: Any) -> bool:
        return e == ("deref", ("name", "m"))

    def _chain(self, msg: sg.T, e: Any) -> str:
        return coq_chain(chain_of_path(msg, path_of(e, self._root)))

    def _cty(self, name: str) -> str:
        if name not in self.ctypes:
            raise T1Error(f"C: unknown scalar type {name!r}")
        return coq_cty(self.ctypes[name])

    def _bytes_of(self, msg: sg.T, e: Any) -> Optional[Tuple[str, int]]:
        """((unsigned char *)&(chain))[fi] -> (chain, fi)"""
        if (e[0] == "idx" and e[1][0] == "cast" and e[1][1] == ("unsigned char", True)
                and e[1][2][0] == "addr" and e[2][0] == "num"):
            return self._chain(msg, e[1][2][1]), e[2][1]
        return None

    def _s_at(self, e: Any) -> Optional[int]:
        if e[0] == "idx" and e[1] == ("name", "s") and e[2][0] == "num":
            return e[2][1]
        return None

    def stmt(self, msg: sg.T, line: str, enc: bool) -> str:
        toks = tokenize(line)
        if not toks:
            raise T1Error("C: empty statement")
        p = Parser(toks, "c", self.ctypes)
        try:
            return self._stmt(msg, p, enc)
        except T1Error as e:
            raise T1Error(f"C: statement {line!r}: {e}")

    def _stmt(self, msg: sg.T, p: Parser, enc: bool) -> str:
        if p.peek() == ("id", "if"):
            p.next()
            p.expect("op", "(")
            cond = p.expr()
            p.expect("op", ")")
            lhs = p.unary()
            p.expect("op", "|=")
            rhs = p.expr()
            p.expect("op", ";")
            if p.peek()[0] != "eof" or enc:
                raise T1Error("unexpected sign statement")
            ch = self._chain(msg, lhs)
            if not (cond[0] == "bin" and cond[1] == "&" and cond[3] == ("num", 1) and cond[2][0] == "bin"
                    and cond[2][1] == ">>" and cond[2][3][0] == "num" and self._chain(msg, cond[2][2]) == ch):
                raise T1Error("sign test is not ((f >> k) & 1)")
            k = cond[2][3][1]
            if rhs[0] == "neg" and rhs[1][0] == "num":
                mask, special = -rhs[1][1], False
            elif (rhs[0] == "bin" and rhs[1] == "-" and rhs[2][0] == "neg" and rhs[2][1][0] == "num"
                  and rhs[3][0] == "num"):
                mask, special = -rhs[2][1][1] - rhs[3][1], True
                if (rhs[2][1][1], rhs[3][1]) != (9223372036854775807, 1):
                    raise T1Error("unknown literal special case")
            else:
                raise T1Error("sign mask is not a negative literal")
            return f"(SSignC {ch} {k} {cz(mask)} {cbool(special)})"
        e = p.expr()
        if p.at_op(";") and p.peek(1)[0] == "eof":
            want = ("call", ("name", "memset"),
                    [("name", "m"), ("num", 0), ("sizeof", ("deref", ("name", "m")))])
            if e == want and not enc:
                return "SMemset"
            raise T1Error("expression statement is not memset(m, 0, sizeof(*m))")
        op = p.next()
        if op not in (("op", "="), ("op", "|=")):
            raise T1Error(f"assignment operator expected, found {op[1]!r}")
        rhs = p.expr()
        p.expect("op", ";")
        if p.peek()[0] != "eof":
            raise T1Error("text after the statement")
        asg = cbool(op[1] == "=")
        si = self._s_at(e)
        if enc:
            if si is None:
                raise T1Error("encoder statement does not assign to s[si]")
            if not (rhs[0] == "bin" and rhs[1] == "&"):
                raise T1Error("right side is not (...) & mask")
            mask = num_of(rhs[3])
            a, sh = shift_of(rhs[2])
            bo = self._bytes_of(msg, a)
            if bo is not None:
                return f"(SEncLE {si} {asg} {bo[0]} {bo[1]} {cz(sh)} {mask})"
            if a[0] == "cast" and not a[1][1]:
                return f"(SEncBE {si} {asg} {self._cty(a[1][0])} {self._chain(msg, a[2])} {cz(sh)} {mask})"
            raise T1Error("unknown encoder source")
        if si is not None:
            raise T1Error("decoder statement assigns to s[..]")
        bo = self._bytes_of(msg, e)
        if bo is not None:
            if not (rhs[0] == "bin" and rhs[1] == "&"):
                raise T1Error("right side is not (...) & mask")
            mask = num_of(rhs[3])
            a, sh = shift_of(rhs[2])
            sj = self._s_at(a)
            if sj is None:
                raise T1Error("decoder source is not s[si]")
            return f"(SDecLE {bo[0]} {bo[1]} {asg} {sj} {cz(sh)} {mask})"
        # big-endian decoder item
        ch = self._chain(msg, e)
        if op[1] != "|=":
            raise T1Error("value decoder item does not use |=")
        if not (rhs[0] == "cast" and not rhs[1][1]):
            raise T1Error("value decoder item is not chain |= (T)(...)")
        ct = self._cty(rhs[1][0])
        x = rhs[2]
        ut, fish = "None", 0
        if x[0] == "bin" and x[1] == "<<":
            fish = num_of(x[3])
            if fish < 1 or not (x[2][0] == "cast" and not x[2][1][1]):
                raise T1Error("byte positioning is not (uT)(...) << 8*fi")
            ut = f"(Some {self._cty(x[2][1][0])})"
            x = x[2][2]
        if not (x[0] == "bin" and x[1] == "&"):
            raise T1Error("byte value is not (...) & mask")
        mask = num_of(x[3])
        a, sh = shift_of(x[2])
        if not (a[0] == "cast" and a[1] == ("unsigned", False)):
            raise T1Error("byte value does not start from (unsigned)(s[si])")
        sj = self._s_at(a[2])
        if sj is None:
            raise T1Error("decoder source is not s[si]")
        return f"(SDecBE {ch} {ct} {ut} {sj} {cz(sh)} {mask} {fish})"

    # ---- struct member types along the model's leaf order ----
    def member_types(self, msg: sg.T, name: str) -> str:
        key = [s for s in self.structs if _norm(s) == _norm(name)]
        if len(key) != 1:
            raise T1Error(f"C: {len(key)} struct declarations match message {name}")
        out: List[str] = []
        self._walk_struct(msg, key[0], [], out)
        return clist(out)

    def _walk_struct(self, msg: sg.T, sname: str, pre: List[str], out: List[str]) -> None:
        members = {_norm(n): (b, d) for n, b, d in self.structs[sname]}
        if len(members) != len(self.structs[sname]) or len(members) != len(msg.fields):
            raise T1Error(f"C: struct {sname} has {len(self.structs[sname])} members for {len(msg.fields)} fields")
        for num, nm, ft in sorted(msg.fields, key=lambda f: f[0]):
            if _norm(nm) not in members:
                raise T1Error(f"C: struct {sname} has no member {nm}")
            base, dims = members[_norm(nm)]
            self._walk_obj(ft, base, list(dims), pre + [f"SF {num}"], out)

    def _walk_obj(self, t: sg.T, base: Any, dims: List[int], pre: List[str], out: List[str]) -> None:
        t = strip_alias(t)
        if t.kind == "arr":
            if not dims or dims[0] != t.cap:
                raise T1Error(f"C: array capacity {t.cap} declared as {dims[:1]}")
            for k in range(t.cap):
                self._walk_obj(t.t, base, dims[1:], pre + [f"SI {k}%nat"], out)
            return
        if dims:
            raise T1Error("C: array declared for a non-array field")
        if t.kind == "msg":
            if not (isinstance(base, tuple) and base[0] == "struct" and base[1] in self.structs):
                raise T1Error("C: message field is not declared as a struct")
            self._walk_struct(t, base[1], pre, out)
            return
        if not (isinstance(base, tuple) and base[0] in ("bool", "u", "s")):
            raise T1Error("C: scalar field declared with a non-scalar type")
        out.append(f"({clist(pre)}, {coq_cty(base)})")


# --------------------------------------------------------------------------------------
# Go
# --------------------------------------------------------------------------------------

class GoT1:
    def __init__(self, files: Dict[str, str]):
        self.types: Dict[str, Any] = {}       # name -> (base | ('struct', name), dims)
        self.structs: Dict[str, List[Tuple[str, Any, List[int]]]] = {}
        self.funcs: Dict[str, Dict[str, Any]] = {}
        self.size: Dict[str, int] = {}
        pending = []
        for name, text in sorted(files.items()):
            if name.endswith(".go"):
                pending.append((name, text))
        # two passes: named types may be used before their declaration (other file)
        for name, text in pending:
            for m in re.finditer(r"(?m)^type (\w+) ((?:\[\d+\])*)([\w.]+)\s*(?://.*)?$", text):
                if m.group(3) != "struct":
                    self.types[m.group(1)] = (m.group(3), [int(x) for x in re.findall(r"\[(\d+)\]", m.group(2))])
            for m in re.finditer(r"(?m)^type (\w+) struct \{$", text):
                self.types[m.group(1)] = (("struct", m.group(1)), [])
        for name, text in pending:
            self._file(name, text)

    def resolve(self, tname: str, dims: Optional[List[int]] = None) -> Tuple[Any, List[int]]:
        dims = list(dims or [])
        seen = 0
        tname = tname.split(".")[-1]
        while True:
            if tname in GO_BASE:
                return GO_BASE[tname], dims
            if tname not in self.types or seen > 20:
                raise T1Error(f"Go: unknown type name {tname!r}")
            base, d = self.types[tname]
            dims = dims + d
            if isinstance(base, tuple):
                return base, dims
            tname = base.split(".")[-1]
            seen += 1

    def _file(self, fname: str, text: str) -> None:
        lines = text.split("\n")
        k = 0
        while k < len(lines):
            ln = lines[k]
            m = re.fullmatch(r"type (\w+) struct \{", ln)
            if m:
                members = []
                k += 1
                while lines[k] != "}":
                    ml = lines[k].split("//")[0].strip()
                    mm = re.fullmatch(r"(\w+) ((?:\[\d+\])*)([\w.]+) `json:\"\w+\"`", ml)
                    if not mm:
                        raise T1Error(f"Go: struct member not understood: {ml!r}")
                    dims = [int(x) for x in re.findall(r"\[(\d+)\]", mm.group(2))]
                    base, dims = self.resolve(mm.group(3), dims)
                    members.append((mm.group(1), base, dims))
                    k += 1
                self.structs[m.group(1)] = members
            m = re.fullmatch(r"func \(m \*(\w+)\) (Encode\(\) \[\]byte|Decode\(s \[\]byte\)) \{", ln)
            if m:
                body = []
                k += 1
                while lines[k] != "}":
                    body.append(lines[k].strip())
                    k += 1
                slot = self.funcs.setdefault(_norm(m.group(1)), {})
                if m.group(2).startswith("Encode"):
                    mk = re.fullmatch(r"s := make\(\[\]byte, (\d+)\)", body[0]) if body else None
                    if not mk or body[-1] != "return s":
                        raise T1Error(f"Go: Encode of {m.group(1)} is not `s := make([]byte, N)` ... `return s`")
                    self.size[_norm(m.group(1))] = int(mk.group(1))
                    slot["enc"] = body[1:-1]
                else:
                    slot["dec"] = body
            k += 1
        for fn, want in (("bool2byte", ["func bool2byte(b bool) byte {", "if b {", "return 1", "}", "return 0", "}"]),
                         ("byte2bool", ["func byte2bool(b byte) bool {", "if b > 0 {", "return true", "}",
                                        "return false", "}"])):
            got = re.search(r"(?ms)^func %s\(.*?^\}$" % fn, text)
            if got is None or [l.strip() for l in got.group(0).split("\n")] != want:
                raise T1Error(f"Go: {fname}: helper {fn} is missing or differs")

    def _root(self, e: Any) -> bool:
        return e == ("name", "m")

    def _chain(self, msg: sg.T, e: Any) -> str:
        return coq_chain(chain_of_path(msg, path_of(e, self._root)))

    def _conv(self, e: Any) -> Optional[Tuple[str, Any]]:
        """T(x) -> (type name, x) for a one-argument call whose callee is a (qualified) name."""
        if e[0] == "call" and len(e[2]) == 1:
            f = e[1]
            if f[0] == "name":
                return f[1], e[2][0]
            if f[0] == "mem" and f[1][0] == "name":
                return f[1][1] + "." + f[2], e[2][0]
        return None

    def _cty(self, tname: str) -> str:
        base, dims = self.resolve(tname)
        if dims or not (isinstance(base, tuple) and base[0] in ("bool", "u", "s")):
            raise T1Error(f"Go: {tname} is not a scalar type")
        return coq_cty(base)

    def body(self, msg: sg.T, name: str, enc: bool, lit=None) -> str:
        f = self.funcs.get(_norm(name))
        if f is None or ("enc" if enc else "dec") not in f:
            raise T1Error(f"Go: no {'Encode' if enc else 'Decode'} method for message {name}")
        return (lit or clist)([self.stmt(msg, l, enc) for l in f["enc" if enc else "dec"]])

    def stmt(self, msg: sg.T, line: str, enc: bool) -> str:
        try:
            return self._stmt(msg, Parser(tokenize(line), "go"), enc)
        except T1Error as e:
            raise T1Error(f"Go: statement {line!r}: {e}")

    def _stmt(self, msg: sg.T, p: Parser, enc: bool) -> str:
        lhs = p.unary()
        op = p.next()
        if op[0] != "op" or op[1] not in ("=", "|=", "<<=", ">>="):
            raise T1Error(f"assignment operator expected, found {op[1]!r}")
        rhs = p.expr()
        if p.peek()[0] != "eof":
            raise T1Error("text after the statement")
        if op[1] in ("<<=", ">>="):
            if enc:
                raise T1Error("shift-assignment in an encoder")
            d = num_of(rhs)
            return f"({'SShlGo' if op[1] == '<<=' else 'SShrGo'} {self._chain(msg, lhs)} {d})"
        if enc:
            if not (lhs[0] == "idx" and lhs[1] == ("name", "s") and lhs[2][0] == "num") or op[1] != "|=":
                raise T1Error("encoder statement is not s[si] |= ...")
            si = lhs[2][1]
            if not (rhs[0] == "bin" and rhs[1] == "&"):
                raise T1Error("right side is not (...) & mask")
            mask = num_of(rhs[3])
            a, sh = shift_of(rhs[2])
            cv = self._conv(a)
            if cv is None or cv[0] != "byte":
                raise T1Error("source is not byte(...)")
            inner = cv[1]
            c2 = self._conv(inner)
            if c2 is not None and c2[0] == "bool2byte":
                c3 = self._conv(c2[1])
                if c3 is not None and c3[0] == "bool":
                    return f"(SEncGo {si} GB2BCast {self._chain(msg, c3[1])} 0 {cz(sh)} {mask})"
                return f"(SEncGo {si} GB2B {self._chain(msg, c2[1])} 0 {cz(sh)} {mask})"
            bsh = 0
            if inner[0] == "bin":
                if inner[1] != ">>":
                    raise T1Error("byte selection is not f >> 8*fi")
                bsh = num_of(inner[3])
                if bsh < 1:
                    raise T1Error("shift by 0")
                inner = inner[2]
            return f"(SEncGo {si} GPlain {self._chain(msg, inner)} {bsh} {cz(sh)} {mask})"
        ch = self._chain(msg, lhs)
        asg = cbool(op[1] == "=")
        fish = 0
        x = rhs
        if x[0] == "bin" and x[1] == "<<":
            fish = num_of(x[3])
            if fish < 1:
                raise T1Error("shift by 0")
            x = x[2]
        cv = self._conv(x)
        if cv is None:
            raise T1Error("right side is not a conversion T(...)")
        conv = "GPlain"
        if cv[0] == "byte2bool":
            conv, ct, x = "GB2B", "CBool", cv[1]
        else:
            ct = self._cty(cv[0])
            c2 = self._conv(cv[1])
            if c2 is not None and c2[0] == "byte2bool":
                conv, x = "GB2BCast", c2[1]
            else:
                x = cv[1]
        if not (x[0] == "bin" and x[1] == "&"):
            raise T1Error("byte value is not byte(...) & mask")
        mask = num_of(x[3])
        c3 = self._conv(x[2])
        if c3 is None or c3[0] != "byte":
            raise T1Error("byte value is not byte(...) & mask")
        a, sh = shift_of(c3[1])
        if not (a[0] == "idx" and a[1] == ("name", "s") and a[2][0] == "num"):
            raise T1Error("decoder source is not s[si]")
        return f"(SDecGo {ch} {asg} {ct} {conv} {a[2][1]} {cz(sh)} {mask} {fish})"

    def member_types(self, msg: sg.T, name: str) -> str:
        key = [s for s in self.structs if _norm(s) == _norm(name)]
        if len(key) != 1:
            raise T1Error(f"Go: {len(key)} struct declarations match message {name}")
        out: List[str] = []
        self._walk_struct(msg, key[0], [], out)
        return clist(out)

    def _walk_struct(self, msg: sg.T, sname: str, pre: List[str], out: List[str]) -> None:
        members = {_norm(n): (b, d) for n, b, d in self.structs[sname]}
        if len(members) != len(self.structs[sname]) or len(members) != len(msg.fields):
            raise T1Error(f"Go: struct {sname} has {len(self.structs[sname])} members for {len(msg.fields)} fields")
        for num, nm, ft in sorted(msg.fields, key=lambda f: f[0]):
            if _norm(nm) not in members:
                raise T1Error(f"Go: struct {sname} has no member {nm}")
            base, dims = members[_norm(nm)]
            self._walk_obj(ft, base, list(dims), pre + [f"SF {num}"], out)

    def _walk_obj(self, t: sg.T, base: Any, dims: List[int], pre: List[str], out: List[str]) -> None:
        t = strip_alias(t)
        if t.kind == "arr":
            if not dims or dims[0] != t.cap:
                raise T1Error(f"Go: array capacity {t.cap} declared as {dims[:1]}")
            for k in range(t.cap):
                self._walk_obj(t.t, base, dims[1:], pre + [f"SI {k}%nat"], out)
            return
        if dims:
            raise T1Error("Go: array declared for a non-array field")
        if t.kind == "msg":
            if not (isinstance(base, tuple) and base[0] == "struct" and base[1] in self.structs):
                raise T1Error("Go: message field is not declared as a struct")
            self._walk_struct(t, base[1], pre, out)
            return
        if not (isinstance(base, tuple) and base[0] in ("bool", "u", "s")):
            raise T1Error("Go: scalar field declared with a non-scalar type")
        out.append(f"({clist(pre)}, {coq_cty(base)})")
