"""boundary_cases — a deterministic catalogue of schemas at the edges the random generator
rarely reaches: capacities 255/256/257/4096, field numbers 127/128/255, sizes around 2^15 and at
65535 bits, nesting depth 6, enums wider than 32 bits with the top bit set, alias chains of
depth 3, three nested extensible nodes, sibling widths ending exactly on byte boundaries, an
import chain with `as` names.  Used as extra cases by C01, C02, C03, C05, C07 (runs first)."""
from __future__ import annotations

import random
from typing import Any, List, Tuple

import schema_gen as sg

T = sg.T


def _collect(top: T) -> List[T]:
    """named types reachable from top, dependencies first, each once"""
    out: List[T] = []

    def walk(t: T) -> None:
        if t.kind in ("alias", "arr"):
            walk(t.t)
        elif t.kind == "msg":
            for _, _, ft in t.fields:
                walk(ft)
        if t.name and not any(t is x for x in out):
            out.append(t)
    walk(top)
    return out


def build(top: T, base: str) -> sg.Schema:
    """everything top-level in one file"""
    f = sg.SFile(0, base, base)
    for d in _collect(top):
        d.file, d.parent = 0, None
        f.defs.append(d)
    g = sg.Gen(random.Random(0), sg.Params())
    g.files = [f]
    g.named = list(f.defs)
    s = sg.Schema([f], top)
    s.texts = sg.render_files(g, s)
    return s


def build_chain() -> sg.Schema:
    """main imports libp as `ia`; libp imports libq as `ib`; types cross both hops"""
    f0, f1, f2 = sg.SFile(0, "bmain", "bmain"), sg.SFile(1, "libp", "libp"), sg.SFile(2, "libq", "libq")
    f0.imports.append((1, "ia"))
    f1.imports.append((2, "ib"))
    en = T("enum", n=9, name="Tqe", members=[("KQA", 0), ("KQB", 300), ("KQC", 511)])
    en.file = 2
    inner = T("msg", name="Tqm", ext=True, fields=[(2, "fqa", T("int", n=11)), (1, "fqb", en)])
    inner.file = 2
    f2.defs.extend([en, inner])
    al = T("alias", name="Tpa", t=T("arr", ext=True, cap=3, t=T("uint", n=5)))
    al.file = 1
    mid = T("msg", name="Tpm", fields=[(7, "fpa", inner), (3, "fpb", al), (200, "fpc", T("arr", cap=2, t=inner))])
    mid.file = 1
    f1.defs.extend([al, mid])
    top = T("msg", name="Tbm", ext=True, fields=[(5, "fba", mid), (1, "fbb", al), (130, "fbc", T("bool"))])
    top.file = 0
    f0.defs.append(top)
    g = sg.Gen(random.Random(0), sg.Params())
    g.files = [f0, f1, f2]
    g.named = [en, inner, al, mid, top]
    s = sg.Schema([f0, f1, f2], top)
    s.texts = sg.render_files(g, s)
    return s


def catalogue(big: bool = True) -> List[Tuple[sg.Schema, str]]:
    out: List[Tuple[sg.Schema, str]] = []
    u, i = (lambda n: T("uint", n=n)), (lambda n: T("int", n=n))

    def msg(name, fields, ext=False):
        return T("msg", name=name, ext=ext, fields=fields)

    # capacities around 255/256/257 and large ones, each followed by a field
    for k, (cap, et, ext) in enumerate([(255, u(3), False), (256, u(3), True), (257, i(5), True), (300, i(17), True),
                                        (1000, T("byte"), False), (4096, u(1), False), (512, T("bool"), True)]):
        out.append((build(msg("Tca", [(1, "fa", T("arr", cap=cap, ext=ext, t=et)), (2, "fb", u(7)), (3, "fc", i(9))]),
                          f"bcap{k}"), f"boundary:cap{cap}"))
    # field numbers at 127/128/255, declared out of order
    out.append((build(msg("Tfn", [(255, "fa", u(5)), (128, "fb", i(13)), (1, "fc", T("bool")), (127, "fd", u(33)),
                                  (129, "fe", T("byte")), (254, "ff", i(64))], ext=True), "bfnum"), "boundary:fieldnumbers"))
    # sizes around 2^15 and at the 65535 limit
    if big:
        out.append((build(msg("Tsa", [(1, "fa", T("arr", cap=4095, t=T("byte"))), (2, "fb", u(7))]), "bsz0"),
                    "boundary:32767bits"))
        out.append((build(msg("Tsb", [(1, "fa", T("arr", cap=4096, t=T("byte"))), (2, "fb", T("bool"))]), "bsz1"),
                    "boundary:32769bits"))
        out.append((build(msg("Tsc", [(1, "fa", T("arr", cap=8191, t=T("byte"))), (2, "fb", u(7))]), "bsz2"),
                    "boundary:65535bits"))
        out.append((build(msg("Tsd", [(1, "fa", T("arr", cap=8189, t=T("byte"))), (2, "fb", u(7))], ext=True), "bsz3"),
                    "boundary:65519+16bits"))
    # nesting depth 6 with arrays on the way
    d = msg("Tdf", [(2, "fa", i(3)), (1, "fb", u(6))], ext=True)
    for lvl, nm in enumerate(["Tde", "Tdd", "Tdc", "Tdb", "Tda"]):
        d = msg(nm, [(lvl + 3, "fx", T("arr", cap=2, ext=(lvl % 2 == 0), t=d)), (1, "fy", u(lvl + 1))], ext=(lvl % 2 == 1))
    out.append((build(d, "bdepth"), "boundary:depth6"))
    # enums wider than 32 bits with the top bit
    e64 = T("enum", n=64, name="Tea", members=[("KA", 0), ("KB", 1 << 63), ("KC", (1 << 64) - 1), ("KD", 1 << 32)])
    e33 = T("enum", n=33, name="Teb", members=[("KE", 0), ("KF", 1 << 32), ("KG", (1 << 33) - 1)])
    out.append((build(msg("Ten", [(1, "fa", u(3)), (2, "fb", e64), (3, "fc", T("arr", cap=2, t=e33)), (4, "fd", e33)]),
                      "benum"), "boundary:wide-enums"))
    # alias chains of depth 3 (3-D arrays) and an array of them
    a1 = T("alias", name="Taa", t=T("arr", cap=3, t=i(5)))
    a2 = T("alias", name="Tab", t=T("arr", cap=2, ext=True, t=a1))
    a3 = T("alias", name="Tac", t=T("arr", cap=2, t=a2))
    out.append((build(msg("Tal", [(2, "fa", a3), (1, "fb", T("arr", cap=2, t=a3)), (3, "fc", u(1))]), "balias"),
                "boundary:alias-depth3"))
    # three extensible nodes nested in each other, twice
    m3 = msg("Txc", [(1, "fa", T("arr", cap=3, ext=True, t=u(9)))], ext=True)
    m2 = msg("Txb", [(1, "fa", T("arr", cap=2, ext=True, t=m3)), (2, "fb", i(2))], ext=True)
    m1 = msg("Txa", [(1, "fa", m2), (2, "fb", T("arr", cap=2, ext=True, t=m2)), (3, "fc", u(5))], ext=True)
    out.append((build(m1, "bext"), "boundary:nested-extensible"))
    # sibling widths that end exactly on byte boundaries / word boundaries
    for k, ws in enumerate([(3, 5, 7, 9), (13, 19, 31, 1), (33, 31, 63, 1), (17, 15, 24, 8), (1, 63, 64, 64)]):
        fs = [(n + 1, f"f{chr(97 + n)}", (i(w) if n % 2 else u(w))) for n, w in enumerate(ws)]
        out.append((build(msg("Tsw", fs), f"bsib{k}"), f"boundary:siblings{ws}"))
    out.append((build_chain(), "boundary:import-chain"))
    return out


def special_values(t: T, rng) -> List[Any]:
    """values per schema: random, max, min, all-ones, alternating bit patterns, top bit only"""
    vals = [sg.gen_value(t, rng, m) for m in ("random", "max", "min", "ones", "random")]

    def pat(tt: T, which: int) -> Any:
        k = tt.kind
        if k == "bool":
            return which % 2 == 0
        if k == "enum":
            ms = [v for _, v in tt.members]
            return ms[which % len(ms)]
        if k == "alias":
            return pat(tt.t, which)
        if k == "arr":
            return [pat(tt.t, which + j) for j in range(tt.cap)]
        if k == "msg":
            return {n: pat(ft, which + n) for n, _, ft in tt.fields}
        n = 8 if k == "byte" else tt.n
        u = [int("10" * 32, 2), int("01" * 32, 2), 1 << (n - 1), (1 << (n - 1)) - 1][which % 4] & ((1 << n) - 1)
        if k == "int" and u >= (1 << (n - 1)):
            u -= 1 << n
        return u
    vals.append(pat(t, 0))
    vals.append(pat(t, 1))
    vals.append(pat(t, 2))
    return vals


def cases(seed: int, big: bool = True) -> List[Tuple[sg.Schema, List[Any], str]]:
    out = []
    for k, (s, origin) in enumerate(catalogue(big)):
        rng = random.Random(f"boundary:{seed}:{k}")
        out.append((s, special_values(s.top, rng), origin))
    return out
