"""boundary_cases — a deterministic catalogue of schemas at the edges the random generator
rarely reaches: capacities 255/256/257/4096, field numbers 127/128/255, sizes around 2^15 and at
65535 bits, nesting depth 6, enums wider than 32 bits with the top bit set, alias chains of
depth 3, three nested extensible nodes, sibling widths ending exactly on byte boundaries, an
import chain with `as` names.  Used as extra cases by C01, C02, C03, C05, C07 (runs first)."""
from __future__ import annotations

import random
from typing import Any, List, Tuple

import schema_gen as sg

T = sg.T


def _collect(top: T) -> List[T]:
    """named types reachable from top, dependencies first, each once"""
    out: List[T] = []

    def walk(t: T) -> None:
        if t.kind in ("alias", "arr"):
            walk(t.t)
        elif t.kind == "msg":
            for _, _, ft in t.fields:
                walk(ft)
        if t.name and not any(t is x for x in out):
            out.append(t)
    walk(top)
    return out


def build(top: T, base: str) -> sg.Schema:
    """everything top-level in one file"""
    f = sg.SFile(0, base, base)
    for d in _collect(top):
        d.file, d.parent = 0, None
        f.defs.append(d)
    g = sg.Gen(random.Random(0), sg.Params())
    g.files = [f]
    g.named = list(f.defs)
    s = sg.Schema([f], top)
    s.texts = sg.render_files(g, s)
    return s


def build_chain() -> sg.Schema:
    """main imports libp as `ia`; libp imports libq as `ib`; types cross both hops"""
    f0, f1, f2 = sg.SFile(0, "bmain", "bmain"), sg.SFile(1, "libp", "libp"), sg.SFile(2, "libq", "libq")
    f0.imports.append((1, "ia"))
    f1.imports.append((2, "ib"))
    en = T("enum", n=9, name="Tqe", members=[("KQA", 0), ("KQB", 300), ("KQC", 511)])
    en.file = 2
    inner = T("msg", name="Tqm", ext=True, fields=[(2, "fqa", T("int", n=11)), (1, "fqb", en)])
    inner.file = 2
    f2.defs.extend([en, inner])
    al = T("alias", name="Tpa", t=T("arr", ext=True, cap=3, t=T("uint", n=5)))
    al.file = 1
    mid = T("msg", name="Tpm", fields=[(7, "fpa", inner), (3, "fpb", al), (200, "fpc", T("arr", cap=2, t=inner))])
    mid.file = 1
    f1.defs.extend([al, mid])
    top = T("msg", name="Tbm", ext=True, fields=[(5, "fba", mid), (1, "fbb", al), (130, "fbc", T("bool"))])
    top.file = 0
    f0.defs.append(top)
    g = sg.Gen(random.Random(0), sg.Params())
    g.files = [f0, f1, f2]
    g.named = [en, inner, al, mid, top]
    s = sg.Schema([f0, f1, f2], top)
    s.texts = sg.render_files(g, s)
    return s


def catalogue(big: bool = True) -> List[Tuple[sg.Schema, str]]:
    out: List[Tuple[sg.Schema, str]] = []
    u, i = (lambda n: T("uint", n=n)), (lambda n: T("int", n=n))

    def msg(name, fields, ext=False):
        return T("msg", name=name, ext=ext, fields=fields)

    # capacities around 255/256/257 and large ones, each followed by a field
    for k, (cap, et, ext, pad) in enumerate([
            (255, u(3), False, 0), (256, u(3), True, 3), (257, i(5), True, 0), (300, i(17), True, 5),
            (1000, T("byte"), False, 0), (600, T("byte"), True, 7), (300, T("byte"), True, 0), (160, T("byte"), True, 8),
            (4096, u(1), False, 1), (512, T("bool"), True, 6), (257, i(16), False, 0), (300, u(32), True, 0),
            (260, i(64), False, 4), (80, u(16), True, 0), (1024, u(9), True, 7), (256, i(7), False, 0)]):
        fs = ([(1, "fp", u(pad))] if pad else []) + [(2, "fa", T("arr", cap=cap, ext=ext, t=et)), (3, "fb", u(7)), (4, "fc", i(9))]
        out.append((build(msg("Tca", fs), f"bcap{k}"), f"boundary:cap{cap}{'x' if ext else ''}@{pad}"))
    # field numbers at 127/128/255, declared out of order
    out.append((build(msg("Tfn", [(255, "fa", u(5)), (128, "fb", i(13)), (1, "fc", T("bool")), (127, "fd", u(33)),
                                  (129, "fe", T("byte")), (254, "ff", i(64))], ext=True), "bfnum"), "boundary:fieldnumbers"))
    # sizes around 2^15 and at the 65535 limit
    if big:
        out.append((build(msg("Tsa", [(1, "fa", T("arr", cap=4095, t=T("byte"))), (2, "fb", u(7))]), "bsz0"),
                    "boundary:32767bits"))
        out.append((build(msg("Tsb", [(1, "fa", T("arr", cap=4096, t=T("byte"))), (2, "fb", T("bool"))]), "bsz1"),
                    "boundary:32769bits"))
        out.append((build(msg("Tsc", [(1, "fa", T("arr", cap=8191, t=T("byte"))), (2, "fb", u(7))]), "bsz2"),
                    "boundary:65535bits"))
        out.append((build(msg("Tsd", [(1, "fa", T("arr", cap=8189, t=T("byte"))), (2, "fb", u(7))], ext=True), "bsz3"),
                    "boundary:65519+16bits"))
    # nesting depth 6 with arrays on the way
    d = msg("Tdf", [(2, "fa", i(3)), (1, "fb", u(6))], ext=True)
    for lvl, nm in enumerate(["Tde", "Tdd", "Tdc", "Tdb", "Tda"]):
        d = msg(nm, [(lvl + 3, "fx", T("arr", cap=2, ext=(lvl % 2 == 0), t=d)), (1, "fy", u(lvl + 1))], ext=(lvl % 2 == 1))
    out.append((build(d, "bdepth"), "boundary:depth6"))
    # enums wider than 32 bits with the top bit
    e64 = T("enum", n=64, name="Tea", members=[("KA", 0), ("KB", 1 << 63), ("KC", (1 << 64) - 1), ("KD", 1 << 32)])
    e33 = T("enum", n=33, name="Teb", members=[("KE", 0), ("KF", 1 << 32), ("KG", (1 << 33) - 1)])
    out.append((build(msg("Ten", [(1, "fa", u(3)), (2, "fb", e64), (3, "fc", T("arr", cap=2, t=e33)), (4, "fd", e33)]),
                      "benum"), "boundary:wide-enums"))
    # alias chains of depth 3 (3-D arrays) and an array of them
    a1 = T("alias", name="Taa", t=T("arr", cap=3, t=i(5)))
    a2 = T("alias", name="Tab", t=T("arr", cap=2, ext=True, t=a1))
    a3 = T("alias", name="Tac", t=T("arr", cap=2, t=a2))
    out.append((build(msg("Tal", [(2, "fa", a3), (1, "fb", T("arr", cap=2, t=a3)), (3, "fc", u(1))]), "balias"),
                "boundary:alias-depth3"))
    # three extensible nodes nested in each other, twice
    m3 = msg("Txc", [(1, "fa", T("arr", cap=3, ext=True, t=u(9)))], ext=True)
    m2 = msg("Txb", [(1, "fa", T("arr", cap=2, ext=True, t=m3)), (2, "fb", i(2))], ext=True)
    m1 = msg("Txa", [(1, "fa", m2), (2, "fb", T("arr", cap=2, ext=True, t=m2)), (3, "fc", u(5))], ext=True)
    out.append((build(m1, "bext"), "boundary:nested-extensible"))
    # sibling widths that end exactly on byte boundaries / word boundaries
    for k, ws in enumerate([(3, 5, 7, 9), (13, 19, 31, 1), (33, 31, 63, 1), (17, 15, 24, 8), (1, 63, 64, 64)]):
        fs = [(n + 1, f"f{chr(97 + n)}", (i(w) if n % 2 else u(w))) for n, w in enumerate(ws)]
        out.append((build(msg("Tsw", fs), f"bsib{k}"), f"boundary:siblings{ws}"))
    # option max_bytes larger than / equal to the real size (BYTES_LENGTH must stay ceil(N/8))
    for k, mb in enumerate((2, 3, 64)):
        s_ = build(msg("Tmb", [(1, "fa", u(9)), (2, "fb", T("bool")), (3, "fc", i(3))]), f"bmaxb{k}")
        name = f"bmaxb{k}.bitproto"
        s_.texts[name] = s_.texts[name].replace("message Tmb {", "message Tmb {\n    option max_bytes = %d" % mb)
        out.append((s_, f"boundary:max_bytes={mb}"))
    # empty extensible messages as field / array element, followed by fields
    emp = msg("Tre", [], ext=True)
    emp2 = msg("Trf", [], ext=False)
    out.append((build(msg("Tem", [(1, "fa", u(3)), (2, "fb", emp), (3, "fc", T("arr", cap=3, t=emp)), (4, "fd", emp2),
                                  (5, "fe", i(13)), (6, "ff", T("arr", cap=2, ext=True, t=emp))], ext=True), "bempty"),
                "boundary:empty-extensible"))
    # 3-D / 4-D arrays of non-standard signed ints (and nothing else signed in the message)
    s1 = T("alias", name="Tsa", t=T("arr", cap=2, t=i(7)))
    s2 = T("alias", name="Tsb", t=T("arr", cap=2, t=s1))
    s3 = T("alias", name="Tsc", t=T("arr", cap=2, t=s2))
    out.append((build(msg("Tsi", [(1, "fa", T("arr", cap=2, t=s2)), (2, "fb", u(5))]), "bsign3"), "boundary:int7-3D"))
    out.append((build(msg("Tsj", [(1, "fa", T("arr", cap=2, t=s3)), (2, "fb", T("bool"))]), "bsign4"), "boundary:int7-4D"))
    if big:
        # an extensible message of >= 32768 bits, aligned and unaligned, followed by fields
        bigm = msg("Tbg", [(1, "fa", T("arr", cap=4100, t=T("byte"))), (2, "fb", u(5))], ext=True)
        out.append((build(msg("Tbh", [(1, "fa", bigm), (2, "fb", u(11))]), "bbig0"), "boundary:ext-msg-32837bits-aligned"))
        bigm2 = msg("Tbi", [(1, "fa", T("arr", cap=4100, t=T("byte"))), (2, "fb", u(5))], ext=True)
        out.append((build(msg("Tbj", [(1, "fp", u(3)), (2, "fa", bigm2), (3, "fb", u(11))], ext=True), "bbig1"),
                    "boundary:ext-msg-32837bits-unaligned"))
    out.append((build_chain(), "boundary:import-chain"))
    return out


def special_values(t: T, rng) -> List[Any]:
    """values per schema: random, max, min, all-ones, alternating bit patterns, top bit only"""
    vals = [sg.gen_value(t, rng, m) for m in ("random", "max", "min", "ones", "random")]

    def pat(tt: T, which: int) -> Any:
        k = tt.kind
        if k == "bool":
            return which % 2 == 0
        if k == "enum":
            ms = [v for _, v in tt.members]
            return ms[which % len(ms)]
        if k == "alias":
            return pat(tt.t, which)
        if k == "arr":
            return [pat(tt.t, which + j) for j in range(tt.cap)]
        if k == "msg":
            return {n: pat(ft, which + n) for n, _, ft in tt.fields}
        n = 8 if k == "byte" else tt.n
        u = [int("10" * 32, 2), int("01" * 32, 2), 1 << (n - 1), (1 << (n - 1)) - 1][which % 4] & ((1 << n) - 1)
        if k == "int" and u >= (1 << (n - 1)):
            u -= 1 << n
        return u
    vals.append(pat(t, 0))
    vals.append(pat(t, 1))
    vals.append(pat(t, 2))
    return vals


def cases(seed: int, big: bool = True) -> List[Tuple[sg.Schema, List[Any], str]]:
    out = []
    for k, (s, origin) in enumerate(catalogue(big)):
        rng = random.Random(f"boundary:{seed}:{k}")
        vals = special_values(s.top, rng)
        if s.top.nbits() > 20000:
            vals = vals[:1] + vals[5:6]          # large messages: two values (random, alternating bits)
        elif s.top.nbits() > 4000:
            vals = vals[:2] + vals[5:7]
        out.append((s, vals, origin))
    return out


def evolution_chains() -> List[Tuple[List[sg.Schema], List[str], str]]:
    """deterministic evolution chains at the edges: huge appended fields (>= 32768 bits), an empty
    extensible placeholder that gets its first fields, capacities growing past 255 / past 1024
    bits of payload at aligned and unaligned offsets, element message and capacity extended
    together, three steps in a row."""
    u, i = (lambda n: T("uint", n=n)), (lambda n: T("int", n=n))

    def msg(name, fields, ext=False):
        return T("msg", name=name, ext=ext, fields=fields)

    out = []

    def chain(name, versions, steps):
        out.append(([build(v, name + str(k)) for k, v in enumerate(versions)], steps, "boundary-chain:" + name))

    # A: append a huge field to a nested extensible message
    def va(k):
        inner = [(1, "fx", u(3)), (2, "fmid", T("arr", cap=100, t=T("byte"))), (3, "fbig", T("arr", cap=4100, t=T("byte")))][:k]
        return msg("Tva", [(1, "fa", u(5)), (2, "fin", msg("Tvi", inner, ext=True)), (3, "ftail", u(9))], ext=True)
    chain("huge", [va(1), va(2), va(3)], ["append byte[100]", "append byte[4100] (>= 32768 bits appended)"])

    # B: an empty extensible placeholder gets its first fields
    def vb(k):
        fs = [(1, "fp", u(5)), (2, "fq", i(9)), (3, "fr", T("arr", cap=3, t=u(4)))][:k]
        return msg("Tvb", [(1, "fres", msg("Tvr", fs, ext=True)), (2, "ftail", u(7)),
                           (3, "farr", T("arr", cap=2, t=msg("Tvs", fs[:max(0, k - 1)], ext=True))), (4, "fend", i(5))])
    chain("placeholder", [vb(0), vb(1), vb(3)], ["first field appended to an empty extensible message", "two more"])

    # C: capacities growing past 255 and past 128 bytes, aligned and unaligned
    def vc(c1, c2, c3, pad):
        fs = ([(1, "fp", u(pad))] if pad else []) + [
            (2, "fa", T("arr", cap=c1, ext=True, t=u(16))), (3, "fm", i(6)),
            (4, "fb", T("arr", cap=c2, ext=True, t=T("byte"))), (5, "fn", u(3)),
            (6, "fc", T("arr", cap=c3, ext=True, t=i(7))), (7, "ftail", u(13))]
        return msg("Tvc", fs)
    chain("capsal", [vc(60, 100, 200, 0), vc(80, 160, 256, 0), vc(300, 600, 1030, 0)], ["raise caps", "raise past 255"])
    chain("capsun", [vc(60, 100, 200, 3), vc(80, 160, 257, 3), vc(300, 600, 1030, 3)], ["raise caps", "raise past 255"])

    # D: element message AND capacity extended together, capacity past 255
    def vd(cap, k):
        fs = [(1, "fa", u(4)), (2, "fb", u(12)), (3, "fc", i(3))][:k]
        return msg("Tvd", [(1, "fh", u(2)), (2, "fe", T("arr", cap=cap, ext=True, t=msg("Tve", fs, ext=True))),
                           (3, "ftail", u(11))], ext=True)
    chain("both", [vd(2, 1), vd(200, 2), vd(300, 3)], ["cap 2->200 and element +uint12", "cap ->300 and element +int3"])
    return out
