"""c14_c — C14 on the C runtime: the (type, offset, position) cases of tools/props/c14.py run
through generated standard-mode C + lib/c/bitproto.c, little-endian build against Spec, and
the -DBP_BIG_ENDIAN build on this x86 host against the model at (BE, LE) (tie of the BE paths)."""
import cside


def run_c14_c(ck, pairs, make_cases):
    items = []
    for t, k in pairs:
        for s, vals, origin in make_cases(t, k):
            cases = [dict(v=v, obj=cside.py_store(s.top, v), kind="value") for v in vals]
            items.append(dict(schema=s, cases=cases, origin=origin))
    # positions the (type, offset) space above does not contain: the element sits in a ROW of a 2-D
    # array (alias of an array used as array element; every row width that meets a fast-path
    # threshold) or is an ALIAS of a narrow int used as array element
    import cboundary
    be = cside.run_schemas(ck, True, items, "c14be", want_spec=False)
    items = items + cboundary.items_of(ck.seed, cboundary.c_catalogue(ck.seed, ("rows", "narrow")), n_values=3, junk=0)
    le = cside.run_schemas(ck, False, items, "c14le")
    bx = cside.run_schemas(ck, True, cboundary.items_of(ck.seed, cboundary.be_exact_catalogue(ck.seed, ck.quick), n_values=3,
                                                        junk=0, host="BE"), "c14bx", host="BE")
    ck.coverage["tie"]["c_runtime_be_build_be_storage_vs_spec"] = bx
    ck.coverage["tie"]["c_runtime_le"] = le
    ck.coverage["tie"]["c_runtime_be_build_on_le_host"] = be
    ck.coverage["evaluations"] += le.get("observations", 0) + be.get("observations", 0)
    ck.coverage["distinct_nontrivial"] += le.get("distinct_evaluated", 0)
