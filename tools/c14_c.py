"""c14_c — C14 on the C runtime: the (type, offset, position) cases of tools/props/c14.py run
through generated standard-mode C + lib/c/bitproto.c, little-endian build against Spec, and
the -DBP_BIG_ENDIAN build on this x86 host against the model at (BE, LE) (tie of the BE paths)."""
import cside
import vlib


def _stream(ck, name, fn):
    """one C stream; a stream that cannot be evaluated is a broken tie but must not hide the others"""
    try:
        return fn()
    except vlib.Broken as b:
        ck.broken(vlib.Broken(f"C14 C runtime stream {name}: {b.what}", b.detail))
        return {"error": b.what}


def run_c14_c(ck, pairs, make_cases):
    # C14's proof step builds the closure of props/C14.v; when a proof in it no longer builds (the
    # translated GenC.v changed), the executable C model must still be rebuilt against the CURRENT
    # translation before any case file is evaluated (CCase depends on CRt/CBeExact/GenC only)
    ok, log = vlib.coq_build(["theories/CCase.vo"])
    if not ok:
        ck.broken(vlib.Broken("the executable C model (coq/theories/CRt.v, CCase.v) does not build against the "
                              "current translation coq/gen/GenC.v", log[-2500:]))
        return
    items = []
    for t, k in pairs:
        for s, vals, origin in make_cases(t, k):
            cases = [dict(v=v, obj=cside.py_store(s.top, v), kind="value") for v in vals]
            items.append(dict(schema=s, cases=cases, origin=origin))
    # positions the (type, offset) space above does not contain: the element sits in a ROW of a 2-D
    # array (alias of an array used as array element; every row width that meets a fast-path
    # threshold) or is an ALIAS of a narrow int used as array element
    import cboundary
    be_items = items
    items = items + cboundary.items_of(ck.seed, cboundary.c_catalogue(ck.seed, ("rows", "narrow")), n_values=3, junk=0)
    le = _stream(ck, "LE build vs Spec", lambda: cside.run_schemas(ck, False, items, "c14le"))
    be = _stream(ck, "BE build on LE host vs model", lambda: cside.run_schemas(ck, True, be_items, "c14be", want_spec=False))
    bx = _stream(ck, "BE build on BE storage vs Spec", lambda: cside.run_schemas(
        ck, True, cboundary.items_of(ck.seed, cboundary.be_exact_catalogue(ck.seed, ck.quick), n_values=3, junk=0, host="BE"),
        "c14bx", host="BE"))
    ck.coverage["tie"]["c_runtime_be_build_be_storage_vs_spec"] = bx
    ck.coverage["tie"]["c_runtime_le"] = le
    ck.coverage["tie"]["c_runtime_be_build_on_le_host"] = be
    ck.coverage["evaluations"] += le.get("observations", 0) + be.get("observations", 0)
    ck.coverage["distinct_nontrivial"] += le.get("distinct_evaluated", 0)
