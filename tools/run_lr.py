"""run_lr — worker for the LR module (C08/C09 syntax level).  Runs ply + /repo's Parser.

Modes
  --dump            print (JSON) what ply built from /repo's Parser at run time: productions,
                    action / goto tables, defaulted states, precedence, terminals, and digests
                    of the third-party driver source the Coq model LR.v follows.
  (default)         read a JSON list of jobs on stdin, write a JSON list of results.

Jobs
  {"mode": "types", "types": [token type, ...]}
        the REAL LRParser object built by `Parser()` from /repo (real docstrings, real
        precedence, real tables, ply's real parseopt_notrack loop) is driven by a token source
        that yields tokens of the given types.  Only the semantic actions are replaced: every
        production's `callable` is swapped (in this process, never in /repo) for a recorder.
        This isolates SYNTAX: duplicate names, unresolved references ... cannot end the parse.
  {"mode": "text", "text": str}
        the real Lexer of /repo tokenises the text as written ("raw" token types), then the
        REAL Parser.parse_string path runs on the text with recorder actions ("syntax" part: token
        types as fetched by ply, i.e. of the text as parse_string hands it to the driver, outcome,
        reductions), and — independently —
        the unmodified Parser.parse_string of a fresh Parser whose productions' callables (the
        bound p_ methods) are wrapped to record the production number first and then run the
        real action, until the parse ends or an action raises ("real" part).

Result: {"types": [...], "syn": {"out": "accept"|"syntax"|"crash", "reds": [prod numbers],
         "idx": token index or len(types) at eof, "tok": type|"$end", "exc": ...},
         "real": {"out": "ok"|"grammar"|"action"|"lexer"|"crash", "reds": [...], "exc": name}}
"""
from __future__ import annotations

import hashlib
import inspect
import json
import sys


def _parser_cls():
    import bitproto
    from bitproto.parser import Parser
    return bitproto, Parser


def dump() -> dict:
    import ply
    from ply import yacc
    bitproto, Parser = _parser_cls()
    P = Parser()
    lr = P.parser
    prods = []
    for p in lr.productions:
        prods.append({"name": p.name, "rhs": list(p.prod), "func": p.func, "len": p.len,
                      "prec": list(p.prec), "line": p.line, "str": p.str})
    action = {str(s): [[t, a] for t, a in row.items()] for s, row in lr.action.items()}
    goto = {str(s): [[n, g] for n, g in row.items()] for s, row in lr.goto.items()}

    def dig(obj) -> str:
        return hashlib.sha256(inspect.getsource(obj).encode()).hexdigest()

    from bitproto.lexer import Lexer
    return {
        "bitproto_file": bitproto.__file__,
        "ply_version": ply.__version__,
        "productions": prods,
        "action": action,
        "goto": goto,
        "defaulted": {str(s): r for s, r in lr.defaulted_states.items()},
        "tokens": list(Parser.tokens),
        "literals": Lexer.literals,
        "precedence": [list(r) for r in Parser.precedence],
        "ply": {
            "parseopt_notrack": dig(yacc.LRParser.parseopt_notrack),
            "parse": dig(yacc.LRParser.parse),
            "set_defaulted_states": dig(yacc.LRParser.set_defaulted_states),
            "LRParser.__init__": dig(yacc.LRParser.__init__),
            "call_errorfunc": dig(yacc.call_errorfunc),
        },
    }


# --------------------------------------------------------------------------------------
# recording parses
# --------------------------------------------------------------------------------------

class _Tok:
    __slots__ = ("type", "value", "lineno", "lexpos", "lexer")

    def __init__(self, ty, i):
        self.type, self.value, self.lineno, self.lexpos = ty, ty, 1, i


class _Src:
    """token source with the interface parseopt_notrack uses (input/token)"""

    def __init__(self, types):
        self.types, self.i, self.fetched = types, 0, 0
        self.lexdata = ""

    def input(self, s):
        pass

    def token(self):
        if self.i < len(self.types):
            t = _Tok(self.types[self.i], self.i)
            self.i += 1
            self.fetched = self.i
            return t
        return None


class _SynErr(Exception):
    def __init__(self, tok):
        self.tok = tok


_REC = None


def recording_parser():
    """the real tables + ply's real loop; actions replaced by recorders"""
    global _REC
    if _REC is None:
        _, Parser = _parser_cls()
        P = Parser()
        lr = P.parser
        log = []
        for p in lr.productions:
            if p.number == 0:
                continue

            def mk(n):
                def rec(pslice):
                    log.append(n)
                return rec
            p.callable = mk(p.number)

        def err(tok):
            raise _SynErr(tok)
        lr.errorfunc = err
        _REC = (lr, log)
    return _REC


def syn_parse(types):
    lr, log = recording_parser()
    del log[:]
    src = _Src(types)
    try:
        lr.parse("", lexer=src)
        return {"out": "accept", "reds": list(log), "fetched": src.fetched}
    except _SynErr as e:
        if e.tok is None:
            return {"out": "syntax", "reds": list(log), "idx": len(types), "tok": "$end", "fetched": src.fetched}
        return {"out": "syntax", "reds": list(log), "idx": e.tok.lexpos, "tok": e.tok.type, "fetched": src.fetched}
    except BaseException as e:  # IndexError / KeyError out of the loop: what C09 excludes
        return {"out": "crash", "reds": list(log), "exc": type(e).__name__, "msg": str(e)[:200]}


def lex_types(text):
    from bitproto.lexer import Lexer
    lx = Lexer()
    lx.input(text)
    out = []
    try:
        while True:
            t = lx.token()
            if t is None:
                break
            out.append(t.type)
    except BaseException as e:
        return out, type(e).__name__
    return out, None


def real_parse(text):
    """unmodified Parser (real actions); the production sequence is recorded by wrapping the
    `callable` of each production of THIS instance's LRParser (bound methods of the real
    Parser object), so actions run exactly as in /repo until one raises."""
    _, Parser = _parser_cls()
    from bitproto.errors import GrammarError, LexerError, ParserError
    P = Parser()
    lr = P.parser
    log = []
    for p in lr.productions:
        if p.number == 0:
            continue

        def mk(n, f):
            def rec(pslice):
                log.append(n)
                return f(pslice)
            return rec
        p.callable = mk(p.number, p.callable)
    try:
        P.parse_string(text, filepath="")
        return {"out": "ok", "reds": log}
    except GrammarError as e:
        if type(e) is not GrammarError:          # subclasses are raised by semantic actions
            return {"out": "action", "reds": log, "exc": type(e).__name__}
        return {"out": "grammar", "reds": log, "exc": "GrammarError", "line": getattr(e, "lineno", None),
                "tok": getattr(e, "token", None)}
    except LexerError as e:
        return {"out": "lexer", "reds": log, "exc": type(e).__name__}
    except ParserError as e:
        return {"out": "action", "reds": log, "exc": type(e).__name__}
    except BaseException as e:
        return {"out": "crash", "reds": log, "exc": type(e).__name__, "msg": str(e)[:200]}


def syn_parse_text(text):
    """the REAL text path: Parser.parse_string (whatever it does to the text before handing it to
    ply, e.g. terminating the last line) -> real Lexer -> real LRParser; only the actions of this
    Parser instance are recorders.  Token types are recorded as ply fetches them; after a syntax
    error the rest of the text is drained through the same lexer so that the full token list of
    the text AS PARSED is known."""
    import ply.lex as plylex
    _, Parser = _parser_cls()
    P = Parser()
    lr = P.parser
    log = []
    for p in lr.productions:
        if p.number == 0:
            continue

        def mk(n):
            def rec(pslice):
                log.append(n)
            return rec
        p.callable = mk(p.number)

    def err(tok):
        raise _SynErr(tok)
    lr.errorfunc = err
    lx = P.lexer.lexer
    plylex.lexer = lx               # Parser.parse passes no lexer: ply takes the module global
    types = []
    cls_token = type(lx).token

    def token():
        t = cls_token(lx)
        if t is not None:
            types.append(t.type)
        return t
    lx.token = token
    lexerr = None
    try:
        P.parse_string(text, filepath="")
        syn = {"out": "accept", "reds": list(log)}
    except _SynErr as e:
        if e.tok is None:
            syn = {"out": "syntax", "reds": list(log), "idx": len(types), "tok": "$end"}
        else:
            syn = {"out": "syntax", "reds": list(log), "idx": len(types) - 1, "tok": e.tok.type}
            try:
                while token() is not None:
                    pass
            except BaseException as e2:
                lexerr = type(e2).__name__
    except BaseException as e:
        from bitproto.errors import LexerError
        if isinstance(e, LexerError):
            lexerr = type(e).__name__
            syn = None
        else:
            syn = {"out": "crash", "reds": list(log), "exc": type(e).__name__, "msg": str(e)[:200]}
    return types, lexerr, syn


def one(job):
    if job["mode"] == "types":
        return {"types": job["types"], "raw": job["types"], "ends_nl": True, "syn": syn_parse(job["types"])}
    text = job["text"]
    raw, rawerr = lex_types(text)            # the text as written, before parse_string touches it
    types, lexerr, syn = syn_parse_text(text)
    if syn is None:                          # lexer error inside the parse: compare on the lexed prefix
        syn = syn_parse(types)
    res = {"types": types, "raw": raw, "ends_nl": text.endswith("\n"), "lexerr": lexerr or rawerr, "syn": syn}
    if job.get("real", True):
        res["real"] = real_parse(text)
    return res


def main() -> None:
    if len(sys.argv) > 1 and sys.argv[1] == "--dump":
        json.dump(dump(), sys.stdout)
        return
    jobs = json.load(sys.stdin)
    out = []
    for j in jobs:
        try:
            out.append(one(j))
        except BaseException as e:  # noqa
            out.append({"worker_error": f"{type(e).__name__}: {e}"})
    json.dump(out, sys.stdout)


if __name__ == "__main__":
    main()
