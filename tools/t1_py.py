"""t1_py — structural translation validation of the emitted Python module (tie T1).

Parses the generated *_bp.py files with `ast` into the tables of coq/theories/PyRt.v
(`proc` with one `cls` per message) so that Coq can compare them with `proc_of (norm t)`.
Fail-closed: any statement shape that is not recognised raises T1Error.
"""
from __future__ import annotations

import ast
from typing import Any, Dict, List, Optional, Tuple

from vlib import cbool, clist, cnat, cz


class T1Error(Exception):
    pass


class Module:
    def __init__(self, name: str, text: str):
        self.name = name
        try:
            self.tree = ast.parse(text)
        except SyntaxError as e:
            raise T1Error(f"{name}: emitted Python does not parse: {e}")
        self.funcs: Dict[str, ast.FunctionDef] = {}
        self.classes: Dict[str, ast.ClassDef] = {}
        self.imports: Dict[str, str] = {}       # local name -> module name
        for node in self.tree.body:
            if isinstance(node, ast.FunctionDef):
                self.funcs[node.name] = node
            elif isinstance(node, ast.ClassDef):
                self.classes[node.name] = node
            elif isinstance(node, ast.Import):
                for a in node.names:
                    self.imports[a.asname or a.name] = a.name


class PyT1:
    def __init__(self, generated: Dict[str, str]):
        self.mods: Dict[str, Module] = {}
        for fname, text in generated.items():
            if fname.endswith(".py"):
                self.mods[fname[:-3]] = Module(fname[:-3], text)

    # ---- helpers ---------------------------------------------------------------------
    def _resolve(self, mod: Module, node: ast.expr) -> Tuple[Module, str]:
        """Name or mod.Name -> (module, name)."""
        if isinstance(node, ast.Name):
            return mod, node.id
        if isinstance(node, ast.Attribute) and isinstance(node.value, ast.Name):
            alias = node.value.id
            if alias in mod.imports and mod.imports[alias] in self.mods:
                return self.mods[mod.imports[alias]], node.attr
        raise T1Error(f"{mod.name}: cannot resolve {ast.dump(node)}")

    @staticmethod
    def _const(node: ast.expr) -> Any:
        if isinstance(node, ast.Constant):
            return node.value
        if isinstance(node, ast.UnaryOp) and isinstance(node.op, ast.USub) and isinstance(node.operand, ast.Constant):
            return -node.operand.value
        raise T1Error(f"expected a literal, got {ast.dump(node)}")

    @staticmethod
    def _is_bp(node: ast.expr, name: str) -> bool:
        return (isinstance(node, ast.Attribute) and isinstance(node.value, ast.Name)
                and node.value.id == "bp" and node.attr == name)

    def enum_members(self, mod: Module, name: str) -> List[int]:
        cls = mod.classes.get(name)
        if cls is None:
            raise T1Error(f"{mod.name}: enum class {name} not found")
        out = []
        for st in cls.body:
            if isinstance(st, ast.Assign) and len(st.targets) == 1 and isinstance(st.targets[0], ast.Name):
                out.append(int(self._const(st.value)))
            elif isinstance(st, ast.Expr) and isinstance(st.value, ast.Constant):
                continue
            elif isinstance(st, ast.Pass):
                continue
            else:
                raise T1Error(f"{mod.name}.{name}: unexpected statement in enum class")
        return out

    # ---- processors ------------------------------------------------------------------
    def proc_expr(self, mod: Module, e: ast.expr) -> str:
        if not isinstance(e, ast.Call):
            raise T1Error(f"processor expression is not a call: {ast.dump(e)}")
        f = e.func
        if self._is_bp(f, "Bool") and not e.args:
            return "PBool"
        if self._is_bp(f, "Byte") and not e.args:
            return "PByte"
        if self._is_bp(f, "Int") and len(e.args) == 1:
            return f"(PInt {cz(int(self._const(e.args[0])))})"
        if self._is_bp(f, "Uint") and len(e.args) == 1:
            return f"(PUint {cz(int(self._const(e.args[0])))})"
        if self._is_bp(f, "Array") and len(e.args) == 3:
            ext = self._const(e.args[0])
            cap = self._const(e.args[1])
            if not isinstance(ext, bool) or not isinstance(cap, int):
                raise T1Error("bp.Array arguments")
            return f"(PArray {cbool(ext)} {cnat(cap)} {self.proc_expr(mod, e.args[2])})"
        if self._is_bp(f, "EnumProcessor") and len(e.args) == 1:
            return f"(PEnum {self.proc_expr(mod, e.args[0])})"
        if self._is_bp(f, "AliasProcessor") and len(e.args) == 1:
            return f"(PAlias {self.proc_expr(mod, e.args[0])})"
        # X().bp_processor()
        if isinstance(f, ast.Attribute) and f.attr == "bp_processor" and isinstance(f.value, ast.Call) \
                and not f.value.args and not e.args:
            m2, name = self._resolve(mod, f.value.func)
            return self.message_proc(m2, name)
        # bp_processor_X()
        if not e.args:
            m2, name = self._resolve(mod, f)
            fn = m2.funcs.get(name)
            if fn is None or not name.startswith("bp_processor_"):
                raise T1Error(f"{mod.name}: unknown processor function {name}")
            body = [s for s in fn.body if not (isinstance(s, ast.Expr) and isinstance(s.value, ast.Constant))]
            if len(body) != 1 or not isinstance(body[0], ast.Return):
                raise T1Error(f"{m2.name}.{name}: unexpected body")
            return self.proc_expr(m2, body[0].value)
        raise T1Error(f"unrecognised processor expression {ast.dump(e)}")

    def bytes_length(self, mod_name: str, cls_name: str) -> int:
        cls = self.mods[mod_name].classes[cls_name]
        for st in cls.body:
            if isinstance(st, ast.AnnAssign) and isinstance(st.target, ast.Name) and st.target.id == "BYTES_LENGTH":
                return int(self._const(st.value))
        raise T1Error("BYTES_LENGTH not found")

    def field_order(self, mod_name: str, cls_name: str) -> List[str]:
        cls = self.mods[mod_name].classes[cls_name]
        out = []
        for st in cls.body:
            if isinstance(st, ast.AnnAssign) and isinstance(st.target, ast.Name):
                nm = st.target.id
                if nm != "BYTES_LENGTH" and not nm.startswith("_enum_field_proxy__"):
                    out.append(nm)
        return out

    def _method(self, cls: ast.ClassDef, name: str) -> ast.FunctionDef:
        for st in cls.body:
            if isinstance(st, ast.FunctionDef) and st.name == name:
                return st
        raise T1Error(f"class {cls.name}: method {name} missing")

    def _cases(self, fn: ast.FunctionDef, cls_name: str) -> List[Tuple[int, List[ast.stmt]]]:
        """Body must be a sequence of `if di.field_number == N: ...` followed by one final
        return; returns [(N, body)]."""
        out = []
        body = [s for s in fn.body if not (isinstance(s, ast.Expr) and isinstance(s.value, ast.Constant))]
        for st in body[:-1]:
            ok = (isinstance(st, ast.If) and not st.orelse and isinstance(st.test, ast.Compare)
                  and len(st.test.ops) == 1 and isinstance(st.test.ops[0], ast.Eq)
                  and isinstance(st.test.left, ast.Attribute) and st.test.left.attr == "field_number"
                  and isinstance(st.test.left.value, ast.Name) and st.test.left.value.id == "di")
            if not ok:
                raise T1Error(f"{cls_name}.{fn.name}: unexpected statement {ast.dump(st)[:120]}")
            out.append((int(self._const(st.test.comparators[0])), st.body))
        if not body or not isinstance(body[-1], ast.Return):
            raise T1Error(f"{cls_name}.{fn.name}: no final return")
        return out

    @staticmethod
    def _dataref(node: ast.expr) -> Tuple[str, int]:
        """self.name[di.i(0)]...[di.i(d-1)] -> (name, d)"""
        idxs = []
        while isinstance(node, ast.Subscript):
            sl = node.slice
            ok = (isinstance(sl, ast.Call) and isinstance(sl.func, ast.Attribute) and sl.func.attr == "i"
                  and isinstance(sl.func.value, ast.Name) and sl.func.value.id == "di"
                  and len(sl.args) == 1 and isinstance(sl.args[0], ast.Constant))
            if not ok:
                raise T1Error("data reference index is not di.i(k)")
            idxs.append(sl.args[0].value)
            node = node.value
        idxs.reverse()
        if idxs != list(range(len(idxs))):
            raise T1Error(f"data reference indices out of order: {idxs}")
        if not (isinstance(node, ast.Attribute) and isinstance(node.value, ast.Name) and node.value.id == "self"):
            raise T1Error("data reference does not start at self.<field>")
        return node.attr, len(idxs)

    def message_proc(self, mod: Module, cls_name: str) -> str:
        cls = mod.classes.get(cls_name)
        if cls is None:
            raise T1Error(f"{mod.name}: message class {cls_name} not found")
        # --- bp_processor
        fn = self._method(cls, "bp_processor")
        body = [s for s in fn.body if not (isinstance(s, ast.Expr) and isinstance(s.value, ast.Constant))]
        if len(body) != 2 or not isinstance(body[0], ast.AnnAssign) or not isinstance(body[1], ast.Return):
            raise T1Error(f"{cls_name}.bp_processor: unexpected body")
        lst = body[0].value
        if not isinstance(lst, ast.List):
            raise T1Error("field_processors is not a list literal")
        fps = []
        for el in lst.elts:
            if not (isinstance(el, ast.Call) and self._is_bp(el.func, "MessageFieldProcessor") and len(el.args) == 2):
                raise T1Error("field processor entry")
            fps.append(f"({cz(int(self._const(el.args[0])))}, {self.proc_expr(mod, el.args[1])})")
        ret = body[1].value
        if not (isinstance(ret, ast.Call) and self._is_bp(ret.func, "MessageProcessor") and len(ret.args) == 3
                and isinstance(ret.args[2], ast.Name) and ret.args[2].id == "field_processors"):
            raise T1Error("bp_processor return")
        ext = self._const(ret.args[0])
        nb = self._const(ret.args[1])
        if not isinstance(ext, bool):
            raise T1Error("MessageProcessor extensible flag")
        # --- accessor tables
        name_of: Dict[int, str] = {}
        gets = []
        for num, b in self._cases(self._method(cls, "bp_get_byte"), cls_name):
            # return (X >> rshift) & 255
            if len(b) != 1 or not isinstance(b[0], ast.Return):
                raise T1Error("bp_get_byte case")
            e = b[0].value
            ok = (isinstance(e, ast.BinOp) and isinstance(e.op, ast.BitAnd) and self._const(e.right) == 255
                  and isinstance(e.left, ast.BinOp) and isinstance(e.left.op, ast.RShift)
                  and isinstance(e.left.right, ast.Name) and e.left.right.id == "rshift")
            if not ok:
                raise T1Error(f"bp_get_byte expression {ast.dump(e)[:160]}")
            x = e.left.left
            isbool = False
            if isinstance(x, ast.Call) and isinstance(x.func, ast.Name) and x.func.id == "int" and len(x.args) == 1:
                isbool = True
                x = x.args[0]
            nm, d = self._dataref(x)
            name_of[num] = nm
            gets.append(f"({num}, {{| g_depth := {d}%nat; g_bool := {cbool(isbool)} |}})")
        sets = []
        for num, b in self._cases(self._method(cls, "bp_set_byte"), cls_name):
            if len(b) != 1:
                raise T1Error("bp_set_byte case")
            st = b[0]
            if isinstance(st, ast.Assign) and len(st.targets) == 1:
                nm, d = self._dataref(st.targets[0])
                v = st.value
                ok = (isinstance(v, ast.Call) and isinstance(v.func, ast.Name) and v.func.id == "bool"
                      and len(v.args) == 1 and isinstance(v.args[0], ast.Name) and v.args[0].id == "b")
                if not ok:
                    raise T1Error("bp_set_byte '=' case is not bool(b)")
                kind = "SKBool"
            elif isinstance(st, ast.AugAssign) and isinstance(st.op, ast.BitOr):
                nm, d = self._dataref(st.target)
                v = st.value
                caster = None
                if isinstance(v, ast.Call) and isinstance(v.func, ast.Attribute) and isinstance(v.func.value, ast.Name) \
                        and v.func.value.id == "bp" and v.func.attr in ("int8", "int16", "int32", "int64") \
                        and len(v.args) == 1:
                    caster = int(v.func.attr[3:])
                    v = v.args[0]
                ok = (isinstance(v, ast.BinOp) and isinstance(v.op, ast.LShift) and isinstance(v.right, ast.Name)
                      and v.right.id == "lshift" and isinstance(v.left, ast.Call) and len(v.left.args) == 1
                      and isinstance(v.left.args[0], ast.Name) and v.left.args[0].id == "b")
                if not ok:
                    raise T1Error(f"bp_set_byte '|=' expression {ast.dump(st.value)[:160]}")
                conv = v.left.func
                if isinstance(conv, ast.Name) and conv.id == "int":
                    kind = f"(SKCast {caster})" if caster else "SKInt"
                    if nm.startswith("_enum_field_proxy__"):
                        if caster or d != 0:
                            raise T1Error("enum proxy store with a caster or an index")
                        nm = nm[len("_enum_field_proxy__"):]
                        kind = "SKProxy"
                else:
                    raise T1Error(f"bp_set_byte converts the chunk with {ast.unparse(conv)}, expected int")
            else:
                raise T1Error(f"bp_set_byte statement {ast.dump(st)[:120]}")
            if name_of.get(num, nm) != nm:
                raise T1Error(f"field {num}: get/set name mismatch")
            name_of[num] = nm
            sets.append(f"({num}, {{| s_depth := {d}%nat; s_kind := {kind} |}})")
        ints = []
        for num, b in self._cases(self._method(cls, "bp_process_int"), cls_name):
            ok = (len(b) == 2 and isinstance(b[0], ast.If) and not b[0].orelse and isinstance(b[1], ast.Return)
                  and b[1].value is None and len(b[0].body) == 1 and isinstance(b[0].body[0], ast.AugAssign)
                  and isinstance(b[0].body[0].op, ast.BitOr))
            if not ok:
                raise T1Error("bp_process_int case")
            t = b[0].test
            ok = (isinstance(t, ast.BinOp) and isinstance(t.op, ast.BitAnd) and self._const(t.right) == 1
                  and isinstance(t.left, ast.BinOp) and isinstance(t.left.op, ast.RShift))
            if not ok:
                raise T1Error("bp_process_int test")
            nm, d = self._dataref(t.left.left)
            nm2, d2 = self._dataref(b[0].body[0].target)
            if (nm, d) != (nm2, d2) or name_of.get(num, nm) != nm:
                raise T1Error("bp_process_int data reference mismatch")
            shift = int(self._const(t.left.right))
            mask = int(self._const(b[0].body[0].value))
            ints.append(f"({num}, {{| i_depth := {d}%nat; i_shift := {cz(shift)}; i_mask := {cz(mask)} |}})")
        accs = []
        for num, b in self._cases(self._method(cls, "bp_get_accessor"), cls_name):
            if len(b) != 1 or not isinstance(b[0], ast.Return):
                raise T1Error("bp_get_accessor case")
            nm, d = self._dataref(b[0].value)
            name_of.setdefault(num, nm)
            if name_of[num] != nm:
                raise T1Error("bp_get_accessor name mismatch")
            accs.append(f"({num}, {d}%nat)")
        # --- enum proxies: def _get_<name>(self): return EnumT(self._enum_field_proxy__<name>)
        num_of = {v: k for k, v in name_of.items()}
        prox = []
        for st in cls.body:
            if isinstance(st, ast.FunctionDef) and st.name.startswith("_get_"):
                nm = st.name[len("_get_"):]
                body2 = [s for s in st.body if not (isinstance(s, ast.Expr) and isinstance(s.value, ast.Constant))]
                ok = (len(body2) == 1 and isinstance(body2[0], ast.Return) and isinstance(body2[0].value, ast.Call)
                      and len(body2[0].value.args) == 1)
                if not ok or nm not in num_of:
                    raise T1Error(f"enum proxy getter {st.name}")
                m2, en = self._resolve(mod, body2[0].value.func)
                prox.append((num_of[nm], f"({num_of[nm]}, {clist(cz(x) for x in self.enum_members(m2, en))})"))
        # proxies listed in field-number order as the tables are
        order = [int(x.split(",")[0][1:]) for x in fps]
        prox.sort(key=lambda p: order.index(p[0]) if p[0] in order else 10 ** 6)
        # encode/decode method shape (fixed text): s = bytearray(self.BYTES_LENGTH) etc.
        enc = ast.unparse(self._method(cls, "encode"))
        dec = ast.unparse(self._method(cls, "decode"))
        if "bytearray(self.BYTES_LENGTH)" not in enc or "bp.ProcessContext(True, s)" not in enc \
                or "self.bp_processor().process(ctx, bp.NIL_DATA_INDEXER, self)" not in enc \
                or "return ctx.s" not in enc:
            raise T1Error(f"{cls_name}.encode has an unexpected body")
        if "assert len(s) >= self.BYTES_LENGTH" not in dec or "bp.ProcessContext(False, s)" not in dec \
                or "self.bp_processor().process(ctx, bp.NIL_DATA_INDEXER, self)" not in dec:
            raise T1Error(f"{cls_name}.decode has an unexpected body")
        cls_term = ("{| c_get := " + clist(gets) + "; c_set := " + clist(sets) + "; c_int := " + clist(ints)
                    + "; c_acc := " + clist(accs) + "; c_proxy := " + clist(p for _, p in prox) + " |}")
        return f"(PMsg {cbool(ext)} {cz(int(nb))} {clist(fps)} {cls_term})"
