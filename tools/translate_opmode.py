"""translate_opmode — tie T0 for C04: regenerate coq/gen/GenOpMode.v from the optimization-mode
section of the compiler's formatters (compiler/bitproto/renderer/formatter.py and the C / Go
formatter + renderer modules) on every run.

Translated (symbolically executed to one Gallina expression each):
  * Formatter.op_mode_get_mask(k, c)
  * the five arguments handed to format_op_mode_encoder_item / format_op_mode_decoder_item by
    format_op_mode_encode_single_byte / format_op_mode_decode_single_byte, as functions of (i, j, c)
  * the step size c of the (i, j, c) loop of format_op_mode_endecode_single_type and its exit test
  * Formatter.get_nbits_of_integer over Type.nbytes (storage width of an n-bit integer)
  * C formatter: the `=`-vs-`|=` selector, total_shift and fi_shift of the big-endian items, the
    sign mask, the "no sign statement" width set and the literal special case width
  * Go formatter: the shift distance d of the sign statements, the bshift condition and amount,
    the "no sign statement" width set
Pinned by AST digest (hand-modelled in coq/theories/OpMode.v): the loop skeleton, the recursion over
message / array / alias, smart_shift, the statement templates (f-strings) of the C and Go item
formatters, the --endian selection and #ifndef skeleton of renderer_c.py, the Go method blocks.
Fail-closed: anything not recognised raises vlib.Broken.
"""
from __future__ import annotations

import ast
import copy
import os
from typing import Callable, Dict, List, Optional, Sequence, Tuple

from translate import Tr, find_func, skeleton_digest, strip_doc
from vlib import REPO, Broken

F_BASE = "compiler/bitproto/renderer/formatter.py"
F_C = "compiler/bitproto/renderer/impls/c/formatter.py"
R_C = "compiler/bitproto/renderer/impls/c/renderer_c.py"
F_GO = "compiler/bitproto/renderer/impls/go/formatter.py"
R_GO = "compiler/bitproto/renderer/impls/go/renderer.py"
AST_PY = "compiler/bitproto/_ast.py"


class TrO(Tr):
    """Tr + `x in (a, b, ...)` / `x in {a, b, ...}` with integer literals, `x == y`."""

    def b(self, e: ast.expr, env: Dict[str, str]) -> str:
        if (isinstance(e, ast.Compare) and len(e.ops) == 1 and isinstance(e.ops[0], ast.In)
                and isinstance(e.comparators[0], (ast.Tuple, ast.Set, ast.List))
                and e.comparators[0].elts
                and all(isinstance(x, ast.Constant) and isinstance(x.value, int) and not isinstance(x.value, bool)
                        for x in e.comparators[0].elts)):
            lhs = self.z(e.left, env)
            return "(" + " || ".join(f"({lhs} =? {x.value})" for x in e.comparators[0].elts) + ")"
        return super().b(e, env)


class _Rewrite(ast.NodeTransformer):
    """self.f(args) -> f(args);  given method calls / subscripts -> plain names."""

    def __init__(self, self_funcs: Sequence[str], names: Dict[str, str]):
        self.self_funcs = set(self_funcs)
        self.names = names

    def visit(self, node):
        if isinstance(node, ast.expr):
            key = ast.unparse(node)
            if key in self.names:
                return ast.copy_location(ast.Name(id=self.names[key], ctx=ast.Load()), node)
        return super().visit(node)

    def visit_Call(self, node: ast.Call):
        self.generic_visit(node)
        f = node.func
        if (isinstance(f, ast.Attribute) and isinstance(f.value, ast.Name) and f.value.id == "self"
                and f.attr in self.self_funcs):
            node.func = ast.copy_location(ast.Name(id=f.attr, ctx=ast.Load()), f)
        return node


def _rw(node: ast.AST, self_funcs: Sequence[str] = (), names: Optional[Dict[str, str]] = None) -> ast.AST:
    return ast.fix_missing_locations(_Rewrite(self_funcs, names or {}).visit(copy.deepcopy(node)))


def _parse(rel: str) -> ast.Module:
    path = os.path.join(REPO, rel)
    try:
        return ast.parse(open(path).read())
    except (OSError, SyntaxError) as e:
        raise Broken(f"translator(opmode): cannot read {rel}", str(e))


def _args(fn: ast.FunctionDef) -> List[str]:
    return [a.arg for a in fn.args.args if a.arg != "self"]


def _expect_args(fn: ast.FunctionDef, want: List[str]) -> None:
    if _args(fn) != want:
        raise Broken(f"translator(opmode): {fn.name}: parameters {_args(fn)} != expected {want}")


def _single_byte(tree: ast.Module, name: str, callee: str, prefix: str, out: List[str]) -> None:
    """format_op_mode_{en,de}code_single_byte: straight-line tuple assignments, then
    `return self.<callee>(chain, t, si, fi, shift, mask, r)`: emit the five numeric arguments as
    functions of (i, j, c) in the callee's parameter order."""
    fn = find_func(tree, name, "Formatter")
    _expect_args(fn, ["t", "chain", "i", "j", "c"])
    callee_fn = find_func(tree, callee, "Formatter")
    _expect_args(callee_fn, ["chain", "t", "si", "fi", "shift", "mask", "r"])
    tr = TrO(name, funcs=("op_mode_get_mask",))
    env: Dict[str, str] = {"i": "i", "j": "j", "c": "c"}
    body = [_rw(s, ("op_mode_get_mask",)) for s in strip_doc(fn)]
    done = False
    for s in body:
        if done:
            tr.fail(s, "(statement after return)")
        if isinstance(s, ast.Assign) and len(s.targets) == 1:
            tgt = s.targets[0]
            if isinstance(tgt, ast.Name):
                env = {**env, tgt.id: tr.z(s.value, env)}
                continue
            if (isinstance(tgt, ast.Tuple) and isinstance(s.value, ast.Tuple)
                    and len(tgt.elts) == len(s.value.elts) and all(isinstance(x, ast.Name) for x in tgt.elts)):
                vals = [tr.z(v, env) for v in s.value.elts]      # right side first, then bind
                env = {**env, **{x.id: v for x, v in zip(tgt.elts, vals)}}
                continue
            tr.fail(s)
        if isinstance(s, ast.Return) and isinstance(s.value, ast.Call):
            call = s.value
            f = call.func
            if not (isinstance(f, ast.Attribute) and ast.unparse(f) == f"self.{callee}") or call.keywords:
                tr.fail(s, f"(expected return self.{callee}(...))")
            if len(call.args) != 7 or ast.unparse(call.args[0]) != "chain" or ast.unparse(call.args[1]) != "t":
                tr.fail(s, "(callee arguments)")
            for pname, a in zip(["si", "fi", "shift", "mask", "r"], call.args[2:]):
                out.append(f"Definition {prefix}_{pname} (i j c : Z) : Z := {tr.z(a, env)}.")
            done = True
            continue
        tr.fail(s)
    if not done:
        raise Broken(f"translator(opmode): {name}: no return statement")


def _find_assign(fn: ast.FunctionDef, target: str) -> ast.Assign:
    hits = [n for n in ast.walk(fn) if isinstance(n, ast.Assign) and len(n.targets) == 1
            and isinstance(n.targets[0], ast.Name) and n.targets[0].id == target]
    if len(hits) != 1:
        raise Broken(f"translator(opmode): {fn.name}: expected exactly one assignment to `{target}`, found {len(hits)}")
    return hits[0]


def _assign_selector(fn: ast.FunctionDef) -> Tuple[str, ast.expr]:
    """`assign = "=" if <test> else "|="` -> Gallina bool of <test> (true means plain assignment)."""
    a = _find_assign(fn, "assign")
    v = a.value
    if not (isinstance(v, ast.IfExp) and isinstance(v.body, ast.Constant) and isinstance(v.orelse, ast.Constant)
            and v.body.value == "=" and v.orelse.value == "|="):
        raise Broken(f"translator(opmode): {fn.name}: `assign` is not `\"=\" if <test> else \"|=\"`", ast.unparse(a))
    return TrO(fn.name).b(v.test, {"r": "r"}), v.test


def _int_post(fn: ast.FunctionDef, lang: str, out: List[str]) -> List[ast.AST]:
    """post_format_op_mode_endecode_int: `if is_encode: return []`, `n = t.nbits()`,
    `if n in {..}: return []` -> the width set; returns the masked expression nodes."""
    _expect_args(fn, ["t", "chain", "is_encode"])
    ifs = [n for n in ast.walk(fn) if isinstance(n, ast.If)]
    sets = [n for n in ifs if isinstance(n.test, ast.Compare) and isinstance(n.test.ops[0], ast.In)
            and ast.unparse(n.test.left) == "n"]
    if len(sets) != 1:
        raise Broken(f"translator(opmode): {lang} post_format_op_mode_endecode_int: expected one `if n in {{...}}`")
    tr = TrO(f"{lang}.post_format_op_mode_endecode_int")
    out.append(f"Definition {lang}_no_sign_stmt (n : Z) : bool := {tr.b(sets[0].test, {'n': 'n'})}.")
    n_assign = _find_assign(fn, "n")
    if ast.unparse(n_assign.value) != "t.nbits()":
        raise Broken(f"translator(opmode): {lang} post_format_op_mode_endecode_int: n is not t.nbits()")
    return [sets[0].test]


def gen_opmode() -> Tuple[str, Dict[str, str]]:
    skel: Dict[str, str] = {}
    out = ["(* GENERATED by tools/translate_opmode.py from compiler/bitproto/renderer/{formatter.py,"
           "impls/c/formatter.py,impls/go/formatter.py} and _ast.py — do not edit *)",
           "From Coq Require Import ZArith Bool.", "Open Scope Z_scope.", ""]

    # ---------------- shared formatter ----------------
    base = _parse(F_BASE)
    fn = find_func(base, "op_mode_get_mask", "Formatter")
    _expect_args(fn, ["k", "c"])
    out.append(f"Definition op_mode_get_mask (k c : Z) : Z := {TrO('op_mode_get_mask').body(fn.body, {'k': 'k', 'c': 'c'})}.")

    _single_byte(base, "format_op_mode_encode_single_byte", "format_op_mode_encoder_item", "enc", out)
    _single_byte(base, "format_op_mode_decode_single_byte", "format_op_mode_decoder_item", "dec", out)

    # the (i, j, c) loop
    fn = find_func(base, "format_op_mode_endecode_single_type", "Formatter")
    _expect_args(fn, ["t", "chain", "is_encode", "i"])
    whiles = [n for n in ast.walk(fn) if isinstance(n, ast.While)]
    if len(whiles) != 1:
        raise Broken("translator(opmode): format_op_mode_endecode_single_type: expected exactly one while loop")
    w = whiles[0]
    c_assign = _find_assign(fn, "c")
    if c_assign not in w.body:
        raise Broken("translator(opmode): format_op_mode_endecode_single_type: `c = ...` is not in the loop body")
    tr = TrO("format_op_mode_endecode_single_type")
    env = {"i": "i", "j": "j", "n": "n"}
    out.append(f"Definition plan_step (i j n : Z) : Z := {tr.z(_rw(c_assign.value, names={'i[0]': 'i'}), env)}.")
    out.append(f"Definition plan_continue (j n : Z) : bool := {tr.b(w.test, env)}.")
    skel[f"{F_BASE}:Formatter.format_op_mode_endecode_single_type"] = skeleton_digest(fn, [c_assign.value, w.test])

    # storage width of integers
    fn = find_func(base, "get_nbits_of_integer", "Formatter")
    _expect_args(fn, ["t"])
    body = [_rw(s, names={"t.nbytes()": "nbytes"}) for s in fn.body]
    out.append(f"Definition storage_bits_of_nbytes (nbytes : Z) : Z := "
               f"{TrO('get_nbits_of_integer').body(body, {'nbytes': 'nbytes'})}.")
    astt = _parse(AST_PY)
    fn = find_func(astt, "nbytes", "Type")
    _expect_args(fn, [])
    body = [_rw(s, names={"self.nbits()": "nbits0"}) for s in fn.body]
    out.append(f"Definition type_nbytes (nbits0 : Z) : Z := {TrO('Type.nbytes').body(body, {'nbits0': 'nbits0'})}.")
    for cls, meth in (("Bool", "nbits"), ("Byte", "nbits")):
        fn = find_func(astt, meth, cls)
        out.append(f"Definition {cls.lower()}_nbits : Z := {TrO(cls + '.nbits').body(fn.body, {})}.")

    for name in ("format_op_mode_smart_shift", "format_op_mode_endecode_message_field",
                 "format_op_mode_endecode_array", "format_op_mode_endecode_alias",
                 "format_op_mode_endecode_message", "format_op_mode_encode_message",
                 "format_op_mode_decode_message", "format_op_mode_field_name_chain",
                 "format_op_mode_field_name_chain_array", "format_left_shift", "format_right_shift"):
        skel[f"{F_BASE}:Formatter.{name}"] = skeleton_digest(find_func(base, name, "Formatter"))

    # ---------------- C formatter ----------------
    cf = _parse(F_C)
    sel_le, _ = _assign_selector(find_func(cf, "_format_op_mode_encoder_item_le", "CFormatter"))
    sel_be, _ = _assign_selector(find_func(cf, "_format_op_mode_encoder_item_be", "CFormatter"))
    sel_dle, _ = _assign_selector(find_func(cf, "_format_op_mode_decoder_item_le", "CFormatter"))
    out.append(f"Definition c_le_enc_assign (r : Z) : bool := {sel_le}.")
    out.append(f"Definition c_be_enc_assign (r : Z) : bool := {sel_be}.")
    out.append(f"Definition c_le_dec_assign (r : Z) : bool := {sel_dle}.")
    fn = find_func(cf, "_format_op_mode_encoder_item_be", "CFormatter")
    ts = _find_assign(fn, "total_shift")
    out.append(f"Definition c_be_total_shift (fi shift : Z) : Z := {TrO(fn.name).z(ts.value, {'fi': 'fi', 'shift': 'shift'})}.")
    fn = find_func(cf, "_format_op_mode_decoder_item_be", "CFormatter")
    fs = _find_assign(fn, "fi_shift")
    out.append(f"Definition c_be_fi_shift (fi : Z) : Z := {TrO(fn.name).z(fs.value, {'fi': 'fi'})}.")
    ifs = [n for n in ast.walk(fn) if isinstance(n, ast.If)]
    if len(ifs) != 1:
        raise Broken("translator(opmode): C _format_op_mode_decoder_item_be: expected exactly one `if`")
    out.append(f"Definition c_be_has_fi_shift (fi_shift : Z) : bool := {TrO(fn.name).b(ifs[0].test, {'fi_shift': 'fi_shift'})}.")
    if any(isinstance(n, ast.Assign) and ast.unparse(n.targets[0]) == "assign" for n in ast.walk(fn)):
        raise Broken("translator(opmode): C _format_op_mode_decoder_item_be: unexpected `assign` selector")

    fn = find_func(cf, "post_format_op_mode_endecode_int", "CFormatter")
    masked = _int_post(fn, "c", out)
    m_assign = _find_assign(fn, "m")
    out.append(f"Definition c_sign_mask (n : Z) : Z := {TrO(fn.name).z(m_assign.value, {'n': 'n'})}.")
    specials = [n for n in ast.walk(fn) if isinstance(n, ast.If) and isinstance(n.test, ast.Compare)
                and isinstance(n.test.ops[0], ast.Eq) and ast.unparse(n.test.left) == "n"]
    if len(specials) != 1:
        raise Broken("translator(opmode): C post_format_op_mode_endecode_int: expected one `if n == <const>` special case")
    out.append(f"Definition c_sign_special (n : Z) : bool := {TrO(fn.name).b(specials[0].test, {'n': 'n'})}.")
    skel[f"{F_C}:CFormatter.post_format_op_mode_endecode_int"] = skeleton_digest(
        fn, masked + [m_assign.value, specials[0].test])
    for name in ("format_op_mode_endecoder_message_var", "_format_unsigned_chain_type",
                 "format_op_mode_message_endian", "format_op_mode_encoder_item",
                 "_format_op_mode_encoder_item_le", "_format_op_mode_encoder_item_be",
                 "format_op_mode_decoder_item", "_format_op_mode_decoder_item_le",
                 "_format_op_mode_decoder_item_be", "post_format_op_mode_endecode_single_type",
                 "format_bool_type", "format_byte_type", "format_uint_type", "format_int_type"):
        skel[f"{F_C}:CFormatter.{name}"] = skeleton_digest(find_func(cf, name, "CFormatter"))

    rc = _parse(R_C)
    for cls, meths in (("BlockIncludeOpMode", ("render",)),
                       ("BlockMessageEncoderOpMode", ("render", "_push_body")),
                       ("BlockMessageDecoderOpMode", ("render", "_push_body")),
                       ("BlockMessageFunctionsOpMode", ("blocks",))):
        for m in meths:
            skel[f"{R_C}:{cls}.{m}"] = skeleton_digest(find_func(rc, m, cls))

    # ---------------- Go formatter ----------------
    gf = _parse(F_GO)
    fn = find_func(gf, "post_format_op_mode_endecode_int", "GoFormatter")
    masked = _int_post(fn, "go", out)
    d_assign = _find_assign(fn, "d")
    out.append("Definition go_sign_d (storage_bits n : Z) : Z := "
               + TrO(fn.name).z(_rw(d_assign.value, names={"self.get_nbits_of_integer(t)": "storage_bits"}),
                                {"storage_bits": "storage_bits", "n": "n"}) + ".")
    skel[f"{F_GO}:GoFormatter.post_format_op_mode_endecode_int"] = skeleton_digest(fn, masked + [d_assign.value])

    def bshift(fn_name: str, coq: str) -> None:
        fn = find_func(gf, fn_name, "GoFormatter")
        _expect_args(fn, ["chain", "t", "si", "fi", "shift", "mask", "r"])
        b = _find_assign(fn, "bshift")
        v = b.value
        if not (isinstance(v, ast.IfExp) and isinstance(v.orelse, ast.Constant) and v.orelse.value == ""
                and isinstance(v.body, ast.Call) and isinstance(v.body.func, ast.Attribute)
                and v.body.func.attr == "format" and len(v.body.args) == 1):
            raise Broken(f"translator(opmode): Go {fn_name}: bshift has an unknown shape", ast.unparse(b))
        tr = TrO(fn_name)
        out.append(f"Definition {coq}_has_bshift (fi : Z) : bool := {tr.b(v.test, {'fi': 'fi'})}.")
        out.append(f"Definition {coq}_bshift (fi : Z) : Z := {tr.z(v.body.args[0], {'fi': 'fi'})}.")
        skel[f"{F_GO}:GoFormatter.{fn_name}"] = skeleton_digest(fn, [v.test, v.body.args[0]])

    bshift("format_op_mode_encoder_item", "go_enc")
    bshift("format_op_mode_decoder_item", "go_dec")
    for name in ("format_op_mode_endecoder_message_var", "post_format_op_mode_endecode_single_type",
                 "format_bool_type", "format_byte_type", "format_uint_type", "format_int_type"):
        skel[f"{F_GO}:GoFormatter.{name}"] = skeleton_digest(find_func(gf, name, "GoFormatter"))
    rg = _parse(R_GO)
    for cls in ("BlockMessageMethodEncodeOpMode", "BlockMessageMethodDecodeOpMode",
                "BlockGeneralFunctionBool2ByteOpMode", "BlockGeneralFunctionByte2boolOpMode"):
        skel[f"{R_GO}:{cls}.render"] = skeleton_digest(find_func(rg, "render", cls))
    return "\n".join(out) + "\n", skel


GENERATORS: Dict[str, Callable[[], Tuple[str, Dict[str, str]]]] = {"GenOpMode.v": gen_opmode}
