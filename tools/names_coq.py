"""names_coq — read back the values `coqc` prints for `Eval vm_compute in ...` (lists, tuples,
records, strings, numbers, booleans) in the C15 case files."""
from __future__ import annotations

import re
from typing import Any, List, Tuple

from vlib import Broken


class _P:
    def __init__(self, s: str, i: int = 0):
        self.s = s
        self.i = i

    def ws(self) -> None:
        while self.i < len(self.s) and self.s[self.i] in " \t\r\n":
            self.i += 1

    def fail(self, why: str):
        raise Broken("cannot parse Coq output: " + why, self.s[max(0, self.i - 200):self.i + 200])

    def value(self) -> Any:
        self.ws()
        s = self.s
        c = s[self.i] if self.i < len(s) else ""
        if c == "[":
            self.i += 1
            out = []
            self.ws()
            if s[self.i] == "]":
                self.i += 1
                return self.scope(out)
            while True:
                out.append(self.value())
                self.ws()
                if s[self.i] == ";":
                    self.i += 1
                    continue
                if s[self.i] == "]":
                    self.i += 1
                    return self.scope(out)
                self.fail("expected ; or ] in list")
        if c == "(":
            self.i += 1
            out = [self.value()]
            self.ws()
            while s[self.i] == ",":
                self.i += 1
                out.append(self.value())
                self.ws()
            if s[self.i] != ")":
                self.fail("expected ) in tuple")
            self.i += 1
            return self.scope(out[0] if len(out) == 1 else tuple(out))
        if s.startswith("{|", self.i):
            self.i += 2
            rec = {}
            while True:
                self.ws()
                m = re.compile(r"([A-Za-z_][A-Za-z0-9_']*)\s*:=").match(s, self.i)
                if not m:
                    self.fail("expected field := in record")
                self.i = m.end()
                rec[m.group(1)] = self.value()
                self.ws()
                if s[self.i] == ";":
                    self.i += 1
                    continue
                if s.startswith("|}", self.i):
                    self.i += 2
                    return rec
                self.fail("expected ; or |} in record")
        if c == '"':
            j = self.i + 1
            buf = []
            while True:
                if j >= len(s):
                    self.fail("unterminated string")
                if s[j] == '"':
                    if j + 1 < len(s) and s[j + 1] == '"':
                        buf.append('"')
                        j += 2
                        continue
                    break
                buf.append(s[j])
                j += 1
            self.i = j + 1
            return self.scope("".join(buf))
        m = re.compile(r"-?\d+").match(s, self.i)
        if m:
            self.i = m.end()
            return self.scope(int(m.group(0)))
        m = re.compile(r"[A-Za-z_][A-Za-z0-9_']*").match(s, self.i)
        if m:
            self.i = m.end()
            w = m.group(0)
            if w == "true":
                return True
            if w == "false":
                return False
            if w == "nil":
                return []
            return w
        self.fail("unexpected character")

    def scope(self, v: Any) -> Any:
        m = re.compile(r"%[A-Za-z_]+").match(self.s, self.i)
        if m:
            self.i = m.end()
        return v


def eval_results(out: str) -> List[Any]:
    """All values printed as `     = <value>\\n     : <type>` in order."""
    res = []
    for m in re.finditer(r"(?m)^\s*= ", out):
        p = _P(out, m.end())
        res.append(p.value())
    return res
