"""pyside — shared code for the checks that run the generated Python (C01, C02, C05, C07, C12, C14).

Builds worker jobs from generated schemas, runs them, parses the emitted module (T1) and
writes Coq case files in which the MODEL (PyRt on the emitted tables), the SPEC and the
IMPLEMENTATION's observed outputs meet.
"""
from __future__ import annotations

import os
from typing import Any, Callable, Dict, List, Optional, Tuple

import schema_gen as sg
from t1_py import PyT1, T1Error
from vlib import Broken, Check, cbool, clist, coq_eval_many, cz, parse_zlist, run_workers

HEADER = """From Coq Require Import ZArith List Bool.
From BP Require Import Bits Schema Spec PyRt Eqb.
Import ListNotations.
Open Scope Z_scope.
"""

MODES = ["random", "random", "max", "min", "zero", "ones", "random", "random"]


def make_job(ck: Check, idx: int, s: sg.Schema, values: List[Any], **extra) -> Dict[str, Any]:
    return dict(id=idx, dir=os.path.join(ck.dir, f"s{idx}"), files=s.texts,
                module=s.files[0].base + "_bp", top=sg.py_type_name(s, s.top, 0),
                tree=sg.runner_tree(s.top), values=[jsonable(v) for v in values], **extra)


def jsonable(v: Any) -> Any:
    if isinstance(v, dict):
        return {str(k): jsonable(x) for k, x in v.items()}
    if isinstance(v, list):
        return [jsonable(x) for x in v]
    return v


def bytes_term(bs: List[int]) -> str:
    return clist(str(b) for b in bs)


def res_bytes_term(r: Dict[str, Any], key: str, exckey: str) -> str:
    if key in r:
        return f"(Ok {bytes_term(r[key])})"
    return f"(Raise {r.get(exckey, 'TypeError')})"


EXN_OK = {"IndexError", "ValueError", "TypeError", "AttributeError", "AssertionError"}


def exn_term(name: str) -> str:
    return name if name in EXN_OK else "OutOfFuel"   # anything else can never equal a model outcome


def val_from_impl(t: sg.T, v: Any) -> str:
    """Gallina term of a value tree read back from the implementation (schema-directed;
    a bool field that holds an int is printed as VZ so that it cannot equal VB)."""
    k = t.kind
    if k == "bool":
        return f"(VB {cbool(v)})" if isinstance(v, bool) else f"(VZ {cz(int(v))})"
    if k in ("byte", "uint", "int", "enum"):
        return f"(VZ {cz(int(v))})"
    if k == "alias":
        return val_from_impl(t.t, v)
    if k == "arr":
        return f"(VL {clist(val_from_impl(t.t, x) for x in v)})"
    return "(VM " + clist(f"({n}, {val_from_impl(ft, v[str(n)])})" for n, _, ft in t.fields) + ")"


class Shards:
    """Accumulates Coq definitions + one flat result list per shard file."""

    def __init__(self, ck: Check, tag: str, per_shard: int = 40):
        self.ck = ck
        self.tag = tag
        self.per = per_shard
        self.items: List[Tuple[str, List[str], List[Any]]] = []   # (defs, result exprs, metas)

    def add(self, defs: str, exprs: List[str], metas: List[Any]) -> None:
        assert len(exprs) == len(metas)
        self.items.append((defs, exprs, metas))

    def run(self, header: str = HEADER, timeout: int = 900) -> List[Tuple[Any, int]]:
        """Returns [(meta, code)] for every expression."""
        files = []
        layout = []
        for si in range(0, len(self.items), self.per):
            chunk = self.items[si:si + self.per]
            path = os.path.join(self.ck.dir, f"{self.tag}_{si // self.per}.v")
            body = [header]
            exprs = []
            metas = []
            for defs, ex, me in chunk:
                body.append(defs)
                exprs.extend(ex)
                metas.extend(me)
            body.append("Definition results : list Z := " + clist(exprs) + ".")
            body.append("Eval vm_compute in results.")
            with open(path, "w") as f:
                f.write("\n".join(body) + "\n")
            files.append(path)
            layout.append(metas)
        outs = coq_eval_many(files, timeout)
        res = []
        for path, metas in zip(files, layout):
            codes = parse_zlist(outs[path], path)
            if len(codes) != len(metas):
                raise Broken(f"case file {os.path.basename(path)}: {len(metas)} cases but {len(codes)} results",
                             outs[path][-1500:])
            res.extend(zip(metas, codes))
        return res
