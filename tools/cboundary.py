"""cboundary — deterministic catalogues for the C harness (tools/cside.py).

1. the language-independent boundary catalogue (tools/boundary_cases.py), fed as additional
   corpus-like items;
2. C-specific classes the random generator (tools/schema_gen.py) reaches rarely or never,
   chosen where the C runtime / C renderer switch code path:
   * rows: 2-D arrays through aliases (`type Row = T[cap]` / `T[cap]'`, used as `Row[k]` and
     as a field) for EVERY (element width, capacity, extensible) with row wire bits in
     {8,16,32,64}, or row wire bits == row storage bits (dense rows, and extensible rows whose
     16 prefix bits make up exactly for the unused storage bits: cap*(storage-n) == 16), or
     16 + cap*n in {32,64}; unsigned, signed, bool, byte elements;
   * long: arrays of the standard widths 8/16/32/64 (uint, int, enum, byte, alias of them) with
     capacities 65..300, at aligned and unaligned offsets;
   * narrow: aliases of narrow / odd-width ints (int1..int7, int9.., uintN, bool, byte) as array
     elements (negative elements; alias to_flag path);
   * samename: definitions with the SAME local name in different scopes (messages and enums
     nested in different parent messages, different layouts), used as field and array element.
   Every class comes with in-range values incl. min/max/all-ones and overdriven storage.
"""
from __future__ import annotations

import random
from typing import Any, Dict, List, Tuple

import boundary_cases
import cside
import schema_gen as sg

T = sg.T


def _storage_bits(n: int) -> int:
    return 8 * cside.storage_bytes(n)


def row_specs() -> List[Tuple[str, int, int, bool, str]]:
    """(element kind, n, cap, ext, why)"""
    out = []
    for n in range(1, 65):
        sb = _storage_bits(n)
        for cap in range(1, 65):
            bits = cap * n
            why = []
            if bits in (8, 16, 32, 64):
                why.append(("plain", False))
            if 16 + bits in (32, 64):
                why.append(("ext-std", True))
            if 16 + bits == cap * sb:
                why.append(("ext-fills-storage", True))
            if n in (8, 16, 32, 64) and cap in (2, 3):
                why.append(("dense", False))
                if cap == 2:
                    why.append(("dense-ext", True))
            for w, ext in why:
                out.append(("uint", n, cap, ext, w))
                out.append(("int", n, cap, ext, w))
                if n == 1:
                    out.append(("bool", 1, cap, ext, w))
                if n == 8:
                    out.append(("byte", 8, cap, ext, w))
    return out


def _leaf(kind: str, n: int) -> T:
    return T(kind) if kind in ("bool", "byte") else T(kind, n=n)


def _flat_build(top: T, base: str) -> sg.Schema:
    return boundary_cases.build(top, base)


def rows_catalogue(seed: int) -> List[Tuple[sg.Schema, str]]:
    specs = row_specs()
    out = []
    per = 8
    for k in range(0, len(specs), per):
        chunk = specs[k:k + per]
        pad = (k // per + seed) % 2 * 3
        fields: List[Tuple[int, str, T]] = [(1, "fp", T("uint", n=pad))] if pad else []
        why = set()
        for j, (kind, n, cap, ext, w) in enumerate(chunk):
            why.add(w)
            row = T("alias", name=f"Tr{k + j}", t=T("arr", cap=cap, ext=ext, t=_leaf(kind, n)))
            reps = 2 + (k + j + seed) % 2
            fields.append((2 + 2 * j, f"fr{j}", T("arr", cap=reps, ext=((k + j) % 5 == 0), t=row)))
            if j % 4 == 0:
                fields.append((3 + 2 * j, f"fs{j}", row))
        fields.append((200, "ftail", T("uint", n=5)))
        top = T("msg", name="Trw", fields=fields)
        out.append((_flat_build(top, f"crow{k // per}"), "cbnd:rows:" + "+".join(sorted(why)) + f"#{k // per}"))
    return out


def long_catalogue(seed: int) -> List[Tuple[sg.Schema, str]]:
    out = []
    caps8 = [65, 100, 128, 129, 255, 256, 257, 300]
    caps16 = [65, 70, 100, 129, 200, 257]
    caps32 = [65, 70, 100, 129]
    caps64 = [65, 66, 70, 100]
    en = {w: T("enum", n=w, name=f"Tle{w}", members=[("K%dA" % w, 0), ("K%dB" % w, (1 << w) - 1), ("K%dC" % w, 1 << (w - 1)), ("K%dD" % w, 5)])
          for w in (8, 16, 32, 64)}
    kinds = {
        "uint": lambda w: T("uint", n=w),
        "int": lambda w: T("int", n=w),
        "enum": lambda w: en[w],
        "alias-uint": lambda w: T("alias", name=f"Tlu{w}", t=T("uint", n=w)),
        "alias-int": lambda w: T("alias", name=f"Tli{w}", t=T("int", n=w)),
    }
    for ki, (kname, mk) in enumerate(kinds.items()):
        for half, ws in enumerate(((8, 16), (32, 64))):
            pad = ((ki + half + seed) % 2) * 5
            fields: List[Tuple[int, str, T]] = [(1, "fp", T("uint", n=pad))] if pad else []
            for j, w in enumerate(ws):
                cl = {8: caps8, 16: caps16, 32: caps32, 64: caps64}[w]
                cap = cl[(ki + j + seed) % len(cl)]
                fields.append((2 + j, f"fa{j}", T("arr", cap=cap, ext=((j + half + ki) % 2 == 1), t=mk(w))))
            if kname == "uint" and half == 0:
                fields.append((20, "fby", T("arr", cap=caps8[(seed + 3) % len(caps8)], t=T("byte"))))
            fields.append((200, "ftail", T("int", n=7)))
            out.append((_flat_build(T("msg", name="Tlg", fields=fields), f"clong{ki}{half}"), f"cbnd:long:{kname}#{half}"))
    return out


def narrow_catalogue(seed: int) -> List[Tuple[sg.Schema, str]]:
    out = []
    widths = list(range(1, 8)) + [9, 12, 13, 15, 17, 24, 31, 33, 48, 63]
    for g, (kind, ws) in enumerate((("int", widths[:9]), ("int", widths[9:]), ("uint", widths[:9]), ("uint", widths[9:]))):
        pad = (g + seed) % 2 * 3
        fields: List[Tuple[int, str, T]] = [(1, "fp", T("uint", n=pad))] if pad else []
        for j, n in enumerate(ws):
            al = T("alias", name=f"Tn{g}{kind[0]}{n}", t=T(kind, n=n))
            fields.append((2 + 2 * j, f"fe{j}", T("arr", cap=3 + (j + seed) % 4, ext=(j % 3 == 0), t=al)))
            if j % 3 == 1:
                fields.append((3 + 2 * j, f"fo{j}", al))
        if g == 0:
            fields.append((100, "fbo", T("arr", cap=5, t=T("alias", name="Tnbo", t=T("bool")))))
            fields.append((101, "fby", T("arr", cap=5, t=T("alias", name="Tnby", t=T("byte")))))
        fields.append((200, "ftail", T("uint", n=3)))
        out.append((_flat_build(T("msg", name="Tnw", fields=fields), f"cnarrow{g}"), f"cbnd:narrow:{kind}#{g}"))
    return out


def _nested_build(top: T, parents: List[T], base: str) -> sg.Schema:
    """parents (with their .nested definitions) and top as top-level definitions of one file"""
    f = sg.SFile(0, base, base)
    g = sg.Gen(random.Random(0), sg.Params())
    g.files = [f]
    named: List[T] = []

    def reg(d: T, parent) -> None:
        d.file, d.parent = 0, parent
        for c in d.nested:
            reg(c, d)
        named.append(d)
    for p in parents + [top]:
        reg(p, None)
        f.defs.append(p)
    g.named = named
    s = sg.Schema([f], top)
    s.texts = sg.render_files(g, s)
    return s


def samename_catalogue(seed: int) -> List[Tuple[sg.Schema, str]]:
    """messages and enums with the same LOCAL name nested in different parents, with different
    layouts; each used as a field and as an array element of its parent, parents used by the top"""
    out = []
    rng = random.Random(f"samename:{seed}")
    layouts = [
        [(13, 1), (1, 0)], [(3, 0)], [(33, 1), (7, 0), (2, 1)], [(8, 0), (16, 1)], [(5, 1)], [(64, 0), (1, 1)], [(24, 0)],
    ]
    for variant in range(4):
        nparents = 2 + variant % 2
        parents = []
        order = list(range(len(layouts)))
        rng.shuffle(order)
        for p in range(nparents):
            lay = layouts[order[p]]
            cell = T("msg", name="Cell", ext=(variant == 2 and p == 0),
                     fields=[(j + 1, f"v{j}", T("int" if sgn else "uint", n=n)) for j, (n, sgn) in enumerate(lay)])
            w = [3, 9, 17, 33, 5, 12][(order[p] + variant) % 6]
            kind = T("enum", n=w, name="Kind", members=[(f"KP{p}V{variant}A", 0), (f"KP{p}V{variant}B", (1 << w) - 1),
                                                         (f"KP{p}V{variant}C", 1 + p)])
            par = T("msg", name=f"Tp{variant}{chr(97 + p)}", ext=(variant == 3 and p == 1))
            par.nested = [cell, kind]
            par.fields = [(1, "fone", cell), (2, "fk", kind), (3, "fcells", T("arr", cap=2 + p, ext=(variant == 1), t=cell)),
                          (4, "fks", T("arr", cap=2, t=kind)), (5, "fx", T("uint", n=1 + p))]
            if p % 2:
                par.fields.reverse()
            parents.append(par)
        top = T("msg", name=f"Tst{variant}", fields=[(p + 1, f"fp{p}", par) for p, par in enumerate(parents)] +
                [(9, "farr", T("arr", cap=2, t=parents[-1])), (10, "ftail", T("uint", n=6))])
        out.append((_nested_build(top, parents, f"csame{variant}"), f"cbnd:samename#{variant}"))
    return out


def be_exact(t: T) -> bool:
    """schemas on which the BP_BIG_ENDIAN build run on this little-endian host with BIG-ENDIAN storage
    behaves exactly as on a big-endian host: no native multi-byte access is executed, i.e. no
    extensible prefix (native uint16_t) and no sign fix-up on a multi-byte object (signed widths are
    8/16/32/64 -> early return, or <= 8 bits -> uint8_t access)"""
    k = t.kind
    if k in ("alias", "arr"):
        return not (k == "arr" and t.ext) and be_exact(t.t)
    if k == "msg":
        return not t.ext and all(be_exact(ft) for _, _, ft in t.fields)
    if k == "int":
        return t.n <= 8 or t.n in (16, 32, 64)
    return True


def to_be_exact(t: T, memo=None) -> T:
    """a copy of the tree inside the BE-exact class: extensible markers dropped, signed widths that
    would need a multi-byte sign fix-up made unsigned (names kept; shared named nodes stay shared)"""
    memo = {} if memo is None else memo
    if id(t) in memo:
        return memo[id(t)]
    k = t.kind
    if k == "alias":
        c = T("alias", name=t.name, t=to_be_exact(t.t, memo))
    elif k == "arr":
        c = T("arr", cap=t.cap, ext=False, t=to_be_exact(t.t, memo))
    elif k == "msg":
        c = T("msg", name=t.name, ext=False, fields=[(n, nm, to_be_exact(ft, memo)) for n, nm, ft in t.fields])
    elif k == "int" and not be_exact(t):
        c = T("uint", n=t.n)
    else:
        c = t
    memo[id(t)] = c
    return c


def be_exact_catalogue(seed: int, quick: bool = False) -> List[Tuple[sg.Schema, str]]:
    """rows / long / narrow classes moved into the BE-exact class (see be_exact); quick: every other
    rows schema (rotating with the seed)"""
    out = []
    cat = c_catalogue(seed, ("long", "narrow"))
    rows = rows_catalogue(seed)
    cat += [r for k, r in enumerate(rows) if not quick or (k + seed) % 2 == 0]
    for s, origin in cat:
        top = to_be_exact(s.top)
        base = s.files[0].base + "x"
        out.append((boundary_cases.build(top, base), origin + ":be-exact"))
    return out


def c_catalogue(seed: int, classes=("rows", "long", "narrow", "samename")) -> List[Tuple[sg.Schema, str]]:
    out: List[Tuple[sg.Schema, str]] = []
    if "rows" in classes:
        out += rows_catalogue(seed)
    if "long" in classes:
        out += long_catalogue(seed)
    if "narrow" in classes:
        out += narrow_catalogue(seed)
    if "samename" in classes:
        out += samename_catalogue(seed)
    return out


def items_of(seed: int, cat: List[Tuple[sg.Schema, str]], n_values: int = 3, junk: int = 1,
             host: str = "LE") -> List[Dict[str, Any]]:
    items = []
    for s, origin in cat:
        rng = random.Random(f"cbnd:{seed}:{origin}")
        vals = boundary_cases.special_values(s.top, rng)
        pick = [vals[0], vals[2], vals[3], vals[1], vals[5], vals[6]][:n_values]      # random, min, ones, max, patterns
        cases = [dict(v=v, obj=cside.py_store(s.top, v, host), kind="value") for v in pick]
        for _ in range(junk):
            v = sg.gen_value(s.top, rng, "random")
            cases.append(dict(v=v, obj=cside.junk_obj(s.top, rng, v, host), kind="overdriven"))
        items.append(dict(schema=s, cases=cases, origin=origin))
    return items


def install(ck, big=True, junk=1, classes=("rows", "long", "narrow", "samename")):
    orig = cside.load_corpus

    def load(prop):
        items = orig(prop)
        for s, vals, origin in boundary_cases.cases(ck.seed, big=big):
            rng = random.Random(f"cbnd:{ck.seed}:{origin}")
            cases = [dict(v=v, obj=cside.py_store(s.top, v), kind="value") for v in vals[:4]]
            for _ in range(junk):
                v = sg.gen_value(s.top, rng, "random")
                cases.append(dict(v=v, obj=cside.junk_obj(s.top, rng, v), kind="overdriven"))
            items.append(dict(schema=s, cases=cases, origin=origin))
        items += items_of(ck.seed, c_catalogue(ck.seed, classes), n_values=3, junk=max(1, junk))
        return items
    cside.load_corpus = load
