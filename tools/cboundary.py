"""cboundary — feed the deterministic boundary catalogue (tools/boundary_cases.py) to the C
harness (tools/cside.py) as additional corpus-like items."""
import random

import boundary_cases
import cside
import schema_gen as sg


def install(ck, big=True, junk=1):
    orig = cside.load_corpus

    def load(prop):
        items = orig(prop)
        for s, vals, origin in boundary_cases.cases(ck.seed, big=big):
            rng = random.Random(f"cbnd:{ck.seed}:{origin}")
            cases = [dict(v=v, obj=cside.py_store(s.top, v), kind="value") for v in vals[:4]]
            for _ in range(junk):
                v = sg.gen_value(s.top, rng, "random")
                cases.append(dict(v=v, obj=cside.junk_obj(s.top, rng, v), kind="overdriven"))
            items.append(dict(schema=s, cases=cases, origin=origin))
        return items
    cside.load_corpus = load
