"""run_py — worker: compile schemas with the /repo compiler to Python, import the generated
module with the /repo bitprotolib, run encode / decode and report what happened.

stdin : JSON list of jobs {id, dir, files{name:text}, main, top (python class name),
        tree (runner_tree), values:[value tree], ops:[...] , decode_bytes:[hex] (optional)}
stdout: JSON list of results.
Never trusted: everything it reports is re-checked in Coq against the model and Spec.
"""
import importlib
import json
import os
import signal
import sys
import traceback


def _alarm(_s, _f):
    raise TimeoutError("implementation did not return within the time limit")


signal.signal(signal.SIGALRM, _alarm)


def compile_files(job, lang="py", **kw):
    from bitproto.parser import parse
    from bitproto.renderer import render
    d = job["dir"]
    os.makedirs(d, exist_ok=True)
    for name, text in job["files"].items():
        with open(os.path.join(d, name), "w") as f:
            f.write(text)
    outs = {}
    for name in job["files"]:
        proto = parse(os.path.join(d, name), **({"traditional_mode": True} if kw.get("traditional") else {}))
        paths = render(proto, lang, outdir=d, **{k: v for k, v in kw.items() if k != "traditional"})
        for p in paths:
            outs[os.path.basename(p)] = open(p).read()
    return outs


def set_value(obj, tree, v):
    """Fill message object obj (tree = ['msg', fields]) from value dict v."""
    for num, name, ft in tree[1]:
        fv = v[str(num)] if str(num) in v else v[num]
        setattr_path(obj, name, ft, fv)


def conv(ft, fv, cur):
    """Value to store for type ft; cur is the current (default) object at that place."""
    k = ft[0]
    if k == "alias":
        return conv(ft[1], fv, cur)
    if k == "arr":
        et = ft[2]
        while et[0] == "alias":
            et = et[1]
        if et[0] == "byte":
            return bytearray(fv)
        return [conv(ft[2], x, cur[i] if cur is not None and i < len(cur) else None) for i, x in enumerate(fv)]
    if k == "msg":
        set_value(cur, ft, fv)
        return cur
    return fv


def setattr_path(obj, name, ft, fv):
    cur = getattr(obj, name)
    setattr(obj, name, conv(ft, fv, cur))


def get_value(obj, tree):
    out = {}
    for num, name, ft in tree[1]:
        out[str(num)] = read(getattr(obj, name), ft)
    return out


def read(x, ft):
    k = ft[0]
    if k == "alias":
        return read(x, ft[1])
    if k == "arr":
        return [read(e, ft[2]) for e in x]
    if k == "msg":
        return get_value(x, ft)
    if k == "bool":
        if not isinstance(x, (bool, int)):
            raise TypeError(f"bool field holds {type(x).__name__}")
        return bool(x) if isinstance(x, bool) else int(x)
    return int(x)


def do_job(job):
    res = {"id": job["id"]}
    d = job["dir"]
    try:
        signal.alarm(60)
        res["generated"] = compile_files(job)
    except BaseException as e:  # noqa
        signal.alarm(0)
        res["compile_error"] = f"{type(e).__name__}: {e}"
        res["trace"] = traceback.format_exc()[-1500:]
        return res
    finally:
        signal.alarm(0)
    sys.path.insert(0, d)
    try:
        modname = job["module"]
        for m in list(sys.modules):
            if m.endswith("_bp"):
                del sys.modules[m]
        importlib.invalidate_caches()
        try:
            mod = importlib.import_module(modname)
            cls = getattr(mod, job["top"])
        except BaseException as e:  # noqa
            res["import_error"] = f"{type(e).__name__}: {e}"
            return res
        res["bytes_length"] = getattr(cls, "BYTES_LENGTH", None)
        runs = []
        for v in job.get("values", []):
            r = {}
            try:
                signal.alarm(20)
                m = cls()
                set_value(m, job["tree"], v)
                s = m.encode()
                r["enc"] = list(s)
                try:
                    m2 = cls()
                    m2.decode(bytearray(s))
                    try:
                        r["dec"] = get_value(m2, job["tree"])
                    except BaseException as e:  # noqa
                        r["read_exc"] = type(e).__name__      # decoded message cannot be read back
                    try:
                        r["reenc"] = list(m2.encode())
                    except BaseException as e:  # noqa
                        r["reenc_exc"] = type(e).__name__
                except BaseException as e:  # noqa
                    r["dec_exc"] = type(e).__name__
            except BaseException as e:  # noqa
                r["enc_exc"] = type(e).__name__
                r["enc_msg"] = str(e)[:200]
            finally:
                signal.alarm(0)
            runs.append(r)
        res["runs"] = runs
        decs = []
        for bs in job.get("decode_bytes", []):
            r = {}
            try:
                signal.alarm(20)
                m = cls()
                m.decode(bytearray(bs))
                r["dec"] = get_value(m, job["tree"])
            except BaseException as e:  # noqa
                r["dec_exc"] = type(e).__name__
            finally:
                signal.alarm(0)
            decs.append(r)
        res["decs"] = decs
        if job.get("defaults"):
            try:
                res["default"] = get_value(cls(), job["tree"])
            except BaseException as e:  # noqa
                res["default_exc"] = type(e).__name__
    finally:
        sys.path.remove(d)
    return res


def main():
    jobs = json.load(sys.stdin)
    import bitproto
    import bitprotolib.bp as bp
    repo = os.environ.get("VERIF_REPO", "/repo")
    assert bitproto.__file__.startswith(repo + "/"), bitproto.__file__
    assert bp.__file__.startswith(repo + "/"), bp.__file__
    out = []
    real_stdout = sys.stdout
    sys.stdout = sys.stderr
    for job in jobs:
        try:
            out.append(do_job(job))
        except BaseException as e:  # noqa
            out.append({"id": job.get("id"), "worker_error": f"{type(e).__name__}: {e}"})
    sys.stdout = real_stdout
    json.dump(out, sys.stdout)


if __name__ == "__main__":
    main()
