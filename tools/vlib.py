"""vlib — shared machinery for every /verif check.

Everything here runs offline, rebuilds from /repo's CURRENT working tree and never
touches /tmp.  A check is a module tools/props/<id>.py with a function
`run(ck: Check) -> None` that uses the helpers below.
"""
from __future__ import annotations

import hashlib
import json
import os
import random
import re
import shutil
import subprocess
import sys
import time
from typing import Any, Dict, Iterable, List, Optional, Sequence, Tuple

VERIF = os.path.dirname(os.path.dirname(os.path.abspath(__file__)))
REPO = os.environ.get("VERIF_REPO", "/repo")
REAL_COQ = os.path.join(VERIF, "coq")
BUILD = os.path.join(VERIF, "build")
# A run against another checkout (VERIF_REPO=<scratch>, used to test seeded breaking changes)
# works in its own mirror of coq/ so that its regenerated gen/*.v and .vo files never mix with
# those of a concurrent run against /repo itself.
if os.path.realpath(REPO) != os.path.realpath("/repo"):
    COQ = os.path.join(BUILD, "coq_alt_" + hashlib.sha256(os.path.realpath(REPO).encode()).hexdigest()[:10])
else:
    COQ = REAL_COQ
PY = "/venv/bin/python"
GUARD = "HIT9_BITPROTO_VERIF"
NCPU = max(1, min(16, os.cpu_count() or 1))

IMPL_ENV = dict(os.environ)
IMPL_ENV.update(
    PYTHONPATH=f"{REPO}/compiler:{REPO}/lib/py",
    PYTHONHASHSEED="0",
    PYTHONDONTWRITEBYTECODE="1",
)
IMPL_ENV[GUARD] = "1"


def sha256(s: str) -> str:
    return hashlib.sha256(s.encode()).hexdigest()


def write_if_changed(path: str, text: str) -> bool:
    os.makedirs(os.path.dirname(path), exist_ok=True)
    try:
        with open(path) as f:
            if f.read() == text:
                return False
    except FileNotFoundError:
        pass
    with open(path, "w") as f:
        f.write(text)
    return True


def run(cmd: Sequence[str], timeout: int = 600, cwd: Optional[str] = None, env=None,
        input: Optional[str] = None) -> Tuple[int, str, str]:
    try:
        p = subprocess.run(list(cmd), cwd=cwd, env=env, input=input, timeout=timeout,
                           capture_output=True, text=True)
        return p.returncode, p.stdout, p.stderr
    except subprocess.TimeoutExpired as e:
        out = e.stdout.decode() if isinstance(e.stdout, bytes) else (e.stdout or "")
        err = e.stderr.decode() if isinstance(e.stderr, bytes) else (e.stderr or "")
        return 124, out, err + "\nTIMEOUT"


class _BuildLock:
    """Inter-process lock around everything that writes into the Coq workspace (gen/*.v, .vo):
    concurrent checks may share the workspace; builds are serialised, evaluations are not."""
    _depth = 0
    _fh = None

    def __enter__(self):
        import fcntl
        cls = _BuildLock
        if cls._depth == 0:
            os.makedirs(COQ, exist_ok=True)
            cls._fh = open(os.path.join(COQ, ".build.lock"), "w")
            fcntl.flock(cls._fh, fcntl.LOCK_EX)
        cls._depth += 1
        return self

    def __exit__(self, *a):
        import fcntl
        cls = _BuildLock
        cls._depth -= 1
        if cls._depth == 0 and cls._fh is not None:
            fcntl.flock(cls._fh, fcntl.LOCK_UN)
            cls._fh.close()
            cls._fh = None
        return False


def build_lock() -> "_BuildLock":
    return _BuildLock()


def sync_workspace() -> None:
    """Bring the mirror workspace (runs with VERIF_REPO set) up to date with coq/{theories,props,ref}."""
    if COQ == REAL_COQ:
        return
    with build_lock():
        if not os.path.isdir(os.path.join(COQ, "theories")):
            subprocess.run(["cp", "-a", REAL_COQ + "/.", COQ], check=False)
        subprocess.run(["rsync", "-a", "--delete", "--exclude=gen/", "--exclude=*.vo", "--exclude=*.vok",
                        "--exclude=*.vos", "--exclude=*.glob", "--exclude=.*.aux", "--exclude=Makefile*",
                        "--exclude=.Makefile*", "--exclude=_CoqProject", "--exclude=.build.lock",
                        "--exclude=.lia.cache", "--exclude=.nia.cache",
                        REAL_COQ + "/", COQ + "/"], check=False)


class Broken(Exception):
    """A proof obligation, a translation or a tie no longer checks."""

    def __init__(self, what: str, detail: str = ""):
        super().__init__(what)
        self.what = what
        self.detail = detail


# --------------------------------------------------------------------------------------
# Coq project
# --------------------------------------------------------------------------------------

COQ_FLAGS = ["-Q", "theories", "BP", "-Q", "gen", "BPGen", "-Q", "props", "BPProps"]
FORBIDDEN = re.compile(
    r"\b(Admitted|admit|Axiom|Axioms|Parameter|Parameters|Conjecture|Hypothesis|Variable|"
    r"Unset\s+Guard|bypass_check|type-in-type|impredicative-set|Admit\s+Obligations)\b")


def coq_sources() -> List[str]:
    out = []
    for d in ("theories", "gen", "props"):
        dd = os.path.join(COQ, d)
        if os.path.isdir(dd):
            for f in sorted(os.listdir(dd)):
                if f.endswith(".v"):
                    out.append(f"{d}/{f}")
    return out


def grep_gate() -> List[str]:
    """No Admitted/admit/Axiom/... anywhere in the development (Section-local
    Variable/Hypothesis are allowed: they are checked to sit inside a Section)."""
    bad = []
    for rel in coq_sources():
        txt = open(os.path.join(COQ, rel)).read()
        txt_nc = re.sub(r"\(\*.*?\*\)", lambda m: " " * len(m.group(0)), txt, flags=re.S)
        depth = 0
        for ln, line in enumerate(txt_nc.split("\n"), 1):
            if re.match(r"\s*Section\b", line):
                depth += 1
            if re.match(r"\s*End\b", line) and depth > 0:
                depth -= 1
            for m in FORBIDDEN.finditer(line):
                w = m.group(1)
                if w in ("Hypothesis", "Variable") and depth > 0:
                    continue
                bad.append(f"{rel}:{ln}: {w}")
    return bad


def coq_makefile() -> None:
    srcs = coq_sources()
    proj = "-Q theories BP\n-Q gen BPGen\n-Q props BPProps\n" + "\n".join(srcs) + "\n"
    changed = write_if_changed(os.path.join(COQ, "_CoqProject"), proj)
    if changed or not os.path.exists(os.path.join(COQ, "Makefile")):
        rc, out, err = run(["coq_makefile", "-f", "_CoqProject", "-o", "Makefile"], cwd=COQ)
        if rc != 0:
            raise Broken("coq_makefile failed", out + err)


def gen_closure(targets: Sequence[str]) -> Optional[List[str]]:
    """The coq/gen/*.v files the given .vo targets transitively depend on (from coqdep), or
    None when it cannot be determined (then everything is regenerated)."""
    srcs = [s for s in coq_sources() if os.path.exists(os.path.join(COQ, s))]
    rc, out, err = run(["coqdep"] + COQ_FLAGS + srcs, cwd=COQ, timeout=120)
    if rc != 0:
        return None
    deps: Dict[str, List[str]] = {}
    for line in out.splitlines():
        if ":" not in line:
            continue
        lhs, rhs = line.split(":", 1)
        ds = [d for d in rhs.split() if d.endswith(".vo")]
        for t in lhs.split():
            if t.endswith(".vo"):
                deps[t] = ds
    seen, todo = set(), [t for t in targets]
    while todo:
        t = todo.pop()
        if t in seen:
            continue
        seen.add(t)
        if t not in deps and not t.startswith("gen/"):
            return None
        todo.extend(deps.get(t, []))
    return sorted(os.path.basename(t)[:-1] for t in seen if t.startswith("gen/"))


def coq_build(targets: Sequence[str], timeout: int = 1500) -> Tuple[bool, str]:
    """make the given .vo targets (full .vo build, never -vos).  Returns (ok, log)."""
    with build_lock():
        coq_makefile()
        cmd = ["make", f"-j{NCPU}", "-f", "Makefile"] + list(targets)
        rc, out, err = run(["timeout", str(timeout)] + cmd, cwd=COQ, timeout=timeout + 30)
    return rc == 0, out + err


def parse_assumptions(log: str) -> Dict[str, str]:
    """`Print Assumptions X.` directly follows each theorem in props/*.v.  The build log
    then contains either 'Closed under the global context' or 'Axioms:' + list.  We pair
    them in order with the theorem names passed by the caller via markers
    (props files print `(*ASSUME name*)` through an idtac-free trick: we instead re-run
    coqc on the single props file and read its stdout)."""
    return {}


def props_assumptions(prop_file: str) -> List[Tuple[str, str]]:
    """Compile props/<file>.v alone (dependencies must be built) and pair each
    `Print Assumptions name.` with what Coq printed.  Returns [(name, text)]."""
    path = os.path.join(COQ, "props", prop_file)
    src = open(path).read()
    names = re.findall(r"Print Assumptions\s+([A-Za-z0-9_'.]+)\s*\.", src)
    rc, out, err = run(["timeout", "900", "coqc"] + COQ_FLAGS + [f"props/{prop_file}"], cwd=COQ,
                       timeout=930)
    if rc != 0:
        raise Broken(f"props/{prop_file} does not compile", (out + err)[-4000:])
    chunks = re.split(r"(?m)^(?=Closed under the global context|Axioms:)", out)
    chunks = [c.strip() for c in chunks if c.strip().startswith(("Closed under", "Axioms:"))]
    if len(chunks) != len(names):
        raise Broken(f"props/{prop_file}: {len(names)} Print Assumptions but {len(chunks)} answers",
                     out[-2000:])
    return list(zip(names, chunks))


def coq_eval_file(vpath: str, timeout: int = 900) -> str:
    """Run coqc on a generated cases file (in build/cases) and return its stdout."""
    # address-space limit: a blow-up in a case file must fail fast, not starve the machine
    cmd = (f"ulimit -v 12000000; exec timeout {timeout} coqc -Q '{os.path.join(COQ, 'theories')}' BP "
           f"-Q '{os.path.join(COQ, 'gen')}' BPGen '{vpath}'")
    rc, out, err = run(["bash", "-c", cmd], cwd=os.path.dirname(vpath), timeout=timeout + 30)
    if rc != 0:
        raise Broken(f"coqc failed on {os.path.basename(vpath)}", (out + err)[-4000:])
    return out


def coq_eval_many(vpaths: Sequence[str], timeout: int = 900) -> Dict[str, str]:
    """Evaluate several case files in parallel."""
    from concurrent.futures import ThreadPoolExecutor
    res: Dict[str, str] = {}
    with ThreadPoolExecutor(max_workers=NCPU) as ex:
        for p, out in zip(vpaths, ex.map(lambda p: coq_eval_file(p, timeout), vpaths)):
            res[p] = out
    return res


def parse_zlist(out: str, name: str) -> List[int]:
    """Extract the integer list printed by `Eval vm_compute in name` preceded by a marker
    line produced with `Redirect`-free trick: we look for '= [' ... ': list Z'."""
    m = re.search(r"=\s*\[(.*?)\]\s*:\s*list", out, flags=re.S)
    if not m:
        if re.search(r"=\s*\[\s*\]|= nil", out):
            return []
        raise Broken(f"cannot parse Coq output for {name}", out[-2000:])
    body = m.group(1)
    return [int(x) for x in re.findall(r"-?\d+", body)]


# --------------------------------------------------------------------------------------
# Coq term printers
# --------------------------------------------------------------------------------------

def cz(z: int) -> str:
    return f"({z})" if z < 0 else str(z)


def cbool(b: bool) -> str:
    return "true" if b else "false"


def clist(items: Iterable[str]) -> str:
    return "[" + "; ".join(items) + "]"


def cnat(n: int) -> str:
    return f"{n}%nat" if n < 2000 else f"(Z.to_nat {n})"


# --------------------------------------------------------------------------------------
# The Check object: tier/seed, evidence, violations, known findings
# --------------------------------------------------------------------------------------

def _reap_stale_case_dirs() -> None:
    root = os.path.join(BUILD, "cases")
    for d in os.listdir(root) if os.path.isdir(root) else []:
        m = re.match(r"^C\d\d\.(\d+)$", d)
        if m and not os.path.exists(f"/proc/{m.group(1)}"):
            shutil.rmtree(os.path.join(root, d), ignore_errors=True)


class Check:
    def __init__(self, prop: str, tier: str, seed: int, level: str = "proof"):
        self.prop = prop
        self.tier = tier
        self.seed = seed
        self.level = level
        self.rng = random.Random(f"{prop}:{seed}")
        self.t0 = time.time()
        self.violations: List[Dict[str, Any]] = []
        self.known_hits: List[str] = []
        self.coverage: Dict[str, Any] = {
            "obligations": 0, "discharged": 0, "checker_cmd": "", "trusted_base": [],
            "evaluations": 0, "distinct_nontrivial": 0, "rule": "", "samples": [],
            "theorems": [], "translated": [], "tie": {}, "distribution": {},
        }
        self.assumptions: List[str] = []
        # one scratch directory per invocation: a quick and a thorough run of the same property
        # (or runs against different checkouts) may be in flight at the same time
        self.dir = os.path.join(BUILD, "cases", f"{prop}.{os.getpid()}")
        shutil.rmtree(self.dir, ignore_errors=True)
        os.makedirs(self.dir, exist_ok=True)
        import atexit
        atexit.register(shutil.rmtree, self.dir, True)
        _reap_stale_case_dirs()
        sync_workspace()
        self.known = load_known(prop)
        import glob as _glob
        for old in _glob.glob(os.path.join(VERIF, "replays", f"{prop}-*.json")):
            os.remove(old)
        self.broken_obligations: List[Dict[str, str]] = []
        self.replay_file: Optional[str] = None
        self.model_ok = True

    def broken(self, b: "Broken") -> None:
        """A proof obligation / translation / tie no longer checks.  Recorded; the run goes on
        to search for a concrete failing input.  At finish(), if none was found, the violation
        is reported with no-failing-input-found."""
        self.broken_obligations.append({"what": b.what, "detail": b.detail[-3000:]})
        print(f"[{self.prop}] BROKEN: {b.what}", file=sys.stderr)

    @property
    def quick(self) -> bool:
        return self.tier == "quick"

    def n(self, quick: int, thorough: int) -> int:
        return quick if self.quick else thorough

    # ---- proof obligations -------------------------------------------------------
    def prove(self, prop_file: str, extra_targets: Sequence[str] = ()) -> None:
        """Regenerate gen/*.v, build the closure of props/<prop_file>, check the grep gate
        and the Print Assumptions output.  Raises Broken when anything fails."""
        if prop_file in getattr(self, "_proved", set()):
            return                      # a later stage of the same check asks again: already done
        with build_lock():
            self._prove_locked(prop_file, extra_targets)

    def _prove_locked(self, prop_file: str, extra_targets: Sequence[str] = ()) -> None:
        from translate import ensure_gen_present, regenerate_all
        ensure_gen_present()
        vo = f"props/{prop_file}o"
        targets = [vo, "theories/Eqb.vo"] + list(extra_targets) + list(getattr(self, "_model_vo", ()))
        coq_makefile()
        needed = gen_closure(targets)
        # only the translations this property's Coq closure depends on are (re)generated and
        # can break it; a change elsewhere in /repo must not raise an alarm here
        self.coverage["translated"] = regenerate_all(only=needed)
        self.coverage["tie"]["gen_files"] = needed if needed is not None else "all"
        bad = grep_gate()
        if bad:
            raise Broken("forbidden construct in the Coq development", "\n".join(bad))
        ok, log = coq_build(targets)
        if not ok:
            m = re.search(r'File "\./([^"]+)", line (\d+)', log)
            where = f"{m.group(1)}:{m.group(2)}" if m else "?"
            raise Broken(f"Coq build failed at {where}", log[-3000:])
        pairs = props_assumptions(prop_file)
        allowed = ()
        for name, text in pairs:
            closed = text.startswith("Closed under the global context")
            self.coverage["theorems"].append({"name": name, "assumptions": "closed" if closed else text})
            self.coverage["obligations"] += 1
            if closed:
                self.coverage["discharged"] += 1
            else:
                raise Broken(f"theorem {name} depends on axioms", text)
        if not self.quick:
            # independent re-check of the compiled closure, and its axiom summary
            lib = "BPProps." + prop_file[:-2]
            rc, out, err = run(["timeout", "3000", "coqchk", "-silent", "-o"] + COQ_FLAGS + [lib], cwd=COQ, timeout=3100)
            summary = out[out.find("CONTEXT SUMMARY"):] if "CONTEXT SUMMARY" in out else (out + err)[-1500:]
            self.coverage["coqchk"] = summary.strip()
            self.coverage["obligations"] += 1
            if rc == 0 and "* Axioms: <none>" in summary:
                self.coverage["discharged"] += 1
            else:
                raise Broken(f"coqchk does not accept {lib} or reports axioms", summary[-2000:])
        self._proved = getattr(self, "_proved", set()) | {prop_file}
        self.coverage["checker_cmd"] = (
            f"cd {COQ} && coq_makefile -f _CoqProject -o Makefile && make {vo}  "
            f"(coqc 8.16.1, full .vo build; Print Assumptions after every theorem)")

    def try_prove(self, prop_file: str, model_vo: Sequence[str] = ("theories/Eqb.vo",)) -> None:
        """prove(), but a failure is recorded (not raised) so that the run can go on and
        search the implementation for a concrete failing input.  If the translation itself
        failed, the last accepted translation (coq/ref) stands in for the model during that
        search."""
        self._model_vo = tuple(model_vo)
        try:
            self.prove(prop_file)
            return
        except Broken as b:
            self.broken(b)
        # can the executable model still be built?
        with build_lock():
            ok, log = coq_build(list(model_vo))
            if not ok:
                for f in os.listdir(os.path.join(COQ, "ref")):
                    if f.endswith(".v"):
                        shutil.copy(os.path.join(COQ, "ref", f), os.path.join(COQ, "gen", f))
                ok, log = coq_build(list(model_vo))
                self.coverage["tie"]["model_from_reference_translation"] = True
        self.model_ok = ok

    # ---- violations ----------------------------------------------------------------
    def violation(self, what: str, replay: Dict[str, Any], found_input: bool = True,
                  key: Optional[str] = None) -> None:
        """Record a violation unless it is a listed known finding (matched by key)."""
        if key is not None:
            for kf in self.known:
                if kf.get("status") == "known" and kf.get("key") == key:
                    msg = f"KNOWN-FINDING: property={self.prop} {kf.get('what', key)}"
                    if msg not in self.known_hits:
                        self.known_hits.append(msg)
                    return
        self.violations.append({"what": what, "replay": replay, "found_input": found_input})

    def finish(self) -> int:
        cov = self.coverage
        wall = time.time() - self.t0
        for msg in self.known_hits:
            print(msg)
        rc = 0
        vio_lines = []
        if self.broken_obligations:
            for v in self.violations:
                v["replay"]["broken_obligations"] = self.broken_obligations
            if not any(v["found_input"] for v in self.violations):
                self.violations.insert(0, {
                    "what": "proof obligation / tie no longer checks: " + self.broken_obligations[0]["what"],
                    "replay": {"broken_obligations": self.broken_obligations,
                               "note": "searched the implementation for a concrete failing input; none found"},
                    "found_input": False})
        if self.violations:
            os.makedirs(os.path.join(VERIF, "replays"), exist_ok=True)
            seen = set()
            for v in self.violations[:5]:
                body = json.dumps(v["replay"], sort_keys=True, default=str)
                dig = hashlib.sha256(body.encode()).hexdigest()[:12]
                if dig in seen:
                    continue
                seen.add(dig)
                path = os.path.join(VERIF, "replays", f"{self.prop}-{dig}.json")
                with open(path, "w") as f:
                    json.dump({"property": self.prop, "what": v["what"], "seed": self.seed,
                               "tier": self.tier, **v["replay"]}, f, indent=1, default=str)
                line = f"VIOLATION property={self.prop} replay={path}"
                if not v["found_input"]:
                    line += " no-failing-input-found"
                vio_lines.append(line)
            rc = 1
        ev = {
            "property_id": self.prop, "tier": self.tier, "seed": self.seed, "level": self.level,
            "coverage": cov, "assumptions": self.assumptions, "wall_s": round(wall, 2),
            "violations": len(self.violations),
        }
        if not cov.get("samples"):
            cov["samples"] = ["(no sample recorded)"]
        evdir = os.environ.get("VERIF_EVIDENCE_DIR") or os.path.join(VERIF, "evidence")
        os.makedirs(evdir, exist_ok=True)
        with open(os.path.join(evdir, f"{self.prop}.json"), "w") as f:
            json.dump(ev, f, indent=1, default=str)
        for line in vio_lines:
            print(line)
        print(f"[{self.prop}] tier={self.tier} seed={self.seed} obligations={cov['discharged']}/{cov['obligations']} "
              f"evaluations={cov['evaluations']} violations={len(self.violations)} "
              f"known={len(self.known_hits)} wall={wall:.1f}s")
        return rc


def load_known(prop: str) -> List[Dict[str, Any]]:
    path = os.path.join(VERIF, "known_findings.jsonl")
    out = []
    if os.path.exists(path):
        for line in open(path):
            line = line.strip()
            if not line or line.startswith("#"):
                continue
            d = json.loads(line)
            if d.get("property") == prop:
                out.append(d)
    return out


# --------------------------------------------------------------------------------------
# Running the implementation in worker subprocesses (crash / hang isolation)
# --------------------------------------------------------------------------------------

def run_workers(script: str, jobs: List[Any], chunk: int = 25, timeout: int = 600,
                extra_env: Optional[Dict[str, str]] = None) -> List[Any]:
    """Split jobs into chunks; each chunk is handled by `PY tools/<script>` reading a JSON
    list on stdin and writing a JSON list (same length) on stdout.  A worker that crashes
    or hangs yields {'worker_error': ...} for each of its jobs."""
    from concurrent.futures import ThreadPoolExecutor
    chunks = [jobs[i:i + chunk] for i in range(0, len(jobs), chunk)]
    env = dict(IMPL_ENV)
    if extra_env:
        env.update(extra_env)

    def one(ch):
        rc, out, err = run([PY, os.path.join(VERIF, "tools", script)], timeout=timeout, env=env,
                           input=json.dumps(ch), cwd=VERIF)
        if rc == 0:
            try:
                res = json.loads(out)
                if isinstance(res, list) and len(res) == len(ch):
                    return res
            except Exception:
                pass
        if len(ch) > 1:   # isolate the culprit
            out_l = []
            for j in ch:
                out_l.extend(one([j]))
            return out_l
        if rc == 124:     # a single job timed out: the machine may just be overloaded — one generous retry
            rc2, out2, err2 = run([PY, os.path.join(VERIF, "tools", script)], timeout=timeout * 3, env=env,
                                  input=json.dumps(ch), cwd=VERIF)
            if rc2 == 0:
                try:
                    res = json.loads(out2)
                    if isinstance(res, list) and len(res) == 1:
                        return res
                except Exception:
                    pass
            rc, err = rc2, err2
        return [{"worker_error": f"rc={rc} {err[-1500:]}"}]

    results: List[Any] = []
    with ThreadPoolExecutor(max_workers=NCPU) as ex:
        for r in ex.map(one, chunks):
            results.extend(r)
    return results


def assert_env() -> None:
    rc, out, err = run([PY, "-c", "import bitproto, bitprotolib.bp as b; print(bitproto.__file__); print(b.__file__)"],
                       env=IMPL_ENV)
    lines = out.split()
    if rc != 0 or len(lines) != 2 or not all(l.startswith(REPO + "/") for l in lines):
        raise Broken("environment: bitproto / bitprotolib do not resolve into /repo", out + err)
