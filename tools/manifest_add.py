"""manifest_add.py <ID> <json-file-with {text, note, technique, design_ref}> — add/replace a check entry."""
import json, sys
pid, f = sys.argv[1], sys.argv[2]
d = json.load(open(f))
m = json.load(open('/verif/MANIFEST.json'))
m['checks'] = [c for c in m['checks'] if c['property_id'] != pid]
m['checks'].append({
 "property_id": pid, "quick_cmd": f"./check {pid} --tier quick", "thorough_cmd": f"./check {pid} --tier thorough",
 "evidence_file": f"evidence/{pid}.json", "replay_cmd_template": f"./check {pid} --replay {{path}}", "engine": "coq-model",
 "level_claimed": {"category": d.get("category", "proof"), "text": d["text"], "design_ref": d.get("design_ref", f"DESIGN.md §4 {pid}, §9")},
 "level_note": d["note"], "technique": d["technique"]})
m['checks'].sort(key=lambda c: c['property_id'])
ids = [c['property_id'] for c in m['checks']]
for e in m['engines']:
    e['serves_properties'] = ids
m['not_applicable'] = [x for x in m.get('not_applicable', []) if x['property_id'] not in ids]
json.dump(m, open('/verif/MANIFEST.json', 'w'), indent=1)
print(ids)
