"""run_c13 — worker for property C13: run the /repo compiler on constant declarations, report the
values the parser computed, the text the three renderers emitted for every constant, and what
CPython (ast.literal_eval) and gcc (compiled program printing the macros) read back.

stdin : JSON list of jobs
  {id, dir, files:{name: text}, order:[file names, dependencies first], main: file name,
   consts:[names of main's constants in declaration order],
   c_whole:[names to print from the whole generated header], c_slices:[names compiled one by one],
   kinds:{name: "int"|"bool"|"str"}}
stdout: JSON list of results (same length).
Never trusted: everything reported is re-checked in Coq against the model and the specification.
"""
import ast
import json
import os
import re
import signal
import subprocess
import sys
import traceback
import warnings

SEPARATOR = {"c": "\n\n", "go": "\n\n", "py": "\n\n\n"}
EXT = {"c": "_bp.h", "go": "_bp.go", "py": "_bp.py"}


def _alarm(_s, _f):
    raise TimeoutError("implementation did not return within the time limit")


signal.signal(signal.SIGALRM, _alarm)


def repo_root():
    import bitproto
    return os.path.dirname(os.path.dirname(os.path.dirname(os.path.abspath(bitproto.__file__))))


def b(s: str):
    return list(s.encode("utf-8", "surrogatepass"))


def line_start_regex(lang: str, name: str) -> str:
    n = re.escape(name)
    if lang == "c":
        return r"(?m)^#define " + n + " "
    if lang == "go":
        return r"(?m)^const " + n + r" \w+ = "
    return r"(?m)^" + n + r": \w+ = "


def slices(text: str, lang: str, names):
    """For the constants `names` (emitted in this order, contiguously): the full emitted text of
    each (from the start of its line) and where the literal starts inside it."""
    out = {}
    pos = 0
    marks = []
    for nm in names:
        m = re.compile(line_start_regex(lang, nm)).search(text, pos)
        if not m:
            return None, f"emitted {lang} file has no definition of {nm}"
        marks.append((nm, m.start(), m.end()))
        pos = m.end()
    sep = SEPARATOR[lang]
    for i, (nm, s, e) in enumerate(marks):
        if i + 1 < len(marks):
            end = marks[i + 1][1]
            chunk = text[s:end]
            if not chunk.endswith(sep):
                return None, f"unexpected separator after the definition of {nm} in the {lang} file"
            chunk = chunk[:-len(sep)]
        else:
            end = text.find("\n", e)
            chunk = text[s:end if end >= 0 else len(text)]
        out[nm] = {"line": chunk, "lit_at": e - s}
    return out, None


def py_read(expr_node):
    v = ast.literal_eval(expr_node)
    if v is True or v is False:
        return ["bool", bool(v)]
    if isinstance(v, int):
        return ["int", str(v)]
    if isinstance(v, str):
        return ["str", b(v)]
    return ["other", repr(v)[:80]]


def c_program(includes: str, items) -> str:
    lines = ["#include <stdio.h>", "#include <stdbool.h>", includes]
    body = []
    for k, (nm, kind) in enumerate(items):
        if kind == "int":
            body.append(f'  printf("int %lld\\n", (long long)({nm}));')
        elif kind == "bool":
            body.append(f'  printf("bool %d\\n", (int)({nm}));')
        else:
            lines.append(f"static const char s_{k}[] = {nm};")
            body.append(f'  printf("str "); for (size_t i = 0; i + 1 < sizeof(s_{k}); i++) '
                        f'printf("%02x", (unsigned char)s_{k}[i]); printf("\\n");')
    lines.append("int main(void) {")
    lines.extend(body)
    lines.append("  return 0;\n}")
    return "\n".join(lines) + "\n"


def run_c(d: str, tag: str, prog: str, incs, items):
    src = os.path.join(d, f"{tag}.c")
    exe = os.path.join(d, f"{tag}.exe")
    with open(src, "w", encoding="utf-8", errors="surrogatepass", newline="") as f:
        f.write(prog)
    cmd = ["gcc", "-w", "-o", exe, src]
    for i in incs:
        cmd[1:1] = ["-I", i]
    p = None
    for _attempt in range(2):                      # a shared, overloaded machine: be patient, try twice
        try:
            p = subprocess.run(cmd, capture_output=True, timeout=300)
            break
        except subprocess.TimeoutExpired:
            continue
    if p is None:
        raise TimeoutError("gcc did not finish within 2 x 300 s")
    if p.returncode != 0:
        err = p.stderr.decode("utf-8", "replace")
        first = [l for l in err.split("\n") if "error" in l][:2]
        return {"error": "gcc: " + " | ".join(first)[:300]}
    try:
        q = subprocess.run([exe], capture_output=True, timeout=120)
    except subprocess.TimeoutExpired:
        return {"error": "program timeout"}
    if q.returncode != 0:
        return {"error": f"program exit {q.returncode}"}
    out = q.stdout.decode().split("\n")
    res = {}
    for (nm, kind), line in zip(items, out):
        parts = line.split(" ", 1)
        if parts[0] != kind:
            return {"error": "unexpected program output"}
        arg = parts[1] if len(parts) > 1 else ""
        if kind == "int":
            res[nm] = ["int", arg]
        elif kind == "bool":
            res[nm] = ["bool", arg == "1"]
        else:
            res[nm] = ["str", list(bytes.fromhex(arg))]
    return {"values": res}


def const_entry(c):
    from bitproto._ast import BooleanConstant, IntegerConstant, StringConstant
    if isinstance(c, BooleanConstant):
        return [c.name, "bool", bool(c.value)]
    if isinstance(c, IntegerConstant):
        return [c.name, "int", str(c.value)]
    if isinstance(c, StringConstant):
        return [c.name, "str", b(c.value)]
    return [c.name, "other", repr(c)]


def val_entry(v):
    if v is True or v is False:
        return ["bool", bool(v)]
    if isinstance(v, int):
        return ["int", str(v)]
    if isinstance(v, str):
        return ["str", b(v)]
    return ["other", repr(v)[:80]]


def handle(job):
    from bitproto._ast import Array, Constant, Message, Option, Proto
    from bitproto.errors import ParserError
    from bitproto.parser import parse
    from bitproto.renderer import render
    d = job["dir"]
    os.makedirs(d, exist_ok=True)
    for name, text in job["files"].items():
        with open(os.path.join(d, name), "w", encoding="utf-8", errors="surrogatepass", newline="") as f:
            f.write(text)
    res = {"id": job["id"]}
    protos = {}
    try:
        for name in job["order"]:
            protos[name] = parse(os.path.join(d, name))
    except ParserError as e:
        res["parse_error"] = {"cls": type(e).__name__, "parser_error": True, "msg": str(e)[:300]}
        return res
    except Exception as e:                                  # a crash of the compiler
        res["parse_error"] = {"cls": type(e).__name__, "parser_error": False,
                              "msg": str(e)[:300], "trace": traceback.format_exc()[-1200:]}
        return res
    proto = protos[job["main"]]
    res["consts"] = {}
    for name, p in protos.items():
        res["consts"][name] = [const_entry(m) for m in p.members.values() if isinstance(m, Constant)]
    uses = []
    for m in proto.members.values():
        if isinstance(m, Message):
            ent = {"message": m.name, "options": [], "caps": []}
            for x in m.members.values():
                if isinstance(x, Option):
                    ent["options"].append([x.name, val_entry(x.value)])
            for fld in m.fields() if hasattr(m, "fields") else []:
                if isinstance(fld.type, Array):
                    ent["caps"].append([fld.name, str(fld.type.cap)])
            uses.append(ent)
    res["uses"] = uses

    # render every file in the three languages
    emitted = {}
    for lang in ("c", "go", "py"):
        od = os.path.join(d, "out_" + lang)
        os.makedirs(od, exist_ok=True)
        try:
            for name in job["order"]:
                render(protos[name], lang, outdir=od)
            base = os.path.splitext(job["main"])[0]
            with open(os.path.join(od, base + EXT[lang]), encoding="utf-8", errors="surrogatepass", newline="") as f:
                emitted[lang] = f.read()
        except Exception as e:
            res.setdefault("render_error", {})[lang] = f"{type(e).__name__}: {str(e)[:200]}"
    res["emit"] = {}
    for lang, text in list(emitted.items()):
        sl, err = slices(text, lang, job["consts"])
        if sl is None:
            res.setdefault("slice_error", {})[lang] = err
            continue
        res["emit"][lang] = {nm: {"line": b(v["line"]), "lit_at": len(b(v["line"][:v["lit_at"]]))}
                             for nm, v in sl.items()}
        emitted[lang + "_slices"] = sl

    # ---- Python reads back ------------------------------------------------------------------
    if "py" in emitted:
        warnings.simplefilter("ignore")
        whole = {}
        try:
            mod = ast.parse(emitted["py"])
            for n in mod.body:
                if isinstance(n, ast.AnnAssign) and isinstance(n.target, ast.Name) and n.target.id in job["consts"] \
                        and n.value is not None:
                    try:
                        whole[n.target.id] = py_read(n.value)
                    except Exception as e:
                        whole[n.target.id] = ["error", type(e).__name__]
            res["py_whole"] = whole
        except SyntaxError as e:
            res["py_whole_error"] = f"SyntaxError: {str(e)[:120]}"
        except Exception as e:
            res["py_whole_error"] = f"{type(e).__name__}: {str(e)[:120]}"
        if "py_slices" in emitted:
            sl = {}
            for nm, v in emitted["py_slices"].items():
                try:
                    m2 = ast.parse(v["line"] + "\n")
                    n = m2.body[0] if m2.body else None
                    if isinstance(n, ast.AnnAssign) and isinstance(n.target, ast.Name) and n.target.id == nm \
                            and n.value is not None:
                        r = py_read(n.value)
                        if len(m2.body) > 1:
                            r = ["multi", r]
                        sl[nm] = r
                    else:
                        sl[nm] = ["error", "not an annotated assignment"]
                except SyntaxError:
                    sl[nm] = ["error", "SyntaxError"]
                except Exception as e:
                    sl[nm] = ["error", type(e).__name__]
            res["py_slices"] = sl

    # ---- C reads back -----------------------------------------------------------------------
    if "c" in emitted:
        incs = [os.path.join(d, "out_c"), os.path.join(repo_root(), "lib", "c")]
        base = os.path.splitext(job["main"])[0]
        whole = job.get("c_whole", [])
        if whole == "auto":      # every boolean / string, and the integers inside the C range
            main_consts = {e[0]: e for e in res["consts"][job["main"]]}
            whole = [nm for nm in job["consts"] if nm in main_consts and
                     (main_consts[nm][1] != "int" or abs(int(main_consts[nm][2])) <= 2 ** 63 - 1)]
            job["kinds"] = dict(job["kinds"], **{nm: main_consts[nm][1] for nm in whole})
        items = [(nm, job["kinds"][nm]) for nm in whole]
        if items:
            res["c_whole"] = run_c(d, "whole", c_program(f'#include "{base}_bp.h"', items), incs, items)
        if job.get("c_slices") and "c_slices" in emitted:
            out = {}
            # one program with all the cut-out definitions when that compiles; otherwise one
            # program per constant, so that a broken literal is attributed to its constant
            items = [(nm, job["kinds"][nm]) for nm in job["c_slices"]]
            together = run_c(d, "slices_all",
                             c_program("\n".join(emitted["c_slices"][nm]["line"] for nm, _ in items), items),
                             incs, items)
            if "values" in together:
                out = dict(together["values"])
            else:
                for nm in job["c_slices"]:
                    v = emitted["c_slices"][nm]
                    r = run_c(d, "slice_" + nm, c_program(v["line"], [(nm, job["kinds"][nm])]), incs,
                              [(nm, job["kinds"][nm])])
                    out[nm] = r["values"][nm] if "values" in r else ["error", r["error"]]
            res["c_slices"] = out
    return res


def main():
    jobs = json.load(sys.stdin)
    out = []
    for job in jobs:
        signal.alarm(1500)
        try:
            out.append(handle(job))
        except TimeoutError as e:
            out.append({"id": job.get("id"), "worker_error": str(e)})
        except Exception:
            out.append({"id": job.get("id"), "worker_error": traceback.format_exc()[-1500:]})
        finally:
            signal.alarm(0)
    json.dump(out, sys.stdout)


if __name__ == "__main__":
    main()
