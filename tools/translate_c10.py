"""translate_c10 — tie T0 for property C10: regenerate coq/gen/GenC10.v from /repo's renderers.

What is translated (fail-closed; anything unrecognised raises vlib.Broken):
  * the top-level block lists of the C header / C source (standard and optimization mode),
    Python and Go renderers, the member lists of the composite per-definition blocks and the
    isinstance chains of every BlockBoundDefinitionDispatcher.dispatch — as Gallina tables
    over the tags of coq/theories/EmitBase.v (this is the ORDER of what is emitted);
  * the case-style mappings, support_import_as_member, the name-prefix option name, the
    delimiters;
  * the name templates (f-strings / str.format) of generated identifiers, include / import
    lines and output file names (these are the NAMES of what is emitted);
  * the validator of option c.struct_packing_alignment.
What is hand-modelled in coq/theories/Emit.v is pinned by skeleton digests (AST with
docstrings and annotations removed): Scope.filter, the dispatcher loop, the name-joining
functions of renderer/formatter.py, the per-field list blocks, the Python default-value
functions.
"""
from __future__ import annotations

import ast
import os
import re
from typing import Callable, Dict, List, Optional, Sequence, Tuple

import vlib
from translate import find_func, skeleton_digest
from vlib import Broken

R = "compiler/bitproto/renderer"
FILES = {
    "H": f"{R}/impls/c/renderer_h.py",
    "C": f"{R}/impls/c/renderer_c.py",
    "P": f"{R}/impls/py/renderer.py",
    "G": f"{R}/impls/go/renderer.py",
}

# tags of EmitBase.blk (without module prefix) known per module
KNOWN = {
    "H": """ProtoDocstring IncludeGuard IncludeHeaders IncludeGeneralHeaders ExternCPlusPlus ImportList
            DefineMacroOpMode DataStructuresList FunctionDeclarationsForUserList
            FunctionDeclarationsForInternalList FunctionDeclarationsForUserListOpMode AliasDef Constant EnumDefs
            EnumDef EnumFieldList MessageDef MessageLengthMacro MessageStruct MessageFunctionDeclarationsForUser
            MessageFunctionDeclarationsForUserOpMode MessageEncoderFunctionDeclaration
            MessageDecoderFunctionDeclaration MessageJsonFormatterFunctionDeclaration
            AliasFunctionDeclarationsForInternal AliasProcessorDeclaration AliasJsonFormatterDeclaration
            MessageFunctionDeclarationsForInternal MessageProcessorDeclaration
            MessageBpJsonFormatterDeclaration""".split(),
    "C": """Include IncludeOpMode BoundDefinitionList BoundDefinitionListOpMode AliasFunctions
            ArrayProcessorForAlias ArrayJsonFormatterForAlias AliasProcessor AliasJsonFormatter MessageFunctions
            ArrayProcessorForMessageFieldList ArrayJsonFormatterForMessageFieldList
            MessageFieldDescriptorsIniter MessageProcessor MessageBpJsonFormatter MessageEncoder MessageDecoder
            MessageJsonFormatter MessageFunctionsOpMode MessageEncoderOpMode MessageDecoderOpMode""".split(),
    "P": """ProtoDocstring ImportList GeneralImports ImportChildProtoList BoundDefinitionList Alias AliasDef
            AliasMethodProcessor AliasMethodDefaultFactory Constant Enum IntEnumFieldListWrapper
            EnumFieldListWrapper EnumValueToNameMap EnumMethodProcessor Message""".split(),
    "G": """PackageName GeneralImports ImportChildProtoList AvoidGeneralImportsNotUsed BoundDefinitionList
            Alias AliasDef AliasMethodBpProcessor Constant Enum EnumType EnumFieldListWrapped
            EnumMethodBpProcessor EnumMethodString Message MessageStruct MessageSizeConst MessageMethodSize
            MessageMethodString MessageMethodEncode MessageMethodDecode MessageMethodBpProcessor
            MessageMethodBpGetAccessor MessageMethodBpSetByte MessageMethodBpGetByte
            MessageMethodBpProcessInt""".split(),
}

# (module, class) whose blocks() list is translated; value = Gallina name for top-level lists
TOP_LISTS = [
    ("H", "BlockList", "h_blocklist"), ("H", "BlockListOpMode", "h_blocklist_opmode"),
    ("C", "BlockList", "c_blocklist"), ("C", "BlockListOpMode", "c_blocklist_opmode"),
    ("P", "BlockList", "p_blocklist"), ("G", "BlockList", "g_blocklist"),
]
COMPOSITES = [
    ("H", "BlockEnumDefs"), ("H", "BlockMessageDef"), ("H", "BlockMessageFunctionDeclarationsForUser"),
    ("H", "BlockMessageFunctionDeclarationsForUserOpMode"), ("H", "BlockAliasFunctionDeclarationsForInternal"),
    ("H", "BlockMessageFunctionDeclarationsForInternal"),
    ("C", "BlockAliasFunctions"), ("C", "BlockMessageFunctions"), ("C", "BlockMessageFunctionsOpMode"),
    ("P", "BlockImportList"), ("P", "BlockAlias"), ("P", "BlockEnum"),
    ("G", "BlockAlias"), ("G", "BlockEnum"), ("G", "BlockMessage"),
]
DISPATCHERS = [
    ("H", "BlockDataStructuresList"), ("H", "BlockFunctionDeclarationsForUserList"),
    ("H", "BlockFunctionDeclarationsForInternalList"), ("H", "BlockFunctionDeclarationsForUserListOpMode"),
    ("C", "BlockBoundDefinitionList"), ("C", "BlockBoundDefinitionListOpMode"),
    ("P", "BlockBoundDefinitionList"), ("G", "BlockBoundDefinitionList"),
]
DKIND = {"Alias": "DkAlias", "Constant": "DkConstant", "Enum": "DkEnum", "Message": "DkMessage"}
DCLASS = {"Constant": "KConstant", "Alias": "KAlias", "Enum": "KEnum", "EnumField": "KEnumField",
          "Message": "KMessage", "MessageField": "KMessageField"}
STYLE = {"keep": "SKeep", "snake": "SSnake", "upper": "SUpper", "pascal": "SPascal"}


def _parse(rel: str) -> ast.Module:
    p = os.path.join(vlib.REPO, rel)
    try:
        return ast.parse(open(p).read())
    except (OSError, SyntaxError) as e:
        raise Broken(f"translator C10: cannot read {rel}", str(e))


def _cls(tree: ast.Module, name: str, rel: str) -> ast.ClassDef:
    for n in tree.body:
        if isinstance(n, ast.ClassDef) and n.name == name:
            return n
    raise Broken(f"translator C10: class {name} not found in {rel}")


def _method(cls: ast.ClassDef, name: str) -> ast.FunctionDef:
    for n in cls.body:
        if isinstance(n, ast.FunctionDef) and n.name == name:
            return n
    raise Broken(f"translator C10: method {cls.name}.{name} not found")


def _body(fn: ast.FunctionDef) -> List[ast.stmt]:
    return [s for s in fn.body if not (isinstance(s, ast.Expr) and isinstance(s.value, ast.Constant))]


def cstr(s: str) -> str:
    if any(ord(c) < 32 or ord(c) > 126 for c in s):
        raise Broken("translator C10: non-printable character in a name template", repr(s))
    return '"' + s.replace('"', '""') + '"'


def _tag(mod: str, call: ast.expr, where: str) -> str:
    """Block constructor call -> tag.  Only `BlockX(...)` with simple arguments."""
    if not (isinstance(call, ast.Call) and isinstance(call.func, ast.Name) and call.func.id.startswith("Block")):
        raise Broken(f"translator C10: {where}: not a block constructor", ast.unparse(call)[:200])
    for a in list(call.args) + [k.value for k in call.keywords]:
        if not isinstance(a, (ast.Name, ast.Attribute, ast.Constant, ast.BinOp)):
            raise Broken(f"translator C10: {where}: unexpected constructor argument", ast.unparse(call)[:200])
    nm = call.func.id[len("Block"):]
    if nm == "AheadNotice":
        return "X_AheadNotice"
    if nm not in KNOWN[mod]:
        raise Broken(f"translator C10: {where}: block class Block{nm} is not modelled in EmitBase.blk")
    return f"{mod}_{nm}"


def _blocks_list(mod: str, cls: ast.ClassDef) -> List[str]:
    """blocks() must be `return [BlockA(..), BlockB(..), ...]`."""
    fn = _method(cls, "blocks")
    body = _body(fn)
    if len(body) != 1 or not isinstance(body[0], ast.Return) or not isinstance(body[0].value, ast.List):
        raise Broken(f"translator C10: {cls.name}.blocks is not a single `return [...]`",
                     ast.unparse(fn)[:400])
    return [_tag(mod, e, f"{cls.name}.blocks") for e in body[0].value.elts]


FILTER_IDIOM = ("filter_messages = self._get_ctx_or_raise().optimization_mode_filter_messages",
                "render_ctx = self._get_ctx_or_raise()\nfilter_messages = render_ctx.optimization_mode_filter_messages")
FILTER_TEST = "if filter_messages:\n    if d.name not in filter_messages:\n        return None"


def _dispatch(mod: str, cls: ast.ClassDef) -> Tuple[List[Tuple[str, str]], bool]:
    """dispatch(d): a chain of `if isinstance(d, K): [filter idiom] return BlockX(d)` then
    `return None`.  Returns ([(dkind, tag)], filtered)."""
    fn = _method(cls, "dispatch")
    body = _body(fn)
    if not body or not (isinstance(body[-1], ast.Return) and isinstance(body[-1].value, ast.Constant)
                        and body[-1].value.value is None):
        raise Broken(f"translator C10: {cls.name}.dispatch does not end with `return None`")
    out: List[Tuple[str, str]] = []
    filtered = False
    for s in body[:-1]:
        ok = (isinstance(s, ast.If) and not s.orelse and isinstance(s.test, ast.Call)
              and isinstance(s.test.func, ast.Name) and s.test.func.id == "isinstance"
              and len(s.test.args) == 2 and ast.unparse(s.test.args[0]) == "d"
              and isinstance(s.test.args[1], ast.Name) and s.test.args[1].id in DKIND)
        if not ok:
            raise Broken(f"translator C10: {cls.name}.dispatch: unsupported statement", ast.unparse(s)[:300])
        kind = DKIND[s.test.args[1].id]
        inner = list(s.body)
        if len(inner) > 1:
            pre = "\n".join(ast.unparse(x) for x in inner[:-1])
            if not any(pre == f"{idiom}\n{FILTER_TEST}" for idiom in FILTER_IDIOM):
                raise Broken(f"translator C10: {cls.name}.dispatch: unrecognised statements before return", pre[:400])
            if kind != "DkMessage":
                raise Broken(f"translator C10: {cls.name}.dispatch: -F filter applied to a non-message")
            filtered = True
        ret = inner[-1]
        if not (isinstance(ret, ast.Return) and ret.value is not None):
            raise Broken(f"translator C10: {cls.name}.dispatch: branch does not return a block")
        if any(k == kind for k, _ in out):
            raise Broken(f"translator C10: {cls.name}.dispatch: duplicate branch for {kind}")
        out.append((kind, _tag(mod, ret.value, f"{cls.name}.dispatch")))
    # isinstance chains are order-sensitive only when classes overlap: Alias/Constant/Enum/Message
    # are pairwise unrelated by inheritance except through Type/Definition bases (checked in _ast).
    return out, filtered


# ---- name templates ---------------------------------------------------------------------------

class Tmpl:
    """Translate a string-valued Python expression into a Gallina string expression over the
    given parameters.  `binds` maps local variable names to (expected source text, Gallina term)."""

    def __init__(self, where: str, params: Sequence[str], binds: Dict[str, Tuple[str, str]]):
        self.where = where
        self.params = list(params)
        self.binds = binds
        self.seen_binds: Dict[str, str] = {}

    def fail(self, why: str, node: Optional[ast.AST] = None):
        raise Broken(f"translator C10: {self.where}: {why}", ast.unparse(node)[:300] if node is not None else "")

    def name(self, ident: str, node: ast.AST) -> str:
        if ident in self.binds:
            if ident not in self.seen_binds:
                self.fail(f"variable {ident} used before its expected binding", node)
            return self.binds[ident][1]
        if ident in self.params:
            return ident
        self.fail(f"unknown name {ident}", node)
        return ""

    def expr(self, e: ast.expr) -> List[str]:
        """list of Gallina string terms to be concatenated"""
        if isinstance(e, ast.Constant) and isinstance(e.value, str):
            return [cstr(e.value)] if e.value else []
        if isinstance(e, ast.JoinedStr):
            out: List[str] = []
            for v in e.values:
                if isinstance(v, ast.Constant):
                    out.extend(self.expr(v))
                elif isinstance(v, ast.FormattedValue) and v.conversion == -1 and v.format_spec is None:
                    out.extend(self.expr(v.value))
                else:
                    self.fail("unsupported f-string part", v)
            return out
        if isinstance(e, ast.Name):
            return [self.name(e.id, e)]
        if isinstance(e, ast.Attribute):
            key = ast.unparse(e)
            if key in self.params_attr():
                return [self.params_attr()[key]]
            self.fail(f"unknown attribute {key}", e)
        if isinstance(e, ast.BinOp) and isinstance(e.op, ast.Add):
            return self.expr(e.left) + self.expr(e.right)
        if (isinstance(e, ast.Call) and isinstance(e.func, ast.Attribute) and e.func.attr == "format"
                and isinstance(e.func.value, ast.Constant) and isinstance(e.func.value.value, str)
                and not e.keywords):
            fmt = e.func.value.value
            parts = re.split(r"(\{\d*\})", fmt)
            out = []
            auto = 0
            for p in parts:
                m = re.fullmatch(r"\{(\d*)\}", p)
                if m:
                    k = int(m.group(1)) if m.group(1) else auto
                    auto += 1
                    if k >= len(e.args):
                        self.fail("format index out of range", e)
                    out.extend(self.expr(e.args[k]))
                elif p:
                    if "{" in p or "}" in p:
                        self.fail("unsupported format string", e)
                    out.append(cstr(p))
            return out
        if isinstance(e, ast.Call):
            key = ast.unparse(e)
            if key in self.params_attr():
                return [self.params_attr()[key]]
        self.fail("unsupported string expression", e)
        return []

    _attr: Dict[str, str] = {}

    def params_attr(self) -> Dict[str, str]:
        return self._attr

    def function(self, fn: ast.FunctionDef, attr: Optional[Dict[str, str]] = None) -> str:
        """Straight-line: expected bindings then `return <expr>`."""
        self._attr = attr or {}
        body = _body(fn)
        for s in body[:-1]:
            if (isinstance(s, (ast.Assign, ast.AnnAssign))):
                tgt = s.targets[0] if isinstance(s, ast.Assign) else s.target
                if isinstance(tgt, ast.Name) and tgt.id in self.binds and s.value is not None:
                    got = ast.unparse(s.value)
                    if got != self.binds[tgt.id][0]:
                        self.fail(f"binding of {tgt.id} is `{got}`, expected `{self.binds[tgt.id][0]}`", s)
                    self.seen_binds[tgt.id] = got
                    continue
            self.fail("unsupported statement", s)
        ret = body[-1]
        if not (isinstance(ret, ast.Return) and ret.value is not None):
            self.fail("last statement is not a return", ret)
        terms = self.expr(ret.value)
        return " ++ ".join(terms) if terms else '""'


def _defn(name: str, params: Sequence[str], body: str) -> str:
    ps = f" ({' '.join(params)} : string)" if params else ""
    return f"Definition {name}{ps} : string := {body}."


def _const_return(cls: ast.ClassDef, meth: str) -> ast.expr:
    fn = _method(cls, meth)
    body = _body(fn)
    if len(body) != 1 or not isinstance(body[0], ast.Return) or body[0].value is None:
        raise Broken(f"translator C10: {cls.name}.{meth} is not a single return")
    return body[0].value


def gen_c10() -> Tuple[str, Dict[str, str]]:
    skel: Dict[str, str] = {}
    out = ["(* GENERATED by tools/translate_c10.py from compiler/bitproto/renderer — do not edit *)",
           "From Coq Require Import String List ZArith Bool.",
           "From BP Require Import EmitBase.",
           "Import ListNotations.",
           "Open Scope string_scope.", ""]
    trees = {m: _parse(rel) for m, rel in FILES.items()}

    # ---- block lists ----
    for mod, cname, gname in TOP_LISTS:
        tags = _blocks_list(mod, _cls(trees[mod], cname, FILES[mod]))
        out.append(f"Definition {gname} : list blk := [{'; '.join(tags)}].")
    comp_rows = []
    for mod, cname in COMPOSITES:
        tags = _blocks_list(mod, _cls(trees[mod], cname, FILES[mod]))
        own = f"{mod}_{cname[len('Block'):]}"
        comp_rows.append(f"  | {own} => Some [{'; '.join(tags)}]")
    out.append("Definition blocks_of (b : blk) : option (list blk) :=\n  match b with\n" + "\n".join(comp_rows)
               + "\n  | _ => None\n  end.")
    disp_rows = []
    filt = []
    for mod, cname in DISPATCHERS:
        rows, filtered = _dispatch(mod, _cls(trees[mod], cname, FILES[mod]))
        own = f"{mod}_{cname[len('Block'):]}"
        for kind, tag in rows:
            disp_rows.append(f"  | {own}, {kind} => Some {tag}")
        if filtered:
            filt.append(own)
    out.append("Definition dispatch (b : blk) (k : dkind) : option blk :=\n  match b, k with\n" + "\n".join(disp_rows)
               + "\n  | _, _ => None\n  end.")
    out.append("Definition dispatch_filtered (b : blk) : bool :=\n  match b with\n  | "
               + " | ".join(filt or ["X_AheadNotice"]) + (" => true" if filt else " => false")
               + "\n  | _ => false\n  end.")
    # Python BlockMessage: first member is the class, the rest are its methods (indent=4)
    pm = _method(_cls(trees["P"], "BlockMessage", FILES["P"]), "blocks")
    ret = _body(pm)[-1]
    if not (isinstance(ret, ast.Return) and isinstance(ret.value, ast.List) and ret.value.elts
            and ast.unparse(ret.value.elts[0]) == "BlockMessageClass(self.d)"
            and all(any(k.arg == "indent" and ast.unparse(k.value) == "4" for k in e.keywords)
                    for e in ret.value.elts[1:] if isinstance(e, ast.Call))):
        raise Broken("translator C10: py BlockMessage.blocks: members after the class are not all indent=4")
    skel["c10:py.BlockMessage.blocks"] = skeleton_digest(pm)

    # ---- formatter tables ----
    fm = {"LC": (f"{R}/impls/c/formatter.py", "CFormatter"), "LPy": (f"{R}/impls/py/formatter.py", "PyFormatter"),
          "LGo": (f"{R}/impls/go/formatter.py", "GoFormatter")}
    ftrees = {}
    cs_rows, iam_rows, pfx_rows = [], [], []
    base_tree = _parse(f"{R}/formatter.py")
    base_cls = _cls(base_tree, "Formatter", f"{R}/formatter.py")
    for L, (rel, cname) in fm.items():
        t = _parse(rel)
        ftrees[L] = (t, _cls(t, cname, rel))
        cls = ftrees[L][1]
        v = _const_return(cls, "case_style_mapping")
        if not (isinstance(v, ast.Call) and ast.unparse(v.func) == "CaseStyleMapping" and len(v.args) == 1
                and isinstance(v.args[0], ast.Dict)):
            raise Broken(f"translator C10: {cname}.case_style_mapping is not CaseStyleMapping({{...}})")
        seen = set()
        for k, val in zip(v.args[0].keys, v.args[0].values):
            if not (isinstance(k, ast.Name) and k.id in DCLASS):
                raise Broken(f"translator C10: {cname}.case_style_mapping: unknown class key", ast.unparse(k))
            styles = [val] if isinstance(val, ast.Constant) else list(val.elts) if isinstance(val, ast.Tuple) else None
            if styles is None or not all(isinstance(s, ast.Constant) and s.value in STYLE for s in styles):
                raise Broken(f"translator C10: {cname}.case_style_mapping: unsupported value", ast.unparse(val))
            cs_rows.append(f"  | {L}, {DCLASS[k.id]} => [{'; '.join(STYLE[s.value] for s in styles)}]")
            seen.add(k.id)
        v = _const_return(cls, "support_import_as_member")
        if not (isinstance(v, ast.Constant) and isinstance(v.value, bool)):
            raise Broken(f"translator C10: {cname}.support_import_as_member is not a boolean constant")
        iam_rows.append(f"  | {L} => {'true' if v.value else 'false'}")
        has = [n for n in cls.body if isinstance(n, ast.FunctionDef) and n.name == "definition_name_prefix_option_name"]
        v = _const_return(cls if has else base_cls, "definition_name_prefix_option_name")
        if not (isinstance(v, ast.Constant) and isinstance(v.value, str)):
            raise Broken(f"translator C10: {cname}.definition_name_prefix_option_name is not a string constant")
        pfx_rows.append(f"  | {L} => {cstr(v.value)}")
        for meth in ("delimer_cross_proto", "delimer_inner_proto", "scopes_with_namespace"):
            if any(isinstance(n, ast.FunctionDef) and n.name == meth for n in cls.body):
                raise Broken(f"translator C10: {cname} overrides {meth} (the model uses the base class's)")
    out.append("Definition case_style (L : lang) (c : dclass) : list cstyle :=\n  match L, c with\n"
               + "\n".join(cs_rows) + "\n  | _, _ => [SKeep]\n  end.")
    out.append("Definition import_as_member (L : lang) : bool :=\n  match L with\n" + "\n".join(iam_rows) + "\n  end.")
    out.append("Definition name_prefix_option (L : lang) : string :=\n  match L with\n" + "\n".join(pfx_rows) + "\n  end.")
    for meth, gname in (("delimer_cross_proto", "delim_cross"), ("delimer_inner_proto", "delim_inner")):
        v = _const_return(base_cls, meth)
        if not (isinstance(v, ast.Constant) and isinstance(v.value, str)):
            raise Broken(f"translator C10: Formatter.{meth} is not a string constant")
        out.append(f"Definition {gname} : string := {cstr(v.value)}.")
    v = _const_return(base_cls, "scopes_with_namespace")
    if ast.unparse(v) != "(Message, Proto)":
        raise Broken("translator C10: Formatter.scopes_with_namespace is not (Message, Proto)", ast.unparse(v))

    # ---- name templates: C ----
    ccls = ftrees["LC"][1]
    for meth, gname in (("bp_processor_name_prefix", "c_processor_prefix"),
                        ("bp_json_formatter_name_prefix", "c_json_prefix")):
        v = _const_return(ccls, meth)
        if not (isinstance(v, ast.Constant) and isinstance(v.value, str)):
            raise Broken(f"translator C10: CFormatter.{meth} is not a string constant")
        out.append(f"Definition {gname} : string := {cstr(v.value)}.")
    PB = ("self.bp_processor_name_prefix()", "c_processor_prefix")
    JB = ("self.bp_json_formatter_name_prefix()", "c_json_prefix")

    def ctm(meth, gname, params, binds, attr=None):
        out.append(_defn(gname, params, Tmpl(f"CFormatter.{meth}", params, binds).function(_method(ccls, meth), attr)))

    ctm("format_bp_message_processor_name", "c_message_processor_name", ["message_name"],
        {"message_name": ("self.format_message_name(t)", "message_name"), "prefix": PB})
    ctm("format_bp_alias_processor_name", "c_alias_processor_name", ["alias_name"],
        {"alias_name": ("self.format_alias_name(t)", "alias_name"), "prefix": PB})
    ctm("format_bp_array_processor_name_from_message_field", "c_array_processor_name_field",
        ["message_name", "number"],
        {"message_name": ("self.format_message_name(d.message)", "message_name"), "prefix": PB}, {"d.number": "number"})
    ctm("format_bp_array_processor_name_from_alias", "c_array_processor_name_alias", ["alias_name"],
        {"alias_name": ("self.format_alias_name(d)", "alias_name"), "prefix": PB})
    ctm("format_bp_message_field_descriptor_initer", "c_field_descriptors_initer_name", ["message_name"],
        {"message_name": ("self.format_message_name(t)", "message_name")})
    ctm("format_bp_message_json_formatter_name", "c_message_json_formatter_name", ["message_name"],
        {"message_name": ("self.format_message_name(t)", "message_name"), "prefix": JB})
    ctm("format_bp_alias_json_formatter_name", "c_alias_json_formatter_name", ["alias_name"],
        {"alias_name": ("self.format_alias_name(t)", "alias_name"), "prefix": JB})
    ctm("format_bp_array_json_formatter_name_from_message_field", "c_array_json_formatter_name_field",
        ["message_name", "number"],
        {"message_name": ("self.format_message_name(d.message)", "message_name"), "prefix": JB}, {"d.number": "number"})
    ctm("format_bp_array_json_formatter_name_from_alias", "c_array_json_formatter_name_alias", ["alias_name"],
        {"alias_name": ("self.format_alias_name(d)", "alias_name"), "prefix": JB})
    for meth in ("format_bp_array_processor_name", "format_bp_array_json_formatter_name", "format_message_type",
                 "format_bp_type", "format_bp_array", "format_bp_alias", "format_bp_message", "format_bp_enum",
                 "format_array_type"):
        skel[f"c10:c.formatter.{meth}"] = skeleton_digest(_method(ccls, meth))

    # '#include "{0}_bp.h"'.format(t.name)
    tinc = Tmpl("CFormatter.format_import_statement", ["proto_name"], {})
    tinc._attr = {"t.name": "proto_name"}
    terms = tinc.expr(_const_return(ccls, "format_import_statement"))
    if not (len(terms) == 3 and terms[0] == cstr('#include "') and terms[1] == "proto_name"
            and terms[2].endswith('"""') and len(terms[2]) > 4):
        raise Broken("translator C10: CFormatter.format_import_statement is not '#include \"<proto name><suffix>\"'",
                     " ++ ".join(terms))
    out.append(_defn("c_import_target", ["proto_name"], f'proto_name ++ {terms[2][:-3]}"'))

    # header guard, function names (renderer_h.py), size constant (block.py)
    hg = _cls(trees["H"], "BlockIncludeGuard", FILES["H"])
    out.append(_defn("h_guard_macro", ["proto_name"],
                     Tmpl("BlockIncludeGuard.format_proto_macro_name", ["proto_name"],
                          {"proto_name": ("snake_case(self.bound.name).upper()", "proto_name")}).function(
                         _method(hg, "format_proto_macro_name"))))
    skel["c10:h.BlockIncludeGuard.render"] = skeleton_digest(_method(hg, "render"))
    for cname, gname in (("BlockMessageEncoderBase", "c_encoder_name"), ("BlockMessageDecoderBase", "c_decoder_name"),
                         ("BlockMessageJsonFormatterBase", "c_json_name")):
        fn = _method(_cls(trees["H"], cname, FILES["H"]), "function_name")
        out.append(_defn(gname, ["message_name"],
                         Tmpl(f"{cname}.function_name", ["message_name"], {}).function(fn, {"self.message_name": "message_name"})))
        sig = _method(_cls(trees["H"], cname, FILES["H"]), "function_signature")
        skel[f"c10:h.{cname}.function_signature"] = skeleton_digest(sig)
    for cname, fmeth in (("BlockMessageProcessorBase", "format_bp_message_processor_name"),
                         ("BlockMessageBpJsonFormatterBase", "format_bp_message_json_formatter_name"),
                         ("BlockMessageFieldDescriptorsIniterBase", "format_bp_message_field_descriptor_initer"),
                         ("BlockAliasProcessorBase", "format_bp_alias_processor_name"),
                         ("BlockAliasJsonFormatterBase", "format_bp_alias_json_formatter_name")):
        v = _const_return(_cls(trees["H"], cname, FILES["H"]), "function_name")
        if ast.unparse(v) != f"self.formatter.{fmeth}(self.d)":
            raise Broken(f"translator C10: {cname}.function_name is not self.formatter.{fmeth}(self.d)", ast.unparse(v))
    blk_tree = _parse(f"{R}/block.py")
    bm = _cls(blk_tree, "BlockBindMessage", f"{R}/block.py")
    out.append(_defn("size_constant_name", ["upper_snake_message_name"],
                     Tmpl("BlockBindMessage.message_size_constant_name", ["upper_snake_message_name"], {}).function(
                         _method(bm, "message_size_constant_name"),
                         {"upper_case(snake_case(self.message_name))": "upper_snake_message_name"})))
    # struct attribute: option name and the test `alignment > 0`
    ms = _cls(trees["H"], "BlockMessageStruct", FILES["H"])
    skel["c10:h.BlockMessageStruct.after"] = skeleton_digest(_method(ms, "after"))
    skel["c10:h.BlockMessageStruct.before"] = skeleton_digest(_method(ms, "before"))
    for cname in ("BlockAliasDef", "BlockConstant", "BlockEnumDef", "BlockEnumField", "BlockEnumFieldList",
                  "BlockMessageLengthMacro", "BlockMessageFieldList", "BlockMessageField", "BlockImportList",
                  "BlockIncludeChildProtoHeader", "BlockDefineMacroOpMode", "BlockExternCPlusPlus"):
        c = _cls(trees["H"], cname, FILES["H"])
        for f in c.body:
            if isinstance(f, ast.FunctionDef):
                skel[f"c10:h.{cname}.{f.name}"] = skeleton_digest(f)
    for cname in ("BlockInclude", "BlockArrayProcessor", "BlockArrayJsonFormatter", "BlockArrayProcessorForAlias",
                  "BlockArrayJsonFormatterForAlias", "BlockArrayProcessorForMessageField",
                  "BlockArrayProcessorForMessageFieldList", "BlockArrayJsonFormatterForMessageField",
                  "BlockArrayJsonFormatterForMessageFieldList", "BlockMessageProcessorFieldItem",
                  "BlockMessageProcessorFieldList", "BlockMessageDescriptorBuild", "BlockMessageEncoder",
                  "BlockMessageDecoder", "BlockMessageJsonFormatter", "BlockAliasProcessorBody"):
        c = _cls(trees["C"], cname, FILES["C"])
        for f in c.body:
            if isinstance(f, ast.FunctionDef) and f.name in ("render", "blocks", "condition", "block", "before", "wraps"):
                skel[f"c10:c.{cname}.{f.name}"] = skeleton_digest(f)

    # ---- out file name, extensions ----
    fo = _method(base_cls, "format_out_filename")
    asg = [s for s in _body(fo) if isinstance(s, ast.Assign) and ast.unparse(s.targets[0]) == "out_filename"]
    if len(asg) != 1:
        raise Broken("translator C10: Formatter.format_out_filename: expected one assignment to out_filename")
    t = Tmpl("Formatter.format_out_filename", ["out_base_name", "extension"], {})
    out.append(_defn("out_filename", ["out_base_name", "extension"], " ++ ".join(t.expr(asg[0].value))))
    skel["c10:formatter.format_out_filename"] = skeleton_digest(fo, [asg[0].value])
    ext_rows = []
    for mod, cname, L in (("H", "RendererCHeader", "h"), ("C", "RendererC", "c"), ("P", "RendererPy", "py"),
                          ("G", "RendererGo", "go")):
        v = _const_return(_cls(trees[mod], cname, FILES[mod]), "file_extension")
        if not (isinstance(v, ast.Constant) and isinstance(v.value, str)):
            raise Broken(f"translator C10: {cname}.file_extension is not a string constant")
        out.append(f"Definition ext_{L} : string := {cstr(v.value)}.")

    # ---- Python templates ----
    pcls = ftrees["LPy"][1]

    def related(meth, gname):
        v = _const_return(pcls, meth)
        if not (isinstance(v, ast.Call) and ast.unparse(v.func) == "self.format_name_related_to_definition"
                and len(v.args) == 2 and ast.unparse(v.args[0]) == "t" and isinstance(v.args[1], ast.Constant)):
            raise Broken(f"translator C10: PyFormatter.{meth} is not format_name_related_to_definition(t, '<fmt>')")
        fmt = v.args[1].value
        parts = fmt.split("{definition_name}")
        if len(parts) != 2 or "{" in parts[0] + parts[1]:
            raise Broken(f"translator C10: PyFormatter.{meth}: unsupported format", fmt)
        terms = [cstr(parts[0])] * bool(parts[0]) + ["definition_name"] + [cstr(parts[1])] * bool(parts[1])
        out.append(_defn(gname, ["definition_name"], " ++ ".join(terms)))

    related("formart_default_factory_alias", "py_default_factory_name")
    related("format_processor_name_enum", "py_processor_name_enum")
    related("format_processor_name_alias", "py_processor_name_alias")
    fn = _method(pcls, "format_enum_value_to_name_map_name")
    body = _body(fn)
    if not (len(body) == 2 and ast.unparse(body[0]) == "enum_name = self.format_enum_name(enum)"
            and isinstance(body[1], ast.Return) and isinstance(body[1].value, ast.Call)
            and ast.unparse(body[1].value.func) == "upper_case" and len(body[1].value.args) == 1):
        raise Broken("translator C10: PyFormatter.format_enum_value_to_name_map_name: unexpected shape")
    t = Tmpl("PyFormatter.format_enum_value_to_name_map_name", ["enum_name"], {})
    out.append(_defn("py_value_map_name_raw", ["enum_name"], " ++ ".join(t.expr(body[1].value.args[0]))))
    fn = _method(pcls, "format_import_statement")
    body = _body(fn)
    if not (len(body) == 3 and isinstance(body[0], ast.Assign) and ast.unparse(body[0].targets[0]) == "module_name"
            and isinstance(body[0].value, ast.BoolOp) and isinstance(body[0].value.op, ast.Or)
            and ast.unparse(body[0].value.values[0]) == "t.get_option_as_string_or_raise('py.module_name')"
            and ast.unparse(body[1]) == "if as_name:\n    return f'import {module_name} as {as_name}'"
            and ast.unparse(body[2]) == "return f'import {module_name}'"):
        raise Broken("translator C10: PyFormatter.format_import_statement: unexpected shape", ast.unparse(fn)[:600])
    t = Tmpl("PyFormatter.format_import_statement", ["proto_name"], {})
    t._attr = {"t.name": "proto_name"}
    out.append(_defn("py_default_module", ["proto_name"], " ++ ".join(t.expr(body[0].value.values[1]))))
    for meth in ("format_default_value", "format_field_default_value", "format_default_value_enum",
                 "format_default_value_array", "format_default_value_alias", "format_default_value_message",
                 "format_field_default_alias", "format_field_default_message", "format_field_default_array",
                 "formart_default_factory_array", "formart_default_factory_message",
                 "format_field_with_default_factory", "format_array_type", "format_processor",
                 "format_processor_enum", "format_processor_alias", "format_processor_message"):
        skel[f"c10:py.formatter.{meth}"] = skeleton_digest(_method(pcls, meth))
    for cname in ("BlockImportChildProto", "BlockImportChildProtoList", "BlockAliasMethodProcessor",
                  "BlockAliasMethodDefaultFactory", "BlockAliasDef", "BlockConstant", "BlockEnumField",
                  "BlockEnumFieldList", "BlockIntEnumFieldListWrapper", "BlockEnumValueToNameMap",
                  "BlockEnumMethodProcessor", "BlockMessageField", "BlockMessageClass", "BlockMessageFieldList"):
        c = _cls(trees["P"], cname, FILES["P"])
        for f in c.body:
            if isinstance(f, ast.FunctionDef):
                skel[f"c10:py.{cname}.{f.name}"] = skeleton_digest(f)

    # ---- Go templates ----
    gcls = ftrees["LGo"][1]
    fn = _method(gcls, "format_import_statement")
    body = _body(fn)
    if not (len(body) == 3 and isinstance(body[0], ast.Assign) and ast.unparse(body[0].targets[0]) == "path"
            and isinstance(body[0].value, ast.BoolOp) and isinstance(body[0].value.op, ast.Or)
            and ast.unparse(body[0].value.values[0]) == "t.get_option_as_string_or_raise('go.package_path')"
            and ast.unparse(body[1]) == "if as_name:\n    return f'import {as_name} \"{path}\"'"
            and ast.unparse(body[2]) == "return f'import \"{path}\"'"):
        raise Broken("translator C10: GoFormatter.format_import_statement: unexpected shape", ast.unparse(fn)[:600])
    t = Tmpl("GoFormatter.format_import_statement", ["proto_name"], {})
    t._attr = {"t.name": "proto_name"}
    out.append(_defn("go_default_path", ["proto_name"], " ++ ".join(t.expr(body[0].value.values[1]))))
    for cname in ("BlockPackageName", "BlockImportChildProto", "BlockImportChildProtoList", "BlockGeneralImports",
                  "BlockAvoidGeneralImportsNotUsed", "BlockAliasDef", "BlockAliasMethodBpProcessor",
                  "BlockConstant", "BlockEnumField", "BlockEnumFieldList", "BlockEnumType",
                  "BlockEnumMethodBpProcessor", "BlockEnumMethodString", "BlockMessageStruct",
                  "BlockMessageField", "BlockMessageSizeConst", "BlockMessageMethodSize",
                  "BlockMessageMethodString", "BlockMessageMethodEncode", "BlockMessageMethodDecode",
                  "BlockMessageMethodBpProcessor", "BlockMessageMethodBpGetAccessor",
                  "BlockMessageMethodBpSetByte", "BlockMessageMethodBpGetByte", "BlockMessageMethodBpProcessInt"):
        c = _cls(trees["G"], cname, FILES["G"])
        for f in c.body:
            if isinstance(f, ast.FunctionDef) and f.name in ("render", "before", "blocks", "wraps"):
                skel[f"c10:go.{cname}.{f.name}"] = skeleton_digest(f)

    # ---- shared hand-modelled functions ----
    for meth in ("_get_definition_name", "_get_definition_name_prefix", "_format_definition_name_inner_proto",
                 "format_definition_name_inner_proto", "format_case_style", "format_definition_name",
                 "format_name_related_to_definition", "format_enum_name", "format_message_name",
                 "format_alias_name", "format_constant_name", "format_enum_field_name",
                 "format_message_field_name", "format_type", "format_enum_type", "format_message_type",
                 "format_alias_type"):
        skel[f"c10:formatter.{meth}"] = skeleton_digest(_method(base_cls, meth))
    ast_tree = _parse("compiler/bitproto/_ast.py")
    skel["c10:_ast.Scope.filter"] = skeleton_digest(_method(_cls(ast_tree, "Scope", "_ast.py"), "filter"))
    skel["c10:_ast.Scope.protos"] = skeleton_digest(_method(_cls(ast_tree, "Scope", "_ast.py"), "protos"))
    skel["c10:_ast.Message.sorted_fields"] = skeleton_digest(_method(_cls(ast_tree, "Message", "_ast.py"), "sorted_fields"))
    skel["c10:_ast.Enum.fields"] = skeleton_digest(_method(_cls(ast_tree, "Enum", "_ast.py"), "fields"))
    skel["c10:block.BlockBoundDefinitionDispatcher.blocks"] = skeleton_digest(
        _method(_cls(blk_tree, "BlockBoundDefinitionDispatcher", "block.py"), "blocks"))
    skel["c10:block.BlockComposition.render"] = skeleton_digest(_method(_cls(blk_tree, "BlockComposition", "block.py"), "render"))
    skel["c10:block.BlockWrapper.render"] = skeleton_digest(_method(_cls(blk_tree, "BlockWrapper", "block.py"), "render"))
    skel["c10:block.BlockConditional.render"] = skeleton_digest(_method(_cls(blk_tree, "BlockConditional", "block.py"), "render"))
    # the four dispatch kinds are pairwise unrelated classes (so the order of the isinstance chain is irrelevant)
    bases = {}
    for n in ast_tree.body:
        if isinstance(n, ast.ClassDef):
            bases[n.name] = [ast.unparse(b) for b in n.bases]

    def ancestors(c):
        seen, todo = set(), [c]
        while todo:
            x = todo.pop()
            for b in bases.get(x, []):
                if b not in seen:
                    seen.add(b)
                    todo.append(b)
        return seen
    ks = list(DKIND)
    for a in ks:
        for b in ks:
            if a != b and b in ancestors(a):
                raise Broken(f"translator C10: _ast.{a} inherits from _ast.{b}: dispatch order would matter")

    # ---- string literals: format_str_value of the three formatters, Formatter.escape_str_value ----
    shapes = set()
    for L, (rel, cname) in fm.items():
        v = _const_return(ftrees[L][1], "format_str_value")
        shapes.add(ast.unparse(v))
    verbatim = "'\"{0}\"'.format(value)"
    escaped = "'\"{0}\"'.format(self.escape_str_value(value))"
    if shapes == {verbatim}:
        codes: List[int] = []
    elif shapes == {escaped}:
        fn = _method(base_cls, "escape_str_value")
        tables = [st for st in _body(fn) if isinstance(st, ast.Assign) and ast.unparse(st.targets[0]) == "escapes"
                  and isinstance(st.value, ast.Dict)]
        if len(tables) != 1:
            raise Broken("translator C10: Formatter.escape_str_value: expected one dict literal `escapes`")
        codes = []
        for k, val in zip(tables[0].value.keys, tables[0].value.values):
            if not (isinstance(k, ast.Constant) and isinstance(k.value, str) and len(k.value) == 1
                    and isinstance(val, ast.Constant) and isinstance(val.value, str) and val.value.startswith("\\")
                    and len(val.value) == 2 and val.value[1] not in '"\n\r'):
                if not (isinstance(k, ast.Constant) and k.value in ("\\", '"') and isinstance(val, ast.Constant)
                        and val.value == "\\" + k.value):
                    raise Broken("translator C10: Formatter.escape_str_value: unsupported entry of `escapes`",
                                 ast.unparse(k) + ": " + ast.unparse(val))
            codes.append(ord(k.value))
        # the loop must apply the table to every character: pinned by its digest (table masked)
        skel["c10:formatter.escape_str_value"] = skeleton_digest(fn, [tables[0].value])
    else:
        raise Broken("translator C10: the three format_str_value do not share one known shape", repr(sorted(shapes)))
    out.append("Definition str_escaped_chars : list nat := [" + "; ".join(f"{c}%nat" for c in codes) + "].")

    # ---- option validator ----
    opt_tree = _parse("compiler/bitproto/options.py")
    found = None
    for n in ast.walk(opt_tree):
        if (isinstance(n, ast.Call) and ast.unparse(n.func) == "OptionDescriptor" and n.args
                and isinstance(n.args[0], ast.Constant) and n.args[0].value == "c.struct_packing_alignment"):
            found = n
    if found is None or len(found.args) < 3 or not isinstance(found.args[2], ast.Lambda):
        raise Broken("translator C10: options.py: descriptor of c.struct_packing_alignment not found / no lambda validator")
    lam = found.args[2]
    if [a.arg for a in lam.args.args] != ["v"]:
        raise Broken("translator C10: options.py: validator lambda does not take exactly `v`")
    from translate import Tr
    body = Tr("options.c.struct_packing_alignment").b(lam.body, {"v": "v"})
    if not (isinstance(found.args[1], ast.Constant) and found.args[1].value == 0):
        raise Broken("translator C10: options.py: default of c.struct_packing_alignment is not 0")
    out.append("Open Scope Z_scope.")
    out.append(f"Definition align_valid (v : Z) : bool := {body}.")
    return "\n".join(out) + "\n", skel


GENERATORS: Dict[str, Callable[[], Tuple[str, Dict[str, str]]]] = {"GenC10.v": gen_c10}
