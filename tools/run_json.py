"""run_json — worker for C16: compile a schema with the /repo compiler to Python and to
standard-mode C, then for every value tree observe
    Python   to_dict(), to_json(), to_json(separators=(",", ":")), encode()
    C        Json<Msg>() after (a) assigning every leaf of a zeroed struct, (b) Decode<Msg>()
             of the Python encoder's bytes
(generated C + lib/c/bitproto.c + a per-schema harness, gcc -> shared object, ctypes).

stdin : JSON list of jobs {id, dir, files{name:text}, module, top, tree, values:[value tree],
        opt ("-O1"), cc ("gcc")}
stdout: JSON list of results.  Nothing reported here is trusted: Coq re-evaluates model and
specification on the same inputs.
"""
import ctypes
import enum
import importlib
import json
import os
import re
import signal
import subprocess
import sys
import traceback

import run_py
from run_py import compile_files

REPO = os.environ.get("VERIF_REPO", "/repo")


# ---- Python side ------------------------------------------------------------------------

def conv(ft, fv, cur):
    """Value to store for type ft.  Containers keep the type the generated default has
    (bytearray for `byte[n]`, list otherwise)."""
    k = ft[0]
    if k == "alias":
        return conv(ft[1], fv, cur)
    if k == "arr":
        if isinstance(cur, bytearray):
            return bytearray(fv)
        return [conv(ft[2], x, cur[i] if cur is not None and i < len(cur) else None) for i, x in enumerate(fv)]
    if k == "msg":
        set_value(cur, ft, fv)
        return cur
    return fv


def set_value(obj, tree, v):
    for num, name, ft in tree[1]:
        fv = v[str(num)] if str(num) in v else v[num]
        setattr(obj, name, conv(ft, fv, getattr(obj, name)))


def dict_shape(x):
    """to_dict() result -> JSON-able tagged tree (key order kept)."""
    if isinstance(x, bool):
        return ["b", x]
    if isinstance(x, enum.IntEnum):
        return ["i", int(x)]
    if isinstance(x, int):
        return ["i", x]
    if isinstance(x, bytearray):
        return ["y", list(x)]
    if isinstance(x, (list, tuple)):
        return ["l", [dict_shape(e) for e in x]]
    if isinstance(x, dict):
        return ["d", [[str(k), dict_shape(e)] for k, e in x.items()]]
    return ["?", type(x).__name__]


def guarded(fn):
    try:
        signal.alarm(20)
        return {"ok": fn()}
    except BaseException as e:  # noqa
        return {"exc": type(e).__name__, "msg": str(e)[:200]}
    finally:
        signal.alarm(0)


# ---- C side -------------------------------------------------------------------------------

def leaves(tree, path, out):
    k = tree[0]
    if k == "alias":
        leaves(tree[1], path, out)
    elif k == "arr":
        for i in range(tree[1]):
            leaves(tree[2], f"{path}[{i}]", out)
    elif k == "msg":
        for num, name, ft in tree[1]:
            leaves(ft, f"{path}.{name}", out)
    else:
        out.append(path)


def leaf_values(tree, v, out):
    k = tree[0]
    if k == "alias":
        leaf_values(tree[1], v, out)
    elif k == "arr":
        for x in v:
            leaf_values(tree[2], x, out)
    elif k == "msg":
        for num, name, ft in tree[1]:
            leaf_values(ft, v[str(num)] if str(num) in v else v[num], out)
    else:
        out.append(int(v))


def build_c(job, res):
    d = job["dir"]
    gen = compile_files(job, lang="c")
    res["generated_c"] = sorted(gen)
    main_h = job["module"][:-3] + "_bp.h"         # module = <base>_bp
    hdr = gen.get(main_h)
    if hdr is None:
        raise RuntimeError(f"{main_h} not generated")
    want = job["top"].replace("_", "").lower()
    cands = re.findall(r"int Json(\w+)\(struct (\w+) \*m, char \*s\);", hdr)
    cands = [(a, b) for a, b in cands if a == b and a.replace("_", "").lower() == want]
    if len(cands) != 1:
        raise RuntimeError(f"cannot find Json<{job['top']}> in {main_h}")
    cname = cands[0][0]
    lv = []
    leaves(job["tree"], "m", lv)
    src = ["#include <stdint.h>", "#include <string.h>", f'#include "{main_h}"', "",
           "int verif_fill_json(const int64_t *v, char *out) {",
           f"    struct {cname} m;", "    memset(&m, 0, sizeof(m));"]
    src += [f"    {p} = v[{i}];" for i, p in enumerate(lv)]
    src += [f"    return Json{cname}(&m, out);", "}", "",
            "int verif_decode_json(unsigned char *s, char *out) {",
            f"    struct {cname} m;", "    memset(&m, 0, sizeof(m));",
            f"    Decode{cname}(&m, s);", f"    return Json{cname}(&m, out);", "}", ""]
    with open(os.path.join(d, "verif_harness.c"), "w") as f:
        f.write("\n".join(src))
    cfiles = [os.path.join(d, n) for n in sorted(gen) if n.endswith(".c")]
    so = os.path.join(d, "verif_json.so")
    cmd = [job.get("cc", "gcc"), job.get("opt", "-O1"), "-std=c99", "-shared", "-fPIC", "-w",
           "-I", os.path.join(REPO, "lib/c"), "-I", d, "-o", so,
           os.path.join(d, "verif_harness.c"),
           job.get("rt_obj") or os.path.join(REPO, "lib/c/bitproto.c")] + cfiles
    p = subprocess.run(cmd, capture_output=True, text=True, timeout=900)
    if p.returncode != 0:
        raise RuntimeError("cc failed: " + p.stderr[-1500:])
    lib = ctypes.CDLL(so)
    lib.verif_fill_json.restype = ctypes.c_int
    lib.verif_decode_json.restype = ctypes.c_int
    return lib, len(lv)


def s64(x):
    x &= (1 << 64) - 1
    return x - (1 << 64) if x >> 63 else x


def do_job(job):
    res = {"id": job["id"]}
    d = job["dir"]
    try:
        signal.alarm(120)
        res["generated"] = sorted(compile_files(job))
    except BaseException as e:  # noqa
        res["compile_error"] = f"{type(e).__name__}: {e}"
        res["trace"] = traceback.format_exc()[-1500:]
        return res
    finally:
        signal.alarm(0)
    lib = None
    nleaves = 0
    try:
        signal.alarm(1000)
        lib, nleaves = build_c(job, res)
    except BaseException as e:  # noqa
        res["c_error"] = f"{type(e).__name__}: {e}"[:2000]
    finally:
        signal.alarm(0)
    sys.path.insert(0, d)
    try:
        for m in list(sys.modules):
            if m.endswith("_bp"):
                del sys.modules[m]
        importlib.invalidate_caches()
        try:
            mod = importlib.import_module(job["module"])
            cls = getattr(mod, job["top"])
        except BaseException as e:  # noqa
            res["import_error"] = f"{type(e).__name__}: {e}"
            return res
        runs = []
        for v in job.get("values", []):
            r = {}
            enc = None
            try:
                signal.alarm(20)
                m = cls()
                set_value(m, job["tree"], v)
            except BaseException as e:  # noqa
                r["set_exc"] = f"{type(e).__name__}: {e}"[:300]
                runs.append(r)
                continue
            finally:
                signal.alarm(0)
            r["dict"] = guarded(lambda: dict_shape(m.to_dict()))
            r["json"] = guarded(lambda: m.to_json())
            r["compact"] = guarded(lambda: m.to_json(separators=(",", ":")))
            e = guarded(lambda: list(m.encode()))
            r["enc"] = e
            enc = e.get("ok")
            if lib is not None:
                lv = []
                leaf_values(job["tree"], v, lv)
                size = 4096 + 96 * nleaves + 64 * len(json.dumps(job["tree"]))
                try:
                    signal.alarm(20)
                    arr = (ctypes.c_int64 * max(1, len(lv)))(*[s64(x) for x in lv])
                    buf = ctypes.create_string_buffer(size)
                    ctypes.memset(buf, 0xAA, size)          # stale bytes must not look like text
                    n = lib.verif_fill_json(arr, buf)
                    r["c_fill"] = {"ok": buf.raw[:max(0, min(n, size))].decode("latin-1"), "n": n}
                except BaseException as ex:  # noqa
                    r["c_fill"] = {"exc": type(ex).__name__}
                finally:
                    signal.alarm(0)
                if enc is not None:
                    try:
                        signal.alarm(20)
                        sb = (ctypes.c_ubyte * (len(enc) + 8))(*enc)
                        buf = ctypes.create_string_buffer(size)
                        ctypes.memset(buf, 0xAA, size)
                        n = lib.verif_decode_json(sb, buf)
                        r["c_dec"] = {"ok": buf.raw[:max(0, min(n, size))].decode("latin-1"), "n": n}
                    except BaseException as ex:  # noqa
                        r["c_dec"] = {"exc": type(ex).__name__}
                    finally:
                        signal.alarm(0)
            runs.append(r)
        res["runs"] = runs
    finally:
        sys.path.remove(d)
    return res


def main():
    jobs = json.load(sys.stdin)
    import bitproto
    import bitprotolib.bp as bp
    assert bitproto.__file__.startswith(REPO + "/"), bitproto.__file__
    assert bp.__file__.startswith(REPO + "/"), bp.__file__
    out = []
    real_stdout = sys.stdout
    sys.stdout = sys.stderr
    for job in jobs:
        try:
            out.append(do_job(job))
        except BaseException as e:  # noqa
            out.append({"id": job.get("id"), "worker_error": f"{type(e).__name__}: {e}"})
    sys.stdout = real_stdout
    json.dump(out, sys.stdout)


if __name__ == "__main__":
    main()
