"""cside — shared harness of C03 / C06 / C07 (C runtime, standard mode).

T2: the REAL lib/c/bitproto.c and the REAL generated C code are compiled with gcc/clang into
shared objects and driven through ctypes by the worker tools/run_c.py; inputs and observed
outputs go into Coq case files where the MODEL (coq/theories/CRt.v, at the same build flag B
and host order E = LE) and the SPECIFICATION (Spec.wire / CRt.store) are evaluated by
vm_compute (coq/theories/CCase.v gives one integer code per case: bit0 = implementation
differs from the model, bit1 = implementation differs from the specification, bit2 = the
harness laid a value out differently from the model's [store]).
"""
from __future__ import annotations

import json
import os
import random
from typing import Any, Callable, Dict, List, Optional, Sequence, Tuple

import pyside
import schema_gen as sg
import vlib
from t1_c import CT1, T1Error
from vlib import Broken, Check, cbool, clist, cz, run_workers

HEADER = """From Coq Require Import ZArith List Bool.
From BP Require Import Bits Schema Spec CMem CRt CCase.
From BPGen Require Import GenC.
Import ListNotations.
Open Scope Z_scope.
"""

ASSUME = [
    "Coq 8.16.1 kernel and its vm_compute (sweeps, witnesses, correspondence evaluation)",
    "tools/translate_crt.py (T0) reads lib/c/bitproto.{c,h} correctly: C integer promotion / usual arithmetic "
    "conversions of the translated expressions (uint32/uint64 wrap, int not wrapped: all int quantities are "
    "bounded by 65535+64 for accepted schemas), `/` on non-negative ints",
    "C semantics of the statements of bitproto.c as transcribed in coq/theories/CRt.v (control skeleton pinned by "
    "digest, validated by T2 against gcc on every run); unaligned uint16/32/64 accesses behave as byte-wise "
    "accesses (x86-64); the strict-aliasing UB of the uint32_t*/uint16_t* casts is not modelled",
    "gcc/clang compile the C source according to that semantics (sampled at -O0..-O3, gcc and clang, one and "
    "several translation units, ASan/UBSan in the thorough tier)",
    "object-tree data model: the element stride of arrays of structs equals sizeof(struct) and &m->field "
    "addresses the field object (gcc's layout, read by an offsetof/sizeof probe only to drive ctypes)",
    "a big-endian host differs from the model's E=BE only in the byte order of native loads/stores "
    "(no big-endian machine is available: the BE code paths are tied by running the -DBP_BIG_ENDIAN build "
    "on x86, i.e. at (B,E)=(BE,LE), against the model at the same (B,E))",
]

FLAG = dict(bool=1, int=2, uint=3, byte=4, enum=5, alias=6, arr=7, msg=8)

BOUNDARY_N = sorted(set(list(range(1, 10)) + [15, 16, 17, 23, 24, 25, 31, 32, 33, 39, 40, 41, 47, 48, 49, 55, 56, 57,
                                              63, 64, 65, 71, 72, 73, 95, 96, 97, 127, 128, 129, 130]))


def storage_bytes(n: int) -> int:
    nb = (n + 7) // 8
    return 1 if nb == 1 else 2 if nb == 2 else 4 if nb <= 4 else 8


def zl(bs: Sequence[int]) -> str:
    return clist(str(int(b)) for b in bs)


# --------------------------------------------------------------------------------------
# shared-object builds of the runtime alone
# --------------------------------------------------------------------------------------

def rt_configs(ck: Check, be: bool) -> List[Dict[str, Any]]:
    d = ["-DBP_BIG_ENDIAN"] if be else []
    tag = "be-" if be else ""
    cfgs = [dict(name=tag + "gcc-O0", cc="gcc", flags=["-O0"] + d),
            dict(name=tag + "gcc-O2", cc="gcc", flags=["-O2"] + d)]
    if not ck.quick:
        cfgs += [dict(name=tag + "gcc-O1", cc="gcc", flags=["-O1"] + d),
                 dict(name=tag + "gcc-O3", cc="gcc", flags=["-O3"] + d),
                 dict(name=tag + "clang-O0", cc="clang", flags=["-O0"] + d),
                 dict(name=tag + "clang-O2", cc="clang", flags=["-O2"] + d),
                 dict(name=tag + "clang-O3", cc="clang", flags=["-O3"] + d)]
    return cfgs


SAN_FLAGS = ["-O1", "-g", "-fsanitize=address,undefined", "-fno-sanitize=alignment", "-fno-sanitize-recover=all"]


SAN_LOG = os.path.join(vlib.BUILD, "san_logs")


def san_env() -> Dict[str, str]:
    rc, out, _ = vlib.run(["gcc", "-print-file-name=libasan.so"])
    os.makedirs(SAN_LOG, exist_ok=True)
    for f in os.listdir(SAN_LOG):
        os.remove(os.path.join(SAN_LOG, f))
    lp = os.path.join(SAN_LOG, "san")
    return {"LD_PRELOAD": out.strip(),
            "ASAN_OPTIONS": f"detect_leaks=0:abort_on_error=1:halt_on_error=1:log_path={lp}",
            "UBSAN_OPTIONS": f"halt_on_error=1:print_stacktrace=0:log_path={lp}"}


def san_headline() -> str:
    """first lines of the most recent sanitizer report (the worker's stderr tail only shows the stack)"""
    try:
        fs = sorted((os.path.join(SAN_LOG, f) for f in os.listdir(SAN_LOG)), key=os.path.getmtime)
        if not fs:
            return ""
        lines = [ln.strip() for ln in open(fs[-1], errors="replace").read().split("\n") if ln.strip()]
        return " | sanitizer: " + " ".join(lines[:3])[:400]
    except OSError:
        return ""


def build_rt(ck: Check, cfg: Dict[str, Any]) -> str:
    d = os.path.join(ck.dir, "rt")
    os.makedirs(d, exist_ok=True)
    out = os.path.join(d, f"libbitproto_{cfg['name']}.so")
    src = os.path.join(vlib.REPO, "lib/c/bitproto.c")
    rc, o, e = vlib.run([cfg["cc"], "-shared", "-fPIC", "-w"] + cfg["flags"] +
                        ["-I", os.path.join(vlib.REPO, "lib/c"), src, "-o", out], timeout=300)
    if rc != 0:
        raise Broken(f"lib/c/bitproto.c does not compile with {cfg['cc']} {' '.join(cfg['flags'])}", (o + e)[-3000:])
    return out


# --------------------------------------------------------------------------------------
# direct runtime calls: case generators (each case carries the Coq expression builder)
# --------------------------------------------------------------------------------------

def nbytes_for(bits: int) -> int:
    return (bits + 7) // 8


def gen_copy_cases(ck: Check, rng: random.Random) -> List[Dict[str, Any]]:
    ns = BOUNDARY_N if ck.quick else list(range(1, 131))
    cases = []
    for n in ns:
        for di in range(8):
            for si in range(8):
                src = [rng.randrange(256) for _ in range(nbytes_for(si + n))]
                cases.append(dict(op="copy", n=n, di=di, si=si, dst=[0] * nbytes_for(di + n), src=src, kind="zero"))
    extra = ck.n(400, 3000)
    for _ in range(extra):
        n = rng.choice(BOUNDARY_N) if rng.random() < 0.6 else rng.randint(1, 300)
        r = rng.random()
        if r < 0.3:        # pointer bumps: di, si >= 8
            di, si = rng.randrange(0, 48), rng.randrange(0, 48)
        else:
            di, si = rng.randrange(8), rng.randrange(8)
        src = [rng.randrange(256) for _ in range(nbytes_for(si + n))]
        dlen = nbytes_for(di + n)
        kind = rng.choice(["zero", "low", "random"])
        if kind == "zero":
            dst = [0] * dlen
        elif kind == "low":      # bits below di random, bits >= di zero: the callers' precondition
            z = rng.getrandbits(di) if di else 0
            dst = list(z.to_bytes(dlen, "little"))
        else:
            dst = [rng.randrange(256) for _ in range(dlen)]
        # all-zero source bytes exercise the `if (ch)` skip
        if rng.random() < 0.1:
            src = [0 if rng.random() < 0.7 else b for b in src]
        cases.append(dict(op="copy", n=n, di=di, si=si, dst=dst, src=src, kind=kind))
    return cases


def gen_base_cases(ck: Check, rng: random.Random, be: bool) -> List[Dict[str, Any]]:
    cases = []
    widths = list(range(1, 65))
    if not be:
        widths += [72, 80, 96, 128, 160, 192, 256, 320, 1000]     # batch sizes (LE only: nbits*cap)
    for nbits in widths:
        size = storage_bytes(nbits) if nbits <= 64 else nbytes_for(nbits)
        offs = list(range(8)) + ([rng.randrange(8, 200)] if not ck.quick else [])
        for i in offs:
            for enc in (True, False):
                slen = nbytes_for(i + nbits)
                if enc:
                    z = rng.getrandbits(i) if i else 0
                    s = list(z.to_bytes(slen, "little"))
                    data = [rng.randrange(256) for _ in range(size)]
                else:
                    s = [rng.randrange(256) for _ in range(slen)]
                    data = [0] * size
                cases.append(dict(op="base", enc=enc, nbits=nbits, i=i, s=s, data=data))
    return cases


def gen_int_cases(ck: Check, rng: random.Random) -> List[Dict[str, Any]]:
    cases = []
    for nbits in range(1, 65):
        size = storage_bytes(nbits)
        for i in ([0, 3, 5, 7] if ck.quick else range(8)):
            for enc in (True, False):
                slen = nbytes_for(i + nbits)
                if enc:
                    z = rng.getrandbits(i) if i else 0
                    s = list(z.to_bytes(slen, "little"))
                    data = [rng.randrange(256) for _ in range(size)]
                else:
                    s = [rng.randrange(256) for _ in range(slen)]
                    if rng.random() < 0.3:      # force the sign bit
                        k = i + nbits - 1
                        s[k // 8] |= 1 << (k % 8)
                    data = [0] * size
                cases.append(dict(op="int", enc=enc, size=size, nbits=nbits, i=i, s=s, data=data))
    # the sign handler alone, on arbitrary storage contents
    for nbits in range(1, 65):
        size = storage_bytes(nbits)
        for _ in range(2):
            cases.append(dict(op="sign", enc=False, size=size, nbits=nbits, i=0, s=[0],
                              data=[rng.randrange(256) for _ in range(size)]))
    return cases


def gen_array_cases(ck: Check, rng: random.Random, be: bool) -> List[Dict[str, Any]]:
    cases = []
    kinds = []
    for n in ([1, 3, 7, 8, 9, 13, 16, 17, 24, 31, 32, 33, 48, 63, 64] if ck.quick else range(1, 65)):
        kinds.append(("uint", n, 0))
        kinds.append(("int", n, 0))
        kinds.append(("enum", n, 0))
        if not be and n in (8, 16, 32, 64):
            # alias elements: only legal here when the batch path is taken (processor is NULL)
            kinds.append(("alias", n, FLAG["uint"]))
            kinds.append(("alias", n, FLAG["int"]))
    kinds += [("bool", 1, 0), ("byte", 8, 0)]
    kinds += [("alias", 8, FLAG["byte"])] if not be else []
    for kind, nbits, to_flag in kinds:
        size = 1 if kind in ("bool", "byte") else storage_bytes(nbits)
        for rep in range(ck.n(2, 6)):
            cap = rng.choice([1, 2, 3, 5]) if rng.random() < 0.85 else rng.randint(6, 40)
            ext = rng.random() < 0.4
            enc = rng.random() < 0.5
            i = rng.randrange(8) if rng.random() < 0.8 else rng.randrange(8, 100)
            total = (16 if ext else 0) + cap * nbits
            slen = nbytes_for(i + total)
            if enc:
                z = rng.getrandbits(i) if i else 0
                s = list(z.to_bytes(slen, "little"))
                data = [rng.randrange(256) for _ in range(cap * size)]
            else:
                s = [rng.randrange(256) for _ in range(slen)]
                if ext:
                    # the sender's capacity: mostly our own, sometimes larger/smaller (skip formula)
                    ahead = cap if rng.random() < 0.6 else rng.randint(0, 2 * cap + 3)
                    z = int.from_bytes(bytes(s), "little")
                    z &= ~(0xFFFF << i)
                    z |= ahead << i
                    s = list(z.to_bytes(slen, "little"))
                data = [0] * (cap * size)
            cases.append(dict(op="array", enc=enc, ext=ext, cap=cap, flag=FLAG[kind], nbits=nbits, size=size,
                              to_flag=to_flag, i=i, s=s, data=data))
    return cases


def rt_expr(c: Dict[str, Any], r: Dict[str, Any], B: str) -> str:
    E = c.get("host", "LE")
    g = cbool(bool(r.get("guards")) and r.get("src_same", True))
    if c["op"] == "copy":
        return (f"(copy_case {B} {E} {c['n']} {zl(c['dst'])} 0 {zl(c['src'])} 0 {c['di']} {c['si']} "
                f"{zl(r['dst'])} {g})")
    if c["op"] == "base":
        fn = "base_case_spec" if B == E else "base_case"
        return (f"({fn} {B} {E} {cbool(c['enc'])} {c['nbits']} {c['i']} {zl(c['s'])} {zl(c['data'])} "
                f"{zl(r['s'])} {r['i']} {zl(r['data'])} {g})")
    if c["op"] == "int":
        return (f"(int_case {B} {E} {cbool(c['enc'])} {c['size']} {c['nbits']} {c['i']} {zl(c['s'])} {zl(c['data'])} "
                f"{zl(r['s'])} {r['i']} {zl(r['data'])} {g})")
    if c["op"] == "sign":
        return f"(sign_case {E} {c['size']} {c['nbits']} {zl(c['data'])} {zl(r['data'])} {g})"
    if c["op"] == "array":
        return (f"(array_case {B} {E} {cbool(c['enc'])} {cbool(c['ext'])} {c['cap']} {c['flag']} {c['nbits']} "
                f"{c['size']} {c['to_flag']} {c['i']} {zl(c['s'])} {zl(c['data'])} "
                f"{zl(r['s'])} {r['i']} {zl(r['data'])} {g})")
    raise KeyError(c["op"])


def run_rt(ck: Check, be: bool, cases: List[Dict[str, Any]], tag: str,
           cfgs: Optional[List[Dict[str, Any]]] = None, env: Optional[Dict[str, str]] = None
           ) -> Dict[str, Any]:
    """Run the cases against every configuration's shared object, evaluate the model on the
    same inputs in Coq.  Identical observations across configurations are evaluated once.
    Reports violations / broken ties on ck; returns statistics."""
    B = "BE" if be else "LE"
    cfgs = cfgs if cfgs is not None else rt_configs(ck, be)
    per_cfg: Dict[str, List[Any]] = {}
    for cfg in cfgs:
        lib = build_rt(ck, cfg)
        chunk = 400
        jobs = [dict(kind="rt", lib=lib, cases=cases[k:k + chunk]) for k in range(0, len(cases), chunk)]
        res = run_workers("run_c.py", jobs, chunk=1, timeout=600, extra_env=env)
        flat: List[Any] = []
        for j, r in zip(jobs, res):
            if "results" in r:
                flat.extend(r["results"])
            else:
                flat.extend([{"worker_error": r.get("worker_error", "?")}] * len(j["cases"]))
        per_cfg[cfg["name"]] = flat
    # distinct observations
    sh = pyside.Shards(ck, f"rt_{tag}", per_shard=1)
    seen: Dict[str, Tuple[int, str]] = {}
    batch_exprs: List[str] = []
    batch_meta: List[Any] = []
    n_obs = 0
    for ci, c in enumerate(cases):
        for name, flat in per_cfg.items():
            r = flat[ci]
            n_obs += 1
            if "worker_error" in r or "error" in r:
                ck.violation(f"the C runtime crashed or could not be run ({name}, {c['op']}): "
                             f"{(r.get('worker_error') or r.get('error'))[-300:]}{san_headline() if env else ''}",
                             {"case": c, "config": name, "obligation": "tie T2 (direct runtime call)"}, found_input=True)
                continue
            key = json.dumps([ci, r], sort_keys=True)
            if key in seen:
                continue
            seen[key] = (ci, name)
            batch_exprs.append(rt_expr(c, r, B))
            batch_meta.append((ci, name, r))
            if len(batch_exprs) >= 400:
                sh.add("", batch_exprs, batch_meta)
                batch_exprs, batch_meta = [], []
    if batch_exprs:
        sh.add("", batch_exprs, batch_meta)
    out = sh.run(header=HEADER)
    tie_bad = spec_bad = 0
    for (ci, name, r), codev in out:
        if codev == 0:
            continue
        c = cases[ci]
        replay = {"case": c, "observed": r, "config": name, "build": B, "stage": "runtime:" + c["op"]}
        if codev & 2:
            spec_bad += 1
            ck.violation(f"{c['op']}: the C runtime ({name}) does not do what the specification says "
                         f"(n={c.get('n', c.get('nbits'))}, di/i={c.get('di', c.get('i'))}, si={c.get('si')})",
                         replay, found_input=True)
        elif codev & 1:
            tie_bad += 1
            if tie_bad <= 3:
                ck.broken(Broken(f"tie T2: model CRt ({B},{c.get('host', 'LE')}) and the real {c['op']} ({name}) disagree "
                                 "(if the model's outcome is MemErr the implementation accessed memory outside the exact-size buffers)",
                                 json.dumps(replay)[:2500]))
    return {"cases": len(cases), "observations": n_obs, "distinct_evaluated": len(seen),
            "configs": [c["name"] for c in cfgs], "tie_mismatches": tie_bad, "spec_mismatches": spec_bad}


# --------------------------------------------------------------------------------------
# generated code on schemas
# --------------------------------------------------------------------------------------

def cname(t: sg.T) -> str:
    parts = []
    x: Optional[sg.T] = t
    while x is not None:
        parts.append(x.name)
        x = x.parent
    return "".join(reversed(parts))


def ctree(t: sg.T) -> Any:
    k = t.kind
    if k in ("bool", "byte"):
        return ["b", 1]
    if k in ("uint", "int", "enum"):
        return ["b", storage_bytes(t.n)]
    if k == "alias":
        return ["alias", ctree(t.t)]
    if k == "arr":
        return ["arr", t.cap, ctree(t.t)]
    return ["msg", cname(t), [[n, nm, ctree(ft)] for n, nm, ft in sorted(t.fields, key=lambda f: f[0])]]


def is_flat(t: sg.T) -> bool:
    if t.kind in ("alias", "arr"):
        return is_flat(t.t)
    return t.kind != "msg"


def leaf_bytes(t: sg.T, v: Any, host: str = "LE") -> List[int]:
    if t.kind == "bool":
        return [1 if v else 0]
    if t.kind == "byte":
        return [v & 255]
    w = storage_bytes(t.n)
    return list((v & ((1 << (8 * w)) - 1)).to_bytes(w, "little" if host == "LE" else "big"))


def py_store(t: sg.T, v: Any, host: str = "LE") -> Any:
    """object tree (JSON form) of value v: what Coq's [store <host> (norm t) v] must also give"""
    k = t.kind
    if k == "alias":
        return py_store(t.t, v, host)
    if k == "arr":
        if is_flat(t.t):
            out: List[int] = []
            for x in v:
                out.extend(py_store(t.t, x, host)["B"])
            return {"B": out}
        return {"L": [py_store(t.t, x, host) for x in v]}
    if k == "msg":
        return {"S": {str(n): py_store(ft, v[n], host) for n, _, ft in t.fields}}
    return {"B": leaf_bytes(t, v, host)}


def junk_obj(t: sg.T, rng: random.Random, v: Any = None, host: str = "LE") -> Any:
    """arbitrary storage contents; when v is given only the bits above the field width are junk"""
    k = t.kind
    if k == "alias":
        return junk_obj(t.t, rng, v, host)
    if k == "arr":
        vs = v if v is not None else [None] * t.cap
        if is_flat(t.t):
            out: List[int] = []
            for x in vs:
                out.extend(junk_obj(t.t, rng, x, host)["B"])
            return {"B": out}
        return {"L": [junk_obj(t.t, rng, x, host) for x in vs]}
    if k == "msg":
        return {"S": {str(n): junk_obj(ft, rng, None if v is None else v[n], host) for n, _, ft in t.fields}}
    if k == "bool":
        return {"B": [(rng.randrange(256) & 0xFE) | (int(bool(v)) if v is not None else rng.randrange(2))]}
    if k == "byte":
        return {"B": [rng.randrange(256) if v is None else v & 255]}
    w = storage_bytes(t.n)
    z = rng.getrandbits(8 * w)
    if v is not None:
        z = (z & ~((1 << t.n) - 1)) | (v & ((1 << t.n) - 1))
    return {"B": list(z.to_bytes(w, "little" if host == "LE" else "big"))}


def coq_obj(t: sg.T, o: Any) -> str:
    k = t.kind
    if k == "alias":
        return coq_obj(t.t, o)
    if "B" in o:
        return f"(OB {zl(o['B'])})"
    if k == "arr":
        return "(OL " + clist(coq_obj(t.t, x) for x in o["L"]) + ")"
    return "(OS " + clist(f"({n}, {coq_obj(ft, o['S'][str(n)])})"
                          for n, _, ft in sorted(t.fields, key=lambda f: f[0])) + ")"


def schema_configs(ck: Check, be: bool) -> List[Dict[str, Any]]:
    d = ["-DBP_BIG_ENDIAN"] if be else []
    tag = "be-" if be else ""
    cfgs = [dict(name=tag + "gcc-O0", cc="gcc", flags=["-O0"] + d),
            dict(name=tag + "gcc-O2-1tu", cc="gcc", flags=["-O2"] + d, single_tu=True)]
    if not ck.quick:
        cfgs += [dict(name=tag + "gcc-O1", cc="gcc", flags=["-O1"] + d),
                 dict(name=tag + "gcc-O2", cc="gcc", flags=["-O2"] + d),
                 dict(name=tag + "gcc-O3-1tu", cc="gcc", flags=["-O3"] + d, single_tu=True),
                 dict(name=tag + "gcc-O3", cc="gcc", flags=["-O3"] + d),
                 dict(name=tag + "clang-O0", cc="clang", flags=["-O0"] + d),
                 dict(name=tag + "clang-O2-1tu", cc="clang", flags=["-O2"] + d, single_tu=True),
                 dict(name=tag + "clang-O3", cc="clang", flags=["-O3"] + d)]
    return cfgs


def default_params(i: int, rng) -> sg.Params:
    r = i % 10
    if r == 0:
        return sg.Params(max_bits=12000, max_leaves=500, big_prob=0.3)
    if r == 1:
        return sg.Params(max_depth=4, max_fields=8)
    if r == 2:
        return sg.Params(allow_import=False, allow_nested=False, max_fields=3, max_bits=200)
    return sg.Params()


SCALE = float(os.environ.get("VERIF_CRT_SCALE", "1") or "1")     # <1 only for the developer's own experiments


def gen_schema_cases(ck: Check, n_schemas: int, n_values: int, n_junk: int, tag: str = "gen",
                     params_for=None) -> List[Dict[str, Any]]:
    out = []
    n_schemas = max(1, int(n_schemas * SCALE))
    for i in range(n_schemas):
        rng = random.Random(f"{ck.prop}:{ck.seed}:{tag}:{i}")
        s = sg.Gen(rng, (params_for or default_params)(i, rng)).schema()
        cases = []
        for k in range(n_values):
            v = sg.gen_value(s.top, rng, pyside.MODES[k % len(pyside.MODES)])
            cases.append(dict(v=v, obj=py_store(s.top, v), kind="value"))
        for k in range(n_junk):
            if k % 2 == 0:
                v = sg.gen_value(s.top, rng, "random")
                cases.append(dict(v=v, obj=junk_obj(s.top, rng, v), kind="overdriven"))
            else:
                cases.append(dict(v=None, obj=junk_obj(s.top, rng), kind="junk"))
        out.append(dict(schema=s, cases=cases, origin=f"{tag}#{i}"))
    return out


def load_corpus(prop: str) -> List[Dict[str, Any]]:
    import glob
    out = []
    for p in sorted(glob.glob(os.path.join(vlib.VERIF, "corpus", prop, "*.json"))):
        try:
            j = json.load(open(p))
        except Exception:
            continue
        if j.get("kind") != "schema":
            continue
        s = sg.schema_from_json(j["schema"])
        cases = []
        for c in j["cases"]:
            v = sg.value_from_json(s.top, c["v"]) if c.get("v") is not None else None
            cases.append(dict(v=v, obj=c["obj"], kind=c.get("kind", "value")))
        out.append(dict(schema=s, cases=cases, origin="corpus:" + os.path.basename(p)))
    return out


def run_schemas(ck: Check, be: bool, items: List[Dict[str, Any]], tag: str, all_langs: bool = False,
                cfgs: Optional[List[Dict[str, Any]]] = None, env: Optional[Dict[str, str]] = None,
                want_spec: bool = True, host: str = "LE") -> Dict[str, Any]:
    """host = "BE": the storage handed to the implementation is laid out big-endian; only meaningful for
    the -DBP_BIG_ENDIAN build on schemas of the class cboundary.be_exact, where no native multi-byte
    access is executed, so that this x86 run IS the (B,E) = (BE,BE) behaviour and is compared with
    the SPECIFICATION (and with the model at (BE,BE))."""
    B = "BE" if be else "LE"
    E = host
    spec_on = want_spec and (B == E)
    cfgs = cfgs if cfgs is not None else schema_configs(ck, be)
    jobs = []
    for i, it in enumerate(items):
        s: sg.Schema = it["schema"]
        jobs.append(dict(kind="schema", id=i, dir=os.path.join(ck.dir, f"{tag}{i}"), files=s.texts,
                         main_header=s.files[0].base + "_bp.h", top=ctree(s.top), configs=cfgs,
                         all_langs=all_langs, cases=[dict(obj=c["obj"]) for c in it["cases"]]))
    results = run_workers("run_c.py", jobs, chunk=max(1, min(6, len(jobs) // 32 + 1)), timeout=1500, extra_env=env)
    sh = pyside.Shards(ck, f"sch_{tag}", per_shard=6)
    stats = dict(schemas=len(items), impl_failures=0, observations=0, distinct_evaluated=0,
                 tie_mismatches=0, spec_mismatches=0, store_mismatches=0, size_mismatches=0,
                 configs=[c["name"] for c in cfgs])
    for i, (it, r) in enumerate(zip(items, results)):
        s = it["schema"]
        if "runs" not in r:
            stats["impl_failures"] += 1
            err = (r.get("compile_error") or r.get("probe_error") or r.get("worker_error") or "?")[-400:]
            err += san_headline() if env else ""
            ck.violation(f"valid schema could not be compiled/probed/run as C: {err}",
                         {"schema": sg.schema_to_json(s), "error": err, "origin": it["origin"],
                          "obligation": "tie T2 (generated C could not be run)"}, found_input=True)
            continue
        defs = f"Definition t_{i} : ty := {s.coq_ty()}.\n"
        exprs: List[str] = []
        metas: List[Any] = []
        # T1: descriptors parsed from the emitted C vs the renderer model
        try:
            fieldnums = {cname(m): {nm: n for n, nm, _ in m.fields} for m in _msgs(s.top)}
            d = CT1(r.get("generated", {})).top(cname(s.top), None, fieldnums)
            defs += f"Definition d_{i} : desc := {d}.\n"
            exprs.append(f"(t1_case t_{i} d_{i})")
            metas.append((i, "t1", 0, None))
            stats["t1_checked"] = stats.get("t1_checked", 0) + 1
        except T1Error as e:
            stats["t1_failed"] = stats.get("t1_failed", 0) + 1
            if stats["t1_failed"] <= 3:
                ck.broken(Broken(f"tie T1 (emitted C descriptors) on schema {it['origin']}: {e}", json.dumps(s.texts)[:2000]))
        if E == "BE":
            exprs.append(f"(bex_case t_{i})")
            metas.append((i, "store", 0, None))
        if all_langs and "consts" in r:
            cs = r["consts"]
            for m in _msgs(s.top):
                cn = cname(m)
                pyn = sg.py_type_name(s, m, 0)
                vals = (cs["c"].get(cn, -1), cs["go"].get(cn, -1), cs["go_size"].get(cn, -1), cs["py"].get(pyn, -1))
                exprs.append(f"(size_case {m.coq()} {vals[0]} {vals[1]} {vals[2]} {vals[3]})")
                metas.append((i, "size", cn, vals))
        for k, c in enumerate(it["cases"]):
            o = coq_obj(s.top, c["obj"])
            defs += f"Definition o_{i}_{k} : obj := {o}.\n"
            if c["v"] is not None:
                defs += f"Definition v_{i}_{k} : val := {sg.coq_val(s.top, c['v'])}.\n"
            if c["kind"] == "value":
                exprs.append(f"(store_case_h {E} t_{i} v_{i}_{k} o_{i}_{k})")
                metas.append((i, "store", k, None))
            seen = set()
            for cfgname, rr in r["runs"].items():
                if "cases" not in rr:
                    if k == 0:
                        stats["impl_failures"] += 1
                        ck.violation(f"generated C does not build ({cfgname}): {rr.get('build_error', '?')[-400:]}",
                                     {"schema": sg.schema_to_json(s), "config": cfgname, "origin": it["origin"],
                                      "obligation": "tie T2 (generated C could not be built)"}, found_input=True)
                    continue
                rc = rr["cases"][k]
                stats["observations"] += 1
                if "error" in rc:
                    ck.violation(f"generated C crashed ({cfgname}): {rc['error']}",
                                 {"schema": sg.schema_to_json(s), "case": c["obj"], "config": cfgname,
                                  "origin": it["origin"]}, found_input=True)
                    continue
                key = json.dumps(rc, sort_keys=True)
                if key in seen:
                    continue
                seen.add(key)
                stats["distinct_evaluated"] += 1
                eclean = cbool(rc["enc_guards"] and rc["enc_struct_same"])
                spec = cbool(spec_on)
                exprs.append(f"(enc_case_h {B} {E} {spec} t_{i} o_{i}_{k} {zl(rc['enc'])} {eclean})")
                metas.append((i, "enc", k, cfgname))
                if c["v"] is not None and spec_on:
                    exprs.append(f"(enc_val_case t_{i} v_{i}_{k} {zl(rc['enc'])})")
                    metas.append((i, "encv", k, cfgname))
                dclean = cbool(rc["dec_guards"] and rc["dec_in_same"] and rc["dec_pad_ok"])
                dobj = coq_obj(s.top, rc["dec"])
                exprs.append(f"(dec_case {B} {E} t_{i} {zl(rc['enc'])} {dobj} {dclean})")
                metas.append((i, "dec", k, cfgname))
                if c["kind"] == "value" and spec_on:
                    exprs.append(f"(dec_val_case_h {E} t_{i} v_{i}_{k} {dobj} {dclean})")
                    metas.append((i, "decv", k, cfgname))
        sh.add(defs, exprs, metas)
    out = sh.run(header=HEADER)
    for (i, kind, k, cfgname), codev in out:
        if codev == 0:
            continue
        it = items[i]
        s = it["schema"]
        if kind == "size":
            stats["size_mismatches"] += 1
            ck.violation(f"size constant of message {k} is not ceil(nbits/8) in every language "
                         f"(C, Go const, Go Size(), Python) = {cfgname}",
                         {"schema": sg.schema_to_json(s), "message": k, "constants": cfgname,
                          "origin": it["origin"], "stage": "size-constant"}, found_input=True)
            continue
        if kind == "t1":
            stats["t1_mismatches"] = stats.get("t1_mismatches", 0) + 1
            if stats["t1_mismatches"] <= 3:
                ck.broken(Broken(f"tie T1: the descriptors emitted for schema {it['origin']} (flag, nbits, sizeof-derived size, "
                                 "to_flag, extensible, cap, field order) differ from the renderer model CRt.render",
                                 json.dumps(s.texts)[:2000]))
            continue
        c = it["cases"][k]
        if kind == "store":
            stats["store_mismatches"] += 1
            ck.broken(Broken("harness: Python layout of a value differs from the model's store",
                             json.dumps({"schema": s.texts, "obj": c["obj"]})[:2000]))
            continue
        rc = results[i]["runs"][cfgname]["cases"][k]
        replay = {"schema": sg.schema_to_json(s), "value": None if c["v"] is None else sg.value_to_json(s.top, c["v"]),
                  "storage": c["obj"], "kind": c["kind"], "config": cfgname, "build": B, "storage_byte_order": E, "observed": rc,
                  "origin": it["origin"], "stage": kind}
        if codev & 2:
            stats["spec_mismatches"] += 1
            what = {"enc": "Encode<Msg> bytes differ from the specification (wire of the stored low bits) "
                           "or a guard zone / the struct was modified",
                    "encv": "Encode<Msg> bytes differ from the specification",
                    "dec": "Decode<Msg>", "decv": "Decode<Msg>(Encode<Msg>(v)) does not reconstruct v in storage "
                                                   "(or wrote outside the field objects)"}[kind]
            ck.violation(f"{what} [{cfgname}]", replay, found_input=True)
        elif codev & 1:
            stats["tie_mismatches"] += 1
            if stats["tie_mismatches"] <= 3:
                ck.broken(Broken(f"tie T2: model CRt ({B},{E}) and the generated C + runtime ({cfgname}) disagree on "
                                 f"{kind} (schema {it['origin']}, case #{k} {c['kind']}; if the model's outcome is MemErr the "
                                 "implementation accessed memory outside the exact-size buffer / field objects)",
                                 json.dumps(replay)[:2500]))
    return stats


def _msgs(t: sg.T, acc=None) -> List[sg.T]:
    acc = [] if acc is None else acc
    if t.kind == "msg":
        if not any(m is t for m in acc):
            acc.append(t)
        for _, _, ft in t.fields:
            _msgs(ft, acc)
    elif t.kind in ("alias", "arr"):
        _msgs(t.t, acc)
    return acc


# --------------------------------------------------------------------------------------
# check drivers
# --------------------------------------------------------------------------------------

TRUSTED = ["Coq 8.16.1 kernel + vm_compute", "tools/cparse.py + tools/translate_crt.py (T0)",
           "tools/run_c.py + ctypes + gcc 12 / clang 14 (T2 executor)", "no axioms (Print Assumptions: closed)"]


def prove_and_model(ck: Check, prop_file: str) -> None:
    ck.assumptions.extend(a for a in ASSUME if a not in ck.assumptions)
    ck.coverage["trusted_base"] = TRUSTED
    ck.try_prove(prop_file, model_vo=("theories/CCase.vo",))
    ok, log = vlib.coq_build(["theories/CCase.vo"])
    if not ok:
        ck.model_ok = False
        raise Broken("the executable model coq/theories/CRt.v does not build against the current translation "
                     "coq/gen/GenC.v", log[-2500:])


def rt_stream(ck: Check, be: bool, what: Sequence[str], tag: str, **kw) -> Dict[str, Any]:
    rng = random.Random(f"{ck.prop}:{ck.seed}:rt:{tag}")
    cases: List[Dict[str, Any]] = []
    if "copy" in what:
        cases += gen_copy_cases(ck, rng)
    if "base" in what:
        cases += gen_base_cases(ck, rng, be)
    if "int" in what:
        cases += gen_int_cases(ck, rng)
    if "array" in what:
        cases += gen_array_cases(ck, rng, be)
    st = run_rt(ck, be, cases, tag, **kw)
    st["ops"] = {op: sum(1 for c in cases if c["op"] == op) for op in ("copy", "base", "int", "sign", "array")}
    return st


def fill_coverage(ck: Check, parts: Dict[str, Dict[str, Any]], items: List[Dict[str, Any]], rule: str) -> None:
    cov = ck.coverage
    ev = 0
    dist = 0
    for name, st in parts.items():
        ev += st.get("observations", 0)
        dist += st.get("distinct_evaluated", 0)
    cov["evaluations"] = ev
    cov["distinct_nontrivial"] = dist
    cov["rule"] = rule
    cov["tie"] = {**cov.get("tie", {}), **parts}
    if items:
        cov["distribution"] = sg.distribution([it["schema"] for it in items])
        it = items[0]
        c = it["cases"][0]
        cov["samples"].append({"schema": it["schema"].texts, "storage": c["obj"], "kind": c["kind"],
                               "origin": it["origin"]})


RULE = ("direct calls: (n, di, si) sweep of BpCopyBufferBits on exact-size guarded buffers (quick: boundary n x 8 x 8, "
        "thorough: all n <= 130) plus random destinations / pointer bumps; BpEndecodeBaseType, BpEndecodeInt, "
        "BpHandleIntSignAfterEndecode for every width 1..64 x offset; BpEndecodeArray over element kinds. generated "
        "code: schemas from tools/schema_gen.py x storage contents (in-range values in modes random/max/min/zero/"
        "ones, overdriven values, arbitrary junk) on raw struct memory laid out from a gcc offsetof probe. an "
        "evaluation = one call observed on one build configuration; distinct = distinct (input, observation) pairs "
        "evaluated in Coq against model and specification")


def run_c03(ck: Check) -> None:
    prove_and_model(ck, "C03.v")
    parts: Dict[str, Dict[str, Any]] = {}
    items = load_corpus("C03") + gen_schema_cases(ck, ck.n(100, 800), ck.n(4, 6), 2)
    parts["runtime_LE"] = rt_stream(ck, False, ("copy", "base", "int", "array"), "le")
    parts["schemas_LE"] = run_schemas(ck, False, items, "g", all_langs=False)
    if not ck.quick:
        env = san_env()
        scfg = [dict(name="gcc-asan-ubsan", cc="gcc", flags=SAN_FLAGS)]
        parts["runtime_LE_sanitizers"] = rt_stream(ck, False, ("copy", "base", "int", "array"), "san", cfgs=scfg, env=env)
        parts["schemas_LE_sanitizers"] = run_schemas(ck, False, items[:300], "sg", cfgs=scfg, env=env)
    fill_coverage(ck, parts, items, RULE)


def gen_base_rev_cases(ck: Check, rng: random.Random) -> List[Dict[str, Any]]:
    """BE build fed byte-reversed (big-endian) storage: BpEndecodeBaseType of the BE build has no
    native multi-byte access, so on x86 this IS the (B,E)=(BE,BE) behaviour"""
    cases = []
    for nbits in range(1, 65):
        size = storage_bytes(nbits)
        for i in range(8):
            for enc in (True, False):
                slen = nbytes_for(i + nbits)
                if enc:
                    z = rng.getrandbits(i) if i else 0
                    s = list(z.to_bytes(slen, "little"))
                    data = [rng.randrange(256) for _ in range(size)]
                else:
                    s = [rng.randrange(256) for _ in range(slen)]
                    data = [0] * size
                cases.append(dict(op="base", enc=enc, nbits=nbits, i=i, s=s, data=data, host="BE"))
    return cases


def run_c06(ck: Check) -> None:
    import cboundary
    prove_and_model(ck, "C06.v")
    parts: Dict[str, Dict[str, Any]] = {}
    items = (load_corpus("C06") + cboundary.items_of(ck.seed, cboundary.c_catalogue(ck.seed, ("long", "narrow", "samename")), n_values=2, junk=1) +
             gen_schema_cases(ck, ck.n(60, 500), ck.n(3, 5), 2))
    parts["runtime_BE_build_on_LE_host"] = rt_stream(ck, True, ("copy", "base", "int", "array"), "be")
    rng = random.Random(f"{ck.prop}:{ck.seed}:rev")
    parts["base_type_BE_build_BE_storage"] = run_rt(ck, True, gen_base_rev_cases(ck, rng), "rev")
    parts["schemas_BE_build_on_LE_host"] = run_schemas(ck, True, items, "b")
    # the property itself on x86: schemas on which the BE build executes no native multi-byte access
    # (no extensible prefix, no multi-byte sign fix-up), fed BIG-ENDIAN storage: this is the (BE,BE)
    # behaviour; compared with the specification and with the model at (BE,BE)
    items_x = cboundary.items_of(ck.seed, cboundary.be_exact_catalogue(ck.seed, ck.quick), n_values=3, junk=1, host="BE")
    for it in gen_schema_cases(ck, ck.n(40, 400), 3, 0, tag="bex",
                               params_for=lambda i, r: sg.Params(allow_ext=False, allow_signed=False)):
        s_ = it["schema"]
        it["cases"] = [dict(v=c["v"], obj=py_store(s_.top, c["v"], "BE"), kind="value") for c in it["cases"]]
        items_x.append(it)
    assert all(cboundary.be_exact(it["schema"].top) for it in items_x)
    parts["schemas_BE_build_BE_storage_vs_spec"] = run_schemas(ck, True, items_x, "bx", host="BE")
    if not ck.quick:
        env = san_env()
        scfg = [dict(name="be-gcc-asan-ubsan", cc="gcc", flags=SAN_FLAGS + ["-DBP_BIG_ENDIAN"])]
        parts["schemas_BE_sanitizers"] = run_schemas(ck, True, items[:300], "sb", cfgs=scfg, env=env)
    fill_coverage(ck, parts, items, RULE + "; C06: everything on the -DBP_BIG_ENDIAN build, model at (B,E)=(BE,LE); "
                  "base types additionally with big-endian storage, model at (BE,BE), compared with the specification")


def run_c07_c_half(ck: Check) -> Dict[str, Dict[str, Any]]:
    """the C half of C07: bounds (exact-size guarded buffers), containment of out-of-range storage,
    and the size constants of the three emitters"""
    prove_and_model(ck, "C07.v")
    parts: Dict[str, Dict[str, Any]] = {}
    items = load_corpus("C07") + gen_schema_cases(ck, ck.n(80, 600), 1, ck.n(4, 8))
    parts["c_runtime_bounds"] = rt_stream(ck, False, ("copy", "base", "array"), "le")
    parts["c_schemas_overdriven_storage_and_size_constants"] = run_schemas(ck, False, items, "g", all_langs=True)
    if not ck.quick:
        env = san_env()
        scfg = [dict(name="gcc-asan-ubsan", cc="gcc", flags=SAN_FLAGS)]
        parts["c_runtime_sanitizers"] = rt_stream(ck, False, ("copy", "base", "array"), "san", cfgs=scfg, env=env)
        parts["c_schemas_sanitizers"] = run_schemas(ck, False, items[:400], "sg", cfgs=scfg, env=env)
    ck.coverage.setdefault("c_half_items", len(items))
    ck._c07_items = items       # for fill_coverage by the caller
    return parts
