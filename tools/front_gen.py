"""front_gen — generator of SURFACE SYNTAX TREES of .bitproto files (C08 / C11 / C12).

One object (a dict  file key -> list of items) yields
  * the .bitproto texts, printed with random trivia (comments, blank lines, optional
    semicolons, indentation, several statements per line, hex spelling, path spelling),
  * the line number of every node (assigned by the printer, stored in item[1]),
  * the Gallina term of type Front.files.

Items (JSON-able lists, mirroring Front.item):
  ["proto", l, name]              ["import", l, asname|None, file]   ["option", l, name, optx]
  ["const", l, name, cvalx]       ["alias", l, name, tyx]            ["enum", l, name, sty, body]
  ["msg", l, name, ext, body]     ["field", l, tyx, name, num]       ["efield", l, name, v]
sty:  ["bool"] ["byte"] ["uint", n] ["int", n] ["ref", path]
tyx:  ["single", sty] | ["arr", sty, capx, ext]        capx: ["lit", z] | ["ref", path]
cexpr: ["int", z] ["ref", path] ["add"|"sub"|"mul"|"div", a, b]
cvalx: ["bool", b] ["str", s] ["ref", path] ["expr", cexpr]
optx:  ["lit", cval] | ["ref", path]                  cval: ["b", bool] ["i", z] ["s", str]

The generator builds VALID trees by construction (it keeps its own scope bookkeeping to pick
references that resolve); it is never used as an oracle: the oracle is Front.check in Coq.
"""
from __future__ import annotations

import copy
from typing import Any, Callable, Dict, List, Optional, Tuple

import schema_gen as sg
from vlib import cbool, clist, cz

# --------------------------------------------------------------------------------------
# Gallina
# --------------------------------------------------------------------------------------


def cstr(s: str) -> str:
    assert '"' not in s
    return f'"{s}"%string'


def cpath(p: List[str]) -> str:
    return clist(cstr(x) for x in p)


def coq_sty(s) -> str:
    k = s[0]
    if k == "bool":
        return "SBool"
    if k == "byte":
        return "SByte"
    if k == "uint":
        return f"(SUint {cz(s[1])})"
    if k == "int":
        return f"(SInt {cz(s[1])})"
    return f"(SRef {cpath(s[1])})"


def coq_capx(c) -> str:
    return f"(CapLit {cz(c[1])})" if c[0] == "lit" else f"(CapRef {cpath(c[1])})"


def coq_tyx(t) -> str:
    if t[0] == "single":
        return f"(XSingle {coq_sty(t[1])})"
    return f"(XArr {coq_sty(t[1])} {coq_capx(t[2])} {cbool(t[3])})"


def coq_cexpr(e) -> str:
    k = e[0]
    if k == "int":
        return f"(EInt {cz(e[1])})"
    if k == "ref":
        return f"(ERef {cpath(e[1])})"
    return f"({ {'add': 'EAdd', 'sub': 'ESub', 'mul': 'EMul', 'div': 'EDiv'}[k]} {coq_cexpr(e[1])} {coq_cexpr(e[2])})"


def coq_cval(v) -> str:
    if v[0] == "b":
        return f"(CVBool {cbool(v[1])})"
    if v[0] == "i":
        return f"(CVInt {cz(v[1])})"
    return f"(CVStr {cstr(v[1])})"


def coq_cvalx(v) -> str:
    k = v[0]
    if k == "bool":
        return f"(CBool {cbool(v[1])})"
    if k == "str":
        return f"(CStr {cstr(v[1])})"
    if k == "ref":
        return f"(CRef {cpath(v[1])})"
    return f"(CExpr {coq_cexpr(v[1])})"


def coq_optx(v) -> str:
    return f"(OLit {coq_cval(v[1])})" if v[0] == "lit" else f"(ORef {cpath(v[1])})"


def coq_item(it) -> str:
    k, l = it[0], it[1]
    assert l is not None, it
    if k == "proto":
        return f"IProto {l} {cstr(it[2])}"
    if k == "import":
        a = "None" if it[2] is None else f"(Some {cstr(it[2])})"
        return f"IImport {l} {a} {cstr(it[3])}"
    if k == "option":
        return f"IOption {l} {cstr(it[2])} {coq_optx(it[3])}"
    if k == "const":
        return f"IConst {l} {cstr(it[2])} {coq_cvalx(it[3])}"
    if k == "alias":
        return f"IAlias {l} {cstr(it[2])} {coq_tyx(it[3])}"
    if k == "enum":
        return f"IEnum {l} {cstr(it[2])} {coq_sty(it[3])} {clist(coq_item(x) for x in it[4])}"
    if k == "msg":
        return f"IMsg {l} {cstr(it[2])} {cbool(it[3])} {clist(coq_item(x) for x in it[4])}"
    if k == "field":
        return f"IField {l} {coq_tyx(it[2])} {cstr(it[3])} {cz(it[4])}"
    if k == "efield":
        return f"IEnumField {l} {cstr(it[2])} {cz(it[3])}"
    raise ValueError(k)


def coq_files(files: Dict[str, List[Any]]) -> str:
    return clist(f"({cstr(k)}, {clist(coq_item(i) for i in its)})" for k, its in files.items())


# --------------------------------------------------------------------------------------
# printer (tree -> text, assigns line numbers)
# --------------------------------------------------------------------------------------

class Trivia:
    """How much noise the printer adds; all zero = canonical one-statement-per-line text."""

    def __init__(self, comments=0.15, blanks=0.15, semi=0.5, join=0.08, hexp=0.2, indent_noise=0.2,
                 dotslash=0.3, spaces=0.15):
        self.comments, self.blanks, self.semi, self.join = comments, blanks, semi, join
        self.hexp, self.indent_noise, self.dotslash, self.spaces = hexp, indent_noise, dotslash, spaces


PLAIN = Trivia(0, 0, 0, 0, 0, 0, 0, 0)


class Printer:
    def __init__(self, rng, tv: Trivia):
        self.rng, self.tv = rng, tv
        self.lines: List[str] = [""]
        self.can_join = True

    # ---- expression / type text ----
    def integer(self, z: int, allow_hex=True) -> str:
        if z < 0:
            raise ValueError("negative literal is not representable")
        if allow_hex and self.rng.random() < self.tv.hexp:
            return hex(z) if self.rng.random() < 0.7 else "0x" + format(z, "X")
        return str(z)

    def sp(self) -> str:
        return " " if self.rng.random() >= self.tv.spaces else self.rng.choice(["", "  ", "\t"])

    def sty(self, s) -> str:
        k = s[0]
        if k in ("bool", "byte"):
            return k
        if k in ("uint", "int"):
            if s[1] < 0:
                raise ValueError("negative width")
            return f"{k}{s[1]}"
        return ".".join(s[1])

    def tyx(self, t) -> str:
        if t[0] == "single":
            return self.sty(t[1])
        cap = str(t[2][1]) if t[2][0] == "lit" else ".".join(t[2][1])
        if t[2][0] == "lit" and t[2][1] < 0:
            raise ValueError("negative literal capacity")
        inner = cap if self.rng.random() >= self.tv.spaces else f" {cap} "
        return f"{self.sty(t[1])}[{inner}]" + ("'" if t[3] else "")

    PREC = {"add": 1, "sub": 1, "mul": 2, "div": 2}
    OPS = {"add": "+", "sub": "-", "mul": "*", "div": "/"}

    def cexpr(self, e, top=False) -> str:
        k = e[0]
        if k == "int":
            return self.integer(e[1])
        if k == "ref":
            s = ".".join(e[1])
            return f"({s})" if top else s
        p = self.PREC[k]
        a, b = e[1], e[2]
        sa, sb = self.cexpr(a), self.cexpr(b)
        if a[0] in self.PREC and self.PREC[a[0]] < p:
            sa = f"({sa})"
        elif self.rng.random() < self.tv.spaces:
            sa = f"({sa})"
        if b[0] in self.PREC and self.PREC[b[0]] <= p:
            sb = f"({sb})"
        elif self.rng.random() < self.tv.spaces:
            sb = f"({sb})"
        s1, s2 = (" ", " ") if self.rng.random() >= self.tv.spaces else ("", "")
        return f"{sa}{s1}{self.OPS[k]}{s2}{sb}"

    def boolean(self, b: bool) -> str:
        if self.rng.random() < self.tv.hexp:
            return "yes" if b else "no"
        return "true" if b else "false"

    def cvalx(self, v) -> str:
        k = v[0]
        if k == "bool":
            return self.boolean(v[1])
        if k == "str":
            return '"' + v[1] + '"'
        if k == "ref":
            return ".".join(v[1])
        return self.cexpr(v[1], top=True)

    def optx(self, v) -> str:
        if v[0] == "ref":
            return ".".join(v[1])
        c = v[1]
        if c[0] == "b":
            return self.boolean(c[1])
        if c[0] == "i":
            return self.integer(c[1])
        return '"' + c[1] + '"'

    # ---- layout ----
    def _noise_lines(self, ind: int) -> None:
        while True:
            r = self.rng.random()
            if r < self.tv.blanks:
                self.lines[-1] = self.rng.choice(["", "", "  ", "\t"])
                self.lines.append("")
            elif r < self.tv.blanks + self.tv.comments:
                self.lines[-1] = " " * ind + "// " + self.rng.choice(["note", "x = 1;", "message {", "}", "TODO 'q'"])
                self.lines.append("")
            else:
                return

    def place(self, text: str, ind: int, closes=False) -> int:
        """Put one statement (or a closing brace); returns its line number."""
        if self.lines[-1].strip() != "":
            joinable = self.can_join or closes
            if joinable and self.rng.random() < (self.tv.join * (3 if closes else 1)):
                self.lines[-1] += " "
            else:
                if self.rng.random() < self.tv.comments:
                    self.lines[-1] += " // " + self.rng.choice(["c", "uint65 z = 0", "}"])
                self.lines.append("")
                self._noise_lines(ind)
        else:
            self._noise_lines(ind)
        if self.lines[-1].strip() == "":
            if self.rng.random() < self.tv.indent_noise:
                ind = self.rng.choice([0, 1, 2, 3, 4, 6, 8])
            self.lines[-1] = " " * ind
        self.lines[-1] += text
        return len(self.lines)

    def stmt(self, text: str, ind: int, semi_ok=True) -> int:
        l = self.place(text, ind)
        if semi_ok and self.rng.random() < self.tv.semi:
            self.lines[-1] += ";" if self.rng.random() < 0.8 else " ;"
            self.can_join = True
        else:
            self.can_join = not semi_ok     # `{` : anything may follow on the same line
        return l

    def item(self, it, ind: int) -> None:
        k = it[0]
        eq = "=" if self.rng.random() < self.tv.spaces else " = "
        if k == "proto":
            it[1] = self.stmt(f"proto {it[2]}", ind)
        elif k == "import":
            path = it[3]
            if self.rng.random() < self.tv.dotslash:
                path = "./" + path
            it[1] = self.stmt("import " + (f"{it[2]} " if it[2] is not None else "") + f'"{path}"', ind)
        elif k == "option":
            it[1] = self.stmt(f"option {it[2]}{eq}{self.optx(it[3])}", ind)
        elif k == "const":
            it[1] = self.stmt(f"const {it[2]}{eq}{self.cvalx(it[3])}", ind)
        elif k == "alias":
            it[1] = self.stmt(f"type {it[2]}{eq}{self.tyx(it[3])}", ind)
        elif k == "enum":
            colon = " : " if self.rng.random() >= self.tv.spaces else ":"
            it[1] = self.stmt(f"enum {it[2]}{colon}{self.sty(it[3])} {{", ind, semi_ok=False)
            for x in it[4]:
                self.item(x, ind + 4)
            self.place("}", ind, closes=True)
            self.can_join = True
        elif k == "msg":
            it[1] = self.stmt(f"message {it[2]}" + ("'" if it[3] else "") + " {", ind, semi_ok=False)
            for x in it[4]:
                self.item(x, ind + 4)
            self.place("}", ind, closes=True)
            self.can_join = True
        elif k == "field":
            it[1] = self.stmt(f"{self.tyx(it[2])} {it[3]}{eq}{it[4]}", ind)
        elif k == "efield":
            it[1] = self.stmt(f"{it[2]}{eq}{self.integer(it[3])}", ind)
        else:
            raise ValueError(k)

    def text(self) -> str:
        return "\n".join(self.lines) + "\n"


def render(files: Dict[str, List[Any]], rng, tv: Trivia = None) -> Dict[str, str]:
    """Print every file (assigning line numbers in place)."""
    out = {}
    for key, items in files.items():
        p = Printer(rng, tv or Trivia())
        for it in items:
            p.item(it, 0)
        out[key] = p.text()
    return out


def walk_items(items, depth=0, parent=None):
    for it in items:
        yield it, depth, parent, items
        if it[0] in ("enum", "msg"):
            yield from walk_items(it[4], depth + 1, it)


# --------------------------------------------------------------------------------------
# generator of VALID trees
# --------------------------------------------------------------------------------------

NAME_POOL = ["Alpha", "Beta", "Gamma", "Delta", "Node", "Item", "Box", "Cell", "Pkt", "Hdr", "Leaf", "Unit"]
FIELD_POOL = ["a", "bb", "cnt", "flag", "x1", "y_2", "pos", "len_", "kind_", "val", "w", "q", "data", "mode", "idx"]
CONST_POOL = ["N", "SIZE", "K1", "LIMIT", "W", "CAP", "ZED", "TOP"]
MEMBER_POOL = ["OK", "BAD", "RED", "GREEN", "BLUE", "ON", "OFF", "UP", "DOWN", "MID", "LOW", "HIGH"]
WIDTHS = [1, 1, 2, 3, 5, 7, 8, 8, 9, 12, 15, 16, 17, 24, 31, 32, 33, 48, 63, 64]


class PD:
    """generator-side record of a definition (NOT an oracle; only used to pick references)"""

    def __init__(self, kind: str, name: str = "", **kw):
        self.kind, self.name = kind, name
        self.members: Dict[str, "PD"] = {}
        self.nbits = kw.get("nbits", 0)
        self.val = kw.get("val")            # python value of a constant
        self.t: Optional[sg.T] = kw.get("t")  # resolved type (schema_gen.T) of a type definition
        self.item = kw.get("item")


def pd_get(members: Dict[str, PD], path: List[str]) -> Optional[PD]:
    d = members.get(path[0])
    if d is None:
        return None
    if len(path) == 1:
        return d
    if d.kind not in ("msg", "enum", "proto"):
        return None
    return pd_get(d.members, path[1:])


class Params:
    def __init__(self, **kw):
        self.max_depth = 2
        self.max_top = 5
        self.max_items = 5
        self.max_bits = 600          # per message
        self.n_imports = (0, 2)
        self.shadow = 0.0            # probability of reusing a name of an enclosing scope
        self.dotted = 0.3            # preference for dotted references
        self.p_option = 0.08
        self.p_ext = 0.2
        self.py_safe = False         # names usable in generated Python (C12)
        self.consts = True
        self.name_pool = None        # override of NAME_POOL (small pool => heavy shadowing)
        self.suffix = 0.4            # probability of a numeric suffix on generated names
        self.unique = False          # every generated name globally unique (C12 rewrites)
        self.__dict__.update(kw)


class Builder:
    """Generates a dict file -> items of a VALID schema (root file first)."""

    def __init__(self, rng, params: Optional[Params] = None):
        self.rng = rng
        self.p = params or Params()
        self.files: Dict[str, List[Any]] = {}
        self.protos: Dict[str, PD] = {}
        self.pnames: List[str] = []
        self.all_names: List[str] = []
        self.nfile = 0

    # -- names --
    def fresh(self, pool: List[str], taken, enclosing=()) -> str:
        rng = self.rng
        if self.p.unique:
            taken = self.all_names
        if pool is NAME_POOL and self.p.name_pool:
            pool = self.p.name_pool
        if enclosing and rng.random() < self.p.shadow and not self.p.unique:
            cands = [n for n in enclosing if n not in taken and n[0].isupper() and pool is not FIELD_POOL]
            if cands:
                return rng.choice(cands)
        n = None
        for _ in range(50):
            c = rng.choice(pool)
            if rng.random() < self.p.suffix:
                c += str(rng.randrange(10))
            if c not in taken and c not in sg.RESERVED and c.lower() not in sg.RESERVED:
                n = c
                break
        if n is None:
            i = 0
            while f"{pool[0]}_{i}" in taken:
                i += 1
            n = f"{pool[0]}_{i}"
        self.all_names.append(n)
        return n

    # -- scope bookkeeping: stack of PD (proto, msg, ...) innermost last --
    def lookup(self, stack: List[PD], path: List[str]) -> Optional[PD]:
        for sc in reversed(stack):
            d = pd_get(sc.members, path)
            if d is not None:
                return d
        return None

    def candidates(self, stack: List[PD], want: Callable[[PD], bool]) -> List[Tuple[List[str], PD]]:
        """all paths that RESOLVE (by the parser's rule) to a definition satisfying want"""
        out = []
        seen = set()

        def rec(members, prefix, depth, via_proto=False):
            for n, d in members.items():
                path = prefix + [n]
                key = ".".join(path)
                if key not in seen:
                    seen.add(key)
                    r = self.lookup(stack, path)
                    if r is not None and want(r) and not (self.p.py_safe and via_proto and len(path) > 2):
                        out.append((path, r))
                if d.kind in ("msg", "enum", "proto") and depth < 3:
                    rec(d.members, path, depth + 1, via_proto or d.kind == "proto")

        for sc in reversed(stack):
            rec(sc.members, [], 0)
        return out

    def pick(self, cands):
        if not cands:
            return None
        dotted = [c for c in cands if len(c[0]) > 1]
        if dotted and self.rng.random() < self.p.dotted:
            return self.rng.choice(dotted)
        return self.rng.choice(cands)

    # -- types --
    def width(self) -> int:
        return self.rng.choice(WIDTHS) if self.rng.random() < 0.8 else self.rng.randint(1, 64)

    def gen_sty(self, stack, maxbits: int, allow_ref=True) -> Optional[Tuple[Any, sg.T]]:
        rng = self.rng
        r = rng.random()
        if allow_ref and r < 0.4:
            c = self.pick(self.candidates(stack, lambda d: d.kind in ("alias", "enum", "msg")
                                          and d.t is not None and 0 < d.nbits <= maxbits))
            if c is not None:
                return ["ref", c[0]], c[1].t
        if r < 0.5 or maxbits < 2:
            return ["bool"], sg.T("bool")
        if r < 0.6 and maxbits >= 8:
            return ["byte"], sg.T("byte")
        n = min(self.width(), maxbits)
        if rng.random() < 0.6:
            return ["uint", n], sg.T("uint", n=n)
        return ["int", n], sg.T("int", n=n)

    def gen_tyx(self, stack, maxbits: int, allow_ref=True) -> Tuple[Any, sg.T]:
        rng = self.rng
        if rng.random() < 0.25 and maxbits >= 20:
            ext = rng.random() < self.p.p_ext
            room = maxbits - (16 if ext else 0)
            s, t = self.gen_sty(stack, max(1, room // 2), allow_ref)
            cap = rng.randint(1, max(1, min(8, room // max(1, t.nbits()))))
            capx = ["lit", cap]
            if self.p.consts and rng.random() < 0.4:
                c = self.pick(self.candidates(stack, lambda d: d.kind == "const" and isinstance(d.val, int)
                                              and not isinstance(d.val, bool)
                                              and 1 <= d.val and d.val * t.nbits() <= room))
                if c is not None:
                    capx, cap = ["ref", c[0]], c[1].val
            return ["arr", s, capx, ext], sg.T("arr", t=t, cap=cap, ext=ext)
        s, t = self.gen_sty(stack, maxbits, allow_ref)
        return ["single", s], t

    # -- constants --
    def gen_cexpr(self, stack, depth=0) -> Tuple[Any, int]:
        rng = self.rng
        r = rng.random()
        if depth >= 3 or r < 0.35:
            z = rng.choice([0, 1, 2, 3, 4, 7, 8, 10, 16, 100, 255]) if rng.random() < 0.8 else rng.randrange(70000)
            return ["int", z], z
        if r < 0.5:
            c = self.pick(self.candidates(stack, lambda d: d.kind == "const" and isinstance(d.val, int)
                                          and not isinstance(d.val, bool)))
            if c is not None:
                return ["ref", c[0]], c[1].val
        a, va = self.gen_cexpr(stack, depth + 1)
        b, vb = self.gen_cexpr(stack, depth + 1)
        op = rng.choice(["add", "sub", "mul", "div"])
        if op == "div" and vb == 0:
            op = "add"
        v = {"add": va + vb, "sub": va - vb, "mul": va * vb, "div": (va // vb) if vb else 0}[op]
        return [op, a, b], v

    def gen_const(self, stack, taken) -> Tuple[Any, PD]:
        rng = self.rng
        name = self.fresh(CONST_POOL, taken)
        r = rng.random()
        if r < 0.1:
            b = rng.random() < 0.5
            return ["const", None, name, ["bool", b]], PD("const", name, val=b)
        if r < 0.2:
            s = rng.choice(["", "abc", "hello world", "x_1", "v1.2"])
            return ["const", None, name, ["str", s]], PD("const", name, val=s)
        if r < 0.3:
            c = self.pick(self.candidates(stack, lambda d: d.kind == "const"))
            if c is not None:
                return ["const", None, name, ["ref", c[0]]], PD("const", name, val=c[1].val)
        e, v = self.gen_cexpr(stack)
        return ["const", None, name, ["expr", e]], PD("const", name, val=v)

    # -- definitions --
    def gen_enum(self, stack, taken, enclosing) -> Tuple[Any, PD]:
        rng = self.rng
        name = self.fresh(NAME_POOL, taken, enclosing)
        n = rng.choice([1, 2, 3, 3, 4, 7, 8, 8, 9, 16, 32, 64])
        k = rng.randint(0 if (rng.random() < 0.05 and not self.p.py_safe) else 1, min(5, 1 << n))
        vals: List[int] = []
        first_zero = rng.random() < 0.8
        while len(vals) < k:
            v = 0 if (first_zero and not vals) else rng.choice([rng.randrange(1 << n), (1 << n) - 1, rng.randrange(min(1 << n, 16))])
            if v not in vals:
                vals.append(v)
        mt: List[str] = []
        body = []
        for v in vals:
            mn = self.fresh(MEMBER_POOL, mt)
            mt.append(mn)
            body.append(["efield", None, mn, v])
        t = sg.T("enum", n=n, members=list(zip(mt, vals)), name=name)
        pd = PD("enum", name, nbits=n, t=t if vals else None)
        for mn in mt:
            pd.members[mn] = PD("efield", mn)
        return ["enum", None, name, ["uint", n], body], pd

    def gen_alias(self, stack, taken) -> Tuple[Any, PD]:
        name = self.fresh(NAME_POOL, taken)
        while True:
            x, t = self.gen_tyx(stack, 200)
            if not (x[0] == "single" and x[1][0] == "ref"):
                break
        return ["alias", None, name, x], PD("alias", name, nbits=t.nbits(), t=sg.T("alias", t=t, name=name))

    def gen_msg(self, stack, taken, enclosing, depth, top_parent: Optional[sg.T] = None) -> Tuple[Any, PD]:
        rng = self.rng
        name = self.fresh(NAME_POOL, taken, enclosing)
        ext = rng.random() < self.p.p_ext
        pd = PD("msg", name)
        t = sg.T("msg", ext=ext, name=name, parent=top_parent)
        body: List[Any] = []
        mtaken: List[str] = []
        nums: List[int] = []
        used = 16 if ext else 0
        st2 = stack + [pd]
        encl2 = list(enclosing) + [name] + list(taken)
        nitems = rng.randint(0 if rng.random() < 0.05 else 1, self.p.max_items)
        for _ in range(nitems):
            r = rng.random()
            if r < 0.12 and depth < self.p.max_depth:
                it, d = self.gen_enum(st2, mtaken, encl2)
            elif r < 0.26 and depth < self.p.max_depth:
                it, d = self.gen_msg(st2, mtaken, encl2, depth + 1, t)
            elif r < 0.26 + self.p.p_option and "max_bytes" not in mtaken:
                mb = rng.choice([0, 0, 8191, 9000, 100000])
                it, d = ["option", None, "max_bytes", ["lit", ["i", mb]]], PD("option", "max_bytes")
            else:
                room = self.p.max_bits - used
                if room < 1:
                    continue
                x, ft = self.gen_tyx(st2, room)
                fname = self.fresh(FIELD_POOL, mtaken)
                num = rng.choice([n for n in (list(range(1, 20)) + [100, 254, 255]) if n not in nums])
                nums.append(num)
                used += ft.nbits()
                it, d = ["field", None, x, fname, num], PD("field", fname)
                t.fields.append((num, fname, ft))
            body.append(it)
            mtaken.append(it[2] if it[0] != "field" else it[3])
            pd.members[mtaken[-1]] = d
        pd.nbits = used
        pd.t = t
        pd.item = None
        return ["msg", None, name, ext, body, {"nbits": used}], pd

    def gen_file(self, depth_left: int, top_name: Optional[str] = None) -> str:
        rng = self.rng
        pname = self.fresh(["rootp"] if not self.nfile else ["pa", "pb", "pc", "lib", "shared", "base", "common"],
                           self.pnames)
        self.pnames.append(pname)
        key = pname + ".bitproto"          # generated Python imports <proto name>_bp: keep file = proto name
        self.nfile += 1
        items: List[Any] = []
        self.files[key] = items            # reserve order: root first
        proto = PD("proto", pname)
        taken: List[str] = []
        stack = [proto]
        lo, hi = self.p.n_imports
        nimp = rng.randint(lo, hi) if depth_left > 0 else 0
        pending_imports = []
        imported_keys: List[str] = []
        for _ in range(nimp):
            reuse = [k for k in self.protos if k not in imported_keys and k != key]
            if reuse and rng.random() < 0.3:
                ck = rng.choice(reuse)
            else:
                ck = self.gen_file(depth_left - 1)
            if ck in imported_keys:
                continue
            imported_keys.append(ck)
            child = self.protos[ck]
            asn = None
            nm = child.name
            if rng.random() < 0.4 or nm in taken:
                asn = self.fresh(["m", "lib2", "dep", "ext_", "im"], taken)
                nm = asn
            taken.append(nm)
            proto.members[nm] = child
            pending_imports.append(["import", None, asn, ck])
        items.extend(pending_imports)
        ntop = rng.randint(1, self.p.max_top)
        for _ in range(ntop):
            r = rng.random()
            if r < 0.18 and self.p.consts:
                it, d = self.gen_const(stack, taken)
            elif r < 0.32:
                it, d = self.gen_alias(stack, taken)
            elif r < 0.47:
                it, d = self.gen_enum(stack, taken, [])
            elif r < 0.5 and "c.name_prefix" not in taken and not self.p.py_safe:
                it, d = ["option", None, "c.name_prefix", ["lit", ["s", "pre_"]]], PD("option", "c.name_prefix")
            else:
                it, d = self.gen_msg(stack, taken, [], 0)
            items.append(it)
            taken.append(it[2])
            proto.members[it[2]] = d
        # proto statement: usually first, sometimes elsewhere
        pos = 0 if rng.random() < 0.8 else rng.randint(0, len(items))
        items.insert(pos, ["proto", None, pname])
        self.protos[key] = proto
        return key

    def build(self) -> Dict[str, List[Any]]:
        self.gen_file(2)
        return self.files


def gen_valid(rng, params: Optional[Params] = None) -> Tuple[Dict[str, List[Any]], Builder]:
    b = Builder(rng, params)
    return b.build(), b


# --------------------------------------------------------------------------------------
# dotted references whose HEAD is shadowed by a nested message of an enclosing message
# --------------------------------------------------------------------------------------

def head_shadow(rng, variant: Optional[str] = None, py_safe: bool = False):
    """Returns (files, top path, info).  A file-scope message `Geo` (or an import bound to the
    name `ext`) and a message `Map` with its own nested message of the same name; both contain a
    member `Unit` of DIFFERENT width; `Map` (and a message nested in it) refer to `Geo.Unit` /
    `ext.T` by the dotted name: the nested one must win.  info names the items for rewrites."""
    variant = variant or rng.choice(["message", "message", "import"])
    w = rng.sample([2, 3, 5, 6, 7, 9, 11, 12, 13], 4)

    def leaf(name, width, kind):
        if kind == "enum":
            return ["enum", None, name, ["uint", width], [["efield", None, "Z0", 0], ["efield", None, "Z1", (1 << width) - 1]]]
        return ["msg", None, name, False, [["field", None, ["single", ["uint", width]], "v", 1]]]

    kind = rng.choice(["enum", "msg"])
    head, tail = ("Geo", "Unit") if variant == "message" else ("ext", "Tt")
    nested = ["msg", None, head, False, [leaf(tail, w[1], kind)]]
    deep = ["msg", None, "Deep", False, [["field", None, ["single", ["ref", [head, tail]]], "p", 1],
                                         ["field", None, ["single", ["uint", w[2]]], "q", 2]]]
    body = [nested, ["field", None, ["single", ["ref", [head, tail]]], "first", 1]]
    if rng.random() < 0.7:
        body += [deep, ["field", None, ["single", ["ref", ["Deep"]]], "deep", 3]]
    body.append(["field", None, ["arr", ["ref", [head, tail]], ["lit", 2], False] if rng.random() < 0.5
                 else ["single", ["uint", w[3]]], "tail_", 2])
    mp = ["msg", None, "Map", rng.random() < 0.3, body]
    files: Dict[str, List[Any]] = {}
    if variant == "message":
        top_def = ["msg", None, head, False, [leaf(tail, w[0], kind)]]
        other = ["msg", None, "Other", False, [["field", None, ["single", ["ref", [head, tail]]], "o", 1]]]
        files["rootp.bitproto"] = [["proto", None, "rootp"], top_def, other, mp]
        info = dict(variant=variant, top_def=top_def, nested=nested, map=mp, head=head, tail=tail, imp=None)
    else:
        imp = ["import", None, "ext", "zlibq.bitproto"]
        other = ["msg", None, "Other", False, [["field", None, ["single", ["ref", [head, tail]]], "o", 1]]]
        files["rootp.bitproto"] = [["proto", None, "rootp"], imp, other, mp]
        files["zlibq.bitproto"] = [["proto", None, "zlibq"], leaf(tail, w[0], kind)]
        info = dict(variant=variant, top_def=None, nested=nested, map=mp, head=head, tail=tail, imp=imp)
    return files, ["Map"], info


# --------------------------------------------------------------------------------------
# scenario families (round 2): name resolution depends on WHERE and AFTER WHAT a name is used
# every function returns (files, top path or None, info) with info["expect"] = (code, node) where
# node is the statement the diagnostic must cite (None: accepted)
# --------------------------------------------------------------------------------------

def _leaf(name, width, kind):
    if kind == "enum":
        return ["enum", None, name, ["uint", width], [["efield", None, "Z0", 0], ["efield", None, "Z1", (1 << width) - 1]]]
    if kind == "alias":
        return ["alias", None, name, ["single", ["uint", width]]]
    return ["msg", None, name, False, [["field", None, ["single", ["uint", width]], "v", 1]]]


def _f(t, name, num):
    return ["field", None, t, name, num]


def _ref(*p):
    return ["single", ["ref", list(p)]]


def _wrap(rng, items, depth):
    """optionally nest a list of message-level items inside `depth` enclosing messages"""
    for i in range(depth):
        items = [["msg", None, f"Wrap{i}", rng.random() < 0.3, items]]
    return items


def dotted_reuse(rng, variant: Optional[str] = None):
    """the SAME dotted text used twice in one file: first where it resolves relative to a nested
    scope, later from a scope where it must not resolve / must resolve to another definition"""
    variant = variant or rng.choice(["escape", "twin", "outer_later", "escape_deep"])
    w = rng.sample([2, 3, 5, 6, 7, 9, 11, 12, 13], 3)
    kind = rng.choice(["enum", "msg"])
    hb, tc = rng.choice([("Bb", "Cc"), ("Geo", "Unit"), ("In", "Leaf")])
    first = ["msg", None, "Aa", False, [["msg", None, hb, False, [_leaf(tc, w[0], kind)]], _f(_ref(hb, tc), "f", 1)]]
    use = _f(_ref(hb, tc) if rng.random() < 0.7 else ["arr", ["ref", [hb, tc]], ["lit", 2], False], "g", 1)
    later = ["msg", None, "Dd", False, [use, _f(["single", ["uint", w[2]]], "h", 2)]]
    if variant == "escape":
        items, exp = [first, later], (9, use)
    elif variant == "escape_deep":
        # both inside one enclosing message: still not visible from the sibling
        items, exp = [["msg", None, "Outer", False, [first, later]]], (9, use)
    elif variant == "twin":
        later[4].insert(0, ["msg", None, hb, False, [_leaf(tc, w[1], kind)]])
        items, exp = [first, later], (0, None)
    else:
        items, exp = [first, ["msg", None, hb, False, [_leaf(tc, w[1], kind)]], later], (0, None)
    files = {"rootp.bitproto": [["proto", None, "rootp"]] + items}
    return files, (["Dd"] if variant in ("twin", "outer_later") else None), dict(family="dotted_reuse", variant=variant, expect=exp)


def cross_kind(rng, variant: Optional[str] = None):
    """a declaration of the WRONG kind in an inner scope hides the outer type / constant of that
    name: the use is an error, not a reference to the outer definition"""
    variant = variant or rng.choice(["type_by_field", "type_by_outer_field", "const_by_nested", "const_by_field",
                                     "const_option_by_nested", "type_not_hidden_by_enum_member"])
    w = rng.sample([2, 3, 5, 6, 7, 9, 11], 3)
    tk = rng.choice(["enum", "alias", "msg"])
    nm = rng.choice(["Tt", "Kind", "Unit"])
    if variant == "type_by_field":
        use = _f(_ref(nm), "x", 2)
        items = [_leaf(nm, w[0], tk), ["msg", None, "Mm", False, [_f(["single", ["uint", w[1]]], nm, 1), use]]]
        exp = (10, use)
    elif variant == "type_by_outer_field":
        use = _f(_ref(nm), "y", 1)
        items = [_leaf(nm, w[0], tk), ["msg", None, "Mm", False, [_f(["single", ["uint", w[1]]], nm, 1),
                                                                  ["msg", None, "Nn", False, [use]]]]]
        exp = (10, use)
    elif variant == "const_by_nested":
        use = _f(["arr", ["bool"], ["ref", ["KK"]], False], "a", 1)
        items = [["const", None, "KK", ["expr", ["int", 3]]],
                 ["msg", None, "Mm", False, [_leaf("KK", w[0], rng.choice(["enum", "msg"])), use]]]
        exp = (8, use)
    elif variant == "const_by_field":
        use = _f(["arr", ["bool"], ["ref", ["KK"]], False], "a", 2)
        items = [["const", None, "KK", ["expr", ["int", 3]]],
                 ["msg", None, "Mm", False, [_f(["single", ["uint", w[1]]], "KK", 1), use]]]
        exp = (8, use)
    elif variant == "const_option_by_nested":
        use = ["option", None, "max_bytes", ["ref", ["KK"]]]
        items = [["const", None, "KK", ["expr", ["int", 64]]],
                 ["msg", None, "Mm", False, [_leaf("KK", w[0], "enum"), use, _f(["single", ["bool"]], "b", 1)]]]
        exp = (8, use)
    else:
        use = _f(_ref(nm), "x", 1)
        items = [_leaf(nm, w[0], tk), ["msg", None, "Mm", False, [["enum", None, "Zq", ["uint", 2], [["efield", None, nm, 0]]], use]]]
        exp = (0, None)            # an enum MEMBER is a member of the enum, not of Mm: the outer type is used
    files = {"rootp.bitproto": [["proto", None, "rootp"]] + items}
    return files, None, dict(family="cross_kind", variant=variant, expect=exp)


def popped_by_member(rng, variant: Optional[str] = None):
    """a field / enum member named like a visible type / constant / import; AFTER that scope is
    closed the name still denotes what it denoted before"""
    variant = variant or rng.choice(["one_level", "two_level", "const_by_enum_member", "import_by_field", "two_level_deep"])
    w = rng.sample([2, 3, 5, 6, 7, 9, 11], 3)
    tk = rng.choice(["enum", "alias", "msg"])
    nm = rng.choice(["Tt", "Kind", "Unit"])
    files = {}
    if variant == "one_level":
        items = [_leaf(nm, w[0], tk), ["msg", None, "Ss", False, [_f(["single", ["bool"]], nm, 1)]],
                 ["msg", None, "Uu", False, [_f(_ref(nm), "x", 1)]]]
        top = ["Uu"]
    elif variant in ("two_level", "two_level_deep"):
        inner = [_leaf(nm, w[1], rng.choice(["enum", "msg"])), ["msg", None, "Ss", False, [_f(["single", ["bool"]], nm, 1)]],
                 _f(_ref(nm), "x", 1), ["msg", None, "Vv", False, [_f(_ref(nm), "y", 1)]], _f(_ref("Vv"), "v", 2)]
        if variant == "two_level_deep":
            inner[1] = ["msg", None, "Ss", False, [["msg", None, "S2", False, [_f(["single", ["bool"]], nm, 1)]]]]
        items = [_leaf(nm, w[0], tk), ["msg", None, "Aa", False, inner]]
        top = ["Aa"]
    elif variant == "const_by_enum_member":
        items = [["const", None, "KK", ["expr", ["int", 3]]], ["enum", None, "Ee", ["uint", 8], [["efield", None, "KK", 0]]],
                 ["msg", None, "Uu", False, [_f(["arr", ["uint", w[0]], ["ref", ["KK"]], False], "a", 1)]]]
        top = ["Uu"]
    else:
        files["zlibp.bitproto"] = [["proto", None, "zlibp"], _leaf(nm, w[0], tk)]
        items = [["import", None, "Lx", "zlibp.bitproto"], ["msg", None, "Ss", False, [_f(["single", ["bool"]], "Lx", 1)]],
                 ["msg", None, "Uu", False, [_f(_ref("Lx", nm), "x", 1)]]]
        top = ["Uu"]
    files = {"rootp.bitproto": [["proto", None, "rootp"]] + items, **files}
    return files, top, dict(family="popped_by_member", variant=variant, expect=(0, None))


def twin_short_names(rng, variant: Optional[str] = None):
    """two DIFFERENT named types with the same short name (nested in two messages, or imported vs
    local), both used as array element with the same capacity and extensible flag"""
    variant = variant or rng.choice(["nested", "nested", "import"])
    w = rng.sample([2, 3, 5, 6, 7, 9, 11, 13], 2)
    kind = rng.choice(["enum", "msg"])
    nm = rng.choice(["Kind", "Item", "Cell"])
    cap = rng.randint(1, 4)
    ext = rng.random() < 0.3
    right_leaf = _leaf(nm, w[1], kind)
    right = ["msg", None, "Right", False, [right_leaf, _f(["arr", ["ref", [nm]], ["lit", cap], ext], "b", 1),
                                           _f(["single", ["uint", 5]], "t", 2)]]
    files = {}
    if variant == "nested":
        left = ["msg", None, "Left", False, [_leaf(nm, w[0], kind), _f(["arr", ["ref", [nm]], ["lit", cap], ext], "a", 1)]]
        items = [left, right]
    else:
        files["zlibt.bitproto"] = [["proto", None, "zlibt"], _leaf(nm, w[0], kind)]
        left = ["msg", None, "Left", False, [_f(["arr", ["ref", ["zlibt", nm]], ["lit", cap], ext], "a", 1)]]
        items = [["import", None, None, "zlibt.bitproto"], left, right]
    files = {"rootp.bitproto": [["proto", None, "rootp"]] + items, **files}
    return files, ["Right"], dict(family="twin_short_names", variant=variant, expect=(0, None), left=left, right=right,
                                  right_leaf=right_leaf, name=nm)


def alias_clash_imports(rng):
    """two imported files that both define a type of one name; one is imported under an `as` name
    that equals the DECLARED proto name of the other (whose file stem differs, py.module_name set)"""
    w = rng.sample([5, 7, 9, 11, 12, 13, 16], 2)
    tn = rng.choice(["Dist", "Span", "Qty"])
    files = {
        "rootp.bitproto": [["proto", None, "rootp"], ["import", None, "zunits", "zvb.bitproto"],
                           ["import", None, "legacy", "zva.bitproto"],
                           ["msg", None, "Track", False, [_f(_ref("legacy", tn), "old_len", 1), _f(_ref("zunits", tn), "new_len", 2),
                                                          _f(["single", ["uint", 4]], "flags", 3)]]],
        "zva.bitproto": [["proto", None, "zunits"], ["option", None, "py.module_name", ["lit", ["s", "zva_bp"]]],
                         ["alias", None, tn, ["single", ["uint", w[0]]]]],
        "zvb.bitproto": [["proto", None, "zvb"], ["alias", None, tn, ["single", ["uint", w[1]]]]],
    }
    return files, ["Track"], dict(family="alias_clash_imports", expect=(0, None))


SCENARIOS = {"dotted_reuse": dotted_reuse, "cross_kind": cross_kind, "popped_by_member": popped_by_member,
             "twin_short_names": twin_short_names}


def map_names(items, f):
    """rename every identifier of a list of items IN PLACE (definition, field and member names,
    import as-names, path components); option names and file keys are left alone"""
    def path(p):
        p[:] = [f(c) for c in p]

    def tyx(t):
        if t[1][0] == "ref":
            path(t[1][1])
        if t[0] == "arr" and t[2][0] == "ref":
            path(t[2][1])

    def cexpr(e):
        if e[0] == "ref":
            path(e[1])
        elif e[0] != "int":
            cexpr(e[1]); cexpr(e[2])

    for it in items:
        k = it[0]
        if k == "import":
            if it[2] is not None:
                it[2] = f(it[2])
        elif k == "option":
            if it[3][0] == "ref":
                path(it[3][1])
        elif k == "const":
            it[2] = f(it[2])
            if it[3][0] == "ref":
                path(it[3][1])
            elif it[3][0] == "expr":
                cexpr(it[3][1])
        elif k == "alias":
            it[2] = f(it[2]); tyx(it[3])
        elif k == "enum":
            it[2] = f(it[2])
            if it[3][0] == "ref":
                path(it[3][1])
            map_names(it[4], f)
        elif k == "msg":
            it[2] = f(it[2]); map_names(it[4], f)
        elif k == "field":
            tyx(it[2]); it[3] = f(it[3])
        elif k == "efield":
            it[2] = f(it[2])


def scenario(rng, family: Optional[str] = None, in_import: Optional[bool] = None):
    """one instance of a scenario family; with in_import the scenario lives in an imported file"""
    family = family or rng.choice(sorted(SCENARIOS))
    files, top, info = SCENARIOS[family](rng)
    if in_import is None:
        in_import = rng.random() < 0.25
    info["file"] = "rootp.bitproto"
    if in_import and len(files) == 1:
        items = files["rootp.bitproto"][1:]
        files = {"rootp.bitproto": [["proto", None, "rootp"], ["import", None, rng.choice([None, "sc"]), "zscen.bitproto"]],
                 "zscen.bitproto": [["proto", None, "zscen"]] + items}
        info["file"] = "zscen.bitproto"
        top = None
    return files, top, info
