"""cli_gen — a small .bitproto printer that knows where everything is (C17 / C20).

Unlike schema_gen (which knows the wire layout), this generator tracks TEXT positions: for
every definition its kind, declared name, the line / column / absolute offset of its name
token, the offset of the first token of the statement (indent), the nesting depth
(len(scope_stack)), and for every reference its token and position; per file the places
where an extensible marker can stand (in parse order, imports in place); and the order in
which proto.filter(BoundDefinition, recursive=True, bound=proto) lists the definitions
(children first).  It can perturb names (lint), markers (-O) and inject one invalid
statement at a known line (error positions).
"""
from __future__ import annotations

import random
from dataclasses import dataclass, field
from typing import Any, Dict, List, Optional, Tuple

KIND_CTOR = {"alias": "KAlias", "constant": "KConstant", "enum": "KEnum", "enum_field": "KEnumField",
             "message": "KMessage", "message_field": "KMessageField", "option": "KOption"}
KIND_CLASS = {"alias": "Alias", "constant": "Constant", "enum": "Enum", "enum_field": "EnumField",
              "message": "Message", "message_field": "MessageField", "option": "Option"}

RESERVED = {"proto", "import", "option", "type", "const", "enum", "message", "typedef", "bool", "byte",
            "true", "false", "yes", "no", "int", "uint"}

WORDS = ["alpha", "beta", "gamma", "delta", "pixel", "count", "frame", "motor", "state", "level", "speed",
         "angle", "flag", "mode", "index", "total", "value", "point", "color", "shape", "track", "zone",
         "pitch", "yaw", "roll", "volt", "amp", "temp", "node", "link", "port", "mask", "seq", "ack"]


@dataclass
class Def:
    kind: str
    name: str
    file: int
    line: int             # 1-based line of the name token
    col: int              # 1-based column of the name token
    pos: int              # absolute offset of the name token
    first_pos: int        # absolute offset of the first token of the statement
    indent: int           # columns before the first token
    depth: int            # len(scope_stack): 1 at file level
    values: List[int] = field(default_factory=list)   # enum member values
    uid: int = 0
    qual: List[str] = field(default_factory=list)     # enclosing message names + own name
    violations: List[str] = field(default_factory=list)  # generator's own note (not used as oracle)


@dataclass
class Ref:
    token: str
    file: int
    line: int
    col: int
    pos: int


@dataclass
class FileOut:
    name: str                 # file name, e.g. "a.bitproto"
    proto: str
    text: str = ""
    defs: List[Def] = field(default_factory=list)     # bound definitions in filter order
    refs: List[Ref] = field(default_factory=list)     # in the order the parser records them
    flags: List[Any] = field(default_factory=list)    # ("flag", marker, line) | ("import", file_index)
    imports: List[int] = field(default_factory=list)


@dataclass
class Params:
    n_imports: int = 1
    nested_import: bool = False
    max_msgs: int = 3
    max_nested: int = 2
    markers: float = 0.0          # probability of an extensible marker at each possible place (root file)
    markers_import: float = 0.0   # same, inside imported files
    perturb: float = 0.0          # probability that a name is perturbed (lint), root file
    perturb_import: float = 0.0   # same, inside imported files
    indent_noise: float = 0.0     # probability of a wrong indentation
    line1_def: bool = False       # put a definition on line 1 (col-line1 finding class)
    dup_simple_names: bool = False  # nested message with the simple name of a top-level one
    comments: float = 0.25
    blanks: float = 0.25
    enum_no_zero: float = 0.0
    semicolons: float = 0.3
    options: float = 0.3
    same_line: float = 0.0        # probability that a one-line statement is written BEHIND the previous one
                                  # (`const A = 4; const B = 8`): several definitions on one physical line


class Printer:
    def __init__(self, findex: int, name: str, proto: str):
        self.f = FileOut(name=name, proto=proto)
        self.findex = findex
        self.lines: List[str] = []
        self.joinable = False          # the last line is a one-line statement without a comment
        self.ends_semicolon = False
        self.pending: Optional[str] = None

    def put(self, col0: int, body: str) -> Tuple[int, int]:
        """write a one-line statement whose first character stands at column offset col0: on a new line
        (col0 spaces before it) or, when Gen.place decided so, behind the previous statement of the last line"""
        if self.pending is not None:
            assert len(self.lines[-1]) + len(self.pending) == col0
            self.lines[-1] += self.pending + body
            self.pending = None
            line, off = len(self.lines), sum(len(l) + 1 for l in self.lines[:-1])
        else:
            line, off = self.emit(" " * col0 + body)
        self.joinable = "//" not in body
        self.ends_semicolon = body.rstrip().endswith(";")
        return line, off

    def offset_of_line(self) -> int:
        return sum(len(l) + 1 for l in self.lines)

    def emit(self, s: str) -> Tuple[int, int]:
        """append a line; returns (1-based line number, absolute offset of its first char)"""
        off = self.offset_of_line()
        self.lines.append(s)
        self.joinable = False
        self.pending = None
        return len(self.lines), off

    def finish(self) -> FileOut:
        self.f.text = "\n".join(self.lines) + "\n"
        return self.f


class Gen:
    def __init__(self, rng: random.Random, params: Params):
        self.rng = rng
        self.p = params
        self.used: set = set()
        self.uid = 0
        self.cur_markers = 0.0
        self.cur_perturb = 0.0
        self.force_join = False
        self.no_comment = False
        self.files: List[FileOut] = []

    # ---- names ---------------------------------------------------------------------------
    def fresh(self, make) -> str:
        for _ in range(200):
            n = make()
            if n.lower() not in self.used and n.lower() not in RESERVED and not n.lower().startswith(("uint", "int")):
                self.used.add(n.lower())
                return n
        raise RuntimeError("cannot find a fresh name")

    def words(self, k: int) -> List[str]:
        return [self.rng.choice(WORDS) for _ in range(k)]

    def pascal(self) -> str:
        r = self.rng
        ws = self.words(r.randint(1, 3))
        s = "".join(w.capitalize() for w in ws)
        if r.random() < 0.2:
            s += str(r.randint(0, 99))
        return s

    def snake(self) -> str:
        r = self.rng
        ws = self.words(r.randint(1, 3))
        if r.random() < 0.25:
            ws.insert(r.randint(1, len(ws)), str(r.randint(0, 99)))
        return "_".join(ws)

    def upper(self) -> str:
        r = self.rng
        ws = [w.upper() for w in self.words(r.randint(1, 3))]
        if r.random() < 0.3:
            ws[-1] += str(r.randint(0, 9))
        return "_".join(ws)

    def perturbed(self, kind: str) -> str:
        """a name in some OTHER style (or a borderline one); what the linter says about it is
        decided by the Coq model, not here"""
        r = self.rng
        ws = self.words(r.randint(1, 3))
        styles = [
            lambda: "_".join(ws),                                   # snake
            lambda: "".join(w.capitalize() for w in ws),            # Pascal
            lambda: "_".join(w.upper() for w in ws),                # UPPER
            lambda: ws[0] + "".join(w.capitalize() for w in ws[1:]),  # camel
            lambda: "_".join(w.capitalize() for w in ws),           # Pascal_Snake
            lambda: "".join(w.upper() for w in ws),                 # FLATUPPER
            lambda: ws[0] + str(r.randint(0, 9)),                   # letter-digit adjacency
            lambda: ws[0].capitalize() + str(r.randint(0, 9)) + ws[-1],
            lambda: ws[0] + "__" + ws[-1],                          # doubled underscore
            lambda: "_" + ws[0],                                    # leading underscore
            lambda: ws[0] + "_",                                    # trailing underscore
            lambda: ws[0].upper() + ws[-1].capitalize(),            # HTTPServer-like
            lambda: ws[0][0].upper(),                               # single capital
            lambda: ws[0][0],                                       # single lower
            lambda: "_" + str(r.randint(0, 9)),                     # no cased character
        ]
        return r.choice(styles)()

    def name_for(self, kind: str) -> str:
        if self.rng.random() < self.cur_perturb:
            return self.fresh(lambda: self.perturbed(kind))
        if kind in ("alias", "enum", "message"):
            return self.fresh(self.pascal)
        if kind in ("constant", "enum_field"):
            return self.fresh(self.upper)
        return self.fresh(self.snake)

    # ---- layout helpers -------------------------------------------------------------------
    def ind(self, depth: int) -> int:
        """indentation for a statement at nesting depth (depth = len(scope_stack))"""
        base = 4 * (depth - 1)
        if self.rng.random() < self.p.indent_noise:
            return max(0, base + self.rng.choice([-4, -2, -1, 1, 2, 3, 4, 8]))
        return base

    def place(self, pr: Printer, depth: int) -> int:
        """column offset at which the next one-line statement starts: its own line (indented), or behind the
        previous statement of the current line, separated by `;` (or by a blank when that one ends with `;`,
        rarely by a blank alone - the grammar needs no separator)"""
        r = self.rng
        if pr.joinable and (self.force_join or r.random() < self.p.same_line):
            if pr.ends_semicolon:
                sep = r.choice([" ", "  ", ""])
            else:
                sep = r.choice(["; ", "; ", " ; ", ";", " "])
            pr.pending = sep
            return len(pr.lines[-1]) + len(sep)
        return self.ind(depth)

    def noise(self, pr: Printer, depth: int) -> None:
        r = self.rng
        if self.force_join:
            return
        if r.random() < self.p.blanks:
            pr.emit("" if r.random() < 0.7 else " " * r.randint(1, 6))
        if r.random() < self.p.comments:
            pr.emit(" " * (4 * (depth - 1) if r.random() < 0.8 else r.randint(0, 9)) + "// " +
                    r.choice(["note", "TODO: check", "message Fake' { uint3[2]' x = 1 }", "const a = 1;"]))

    def tail(self) -> str:
        r = self.rng
        if self.no_comment:
            return ";" if r.random() < self.p.semicolons else ""
        s = ";" if r.random() < self.p.semicolons else ""
        if r.random() < self.p.comments * 0.5:
            s += " // " + r.choice(["trailing", "uint8 y = 2", "'"])
        return s

    def add_def(self, pr: Printer, kind: str, name: str, line: int, off: int, indent: int, name_col0: int,
                depth: int, qual: List[str], values: Optional[List[int]] = None) -> Def:
        d = Def(kind=kind, name=name, file=pr.findex, line=line, col=name_col0 + 1, pos=off + name_col0,
                first_pos=off + indent, indent=indent, depth=depth, values=values or [], uid=self.uid, qual=qual)
        self.uid += 1
        return d

    # ---- statements -----------------------------------------------------------------------
    def base_type(self) -> str:
        r = self.rng
        return r.choice(["bool", "byte", f"uint{r.randint(1, 64)}", f"int{r.randint(1, 64)}"])

    def marker(self) -> bool:
        return self.rng.random() < self.cur_markers

    def type_expr(self, pr: Printer, scope_types: List[Tuple[str, str]], consts: List[str]):
        """returns (text, [(ref token, offset in text)], [marker flags in order])"""
        r = self.rng
        refs: List[Tuple[str, int]] = []
        flags: List[bool] = []
        choice = r.random()
        if scope_types and choice < 0.4:
            tname, _ = r.choice(scope_types)
            base = tname
            refs.append((tname, 0))
        else:
            base = self.base_type()
        if r.random() < 0.35:
            if consts and r.random() < 0.3:
                c = r.choice(consts)
                cap = c
                refs.append((c, len(base) + 1))
            else:
                cap = str(r.randint(1, 5))
            m = self.marker()
            flags.append(m)
            return f"{base}[{cap}]" + ("'" if m else ""), refs, flags
        return base, refs, flags

    def gen_enum(self, pr: Printer, depth: int, qual: List[str], out_defs: List[Def]) -> str:
        r = self.rng
        name = self.name_for("enum")
        self.noise(pr, depth)
        ind = self.ind(depth)
        bits = r.randint(2, 8)
        head = " " * ind + "enum " + name + " : uint" + str(bits) + " {"
        line, off = pr.emit(head + (" // e" if r.random() < 0.1 else ""))
        n = r.randint(1, 4)
        vals = r.sample(range(0, min(2 ** bits, 12)), min(n, min(2 ** bits, 12)))
        if r.random() < self.p.enum_no_zero:
            vals = [v for v in vals if v != 0] or [1]
        elif 0 not in vals:
            vals[r.randrange(len(vals))] = 0
        members: List[Def] = []
        for v in vals:
            self.noise(pr, depth + 1)
            mind = self.place(pr, depth + 1)
            mname = self.name_for("enum_field")
            lit = (hex(v) if r.random() < 0.3 else str(v))
            l2, o2 = pr.put(mind, mname + " = " + lit + self.tail())
            members.append(self.add_def(pr, "enum_field", mname, l2, o2, mind, mind, depth + 1, qual + [name, mname]))
        self.noise(pr, depth + 1)
        pr.emit(" " * (4 * (depth - 1)) + "}")
        out_defs.extend(members)
        out_defs.append(self.add_def(pr, "enum", name, line, off, ind, ind + 5, depth, qual + [name], values=vals))
        return name

    def gen_message(self, pr: Printer, depth: int, qual: List[str], out_defs: List[Def],
                    visible_types: List[Tuple[str, str]], consts: List[str], nest_left: int,
                    forced_name: Optional[str] = None) -> str:
        r = self.rng
        name = forced_name or self.name_for("message")
        self.noise(pr, depth)
        ind = self.ind(depth)
        m = self.marker()
        head = " " * ind + "message " + name + ("'" if m else "") + " {"
        line, off = pr.emit(head)
        pr.f.flags.append(("flag", m, line))
        inner: List[Def] = []
        local_types = list(visible_types)
        nfields = r.randint(1, 4)
        numbers = r.sample(range(1, 40), nfields)
        # nested definitions first or interleaved
        plan = ["field"] * nfields
        if nest_left > 0 and r.random() < 0.5:
            plan.insert(r.randint(0, len(plan)), "message")
        if r.random() < 0.3:
            plan.insert(r.randint(0, len(plan)), "enum")
        if r.random() < self.p.options * 0.5:
            plan.insert(0, "option")
        fi = 0
        for what in plan:
            if what == "message":
                forced = None
                if self.p.dup_simple_names and visible_types and r.random() < 0.8:
                    cands = [t for t, k in visible_types if k == "message" and "." not in t]
                    if cands:
                        forced = r.choice(cands)
                n2 = self.gen_message(pr, depth + 1, qual + [name], inner, local_types, consts, nest_left - 1, forced)
                local_types = [(t, k) for t, k in local_types if t != n2] + [(n2, "message")]
            elif what == "enum":
                n2 = self.gen_enum(pr, depth + 1, qual + [name], inner)
                local_types.append((n2, "enum"))
            elif what == "option":
                self.noise(pr, depth + 1)
                oind = self.place(pr, depth + 1)
                l2, o2 = pr.put(oind, "option max_bytes = " + str(r.choice([0, 4000, 8191])) + self.tail())
                inner.append(self.add_def(pr, "option", "max_bytes", l2, o2, oind, oind + 7, depth + 1,
                                          qual + [name, "max_bytes"]))
            else:
                self.noise(pr, depth + 1)
                find = self.place(pr, depth + 1)
                ttext, trefs, tflags = self.type_expr(pr, local_types, consts)
                fname = self.name_for("message_field")
                l2, o2 = pr.put(find, ttext + " " + fname + " = " + str(numbers[fi]) + self.tail())
                fi += 1
                for tok, toff in trefs:
                    pr.f.refs.append(Ref(tok, pr.findex, l2, find + toff + 1, o2 + find + toff))
                for fl in tflags:
                    pr.f.flags.append(("flag", fl, l2))
                inner.append(self.add_def(pr, "message_field", fname, l2, o2, find, find + len(ttext) + 1, depth + 1,
                                          qual + [name, fname]))
        self.noise(pr, depth + 1)
        pr.emit(" " * (4 * (depth - 1)) + "}" + (" // end" if r.random() < 0.1 else ""))
        out_defs.extend(inner)
        out_defs.append(self.add_def(pr, "message", name, line, off, ind, ind + 8, depth, qual + [name]))
        return name

    def gen_file(self, findex: int, fname: str, proto: str, imports: List[Tuple[int, str, Optional[str], List[str]]],
                 n_msgs: int) -> FileOut:
        """imports: (file index, path, alias, exported type names)"""
        r = self.rng
        self.cur_markers = self.p.markers if findex == 0 else self.p.markers_import
        self.cur_perturb = self.p.perturb if findex == 0 else self.p.perturb_import
        pr = Printer(findex, fname, proto)
        top: List[Def] = []
        visible: List[Tuple[str, str]] = []
        consts: List[str] = []
        if r.random() < 0.3 and not self.p.line1_def:
            pr.emit("// " + r.choice(["generated schema", "proto fake", "header"]))
        line1_pending = self.p.line1_def
        if line1_pending:
            # a definition on the very first line of the file
            kind = r.choice(["constant", "alias", "message", "enum"])
            if kind == "constant":
                nm = self.name_for("constant")
                ind = r.choice([0, 0, 1, 4])
                l, o = pr.emit(" " * ind + "const " + nm + " = " + str(r.randint(1, 5)))
                top.append(self.add_def(pr, "constant", nm, l, o, ind, ind + 6, 1, [nm]))
                consts.append(nm)
            elif kind == "alias":
                nm = self.name_for("alias")
                ind = r.choice([0, 0, 2])
                l, o = pr.emit(" " * ind + "type " + nm + " = uint" + str(r.randint(1, 32)))
                top.append(self.add_def(pr, "alias", nm, l, o, ind, ind + 5, 1, [nm]))
                visible.append((nm, "alias"))
            elif kind == "message":
                saved = (self.p.blanks, self.p.comments)
                self.p.blanks = self.p.comments = 0.0
                pos0 = len(pr.lines)
                nm = self.gen_message(pr, 1, [], top, visible, consts, 0)
                self.p.blanks, self.p.comments = saved
                visible.append((nm, "message"))
            else:
                saved = (self.p.blanks, self.p.comments)
                self.p.blanks = self.p.comments = 0.0
                nm = self.gen_enum(pr, 1, [], top)
                self.p.blanks, self.p.comments = saved
                visible.append((nm, "enum"))
        pr.emit("proto " + proto + (";" if r.random() < 0.2 else ""))
        for (ix, path, alias, exported) in imports:
            self.noise(pr, 1)
            pr.emit("import " + (alias + " " if alias else "") + '"' + path + '"' + (";" if r.random() < 0.2 else ""))
            pr.f.flags.append(("import", ix))
            pr.f.imports.append(ix)
            for t in exported:
                visible.append(((alias or self.files[ix].proto) + "." + t, "imported"))
        if r.random() < self.p.options:
            self.noise(pr, 1)
            ind = self.place(pr, 1)
            l, o = pr.put(ind, "option c.struct_packing_alignment = " + str(r.choice([0, 1, 2, 4, 8])) + self.tail())
            top.append(self.add_def(pr, "option", "c.struct_packing_alignment", l, o, ind, ind + 7, 1,
                                    ["c.struct_packing_alignment"]))
        plan = ["message"] * n_msgs + ["constant"] * r.randint(0, 2) + ["alias"] * r.randint(0, 2) + ["enum"] * r.randint(0, 2)
        r.shuffle(plan)
        if self.p.same_line > 0 and r.random() < 0.7:
            # two (or three) renderable definitions on ONE physical line: `const W = 4; const H = 8`,
            # `type Row = uint8[4]; type Cell = uint8`, a constant followed by an alias, ...
            k = r.randint(0, len(plan))
            plan[k:k] = [r.choice(["constant", "alias"])] + ["+" + r.choice(["constant", "alias"])
                                                              for _ in range(r.choice([1, 1, 2]))]
        top_msgs = 0
        for pi_, what in enumerate(plan):
            self.force_join = what.startswith("+")
            self.no_comment = pi_ + 1 < len(plan) and plan[pi_ + 1].startswith("+")
            what = what.lstrip("+")
            if what == "constant":
                self.noise(pr, 1)
                ind = self.place(pr, 1)
                nm = self.name_for("constant")
                rhs_kind = r.random()
                reftok = None
                if consts and rhs_kind < 0.3:
                    reftok = r.choice(consts)
                    rhs = reftok + " + " + str(r.randint(1, 3))
                elif rhs_kind < 0.8:
                    rhs = str(r.randint(1, 6))
                else:
                    rhs = r.choice(['"text"', "true", "no", r'"up\ndown"', r'"a\tb\\c"', r'"say \"hi\"\n"',
                                    r'"\n\n"', r'"it\'s"', r'"cr\rlf\n"'])
                l, o = pr.put(ind, "const " + nm + " = " + rhs + self.tail())
                if reftok:
                    c0 = ind + 6 + len(nm) + 3
                    pr.f.refs.append(Ref(reftok, findex, l, c0 + 1, o + c0))
                top.append(self.add_def(pr, "constant", nm, l, o, ind, ind + 6, 1, [nm]))
                if rhs[0].isdigit() or reftok:
                    consts.append(nm)
            elif what == "alias":
                self.noise(pr, 1)
                ind = self.place(pr, 1)
                nm = self.name_for("alias")
                base = self.base_type()
                ttext = base
                flags = []
                if r.random() < 0.5:
                    m = self.marker()
                    flags.append(m)
                    ttext = f"{base}[{r.randint(1, 6)}]" + ("'" if m else "")
                l, o = pr.put(ind, "type " + nm + " = " + ttext + self.tail())
                for fl in flags:
                    pr.f.flags.append(("flag", fl, l))
                top.append(self.add_def(pr, "alias", nm, l, o, ind, ind + 5, 1, [nm]))
                visible.append((nm, "alias"))
            elif what == "enum":
                nm = self.gen_enum(pr, 1, [], top)
                visible.append((nm, "enum"))
            else:
                nm = self.gen_message(pr, 1, [], top, visible, consts,
                                      self.p.max_nested if top_msgs < 2 else 0)
                top_msgs += 1
                visible.append((nm, "message"))
        self.force_join = self.no_comment = False
        if r.random() < 0.3:
            pr.emit("// end of file")
        f = pr.finish()
        f.defs = top
        return f

    def schema(self) -> "Schema":
        r = self.rng
        self.files = [None] * (1 + self.p.n_imports + (1 if self.p.nested_import and self.p.n_imports else 0))  # type: ignore
        names = ["root", "liba", "libb", "libc"]
        # leaf imports first
        order = list(range(len(self.files) - 1, 0, -1))
        exported: Dict[int, List[str]] = {}
        nested_child = len(self.files) - 1 if (self.p.nested_import and self.p.n_imports) else None
        saved_line1 = self.p.line1_def
        for ix in order:
            imps = []
            if nested_child is not None and ix == 1:
                alias = r.choice([None, "deep"])
                imps.append((nested_child, names[nested_child] + ".bitproto", alias, exported[nested_child]))
            self.p.line1_def = saved_line1 and r.random() < 0.3
            f = self.gen_file(ix, names[ix] + ".bitproto", names[ix], imps, r.randint(1, 2))
            self.files[ix] = f
            exported[ix] = [d.name for d in f.defs if d.kind in ("message", "enum", "alias") and d.depth == 1]
        self.p.line1_def = saved_line1
        imps = []
        for ix in range(1, 1 + self.p.n_imports):
            alias = r.choice([None, None, "lib" + str(ix)])
            imps.append((ix, names[ix] + ".bitproto", alias, exported[ix]))
        root = self.gen_file(0, "root.bitproto", "root", imps, r.randint(1, self.p.max_msgs))
        self.files[0] = root
        return Schema(self.files)


class Schema:
    def __init__(self, files: List[FileOut]):
        self.files = files

    @property
    def texts(self) -> Dict[str, str]:
        return {f.name: f.text for f in self.files}

    def ftree(self, findex: int = 0) -> List[Any]:
        out = []
        for fl in self.files[findex].flags:
            if fl[0] == "flag":
                out.append(("flag", fl[1], fl[2]))
            else:
                out.append(("import", fl[1], self.ftree(fl[1])))
        return out

    def any_marker(self) -> bool:
        def walk(t):
            return any((x[0] == "flag" and x[1]) or (x[0] == "import" and walk(x[2])) for x in t)
        return walk(self.ftree())

    def root_messages(self) -> List[Def]:
        return [d for d in self.files[0].defs if d.kind == "message"]

    def import_depth(self) -> Dict[int, int]:
        depth = {0: 0}

        def walk(ix: int) -> None:
            for c in self.files[ix].imports:
                depth[c] = depth[ix] + 1
                walk(c)
        walk(0)
        return depth

    def to_json(self) -> Dict[str, Any]:
        from dataclasses import asdict
        return {"files": [{"name": f.name, "proto": f.proto, "text": f.text, "defs": [asdict(d) for d in f.defs],
                           "refs": [asdict(x) for x in f.refs], "flags": [list(x) for x in f.flags],
                           "imports": f.imports} for f in self.files]}

    @staticmethod
    def from_json(j: Dict[str, Any]) -> "Schema":
        files = []
        for f in j["files"]:
            files.append(FileOut(name=f["name"], proto=f["proto"], text=f["text"],
                                 defs=[Def(**d) for d in f["defs"]], refs=[Ref(**x) for x in f["refs"]],
                                 flags=[tuple(x) for x in f["flags"]], imports=list(f["imports"])))
        return Schema(files)


# ---- schemas with a prescribed number of lint warnings (boundary catalogue of `-c` exit statuses) ----

def warn_schema(rng: random.Random, n: int) -> "Schema":
    """A valid one-file schema whose definitions violate the style guide in exactly n places, one warning
    each (lower-case constants and enum members, non-Pascal aliases, non-snake fields), mixed with conforming
    definitions.  The expected warning list still comes from the Coq model; n only steers the size."""
    g = Gen(rng, Params(comments=0.0, blanks=0.0, semicolons=0.2))
    pr = Printer(0, "root.bitproto", "root")
    top: List[Def] = []
    pr.emit("proto root")
    parts = [0, 0, 0, 0]                    # constants, aliases, enum members, message fields
    caps = [10 ** 6, 10 ** 6, 250, 200]
    for _ in range(n):
        k = rng.choice([0, 0, 1, 2, 3])
        if parts[k] >= caps[k]:
            k = 0
        parts[k] += 1
    def bad_or_good(i: int, count: int, total: int) -> bool:
        return i < count
    # constants
    n_good = rng.randint(0, 3)
    flags = [True] * parts[0] + [False] * n_good
    rng.shuffle(flags)
    for i, bad in enumerate(flags):
        nm = (rng.choice(["lim", "cfg", "maxVal", "k"]) + str(i)) if bad else f"LIMIT_{i}"
        l, o = pr.put(0, "const " + nm + " = " + str(rng.randint(1, 9)) + g.tail())
        top.append(g.add_def(pr, "constant", nm, l, o, 0, 6, 1, [nm]))
    flags = [True] * parts[1] + [False] * rng.randint(0, 2)
    rng.shuffle(flags)
    for i, bad in enumerate(flags):
        nm = (rng.choice(["word", "my_type", "t"]) + str(i)) if bad else f"Word{i}"
        l, o = pr.put(0, "type " + nm + " = uint" + str(rng.randint(1, 32)) + g.tail())
        top.append(g.add_def(pr, "alias", nm, l, o, 0, 5, 1, [nm]))
    if parts[2]:
        line, off = pr.emit("enum Kind : uint16 {")
        flags = [True] * parts[2] + [False] * rng.randint(1, 3)
        rng.shuffle(flags)
        members = []
        for i, bad in enumerate(flags):
            nm = (rng.choice(["item", "Case", "opt_x"]) + str(i)) if bad else f"ITEM_{i}"
            l, o = pr.put(4, nm + " = " + str(i) + g.tail())
            members.append(g.add_def(pr, "enum_field", nm, l, o, 4, 4, 2, ["Kind", nm]))
        pr.emit("}")
        top.extend(members)
        top.append(g.add_def(pr, "enum", "Kind", line, off, 0, 5, 1, ["Kind"], values=list(range(len(flags)))))
    if parts[3]:
        line, off = pr.emit("message Wide {")
        flags = [True] * parts[3] + [False] * rng.randint(1, 3)
        rng.shuffle(flags)
        fields = []
        for i, bad in enumerate(flags):
            nm = (rng.choice(["Fld", "someField", "X"]) + str(i)) if bad else f"fld_{i}"
            l, o = pr.put(4, "bool " + nm + " = " + str(i + 1) + g.tail())
            fields.append(g.add_def(pr, "message_field", nm, l, o, 4, 9, 2, ["Wide", nm]))
        pr.emit("}")
        top.extend(fields)
        top.append(g.add_def(pr, "message", "Wide", line, off, 0, 8, 1, ["Wide"]))
    f = pr.finish()
    f.defs = top
    return Schema([f])


# ---- single-violation mutants (error positions) ------------------------------------------------

INJECT_KINDS = ["uint65", "undefined_type", "array2d", "fieldno256", "dup_fieldno", "undefined_const",
                "dup_name", "enum_overflow", "stray_char", "bad_escape", "int0", "fieldno0",
                "div_zero", "import_in_message", "import_in_enum"]


def inject(s: "Schema", rng: random.Random, kind: Optional[str] = None):
    """Insert ONE invalid statement into a copy of the file texts.  Returns
    (texts, file index, expected 1-based line, kind, inserted line text) or None when the schema has no
    suitable place for this kind."""
    import re as _re
    kind = kind or rng.choice(INJECT_KINDS)
    order = list(range(len(s.files)))
    rng.shuffle(order)
    for fi in order:
        f = s.files[fi]
        lines = f.text.split("\n")
        msgs = [d for d in f.defs if d.kind == "message"]
        fields = [d for d in f.defs if d.kind == "message_field"]
        enums = [d for d in f.defs if d.kind == "enum"]
        tops = [d for d in f.defs if d.depth == 1 and d.kind in ("message", "enum", "alias", "constant") and d.line > 1]
        at = None
        text = None
        if kind in ("uint65", "undefined_type", "array2d", "fieldno256", "stray_char", "int0", "fieldno0") and msgs:
            m = rng.choice(msgs)
            ind = " " * (4 * m.depth)
            body = {"uint65": "uint65 zz_bad = 201", "undefined_type": "NoSuchType zz_bad = 202",
                    "array2d": "uint3[2][2] zz_bad = 203", "fieldno256": "bool zz_bad = 256",
                    "stray_char": "bool zz_bad = 204 $", "int0": "int0 zz_bad = 205", "fieldno0": "bool zz_bad = 0"}[kind]
            at, text = m.line + 1, ind + body
        elif kind == "dup_fieldno" and fields:
            fd = rng.choice(fields)
            mm = _re.search(r"= (\d+)", lines[fd.line - 1])
            if not mm:
                continue
            at, text = fd.line + 1, " " * fd.indent + "bool zz_dup = " + mm.group(1)
        elif kind == "enum_overflow" and enums:
            e = rng.choice(enums)
            at, text = e.line + 1, " " * (4 * e.depth) + "ZZ_BAD = 99999"
        elif kind in ("import_in_message", "import_in_enum") and (msgs if kind == "import_in_message" else enums):
            m = rng.choice(msgs if kind == "import_in_message" else enums)
            at, text = m.line + 1, " " * (4 * m.depth) + 'import "zz_extra.bitproto"'
        elif kind in ("undefined_const", "dup_name", "bad_escape", "div_zero") and tops:
            t = rng.choice(tops)
            if kind == "undefined_const":
                text = "const ZZ_BAD = NO_SUCH_CONST + 1"
            elif kind == "div_zero":
                text = "const ZZ_BAD = 7 / (2 - 2)"
            elif kind == "bad_escape":
                text = 'const ZZ_BAD = "a\\qb"'
            else:
                prior = [d for d in f.defs if d.depth == 1 and d.line < t.line and d.kind in ("message", "enum", "alias", "constant")]
                if not prior:
                    continue
                text = "const " + rng.choice(prior).name + " = 1"
            at = t.line
        if at is None:
            continue
        new_lines = lines[:at - 1] + [text] + lines[at - 1:]
        texts = dict(s.texts)
        texts[f.name] = "\n".join(new_lines)
        if kind.startswith("import_in_"):
            texts["zz_extra.bitproto"] = "proto zz_extra\n"
        return texts, fi, at, kind, text
    return None


# ---- Coq printers ---------------------------------------------------------------------------

def coq_string(s: str) -> str:
    out = []
    for ch in s:
        o = ord(ch)
        if ch == '"':
            out.append('""')
        elif ch == "\n" or 32 <= o < 127:
            out.append(ch)
        else:
            raise ValueError(f"character {o} cannot be printed as a Coq string")
    return '"' + "".join(out) + '"'


def coq_ftree(t: List[Any]) -> str:
    items = []
    for x in t:
        if x[0] == "flag":
            items.append(f"FFlag {'true' if x[1] else 'false'} {x[2]}")
        elif x[0] == "import":
            items.append(f"FImport {x[1]} {coq_ftree(x[2])}")
        else:
            items.append(f"FBad {x[1]}")
    return "[" + "; ".join(items) + "]"


def coq_bdefs(defs: List[Def]) -> str:
    return "[" + "; ".join(f"mkDef {KIND_CTOR[d.kind]} {coq_string(d.name)} {d.uid}" for d in defs) + "]"


def coq_ldefs(defs: List[Def], indent_of=None, depth_of=None) -> str:
    rows = []
    for d in defs:
        vals = "[" + "; ".join(str(v) for v in d.values) + "]"
        rows.append(f"mkL {KIND_CTOR[d.kind]} {coq_string(d.name)} {d.line} {d.indent} {d.depth} {vals}")
    return "[" + "; ".join(rows) + "]"


if __name__ == "__main__":
    import sys
    rng = random.Random(int(sys.argv[1]) if len(sys.argv) > 1 else 1)
    g = Gen(rng, Params(n_imports=1, nested_import=True, perturb=0.3, markers=0.2, dup_simple_names=True))
    s = g.schema()
    for f in s.files:
        print("=====", f.name)
        print(f.text)
        for d in f.defs:
            print("  ", d.kind, d.name, d.line, d.col, d.indent, d.depth, d.values)
        print("  flags", f.flags)
        print("  refs", [(x.token, x.line, x.col) for x in f.refs])
