"""run_c09 — worker for C09 (compilation is total).

Runs the REAL bitproto front end (lexer, parse(), lint(), render() for c/go/py, and the CLI
as a subprocess) on arbitrary input texts under a per-input time limit and reports the
outcome CLASS:

    ok | parser_error (class name) | renderer_error | os_error | crash (traceback) | hang

stdin : JSON list of jobs, stdout: JSON list of results (same length).  Job kinds:
  {"kind":"compile", "id", "dir", "files":{name: text (written as UTF-8) | {"b64": raw bytes}}, "main",
   "langs":["c","go","py"], "limit": seconds, "cli": bool}
  {"kind":"lex", "id", "text": str}           first token of the real Lexer on `text`
  {"kind":"expr", "id", "text": str}          parse_string("proto a\\nconst A = <text>\\n")
Never trusted: what it reports is re-checked in Coq against the model (lex / expr) or is
only a failing-input SEARCH (compile), see tools/props/c09.py.
"""
import base64
import json
import os
import signal
import subprocess
import sys
import traceback


class _Hang(BaseException):
    pass


def _alarm(_s, _f):
    raise _Hang()


signal.signal(signal.SIGALRM, _alarm)
signal.signal(signal.SIGPROF, _alarm)


WALL_FACTOR = 8.0


def _set_limit(sec: float) -> None:
    """`sec` seconds of CPU time of this process (user+system), and WALL_FACTOR times that of
    wall-clock time as a backstop (the machine may be loaded; a blocked read burns no CPU)."""
    signal.setitimer(signal.ITIMER_PROF, sec)
    signal.setitimer(signal.ITIMER_REAL, sec * WALL_FACTOR)


def _clear_limit() -> None:
    signal.setitimer(signal.ITIMER_PROF, 0)
    signal.setitimer(signal.ITIMER_REAL, 0)


def bitproto_frames(tb) -> list:
    """file:function of every frame that lies inside the bitproto package, outermost first."""
    out = []
    for fs in traceback.extract_tb(tb):
        fn = fs.filename.replace("\\", "/")
        if "/bitproto/" in fn:
            out.append(fn.split("/bitproto/", 1)[1] + ":" + fs.name)
    return out


def innermost_bitproto_frame(tb) -> str:
    """the innermost frame inside the bitproto package (the raising function, or the
    bitproto function that called into ply / the stdlib)."""
    fr = bitproto_frames(tb)
    return fr[-1] if fr else "?"


def classify(e: BaseException) -> dict:
    from bitproto.errors import ParserError, RendererError
    if isinstance(e, _Hang):
        return {"cls": "hang"}
    if isinstance(e, ParserError):
        return {"cls": "parser_error", "error": type(e).__name__,
                "lineno": getattr(e, "lineno", None)}
    if isinstance(e, RendererError):
        return {"cls": "renderer_error", "error": type(e).__name__}
    if isinstance(e, OSError):
        return {"cls": "os_error", "error": type(e).__name__}
    tb = e.__traceback__
    last = traceback.extract_tb(tb)[-1] if tb else None
    return {"cls": "crash", "exc": type(e).__name__, "msg": str(e)[:160],
            "site": innermost_bitproto_frame(tb), "chain": bitproto_frames(tb)[-4:],
            "raised_in": (os.path.basename(last.filename) + ":" + last.name) if last else "?",
            "trace": "".join(traceback.format_exception(type(e), e, tb))[-1800:]}


def file_bytes(v) -> bytes:
    if isinstance(v, dict):
        return base64.b64decode(v["b64"])
    return v.encode("utf-8", "surrogatepass")


def write_files(job) -> str:
    d = job["dir"]
    os.makedirs(d, exist_ok=True)
    for name, v in job["files"].items():
        p = os.path.join(d, name)
        os.makedirs(os.path.dirname(p), exist_ok=True)
        with open(p, "wb") as f:
            f.write(file_bytes(v))
    for name in job.get("symlinks", {}):
        p = os.path.join(d, name)
        if os.path.lexists(p):
            os.remove(p)
        os.symlink(job["symlinks"][name], p)
    return os.path.join(d, job["main"])


def do_compile(job) -> dict:
    from bitproto.linter import lint
    from bitproto.parser import parse
    from bitproto.renderer import render
    res = {"id": job["id"], "stages": {}}
    limit = float(job.get("limit", 10))
    main = write_files(job)
    proto = None
    import time as _time
    cpu0 = _time.process_time()
    try:
        _set_limit(limit)
        proto = parse(main)
        _clear_limit()
        from bitproto._ast import Proto
        if isinstance(proto, Proto):
            res["stages"]["parse"] = {"cls": "ok"}
        else:
            # parse() neither raised nor produced a schema (the command line would go on to
            # lint(None) / render(None) and die with an AttributeError)
            res["stages"]["parse"] = {"cls": "crash", "exc": "NoSchemaReturned", "site": "parser.py:parse",
                                      "chain": ["parser.py:parse"], "msg": f"parse() returned {type(proto).__name__}",
                                      "trace": ""}
            proto = None
    except BaseException as e:  # noqa
        _clear_limit()
        res["stages"]["parse"] = classify(e)
    if proto is not None:
        if job.get("lint", True):
            try:
                _set_limit(limit)
                saved = sys.stderr
                sys.stderr = open(os.devnull, "w")
                try:
                    lint(proto)
                finally:
                    sys.stderr.close()
                    sys.stderr = saved
                _clear_limit()
                res["stages"]["lint"] = {"cls": "ok"}
            except BaseException as e:  # noqa
                _clear_limit()
                res["stages"]["lint"] = classify(e)
        for lang in job.get("langs", ["c", "go", "py"]):
            if any(v.get("cls") == "hang" for v in res["stages"].values()):
                break        # one stage already ran into the time limit: do not pay it three more times
            try:
                _set_limit(limit)
                render(proto, lang, outdir=job["dir"])
                _clear_limit()
                res["stages"]["render_" + lang] = {"cls": "ok"}
            except BaseException as e:  # noqa
                _clear_limit()
                res["stages"]["render_" + lang] = classify(e)
    res["cpu_s"] = round(_time.process_time() - cpu0, 4)     # parse + lint + render, this process
    if job.get("cli"):
        res["stages"]["cli"] = do_cli(job, main, limit)
        if job.get("cli_check"):
            res["stages"]["cli_check"] = do_cli(job, main, limit, check_only=True)
    return res


def do_cli(job, main, limit, check_only: bool = False) -> dict:
    """The command line (normal, or `-c`: parse + lint only): exit status + whether a Python
    traceback reached stderr."""
    lang = job.get("cli_lang", "py")
    cmd = [sys.executable, "-m", "bitproto._main", lang, main, job["dir"]]
    if check_only:
        cmd = [sys.executable, "-m", "bitproto._main", "-c", main]
    try:
        p = subprocess.run(cmd, capture_output=True, timeout=limit * WALL_FACTOR + 30)
    except subprocess.TimeoutExpired:
        return {"cls": "hang"}
    err = p.stderr.decode("utf-8", "replace")
    if "Traceback (most recent call last)" in err:
        lines = [l for l in err.strip().split("\n") if l.strip()]
        exc = lines[-1].split(":")[0].strip() if lines else "?"
        chain = []
        for l in lines:
            l = l.strip()
            if l.startswith("File ") and "/bitproto/" in l:
                fn = l.split('"')[1].split("/bitproto/", 1)[1]
                chain.append(fn + ":" + l.rsplit(" in ", 1)[-1])
        return {"cls": "crash", "exc": exc.split(".")[-1], "site": chain[-1] if chain else "?",
                "chain": chain[-4:], "msg": lines[-1].split(":", 1)[-1].strip()[:160] if lines else "",
                "rc": p.returncode, "trace": err[-1500:]}
    if p.returncode == 0:
        return {"cls": "ok", "rc": 0}
    return {"cls": "diagnostic", "rc": p.returncode, "stderr": err[-300:]}


def do_lex(job) -> dict:
    """First token the real Lexer produces on `text` (characters are code points)."""
    from bitproto.errors import ParserError
    from bitproto.lexer import Lexer
    res = {"id": job["id"]}
    try:
        _set_limit(float(job.get("limit", 10)))
        lx = Lexer()
        lx.input(job["text"])
        tok = lx.token()
        _clear_limit()
        if tok is None:
            res.update(cls="eof")
        else:
            v = tok.value
            res.update(cls="ok", type=tok.type, end=lx.lexer.lexpos)
            if isinstance(v, bool):
                res["value"] = {"bool": v}
            elif isinstance(v, int):
                res["value"] = {"int": str(v) if abs(v) < 10 ** 4000 else hex(v)}
            elif isinstance(v, str):
                res["value"] = {"str": [ord(c) for c in v]}
            elif hasattr(v, "cap"):
                res["value"] = {"cap": str(v.cap)}
            else:
                res["value"] = {"other": type(v).__name__}
    except ParserError as e:
        _clear_limit()
        res.update(cls="parser_error", error=type(e).__name__)
    except BaseException as e:  # noqa
        _clear_limit()
        res.update(classify(e))
    return res


def do_expr(job) -> dict:
    from bitproto.errors import ParserError
    from bitproto.parser import parse_string
    res = {"id": job["id"]}
    try:
        _set_limit(float(job.get("limit", 10)))
        proto = parse_string("proto a\n" + job.get("prelude", "") + "const A = " + job["text"] + "\n")
        _clear_limit()
        c = proto.get_member("A")
        v = c.value
        if isinstance(v, bool):
            res.update(cls="ok", value={"bool": v})
        elif isinstance(v, int):
            res.update(cls="ok", value={"int": hex(v)})
        else:
            res.update(cls="ok", value={"str": [ord(ch) for ch in v]})
    except ParserError as e:
        _clear_limit()
        res.update(cls="parser_error", error=type(e).__name__)
    except BaseException as e:  # noqa
        _clear_limit()
        res.update(classify(e))
    return res


def do_cover(job) -> dict:
    """Which (semantic action, len(p)) pairs a set of inputs exercises.  The p_* methods of a
    Parser subclass are wrapped (measurement only; outcomes are not used)."""
    import bitproto.parser as bp
    seen = set()

    def wrap(name, fn):
        def w(self, p):
            seen.add((name, len(p)))
            return fn(self, p)
        w.__doc__ = fn.__doc__
        w.__name__ = fn.__name__
        return w

    saved = {}
    for name in dir(bp.Parser):
        if name.startswith("p_") and name != "p_error":
            saved[name] = getattr(bp.Parser, name)
            setattr(bp.Parser, name, wrap(name, saved[name]))
    try:
        for k, files in enumerate(job["inputs"]):
            d = os.path.join(job["dir"], str(k))
            main = write_files({"dir": d, "files": files["files"], "main": files["main"]})
            try:
                _set_limit(float(job.get("limit", 10)))
                bp.parse(main)
            except BaseException:  # noqa
                pass
            finally:
                _clear_limit()
    finally:
        for name, fn in saved.items():
            setattr(bp.Parser, name, fn)
    return {"id": job["id"], "pairs": sorted([n, l] for n, l in seen)}


def main() -> None:
    jobs = json.load(sys.stdin)
    import bitproto
    repo = os.environ.get("VERIF_REPO", "/repo")
    assert bitproto.__file__.startswith(repo + "/"), bitproto.__file__
    out = []
    real_stdout = sys.stdout
    sys.stdout = sys.stderr
    for job in jobs:
        try:
            kind = job.get("kind", "compile")
            if kind == "compile":
                out.append(do_compile(job))
            elif kind == "lex":
                out.append(do_lex(job))
            elif kind == "expr":
                out.append(do_expr(job))
            elif kind == "cover":
                out.append(do_cover(job))
            else:
                out.append({"id": job.get("id"), "worker_error": "unknown kind"})
        except BaseException as e:  # noqa
            _clear_limit()
            out.append({"id": job.get("id"), "worker_error": f"{type(e).__name__}: {e}",
                        "trace": traceback.format_exc()[-1500:]})
    sys.stdout = real_stdout
    json.dump(out, sys.stdout)


if __name__ == "__main__":
    main()
