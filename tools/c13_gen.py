"""c13_gen — generator of constant-declaration programs for property C13, their source text and
their Gallina terms.

A program is a JSON-able dict (so that corpus files can hold one):
  {"files": [{"name": "lib3", "stmts": [...]}, {"name": "main3", "stmts": [...]}]}   (dependencies first)
  stmt:  {"k": "import", "alias": "lib", "file": 0}
         {"k": "const", "name": "A", "rhs": {"k": "calc", "expr": E, "toks": [...], "text": "1 + 2", "minimal": true}}
         {"k": "const", "name": "A", "rhs": {"k": "toks", "toks": [...], "text": "..."}}      (no tree: error cases)
         {"k": "const", "name": "G", "rhs": {"k": "ref", "ref": "F"}}
         {"k": "const", "name": "B", "rhs": {"k": "bool", "spelling": "yes"}}
         {"k": "const", "name": "S", "rhs": {"k": "str", "raw": [bytes between the quotes]}}
         {"k": "message", "name": "M", "opt": U | null, "fields": [{"name": "f1", "num": 1, "cap": U}]}
  U:     {"ref": "K"} | {"int": "12"}
  E:     ["dec", n] | ["hex", n] | ["ref", name] | ["bin", op, E, E]      op in PLUS MINUS TIMES DIVIDE
  token: ["int", digits] | ["hex", digits] | ["id", dotted] | ["op", OP] | ["lp"] | ["rp"]

The Python evaluation below (py_denote) is used ONLY to steer generation (avoid zero divisors,
pick capacities); every comparison is made in Coq.
"""
from __future__ import annotations

import random
from typing import Any, Dict, List, Optional, Tuple

OPS = ["PLUS", "MINUS", "TIMES", "DIVIDE"]
LEXEME = {"PLUS": "+", "MINUS": "-", "TIMES": "*", "DIVIDE": "/"}
COQ_OP = {"PLUS": "OPlus", "MINUS": "OMinus", "TIMES": "OTimes", "DIVIDE": "ODivide"}
SPREC = {"PLUS": 1, "MINUS": 1, "TIMES": 2, "DIVIDE": 2}
ESC = {"t": "\t", "r": "\r", "n": "\n", "\\": "\\", "'": "'", '"': '"'}      # generator's copy (source spelling only)
REV_ESC = {v: k for k, v in ESC.items()}


class DivZero(Exception):
    pass


def py_denote(e, env: Dict[str, int]) -> int:
    k = e[0]
    if k in ("dec", "hex"):
        return e[1]
    if k == "ref":
        return env[e[1]]
    a = py_denote(e[2], env)
    b = py_denote(e[3], env)
    if e[1] == "PLUS":
        return a + b
    if e[1] == "MINUS":
        return a - b
    if e[1] == "TIMES":
        return a * b
    if b == 0:
        raise DivZero()
    return a // b


def depth(e) -> int:
    return 0 if e[0] != "bin" else 1 + max(depth(e[2]), depth(e[3]))


def count_nodes(e) -> int:
    return 1 if e[0] != "bin" else 1 + count_nodes(e[2]) + count_nodes(e[3])


def gen_leaf(rng: random.Random, env: Dict[str, int]):
    r = rng.random()
    if env and r < 0.3:
        return ["ref", rng.choice(sorted(env))]
    if r < 0.5:
        kind = "hex"
    else:
        kind = "dec"
    m = rng.random()
    if m < 0.55:
        n = rng.randrange(0, 21)
    elif m < 0.85:
        n = rng.randrange(0, 70000)
    elif m < 0.95:
        n = rng.choice([2 ** 31 - 1, 2 ** 31, 2 ** 32, 2 ** 53 + 1, 2 ** 62, 10 ** 9 + 7])
    else:
        n = rng.getrandbits(rng.choice([64, 70, 90])) | (1 << 60)
    return [kind, n]


def gen_expr(rng: random.Random, d: int, env: Dict[str, int], allow_zero_div: bool = False):
    if d == 0 or rng.random() < 0.18:
        return gen_leaf(rng, env)
    for _ in range(20):
        op = rng.choice(OPS)
        l = gen_expr(rng, d - 1 if rng.random() < 0.7 else rng.randrange(0, d), env, allow_zero_div)
        r = gen_expr(rng, d - 1 if rng.random() < 0.7 else rng.randrange(0, d), env, allow_zero_div)
        e = ["bin", op, l, r]
        if allow_zero_div:
            return e
        try:
            py_denote(e, env)
            return e
        except DivZero:
            continue
    return gen_leaf(rng, env)


# ---- tokens ---------------------------------------------------------------------------------

def pretty_tokens(e, ctx: int = 0) -> List[List[str]]:
    """port of ConstExpr.pp (compared with Coq's pretty in every minimal case)"""
    k = e[0]
    if k == "dec":
        return [["int", str(e[1])]]
    if k == "hex":
        return [["hex", format(e[1], "x")]]
    if k == "ref":
        return [["id", e[1]]]
    p = SPREC[e[1]]
    body = pretty_tokens(e[2], p) + [["op", e[1]]] + pretty_tokens(e[3], p + 1)
    return [["lp"]] + body + [["rp"]] if p < ctx else body


def redundant_tokens(rng: random.Random, e, ctx: int = 0) -> List[List[str]]:
    """the same tree with extra parentheses, leading zeros, upper-case hex digits"""
    k = e[0]
    if k == "dec":
        toks = [["int", "0" * rng.choice([0, 0, 1, 3]) + str(e[1])]]
    elif k == "hex":
        h = format(e[1], "x")
        if rng.random() < 0.5:
            h = h.upper()
        elif rng.random() < 0.5:
            h = "".join(c.upper() if rng.random() < 0.5 else c for c in h)
        toks = [["hex", "0" * rng.choice([0, 0, 2]) + h]]
    elif k == "ref":
        toks = [["id", e[1]]]
    else:
        p = SPREC[e[1]]
        toks = redundant_tokens(rng, e[2], p) + [["op", e[1]]] + redundant_tokens(rng, e[3], p + 1)
        if p < ctx:
            toks = [["lp"]] + toks + [["rp"]]
    for _ in range(rng.choice([0, 0, 0, 1, 1, 2])):
        toks = [["lp"]] + toks + [["rp"]]
    return toks


def token_text(t) -> str:
    k = t[0]
    if k == "int":
        return t[1]
    if k == "hex":
        return "0x" + t[1]
    if k == "id":
        return t[1]
    if k == "op":
        return LEXEME[t[1]]
    return "(" if k == "lp" else ")"


def render_tokens(rng: random.Random, toks, messy: bool) -> str:
    out = []
    for i, t in enumerate(toks):
        if i:
            if messy:
                out.append(rng.choice(["", " ", "  ", "\t", " \t "]))
                # two adjacent word-like tokens never occur in well-formed expressions; an operator
                # `/` directly followed by `/` would start a comment: cannot occur either
            else:
                prev = toks[i - 1][0]
                out.append("" if prev == "lp" or t[0] == "rp" else " ")
        out.append(token_text(t))
    return "".join(out)


# ---- strings --------------------------------------------------------------------------------

SAFE_EXTRA = ["\t", "'", "é", "中", "😀", "\x01", "\x07", "\x1b", "\x7f", " ", "%", "?", "/", "*", "#", "{", "}"]
UNSAFE = ['"', "\\", "\n", "\r", "\x00"]


def gen_safe_string(rng: random.Random) -> str:
    n = rng.choice([0, 1, 2, 3, 5, 8, 13, 30])
    out = []
    for _ in range(n):
        r = rng.random()
        if r < 0.6:
            c = chr(rng.randrange(32, 127))
            if c in '"\\':
                c = "x"
            out.append(c)
        else:
            out.append(rng.choice(SAFE_EXTRA))
    return "".join(out)


def gen_unsafe_string(rng: random.Random) -> str:
    s = list(gen_safe_string(rng))
    for _ in range(rng.choice([1, 1, 1, 2, 3])):
        r = rng.random()
        if r < 0.7:
            ins = rng.choice(UNSAFE)
        else:
            ins = rng.choice(["\\n", "\\t", "\\\\", "\\\"", "\\x41", "\\101", "\\0", "\\d", "\\'", '""', "\\\n",
                              "\\u0041", "\\8", "\\x4", '" "'])
        s.insert(rng.randrange(0, len(s) + 1), ins)
    return "".join(s)


def source_spelling(rng: random.Random, value: str) -> str:
    """text between the quotes in the .bitproto file (escapes as the lexer understands them)"""
    out = []
    for c in value:
        if c in ('"', "\\", "\n", "\r"):
            out.append("\\" + REV_ESC[c])
        elif c in ("\t", "'") and rng.random() < 0.5:
            out.append("\\" + REV_ESC[c])
        else:
            out.append(c)
    return "".join(out)


# ---- program text ---------------------------------------------------------------------------

def use_text(u) -> str:
    return u["ref"] if "ref" in u else u["int"]


def rhs_text(r) -> str:
    k = r["k"]
    if k in ("calc", "toks"):
        return r["text"]
    if k == "ref":
        return r["ref"]
    if k == "bool":
        return r["spelling"]
    return '"' + bytes(r["raw"]).decode("utf-8", "surrogatepass") + '"'


def file_text(prog, fi: int) -> str:
    f = prog["files"][fi]
    lines = [f"proto {f['name']}", ""]
    for s in f["stmts"]:
        k = s["k"]
        if k == "import":
            lines.append(f"import {s['alias']} \"{prog['files'][s['file']]['name']}.bitproto\"")
        elif k == "const":
            lines.append(f"const {s['name']} = {rhs_text(s['rhs'])}")
        else:
            ext = ""
            lines.append(f"message {s['name']}{ext} {{")
            if s.get("opt") is not None:
                lines.append(f"    option max_bytes = {use_text(s['opt'])}")
            for fld in s["fields"]:
                lines.append(f"    uint8[{use_text(fld['cap'])}] {fld['name']} = {fld['num']}")
            lines.append("}")
    return "\n".join(lines) + "\n"


def program_files(prog) -> Dict[str, str]:
    return {f["name"] + ".bitproto": file_text(prog, i) for i, f in enumerate(prog["files"])}


# ---- Gallina --------------------------------------------------------------------------------

def ccodes(bs) -> str:
    """Gallina `list Z`; long texts are run-length encoded (`repeat c n ++ [...]`) so that the
    boundary catalogue of long strings stays cheap to parse"""
    bs = [int(x) for x in bs]
    if len(bs) <= 48:
        return "[" + "; ".join(str(x) for x in bs) + "]"
    parts: List[str] = []
    lit: List[int] = []
    i = 0
    while i < len(bs):
        j = i
        while j < len(bs) and bs[j] == bs[i]:
            j += 1
        if j - i >= 8:
            if lit:
                parts.append("[" + "; ".join(str(x) for x in lit) + "]")
                lit = []
            parts.append(f"repeat {bs[i]} (Z.to_nat {j - i})")
        else:
            lit.extend(bs[i:j])
        i = j
    if lit:
        parts.append("[" + "; ".join(str(x) for x in lit) + "]")
    return "(" + " ++ ".join(parts) + ")"


def cstr(s: str) -> str:
    assert all(c.isalnum() or c in "_." for c in s), s
    return '"' + s + '"%string'


def coq_expr(e) -> str:
    k = e[0]
    if k == "dec":
        return f"(EDec {e[1]}%N)"
    if k == "hex":
        return f"(EHex {e[1]}%N)"
    if k == "ref":
        return f"(ERef {cstr(e[1])})"
    return f"(EBin {COQ_OP[e[1]]} {coq_expr(e[2])} {coq_expr(e[3])})"


def coq_token(t) -> str:
    k = t[0]
    if k == "int":
        return f"TInt {ccodes(t[1].encode())}"
    if k == "hex":
        return f"THex {ccodes(t[1].encode())}"
    if k == "id":
        return f"TIdent {cstr(t[1])}"
    if k == "op":
        return f"TOp {COQ_OP[t[1]]}"
    return "TLParen" if k == "lp" else "TRParen"


def coq_tokens(toks) -> str:
    return "[" + "; ".join(coq_token(t) for t in toks) + "]"


def coq_use(u) -> str:
    return f"(URef {cstr(u['ref'])})" if "ref" in u else f"(UInt {ccodes(u['int'].encode())})"


def coq_stmts(f) -> str:
    out = []
    for s in f["stmts"]:
        k = s["k"]
        if k == "import":
            out.append(f"SImport {cstr(s['alias'])} {s['file']}%nat")
        elif k == "const":
            r = s["rhs"]
            if r["k"] in ("calc", "toks"):
                rhs = f"(RCalc {coq_tokens(r['toks'])})"
            elif r["k"] == "ref":
                rhs = f"(RCalc [TIdent {cstr(r['ref'])}])"
            elif r["k"] == "bool":
                rhs = f"(RBool {ccodes(r['spelling'].encode())})"
            else:
                rhs = f"(RStr {ccodes(r['raw'])})"
            out.append(f"SConst {cstr(s['name'])} {rhs}")
        else:
            if s.get("opt") is not None:
                out.append(f"SOpt {coq_use(s['opt'])}")
            for fld in s["fields"]:
                out.append(f"SCap {coq_use(fld['cap'])}")
    return "[" + "; ".join(out) + "]"


def coq_value(kind: str, v) -> str:
    if kind == "int":
        z = int(v)
        return f"(VInt ({z}))" if z < 0 else f"(VInt {z})"
    if kind == "bool":
        return f"(VBool {'true' if v else 'false'})"
    return f"(VStr {ccodes(v)})"


# ---- programs -------------------------------------------------------------------------------

def gen_main_program(rng: random.Random, idx: int, max_depth: int = 6) -> Dict[str, Any]:
    """a valid program: imported library + main file with integer / boolean / string constants,
    lone references, a message whose option and capacities refer to constants"""
    tag = f"{idx}"
    alias = rng.choice(["lib", "base", "k_1"])
    # Name collisions across files (they must not matter: a reference is resolved in the file it is
    # written in).  `collide`: the importer declares constants with the SAME NAMES as the imported
    # file (other values), after the imported file has used its own.  `nested`: a third file is
    # imported by the library under the SAME ALIAS the main file uses for the library, both files
    # spell references `alias.NAME`, for different constants.
    collide = rng.random() < 0.6
    nested = rng.random() < 0.4
    files: List[Dict[str, Any]] = []
    lib_env: Dict[str, int] = {}
    lib_stmts: List[Dict[str, Any]] = []
    if nested:
        deep_env: Dict[str, int] = {}
        deep_stmts = []
        for j in range(rng.randrange(1, 3)):
            e = gen_expr(rng, rng.randrange(0, 2), deep_env)
            deep_stmts.append(_calc_const(rng, f"L{j}", e))
            deep_env[f"L{j}"] = py_denote(e, deep_env)
        files.append({"name": f"deep{tag}", "stmts": deep_stmts})
        lib_stmts.append({"k": "import", "alias": alias, "file": 0})
        lib_env = {f"{alias}.{k}": v for k, v in deep_env.items()}
    for j in range(rng.randrange(1, 4)):
        e = gen_expr(rng, rng.randrange(0, 3), lib_env)
        if nested and j == 0 and e[0] != "bin" and py_denote(e, lib_env) == lib_env[f"{alias}.L0"]:
            e = ["bin", "PLUS", e, ["dec", 7]]              # lib.L0 differs from deep.L0
        nm = f"L{j}"
        lib_stmts.append(_calc_const(rng, nm, e))
        lib_env[nm] = py_denote(e, lib_env)
    if nested:                                              # the library uses alias.L0 (the deep one) first
        e = ["bin", rng.choice(["PLUS", "TIMES", "MINUS"]), ["ref", f"{alias}.L0"], gen_expr(rng, 1, lib_env)]
        lib_stmts.append(_calc_const(rng, "LN", e))
        lib_env["LN"] = py_denote(e, lib_env)
    if collide:                                             # the library declares AND uses names the main file reuses
        for nm, v in (("CAP0", rng.randrange(41, 90)), ("LIMIT", rng.randrange(1, 4))):
            lib_stmts.append(_calc_const(rng, nm, ["dec", v]))
            lib_env[nm] = v
        e = ["bin", "PLUS", ["bin", "TIMES", ["ref", "CAP0"], ["ref", "LIMIT"]], ["ref", "L0"]]
        lib_stmts.append(_calc_const(rng, "LU", e))
        lib_env["LU"] = py_denote(e, lib_env)
    if rng.random() < 0.5:
        lib_stmts.append({"k": "const", "name": "LS", "rhs": _str_rhs(rng, gen_safe_string(rng))})
    files.append({"name": f"lib{tag}", "stmts": lib_stmts})
    lib_index = len(files) - 1
    env: Dict[str, int] = {f"{alias}.{k}": v for k, v in lib_env.items() if "." not in k}
    other: Dict[str, str] = {}
    if any(s["name"] == "LS" for s in lib_stmts if s["k"] == "const"):
        other[f"{alias}.LS"] = "str"
    stmts: List[Dict[str, Any]] = [{"k": "import", "alias": alias, "file": lib_index}]
    if collide:                                             # same names as the library's, other values
        for j in range(rng.randrange(1, 3)):
            nm = f"L{j}"
            if f"{alias}.{nm}" not in env:
                break
            e = gen_expr(rng, rng.randrange(0, 3), env)
            if py_denote(e, env) == env[f"{alias}.{nm}"]:
                e = ["bin", "PLUS", e, ["dec", 11]]
            stmts.append(_calc_const(rng, nm, e))
            env[nm] = py_denote(e, env)
    if collide or nested:                                   # ... and the main file USES the colliding spellings
        e = ["bin", rng.choice(["PLUS", "MINUS", "TIMES"]), ["ref", "L0" if collide and "L0" in env else f"{alias}.L0"],
             ["ref", f"{alias}.L0"]]
        stmts.append(_calc_const(rng, "CU", e))
        env["CU"] = py_denote(e, env)
    n = rng.randrange(4, 10)
    for j in range(n):
        r = rng.random()
        nm = f"C{j}"
        if r < 0.62:
            e = gen_expr(rng, rng.choice([1, 2, 3, 4, 5, max_depth, max_depth]), env)
            stmts.append(_calc_const(rng, nm, e))
            env[nm] = py_denote(e, env)
        elif r < 0.72:
            stmts.append({"k": "const", "name": nm, "rhs": {"k": "bool", "spelling": rng.choice(["true", "false", "yes", "no"])}})
            other[nm] = "bool"
        elif r < 0.88:
            sv = gen_safe_string(rng) if rng.random() < 0.5 else gen_unsafe_string(rng)
            stmts.append({"k": "const", "name": nm, "rhs": _str_rhs(rng, sv)})
            other[nm] = "str"
        else:
            pool = sorted(env) + sorted(other)
            ref = rng.choice(pool)
            stmts.append({"k": "const", "name": nm, "rhs": {"k": "ref", "ref": ref}})
            if ref in env:
                env[nm] = env[ref]
            else:
                other[nm] = other[ref]
    # capacities and the size limit, through constants
    fields = []
    total = 0
    for j in range(rng.randrange(1, 4)):
        target = rng.randrange(1, 40)
        base = gen_expr(rng, rng.randrange(0, 3), env)
        e = ["bin", "PLUS", ["bin", "MINUS", base, base], ["dec", target]] if rng.random() < 0.7 else ["dec", target]
        if rng.random() < 0.3:
            e = ["bin", "DIVIDE", ["bin", "TIMES", e, ["hex", 16]], ["dec", 16]]
        nm = f"CAP{j}"
        stmts.append(_calc_const(rng, nm, e))
        env[nm] = py_denote(e, env)
        cap = {"ref": nm} if rng.random() < 0.8 else {"int": str(target)}
        fields.append({"name": f"f{j}", "num": j + 1, "cap": cap})
        total += target
    small = [k for k, v in env.items() if 1 <= v <= 60 and "." in k]
    if small and rng.random() < 0.5:
        k = rng.choice(small)
        fields.append({"name": "fl", "num": len(fields) + 1, "cap": {"ref": k}})
        total += env[k]
    r = 0.0 if collide else rng.random()
    if r < 0.6:
        e = ["bin", "PLUS", ["dec", total], gen_expr(rng, 1, {k: v for k, v in env.items() if v >= 0})]
        if py_denote(e, env) < total:
            e = ["dec", total]
        stmts.append(_calc_const(rng, "LIMIT", e))
        env["LIMIT"] = py_denote(e, env)
        opt = {"ref": "LIMIT"}
    elif r < 0.8:
        opt = {"int": str(total + rng.randrange(0, 5))}
    else:
        opt = None
    # the sentinel closes the run of constants (the worker cuts the emitted text between definitions)
    stmts.append({"k": "const", "name": "ZZ_END", "rhs": {"k": "calc", "expr": ["dec", 0], "toks": [["int", "0"]],
                                                         "text": "0", "minimal": True}})
    stmts.append({"k": "message", "name": "M", "opt": opt, "fields": fields})
    files.append({"name": f"main{tag}", "stmts": stmts})
    return {"stream": "main", "files": files}


def _calc_const(rng: random.Random, nm: str, e) -> Dict[str, Any]:
    minimal = rng.random() < 0.5
    toks = pretty_tokens(e) if minimal else redundant_tokens(rng, e)
    return {"k": "const", "name": nm,
            "rhs": {"k": "calc", "expr": e, "toks": toks, "text": render_tokens(rng, toks, not minimal),
                    "minimal": minimal}}


def _str_rhs(rng: random.Random, value: str) -> Dict[str, Any]:
    return {"k": "str", "raw": list(source_spelling(rng, value).encode("utf-8"))}


def gen_string_program(rng: random.Random, idx: int) -> Dict[str, Any]:
    """string constants inside the class of the (fixed) finding str-escape: quotes, backslashes, LF, CR, NUL, escape look-alikes"""
    stmts = []
    for j in range(rng.randrange(1, 4)):
        stmts.append({"k": "const", "name": f"S{j}", "rhs": _str_rhs(rng, gen_unsafe_string(rng))})
    if rng.random() < 0.5:
        stmts.append({"k": "const", "name": "SLONG", "rhs": _str_rhs(rng, gen_long_string(rng))})
    stmts.append({"k": "const", "name": "ZZ_END", "rhs": {"k": "calc", "expr": ["dec", 0], "toks": [["int", "0"]],
                                                         "text": "0", "minimal": True}})
    return {"stream": "str-inside", "files": [{"name": f"strs{idx}", "stmts": stmts}]}


def gen_divzero_program(rng: random.Random, idx: int) -> Dict[str, Any]:
    """an expression that divides by zero (class of the fixed finding div-zero: must be diagnosed)"""
    env: Dict[str, int] = {"Z0": 0, "P": 12}
    for _ in range(200):
        e = gen_expr(rng, rng.choice([1, 2, 3, 4]), env, allow_zero_div=True)
        try:
            py_denote(e, env)
        except DivZero:
            break
    else:
        e = ["bin", "DIVIDE", ["dec", 1], ["dec", 0]]
    stmts = [
        {"k": "const", "name": "Z0", "rhs": {"k": "calc", "expr": ["dec", 0], "toks": [["int", "0"]], "text": "0", "minimal": True}},
        {"k": "const", "name": "P", "rhs": {"k": "calc", "expr": ["dec", 12], "toks": [["int", "12"]], "text": "12", "minimal": True}},
        _calc_const(rng, "A", e),
    ]
    return {"stream": "divzero-inside", "files": [{"name": f"dz{idx}", "stmts": stmts}]}


def gen_error_program(rng: random.Random, idx: int) -> Dict[str, Any]:
    """one diagnosed error: undefined reference, non-integer reference, duplicate, bad escape, syntax"""
    kind = rng.choice(["undefined", "notint", "duplicate", "escape", "syntax", "syntax2"])
    pre = [{"k": "const", "name": "P", "rhs": {"k": "calc", "expr": ["dec", 12], "toks": [["int", "12"]], "text": "12", "minimal": True}},
           {"k": "const", "name": "S", "rhs": {"k": "str", "raw": list(b"txt")}}]
    if kind == "undefined":
        e = ["bin", rng.choice(OPS[:3]), ["ref", "P"], ["ref", "NOPE"]]
        st = _calc_const(rng, "A", e)
    elif kind == "notint":
        e = ["bin", rng.choice(OPS[:3]), ["dec", rng.randrange(1, 9)], ["ref", "S"]]
        st = _calc_const(rng, "A", e)
    elif kind == "duplicate":
        st = {"k": "const", "name": "P", "rhs": {"k": "toks", "toks": [["int", "1"]], "text": "1"}}
    elif kind == "escape":
        st = {"k": "const", "name": "A", "rhs": {"k": "str", "raw": list(b"a\\qb")}}
    elif kind == "syntax":
        toks = [["int", "1"], ["op", "PLUS"], ["op", "TIMES"], ["int", "2"]]
        st = {"k": "const", "name": "A", "rhs": {"k": "toks", "toks": toks, "text": "1 + * 2"}}
    else:
        toks = [["lp"], ["int", "1"], ["op", "PLUS"], ["int", "2"]]
        st = {"k": "const", "name": "A", "rhs": {"k": "toks", "toks": toks, "text": "(1 + 2"}}
    return {"stream": "error:" + kind, "files": [{"name": f"err{idx}", "stmts": pre + [st]}]}


def escape_sweep_programs(start_idx: int) -> List[Dict[str, Any]]:
    """every printable ASCII character X after a backslash (value a, backslash, X, b) and a few
    multi-character escape shapes: exercises the per-language literal readers (inside the
    str-escape class: the values contain a backslash)"""
    vals = ["a\\" + chr(x) + "b" for x in range(32, 127)]
    vals += ["\\x4", "\\x41", "\\x414", "\\1", "\\12", "\\123", "\\1234", "\\400", "\\08", "\\xg", "q\\", "\\\\",
             "\\u00e9", "\\U000000e9", "\\N{DASH}", "\\ \n", "a\\\nb", "\\\r"]
    progs = []
    k = start_idx
    for i in range(0, len(vals), 4):
        stmts = []
        for j, v in enumerate(vals[i:i + 4]):
            spelled = "".join("\\" + REV_ESC[c] if c in ('"', "\\", "\n", "\r") else c for c in v)
            stmts.append({"k": "const", "name": f"S{j}", "rhs": {"k": "str", "raw": list(spelled.encode("utf-8"))}})
        stmts.append({"k": "const", "name": "ZZ_END", "rhs": {"k": "calc", "expr": ["dec", 0], "toks": [["int", "0"]],
                                                             "text": "0", "minimal": True}})
        progs.append({"stream": "str-inside", "files": [{"name": f"sweep{k}", "stmts": stmts}]})
        k += 1
    return progs


# ---- long strings -----------------------------------------------------------------------------
# Lengths at which a renderer, a compiler limit or a chunking scheme could change behaviour:
# 255/256 (one-byte length), 509 (ISO C90 minimum string literal length) and its multiple 1018,
# 4095 (ISO C99 minimum).  What matters for a splitting/wrapping emitter is the offset in the
# ESCAPED text, so every escape kind is placed so that its escaped form starts at each offset
# around the boundary (and therefore straddles it for the multi-character escapes).

LONG_CENTERS = [255, 509, 1018, 4095]
LONG_KINDS_QUICK = ['"', "\\", "\n", "\x01", "\x7f", "\x00"]
LONG_KINDS_ALL = LONG_KINDS_QUICK + ["\t", "\r", "\x1f", "'"]
LONG_OFFSETS = [-4, -3, -2, -1, 0, 1]


def _filler(n: int, k: int) -> str:
    """n plain characters in a few long runs of different letters (cheap to write down)"""
    out = []
    letters = "abcdefghjkmnpqrstuvwxyz"
    i = 0
    while n > 0:
        m = min(n, 97 + 13 * ((k + i) % 5))
        out.append(letters[(k + i) % len(letters)] * m)
        n -= m
        i += 1
    return "".join(out)


def long_string_catalogue(quick: bool) -> List[Tuple[str, str]]:
    """(label, value): plain strings of length c-1, c, c+1 and, for every escape kind and offset,
    a string whose escape starts at escaped offset c+d, followed by a digit and a short tail.
    Quick tier: everything around 255 and 509, a thinner grid at 1018 and 4095 (the cost of a case
    is its length); thorough tier: the full grid with more escape kinds."""
    out: List[Tuple[str, str]] = []
    k = 0
    for c in LONG_CENTERS:
        kinds = LONG_KINDS_ALL
        offsets = LONG_OFFSETS
        plain = (-1, 0, 1)
        if quick:
            kinds = LONG_KINDS_QUICK
            if c == 1018:
                offsets = [-3, -1, 0]
            elif c == 4095:
                kinds, offsets, plain = ["\\", "\x01", "\n"], [-3, -1], (0,)
        for d in plain:
            out.append((f"plain{c + d}", _filler(c + d, k)))
            k += 1
        for kind in kinds:
            for d in offsets:
                k += 1
                out.append((f"esc{ord(kind):02x}at{c + d}", _filler(c + d, k) + kind + "17" + _filler(9, k + 1)))
        # the escape is the LAST character and the total escaped length sits on the boundary
        for kind in kinds[:4 if c < 4095 or not quick else 1]:
            k += 1
            out.append((f"end{ord(kind):02x}len{c}", _filler(c - 1, k) + kind))
    return out


def long_string_programs(start_idx: int, quick: bool, per: int = 12) -> List[Dict[str, Any]]:
    cat = long_string_catalogue(quick)
    progs = []
    k = start_idx
    for i in range(0, len(cat), per):
        stmts = []
        for j, (label, v) in enumerate(cat[i:i + per]):
            spelled = "".join("\\" + REV_ESC[ch] if ch in ('"', "\\", "\n", "\r") else ch for ch in v)
            stmts.append({"k": "const", "name": f"S{j}", "label": label, "rhs": {"k": "str", "raw": list(spelled.encode("utf-8"))}})
        stmts.append({"k": "const", "name": "ZZ_END", "rhs": {"k": "calc", "expr": ["dec", 0], "toks": [["int", "0"]],
                                                             "text": "0", "minimal": True}})
        progs.append({"stream": "str-inside", "files": [{"name": f"long{k}", "stmts": stmts}]})
        k += 1
    return progs


def gen_long_string(rng: random.Random) -> str:
    """a random long string: runs of letters with escapes in between; half of the time the escaped
    length up to some escape is steered to a multiple of 509 (+-3) or to 255/256/4095"""
    pieces: List[str] = []
    esc_len = 0
    target = rng.choice([509, 1018, 1527, 255, 256, 4095, 2036]) + rng.randrange(-3, 2) if rng.random() < 0.6 else None
    n_seg = rng.randrange(2, 7)
    for i in range(n_seg):
        if target is not None and i == n_seg // 2 and esc_len < target:
            run = target - esc_len
        else:
            run = rng.choice([1, 5, 40, 130, 260, 500])
        pieces.append(rng.choice("abcdefghjkmnpqrstuvwxyz0123456789 ") * run)
        esc_len += run
        e = rng.choice(['"', "\\", "\n", "\t", "\r", "\x01", "\x00", "\x7f", "\x1b", "\\n", '""', "é"])
        pieces.append(e)
        esc_len += sum(2 if ch in '"\\\n\r\t' else 4 if (ord(ch) < 32 or ord(ch) == 127) else len(ch.encode()) for ch in e)
        if rng.random() < 0.5:
            pieces.append(rng.choice("0123456789"))
            esc_len += 1
    return "".join(pieces)
