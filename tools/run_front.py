"""run_front — worker: the REAL front end of the tree under test on generated schema files.

stdin : JSON list of jobs {id, dir, files{name:text}, root, trad, cli (bool)}
stdout: JSON list of {id, obs:{code, cls, file, line, rows}, cli:{rc, stderr, outfiles}}
`rows` mirrors Front.rows_of: one row per definition, depth first in declaration order.
Never trusted: compared in Coq with Front.check."""
import json
import os
import signal
import subprocess
import sys

CODES = {
    "InvalidUintCap": 1, "InvalidIntCap": 2, "InvalidArrayCap": 3, "DuplicatedDefinition": 4,
    "DuplicatedImport": 5, "CyclicImport": 6, "ReferencedConstantNotDefined": 7, "ReferencedNotConstant": 8,
    "ReferencedTypeNotDefined": 9, "ReferencedNotType": 10, "InvalidEnumFieldValue": 11,
    "EnumFieldValueOverflow": 12, "DuplicatedEnumFieldValue": 13, "InvalidAliasedType": 14,
    "InvalidMessageFieldNumber": 15, "DuplicatedMessageFieldNumber": 16, "UnsupportedOption": 17,
    "InvalidOptionValue": 18, "MessageSizeOverflows": 19, "AliasInMessageUnsupported": 20,
    "ConstInMessageUnsupported": 21, "ImportInMessageUnsupported": 22,
    "UnsupportedToDeclareProtoNameOutofProtoScope": 23,
    "AliasInEnumUnsupported": 24, "ConstInEnumUnsupported": 25, "ImportInEnumUnsupported": 26,
    "OptionInEnumUnsupported": 27, "EnumInEnumUnsupported": 28, "MessageInEnumUnsupported": 29,
    "MessageFieldInEnumUnsupported": 30, "ProtoNameUndefined": 31,
    "ExtensibleGrammarFoundInTraditionalMode": 32, "CalculationExpressionError": 33, "GrammarError": 34,
}


def _alarm(_s, _f):
    raise TimeoutError("implementation did not return within the time limit")


signal.signal(signal.SIGALRM, _alarm)


def loc_of(d):
    return os.path.basename(d.filepath), d.lineno


def rows_of(pre, name, d, A):
    q = name if not pre else pre + "." + name
    out = []

    def cv(v):
        if v is True or v is False:
            return int(v)
        if isinstance(v, int):
            return v
        return -1

    def resolved(t):
        if isinstance(t, A.Array):
            t = t.element_type
        if isinstance(t, A.Definition):
            f, l = loc_of(t)
            return l, f
        return -1, ""

    if isinstance(d, A.Constant):
        out.append([q, [1, d.lineno, cv(d.value), 0, 0], ""])
    elif isinstance(d, A.Alias):
        rl, rf = resolved(d.type)
        out.append([q, [2, d.lineno, d.nbits(), rl, 0], rf])
    elif isinstance(d, A.Enum):
        out.append([q, [3, d.lineno, d.nbits(), len(d.fields()), 0], ""])
    elif isinstance(d, A.Message):
        out.append([q, [4, d.lineno, d.nbits(), len(d.fields()), int(bool(d.extensible))], ""])
    elif isinstance(d, A.Proto):
        out.append([q, [5, 0, 0, 0, 0], os.path.basename(d.filepath)])
    elif isinstance(d, A.Option):
        out.append([q, [6, d.lineno, cv(d.value), 0, 0], ""])
    elif isinstance(d, A.MessageField):
        rl, rf = resolved(d.type)
        out.append([q, [7, d.lineno, d.number, d.type.nbits(), rl], rf])
    elif isinstance(d, A.EnumField):
        out.append([q, [8, d.lineno, d.value, 0, 0], ""])
    else:
        out.append([q, [99, 0, 0, 0, 0], type(d).__name__])
    if isinstance(d, A.Scope):
        for n, m in d.members.items():
            out.extend(rows_of(q, n, m, A))
    return out


def do_job(job):
    from bitproto import _ast as A
    from bitproto.errors import ParserError
    from bitproto.parser import parse
    d = job["dir"]
    os.makedirs(d, exist_ok=True)
    for name, text in job["files"].items():
        with open(os.path.join(d, name), "w") as f:
            f.write(text)
    root = os.path.join(d, job["root"])
    res = {"id": job["id"]}
    try:
        signal.alarm(60)
        proto = parse(root, traditional_mode=bool(job.get("trad")))
        res["obs"] = {"code": 0, "cls": "", "file": "", "line": 0, "rows": rows_of("", "", proto, A)}
    except ParserError as e:
        res["obs"] = {"code": CODES.get(type(e).__name__, 98), "cls": type(e).__name__,
                      "file": os.path.basename(e.filepath or ""), "line": e.lineno, "rows": [],
                      "msg": str(e)[:300]}
    except OSError as e:
        res["obs"] = {"code": 35, "cls": type(e).__name__, "file": os.path.basename(e.filename or ""),
                      "line": 0, "rows": []}
    except ZeroDivisionError as e:
        res["obs"] = {"code": 36, "cls": "ZeroDivisionError", "file": "", "line": 0, "rows": []}
    except BaseException as e:  # noqa
        res["obs"] = {"code": 97, "cls": type(e).__name__, "file": "", "line": 0, "rows": [], "msg": str(e)[:200]}
    finally:
        signal.alarm(0)
    if job.get("cli"):
        out = os.path.join(d, "out")
        os.makedirs(out, exist_ok=True)
        cmd = [sys.executable, "-m", "bitproto._main", job.get("lang", "py"), root, out]
        if job.get("trad"):
            cmd.append("-O")
        if job.get("quiet", True):
            cmd.append("-q")
        try:
            p = subprocess.run(cmd, capture_output=True, text=True, timeout=120, env=os.environ)
            res["cli"] = {"rc": p.returncode, "stderr": p.stderr[-600:], "outfiles": sorted(os.listdir(out))}
        except subprocess.TimeoutExpired:
            res["cli"] = {"rc": 124, "stderr": "TIMEOUT", "outfiles": sorted(os.listdir(out))}
    return res


def main():
    jobs = json.load(sys.stdin)
    import bitproto
    repo = os.environ.get("VERIF_REPO", "/repo")
    assert bitproto.__file__.startswith(repo + "/"), bitproto.__file__
    out = []
    real_stdout = sys.stdout
    sys.stdout = sys.stderr
    for job in jobs:
        try:
            out.append(do_job(job))
        except BaseException as e:  # noqa
            out.append({"id": job.get("id"), "worker_error": f"{type(e).__name__}: {e}"})
    sys.stdout = real_stdout
    json.dump(out, sys.stdout)


if __name__ == "__main__":
    main()
