"""t1_go — structural translation validation of the emitted Go files (tie T1 of C19).

Parses the generated *_bp.go files (tokenizer + expression parser of translate_go) into the
tables of coq/theories/GoRt.v (`gproc` with one `gcls` per message: struct field types in
struct order keyed by field number, size constant, BpGetByte / BpSetByte / BpProcessInt /
BpGetAccessor case tables) so that Coq can compare them with `go_proc_of (norm t)` and with
the Python module's tables.  Fail-closed: every statement shape that is not recognised raises
T1Error.  Go is not type-checked by a toolchain here, so the parser also checks what the
model relies on and the Go compiler would otherwise guarantee (see `message`).
"""
from __future__ import annotations

import re
from typing import Any, Dict, List, Optional, Sequence, Tuple

from translate_go import Func, P, Tok, _match, split_decls, split_stmts, tokenize, unparse
from vlib import Broken, cbool, clist, cnat, cz


class T1Error(Exception):
    pass


class T1Unresolved(T1Error):
    """a qualified name pkg.Name whose package the file does not import (the Go compiler
    reports `undefined: pkg`)"""

    def __init__(self, file: str, expr: str):
        super().__init__(f"{file}.go: cannot resolve {expr}: the file does not import that package")
        self.file, self.expr = file, expr


BUILTIN = {"bool": "GBool", "byte": "GByte", "uint8": "(GUint 8)", "uint16": "(GUint 16)",
           "uint32": "(GUint 32)", "uint64": "(GUint 64)", "int8": "(GInt 8)", "int16": "(GInt 16)",
           "int32": "(GInt 32)", "int64": "(GInt 64)"}


def _txt(toks: Sequence[Tok]) -> str:
    return " ".join(t for _, t in toks)


class T1Mismatch(T1Error):
    """the accessor methods of a message contradict the struct declared in the same file
    (member that does not exist, index depth different from the array rank of the declared
    field, scalar accessor on a message field or vice versa, two numbers for one member, a
    member no accessor addresses): a concrete finding about the emitted text, not a parse gap"""

    def __init__(self, where: str, issues: List[str]):
        super().__init__(f"{where}: accessors contradict the declared struct: " + "; ".join(issues[:4]))
        self.where, self.issues = where, issues


class GoFile:
    def __init__(self, name: str, text: str):
        self.name = name                       # file base name without .go, e.g. main_bp
        try:
            toks = tokenize(text, name + ".go")
            decls = split_decls(toks)
        except Broken as b:
            raise T1Error(f"{name}.go: {b.what}")
        self.package = ""
        self.imports: Dict[str, str] = {}      # local name -> import path
        self.types: Dict[str, Tuple[str, Any]] = {}     # name -> ("named", type toks) | ("struct", fields)
        self.methods: Dict[str, Func] = {}     # "Recv.Name" -> Func
        self.consts: Dict[str, Tuple[str, List[Tok]]] = {}
        self.after_struct: Dict[str, str] = {}  # struct name -> key of the declaration following it
        prev_struct: Optional[str] = None
        for d in decls:
            t = d.toks
            if d.kind == "package":
                self.package = t[1][1]
            elif d.kind == "import":
                self._imports(t[1:])
            elif d.kind == "type":
                nm = t[1][1]
                if nm in self.types:
                    raise T1Error(f"{name}.go: type {nm} declared twice")
                if t[2] == ("kw", "struct"):
                    self.types[nm] = ("struct", self._struct(nm, t[4:_match(t, 3, "{", "}")]))
                else:
                    self.types[nm] = ("named", t[2:])
            elif d.kind == "func":
                f = Func(d)
                key = (f.recv[1] + "." if f.recv else "") + f.name
                if key in self.methods:
                    raise T1Error(f"{name}.go: func {key} declared twice")
                self.methods[key] = f
            elif d.kind == "const":
                if t[1][1] != "(" and len(t) >= 5 and t[3] == ("op", "="):
                    self.consts[t[1][1]] = (t[2][1], t[4:])
            if prev_struct is not None:
                self.after_struct[prev_struct] = d.key
            prev_struct = t[1][1] if (d.kind == "type" and t[2] == ("kw", "struct")) else None

    def _imports(self, toks: Sequence[Tok]) -> None:
        if toks and toks[0][1] == "(":
            body = toks[1:_match(list(toks), 0, "(", ")")]
        else:
            body = toks
        for st in split_stmts(body):
            if len(st) == 1 and st[0][0] == "str":
                path = st[0][1].strip('"')
                self.imports[path.split("/")[-1]] = path
            elif len(st) == 2 and st[0][0] == "id" and st[1][0] == "str":
                self.imports[st[0][1]] = st[1][1].strip('"')
            else:
                raise T1Error(f"{self.name}.go: unrecognised import {_txt(st)}")

    def _struct(self, nm: str, body: Sequence[Tok]) -> List[Tuple[str, List[Tok], str]]:
        out = []
        for st in split_stmts(body):
            if len(st) < 3 or st[0][0] != "id" or st[-1][0] != "str":
                raise T1Error(f"{self.name}.go: struct {nm}: unrecognised field {_txt(st)}")
            m = re.fullmatch(r'`json:"([^"`]*)"`', st[-1][1])
            if not m:
                raise T1Error(f"{self.name}.go: struct {nm}: unrecognised tag {st[-1][1]}")
            out.append((st[0][1], list(st[1:-1]), m.group(1)))
        return out


class GoT1:
    def __init__(self, generated: Dict[str, str]):
        self.files: Dict[str, GoFile] = {}
        for fname, text in generated.items():
            if fname.endswith(".go"):
                self.files[fname[:-3]] = GoFile(fname[:-3], text)

    # ---- names and types ---------------------------------------------------------------------
    def _lookup(self, f: GoFile, e) -> Tuple[GoFile, str]:
        """name or pkg.Name expression -> (file, type name)"""
        if e[0] == "name":
            return f, e[1]
        if e[0] == "sel" and e[1][0] == "name":
            alias = e[1][1]
            path = f.imports.get(alias)
            if path is not None and path in self.files:
                return self.files[path], e[2]
            if path is None:
                raise T1Unresolved(f.name, unparse(e))
        raise T1Error(f"{f.name}.go: cannot resolve {unparse(e)}")

    def gty(self, f: GoFile, toks: Sequence[Tok]) -> Tuple[str, Any]:
        """type expression -> (Gallina gty term, name skeleton).  The name skeleton records
        which declared types are referred to, for comparison with the processor expression."""
        toks = list(toks)
        if toks and toks[0][1] == "[":
            q = _match(toks, 0, "[", "]")
            if q != 2 or toks[1][0] != "int":
                raise T1Error(f"{f.name}.go: array length is not a literal: {_txt(toks)}")
            g, sk = self.gty(f, toks[q + 1:])
            n = int(toks[1][1], 0)
            return f"(GArr {cnat(n)} {g})", ("arr", n, sk)
        if len(toks) == 1 and toks[0][0] == "id":
            e = ("name", toks[0][1])
        elif len(toks) == 3 and toks[0][0] == "id" and toks[1][1] == "." and toks[2][0] == "id":
            e = ("sel", ("name", toks[0][1]), toks[2][1])
        else:
            raise T1Error(f"{f.name}.go: unrecognised type expression {_txt(toks)}")
        if e[0] == "name" and e[1] in BUILTIN and e[1] not in f.types:
            return BUILTIN[e[1]], ("base",)
        f2, nm = self._lookup(f, e)
        decl = f2.types.get(nm)
        if decl is None:
            raise T1Error(f"{f2.name}.go: type {nm} is not declared")
        if decl[0] == "struct":
            return "GStruct", ("msg", f2.name + "." + nm)
        g, _ = self.gty(f2, decl[1])
        return f"(GNamed {g})", ("named", f2.name + "." + nm)

    # ---- processors --------------------------------------------------------------------------
    @staticmethod
    def _is_bp(e, name: str) -> bool:
        return e[0] == "sel" and e[1] == ("name", "bp") and e[2] == name

    @staticmethod
    def _lit(e) -> Any:
        if e[0] == "int":
            return e[1]
        if e[0] == "name" and e[1] in ("true", "false"):
            return e[1] == "true"
        raise T1Error(f"expected a literal, got {unparse(e)}")

    def proc_expr(self, f: GoFile, e) -> Tuple[str, Any, Any]:
        """-> (gproc term, name skeleton, message info or None)"""
        if e[0] != "call":
            raise T1Error(f"processor expression is not a call: {unparse(e)}")
        fn, args = e[1], e[2]
        if self._is_bp(fn, "NewBool") and not args:
            return "GPBool", ("base",), None
        if self._is_bp(fn, "NewByte") and not args:
            return "GPByte", ("base",), None
        if self._is_bp(fn, "NewInt") and len(args) == 1:
            return f"(GPInt {cz(int(self._lit(args[0])))})", ("base",), None
        if self._is_bp(fn, "NewUint") and len(args) == 1:
            return f"(GPUint {cz(int(self._lit(args[0])))})", ("base",), None
        if self._is_bp(fn, "NewArray") and len(args) == 3:
            ext, cap = self._lit(args[0]), self._lit(args[1])
            if not isinstance(ext, bool) or isinstance(cap, bool):
                raise T1Error("bp.NewArray arguments")
            p, sk, info = self.proc_expr(f, args[2])
            return f"(GPArray {cbool(ext)} {cnat(cap)} {p})", ("arr", cap, sk), info
        # (X(0)).BpProcessor() / (X(false)).BpProcessor() / (X{}).BpProcessor() / (&X{}).BpProcessor()
        if fn[0] == "sel" and fn[2] == "BpProcessor" and not args and fn[1][0] == "paren":
            inner = fn[1][1]
            if inner[0] == "un" and inner[1] == "&" and inner[2][0] == "lit":
                f2, nm = self._lookup(f, inner[2][1])
                term, info = self.message(f2, nm)
                return term, ("msg", f2.name + "." + nm), info
            if inner[0] == "lit":
                tname, zero = inner[1], "{}"
            elif inner[0] == "call" and len(inner[2]) == 1:
                tname, zero = inner[1], unparse(inner[2][0])
            else:
                raise T1Error(f"unrecognised receiver {unparse(inner)}")
            f2, nm = self._lookup(f, tname)
            decl = f2.types.get(nm)
            if decl is None or decl[0] != "named":
                raise T1Error(f"{f2.name}.go: {nm} is not a named non-struct type")
            g, _ = self.gty(f2, decl[1])
            want_zero = "{}" if g.startswith("(GArr") else ("false" if g.replace("(GNamed ", "").rstrip(")") == "GBool" else "0")
            if zero != want_zero:
                raise T1Error(f"receiver value {unparse(inner)} is not the zero value of its type")
            m = f2.methods.get(nm + ".BpProcessor")
            if m is None or m.recv is None or m.params or m.result.replace(" ", "") != "bp.Processor":
                raise T1Error(f"{f2.name}.go: method {nm}.BpProcessor missing or of unexpected signature")
            st = split_stmts(m.body)
            if len(st) != 1 or st[0][0] != ("kw", "return"):
                raise T1Error(f"{f2.name}.go: {nm}.BpProcessor: unexpected body")
            p = P(st[0][1:], f"{nm}.BpProcessor", composite=True)
            try:
                r = p.expr()
            except Broken as b:
                raise T1Error(b.what)
            if not p.at_end() or r[0] != "call" or len(r[2]) != 1:
                raise T1Error(f"{f2.name}.go: {nm}.BpProcessor: unexpected return expression")
            if self._is_bp(r[1], "NewAliasProcessor"):
                q, sk, info = self.proc_expr(f2, r[2][0])
                _, tsk = self.gty(f2, decl[1])
                if sk != tsk:
                    raise T1Error(f"{f2.name}.go: alias {nm}: declared type and processor refer to different types")
                return f"(GPAlias {q})", ("named", f2.name + "." + nm), info
            if self._is_bp(r[1], "NewEnumProcessor"):
                q, sk, _ = self.proc_expr(f2, r[2][0])
                if not q.startswith("(GPUint"):
                    raise T1Error(f"{f2.name}.go: enum {nm}: processor is not over bp.NewUint")
                return f"(GPEnum {q})", ("named", f2.name + "." + nm), None
        raise T1Error(f"unrecognised processor expression {unparse(e)}")

    # ---- message -----------------------------------------------------------------------------
    def _method(self, f: GoFile, msg: str, name: str, params: str, result: str) -> Func:
        m = f.methods.get(f"{msg}.{name}")
        if m is None:
            raise T1Error(f"{f.name}.go: method {msg}.{name} missing")
        got = ", ".join(f"{a} {b}" for a, b in m.params)
        if m.recv != ("m", msg) or got != params or m.result != result:
            raise T1Error(f"{f.name}.go: {msg}.{name}: signature ({got}) {m.result} != ({params}) {result}")
        return m

    def _cases(self, m: Func, what: str) -> Tuple[List[Tuple[int, List[List[Tok]]]], List[List[Tok]]]:
        """body `switch di.F() { case N: ... default: ... }` -> ([(N, stmts)], default stmts)"""
        b = list(m.body)
        while b and b[-1] == ("op", ";"):
            b.pop()
        head = [("kw", "switch"), ("id", "di"), ("op", "."), ("id", "F"), ("op", "("), ("op", ")"), ("op", "{")]
        if b[:len(head)] != head or _match(b, len(head) - 1, "{", "}") != len(b) - 1:
            raise T1Error(f"{what}: body is not a single `switch di.F() {{...}}`")
        inner = b[len(head):-1]
        clauses: List[Tuple[Optional[int], List[Tok]]] = []
        depth = 0
        i = 0
        while i < len(inner):
            k, t = inner[i]
            if depth == 0 and (k, t) == ("kw", "case"):
                if inner[i + 1][0] != "int" or inner[i + 2] != ("op", ":"):
                    raise T1Error(f"{what}: case label is not an integer literal")
                clauses.append((int(inner[i + 1][1], 0), []))
                i += 3
                continue
            if depth == 0 and (k, t) == ("kw", "default"):
                if inner[i + 1] != ("op", ":"):
                    raise T1Error(f"{what}: default label")
                clauses.append((None, []))
                i += 2
                continue
            if k == "op" and t in "([{":
                depth += 1
            elif k == "op" and t in ")]}":
                depth -= 1
            if not clauses:
                raise T1Error(f"{what}: statement before the first case")
            clauses[-1][1].append(inner[i])
            i += 1
        if not clauses or clauses[-1][0] is not None or any(n is None for n, _ in clauses[:-1]):
            raise T1Error(f"{what}: `default` is not the single last clause")
        nums = [n for n, _ in clauses[:-1]]
        if len(set(nums)) != len(nums):
            raise T1Error(f"{what}: duplicate case label (Go would not compile)")
        return [(n, split_stmts(ts)) for n, ts in clauses[:-1]], split_stmts(clauses[-1][1])

    @staticmethod
    def _dataref(e, what: str) -> Tuple[str, int]:
        """m.Name[di.I(0)]...[di.I(d-1)] -> (Name, d)"""
        idxs = []
        while e[0] == "index":
            ix = e[2]
            ok = (ix[0] == "call" and ix[1] == ("sel", ("name", "di"), "I") and len(ix[2]) == 1 and ix[2][0][0] == "int")
            if not ok:
                raise T1Error(f"{what}: data reference index is not di.I(k): {unparse(ix)}")
            idxs.append(ix[2][0][1])
            e = e[1]
        idxs.reverse()
        if idxs != list(range(len(idxs))):
            raise T1Error(f"{what}: data reference indices out of order: {idxs}")
        if not (e[0] == "sel" and e[1] == ("name", "m")):
            raise T1Error(f"{what}: data reference does not start at m.<Field>")
        return e[2], len(idxs)

    def _expr(self, toks: Sequence[Tok], what: str):
        p = P(toks, what, composite=True)
        try:
            e = p.expr()
        except Broken as b:
            raise T1Error(f"{what}: {b.what}: {b.detail}")
        if not p.at_end():
            raise T1Error(f"{what}: trailing tokens in {_txt(toks)}")
        return e

    def _accessors_vs_struct(self, f: GoFile, fields, refs) -> List[str]:
        """Member names, index depth and scalar/message kind of every `case N:` of BpGetAccessor /
        BpSetByte / BpGetByte / BpProcessInt against the struct declaration."""
        decl: Dict[str, Tuple[int, bool, str]] = {}
        for gname, ttoks, _tag in fields:
            g, _ = self.gty(f, ttoks)
            decl[gname] = (g.count("(GArr "), "GStruct" in g, _txt(ttoks))
        issues: List[str] = []
        by_num: Dict[int, set] = {}
        by_member: Dict[str, set] = {}
        for table, num, nm, depth in refs:
            by_num.setdefault(num, set()).add(nm)
            by_member.setdefault(nm, set()).add(num)
            if nm not in decl:
                issues.append(f"{table} case {num} refers to m.{nm}, which the struct does not declare "
                              f"(declared: {', '.join(decl)})")
                continue
            rank, is_msg, ttxt = decl[nm]
            if depth != rank:
                issues.append(f"{table} case {num} indexes m.{nm} {depth} time(s) but the field is declared "
                              f"`{ttxt}` with {rank} array dimension(s)")
            if (table == "BpGetAccessor") != is_msg:
                issues.append(f"{table} case {num} addresses m.{nm} declared `{ttxt}` "
                              f"({'a message' if is_msg else 'not a message'})")
        for num, nms in by_num.items():
            if len(nms) > 1:
                issues.append(f"case {num} refers to different members in different accessors: {sorted(nms)}")
        for nm, nums in by_member.items():
            if len(nums) > 1:
                issues.append(f"member {nm} is addressed under several field numbers: {sorted(nums)}")
        for nm in decl:
            if nm not in by_member:
                issues.append(f"struct field {nm} is addressed by no accessor")
        return issues

    def message(self, f: GoFile, msg: str) -> Tuple[str, Dict[str, Any]]:
        decl = f.types.get(msg)
        if decl is None or decl[0] != "struct":
            raise T1Error(f"{f.name}.go: message struct {msg} not found")
        fields = decl[1]
        where = f"{f.name}.go: {msg}"
        # ---- size const + Size()
        ck = f.after_struct.get(msg, "")
        cname = ck[len("const "):] if ck.startswith("const ") else ""
        if not cname.startswith("BYTES_LENGTH_") or \
                cname.replace("_", "").upper() != "BYTESLENGTH" + msg.replace("_", "").upper():
            raise T1Error(f"{where}: the struct is not followed by its BYTES_LENGTH_ constant (found {ck!r})")
        ctype, cval = f.consts[cname]
        if ctype != "uint32" or len(cval) != 1 or cval[0][0] != "int":
            raise T1Error(f"{where}: {cname} is not `uint32 = <literal>`")
        size = int(cval[0][1], 0)
        ms = self._method(f, msg, "Size", "", "uint32")
        mb = [x for x in ms.body if x != ("op", ";")]
        if len(mb) != 2 or mb[0] != ("kw", "return") or mb[1][0] != "int":
            raise T1Error(f"{where}: Size() is not `return <literal>`: {_txt(ms.body)}")
        size_method = int(mb[1][1], 0)
        # ---- Encode / Decode: fixed text
        enc = _txt(self._method(f, msg, "Encode", "", "[]byte").body)
        if enc != "ctx := bp . NewEncodeContext ( int ( m . Size ( ) ) ) ; m . BpProcessor ( ) . Process ( ctx , nil , m ) ; return ctx . Buffer ( ) ;":
            raise T1Error(f"{where}: Encode has an unexpected body: {enc}")
        dec = _txt(self._method(f, msg, "Decode", "s []byte", "").body)
        if dec != "ctx := bp . NewDecodeContext ( s ) ; m . BpProcessor ( ) . Process ( ctx , nil , m ) ;":
            raise T1Error(f"{where}: Decode has an unexpected body: {dec}")
        # ---- BpProcessor
        mp = self._method(f, msg, "BpProcessor", "", "bp.Processor")
        b = list(mp.body)
        head = "fieldDescriptors := [ ] * bp . MessageFieldProcessor {"
        if _txt(b[:9]) != head:
            raise T1Error(f"{where}: BpProcessor: unexpected start {_txt(b[:9])}")
        close = _match(b, 8, "{", "}")
        items, cur, depth = [], [], 0
        for tok in b[9:close]:
            k, t = tok
            if k == "op" and t in "([{":
                depth += 1
            elif k == "op" and t in ")]}":
                depth -= 1
            if (k, t) == ("op", ",") and depth == 0:
                items.append(cur)
                cur = []
            else:
                cur.append(tok)
        if cur:
            raise T1Error(f"{where}: BpProcessor: field processor list does not end with a comma")
        rest = split_stmts(b[close + 1:])
        if len(rest) != 1 or rest[0][0] != ("kw", "return"):
            raise T1Error(f"{where}: BpProcessor: unexpected tail")
        r = self._expr(rest[0][1:], where)
        if not (r[0] == "call" and self._is_bp(r[1], "NewMessageProcessor") and len(r[2]) == 3
                and r[2][2] == ("name", "fieldDescriptors")):
            raise T1Error(f"{where}: BpProcessor: unexpected return")
        ext, nb = self._lit(r[2][0]), self._lit(r[2][1])
        if not isinstance(ext, bool) or isinstance(nb, bool):
            raise T1Error(f"{where}: NewMessageProcessor arguments")
        fps: List[Tuple[int, str, Any, Any]] = []
        for it in items:
            e = self._expr(it, where)
            if not (e[0] == "call" and self._is_bp(e[1], "NewMessageFieldProcessor") and len(e[2]) == 2):
                raise T1Error(f"{where}: field processor entry {unparse(e)}")
            num = self._lit(e[2][0])
            p, sk, info = self.proc_expr(f, e[2][1])
            fps.append((int(num), p, sk, info))
        # ---- accessor tables
        name_of: Dict[int, str] = {}

        refs: List[Tuple[str, int, str, int]] = []      # (table, case number, member, index depth)

        def bind(num: int, nm: str, what: str, depth: int = 0) -> None:
            refs.append((what.split(".")[-1].split(" ")[0], num, nm, depth))
            name_of.setdefault(num, nm)

        accs = []
        cases, dflt = self._cases(self._method(f, msg, "BpGetAccessor", "di *bp.DataIndexer", "bp.Accessor"),
                                  f"{where}.BpGetAccessor")
        if [_txt(s) for s in dflt] != ["return nil"]:
            raise T1Error(f"{where}.BpGetAccessor: default is not `return nil`")
        for num, sts in cases:
            w = f"{where}.BpGetAccessor case {num}"
            if len(sts) != 1 or sts[0][0] != ("kw", "return"):
                raise T1Error(f"{w}: not a single return")
            e = self._expr(sts[0][1:], w)
            if not (e[0] == "un" and e[1] == "&" and e[2][0] == "paren"):
                raise T1Error(f"{w}: not `return &(...)`: {unparse(e)}")
            nm, d = self._dataref(e[2][1], w)
            bind(num, nm, w, d)
            accs.append(f"({num}, {d}%nat)")

        sets = []
        cases, dflt = self._cases(self._method(f, msg, "BpSetByte", "di *bp.DataIndexer, lshift int, b byte", ""),
                                  f"{where}.BpSetByte")
        if [_txt(s) for s in dflt] != ["return"]:
            raise T1Error(f"{where}.BpSetByte: default is not `return`")
        for num, sts in cases:
            w = f"{where}.BpSetByte case {num}"
            if len(sts) != 1:
                raise T1Error(f"{w}: not a single statement")
            st = sts[0]
            ops = [i for i, x in enumerate(st) if x in (("op", "|="), ("op", "="))]
            if len(ops) != 1:
                raise T1Error(f"{w}: not an assignment: {_txt(st)}")
            k = ops[0]
            nm, d = self._dataref(self._expr(st[:k], w), w)
            rhs = self._expr(st[k + 1:], w)
            if st[k][1] == "|=":
                ok = (rhs[0] == "paren" and rhs[1][0] == "bin" and rhs[1][1] == "<<" and rhs[1][3] == ("name", "lshift")
                      and rhs[1][2][0] == "call" and rhs[1][2][2] == [("name", "b")])
                if not ok:
                    raise T1Error(f"{w}: `|=` value is not (T(b) << lshift): {unparse(rhs)}")
                conv = rhs[1][2][1]
                kind = "GSOr"
            else:
                byte2bool = ("call", ("sel", ("name", "bp"), "Byte2bool"), [("name", "b")])
                if rhs == byte2bool:
                    conv = ("name", "bool")
                elif rhs[0] == "call" and rhs[2] == [byte2bool]:
                    conv = rhs[1]
                else:
                    raise T1Error(f"{w}: `=` value is not [T(]bp.Byte2bool(b)[)]: {unparse(rhs)}")
                kind = "GSBool"
            if conv[0] == "name":
                ctoks = [("id", conv[1])]
            elif conv[0] == "sel" and conv[1][0] == "name":
                ctoks = [("id", conv[1][1]), ("op", "."), ("id", conv[2])]
            else:
                raise T1Error(f"{w}: conversion {unparse(conv)}")
            g, _ = self.gty(f, ctoks)
            bind(num, nm, w, d)
            sets.append(f"({num}, {{| gs_depth := {d}%nat; gs_conv := {g}; gs_kind := {kind} |}})")

        gets = []
        cases, dflt = self._cases(self._method(f, msg, "BpGetByte", "di *bp.DataIndexer, rshift int", "byte"),
                                  f"{where}.BpGetByte")
        if [_txt(s) for s in dflt] != ["return byte ( 0 )"]:
            raise T1Error(f"{where}.BpGetByte: default is not `return byte(0)`")
        for num, sts in cases:
            w = f"{where}.BpGetByte case {num}"
            if len(sts) != 1 or sts[0][0] != ("kw", "return"):
                raise T1Error(f"{w}: not a single return")
            e = self._expr(sts[0][1:], w)
            if e[0] == "call" and e[1] == ("name", "byte") and len(e[2]) == 1 and e[2][0][0] == "bin" \
                    and e[2][0][1] == ">>" and e[2][0][3] == ("name", "rshift"):
                nm, d = self._dataref(e[2][0][2], w)
                kind = "GGInt"
            elif e[0] == "bin" and e[1] == ">>" and e[3] == ("name", "rshift") and e[2][0] == "call" \
                    and self._is_bp(e[2][1], "Bool2byte") and len(e[2][2]) == 1:
                a = e[2][2][0]
                conv = False
                if a[0] == "call" and a[1] == ("name", "bool") and len(a[2]) == 1:
                    conv = True
                    a = a[2][0]
                nm, d = self._dataref(a, w)
                kind = f"(GGBool {cbool(conv)})"
            else:
                raise T1Error(f"{w}: unrecognised return expression {unparse(e)}")
            bind(num, nm, w, d)
            gets.append(f"({num}, {{| gg_depth := {d}%nat; gg_kind := {kind} |}})")

        ints = []
        cases, dflt = self._cases(self._method(f, msg, "BpProcessInt", "di *bp.DataIndexer", ""),
                                  f"{where}.BpProcessInt")
        if [_txt(s) for s in dflt] != ["return"]:
            raise T1Error(f"{where}.BpProcessInt: default is not `return`")
        for num, sts in cases:
            w = f"{where}.BpProcessInt case {num}"
            if len(sts) != 2:
                raise T1Error(f"{w}: not two statements")
            parts = []
            for st, op in zip(sts, ("<<=", ">>=")):
                ks = [i for i, x in enumerate(st) if x == ("op", op)]
                if len(ks) != 1 or len(st) != ks[0] + 2 or st[-1][0] != "int":
                    raise T1Error(f"{w}: expected `<ref> {op} <literal>`: {_txt(st)}")
                parts.append((self._dataref(self._expr(st[:ks[0]], w), w), int(st[-1][1], 0)))
            if parts[0] != parts[1]:
                raise T1Error(f"{w}: the two shift statements differ: {_txt(sts[0])} / {_txt(sts[1])}")
            (nm, d), dist = parts[0]
            bind(num, nm, w, d)
            ints.append(f"({num}, {{| gi_depth := {d}%nat; gi_d := {cz(dist)} |}})")

        # ---- the four accessors against the struct declared in the same file
        issues = self._accessors_vs_struct(f, fields, refs)
        if issues:
            raise T1Mismatch(where, issues)
        # ---- struct: every field has exactly one number, every number one field
        num_of = {v: k for k, v in name_of.items()}
        if len(num_of) != len(name_of):
            raise T1Error(f"{where}: two case labels refer to the same struct field")
        struct = []
        info_fields = []
        seen_names = set()
        fp_by_num = {n: (sk, info) for n, _, sk, info in fps}
        for gname, ttoks, tag in fields:
            if gname in seen_names:
                raise T1Error(f"{where}: duplicate struct field {gname}")
            seen_names.add(gname)
            if gname not in num_of:
                raise T1Error(f"{where}: struct field {gname} is addressed by no accessor table entry")
            num = num_of[gname]
            g, sk = self.gty(f, ttoks)
            if num not in fp_by_num:
                raise T1Error(f"{where}: field {gname} (number {num}) has no field processor")
            if fp_by_num[num][0] != sk:
                raise T1Error(f"{where}: field {gname}: struct type {_txt(ttoks)} and its processor refer to "
                              f"different declared types ({sk} / {fp_by_num[num][0]})")
            struct.append(f"({num}, {g})")
            info_fields.append({"number": num, "go_name": gname, "tag": tag, "message": fp_by_num[num][1]})
        for num, nm in name_of.items():
            if nm not in seen_names:
                raise T1Error(f"{where}: case {num} refers to m.{nm} which is not a struct field")
        cls = ("{| gc_struct := " + clist(struct) + f"; gc_size := {size}; gc_get := " + clist(gets)
               + "; gc_set := " + clist(sets) + "; gc_int := " + clist(ints) + "; gc_acc := " + clist(accs) + " |}")
        term = f"(GPMsg {cbool(ext)} {cz(int(nb))} {clist(f'({n}, {p})' for n, p, _, _ in fps)} {cls})"
        return term, {"name": msg, "file": f.name, "size": size, "size_method": size_method, "fields": info_fields}
