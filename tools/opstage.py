"""opstage — run the optimization-mode harness of C04 (tools/opwire.py) as one stage of another
property's check (C06: big-endian -O branch; C07: containment in -O mode; C14: single-field space),
keeping that check's own coverage record and adding the stage's numbers to it."""
import opwire


def opmode_stage(ck, prop_file, n_quick, n_thorough, label):
    cov = ck.coverage
    keep = {k: cov.get(k) for k in ("evaluations", "distinct_nontrivial", "rule", "samples", "distribution",
                                    "exhaustive", "trusted_base")}
    tie = dict(cov.get("tie", {}))
    orig = opwire.load_corpus
    opwire.load_corpus = lambda prop: orig("C04")      # the op-mode corpus lives under corpus/C04
    try:
        opwire.run_opmode(ck, prop_file, n_quick=n_quick, n_thorough=n_thorough)
    finally:
        opwire.load_corpus = orig
    stage = {"evaluations": cov.get("evaluations", 0), "tie": cov.get("tie", {})}
    cov["evaluations"] = (keep["evaluations"] or 0) + (cov.get("evaluations") or 0)
    cov["distinct_nontrivial"] = (keep["distinct_nontrivial"] or 0) + (cov.get("distinct_nontrivial") or 0)
    for k in ("rule", "distribution", "exhaustive", "trusted_base"):
        if keep[k] is not None:
            cov[k] = keep[k]
    cov["samples"] = (keep["samples"] or []) + (cov.get("samples") or [])[:1]
    tie[label] = stage
    cov["tie"] = tie
