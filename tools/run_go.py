"""run_go — worker for C19: compile schemas with the /repo compiler to Go (standard mode) and
to Python, and return the emitted texts.  Nothing is executed (there is no Go toolchain);
everything returned is re-checked by tools/t1_go.py / tools/t1_py.py and in Coq.

stdin : JSON list of jobs {id, dir, files{name:text}}
stdout: JSON list of {id, go:{file:text}, py:{file:text}} | {id, compile_error}
"""
import json
import os
import signal
import sys
import traceback

sys.path.insert(0, os.path.dirname(os.path.abspath(__file__)))
from run_py import compile_files  # noqa: E402


def _alarm(_s, _f):
    raise TimeoutError("the compiler did not return within the time limit")


signal.signal(signal.SIGALRM, _alarm)


def do_job(job):
    res = {"id": job["id"]}
    for lang in ("go", "py"):
        try:
            signal.alarm(60)
            sub = dict(job, dir=os.path.join(job["dir"], lang))
            res[lang] = compile_files(sub, lang)
        except BaseException as e:  # noqa
            res["compile_error"] = f"{lang}: {type(e).__name__}: {e}"
            res["trace"] = traceback.format_exc()[-1500:]
            return res
        finally:
            signal.alarm(0)
    return res


def main():
    jobs = json.load(sys.stdin)
    import bitproto
    repo = os.environ.get("VERIF_REPO", "/repo")
    assert bitproto.__file__.startswith(repo + "/"), bitproto.__file__
    out = []
    real_stdout = sys.stdout
    sys.stdout = sys.stderr
    for job in jobs:
        try:
            out.append(do_job(job))
        except BaseException as e:  # noqa
            out.append({"id": job.get("id"), "worker_error": f"{type(e).__name__}: {e}"})
    sys.stdout = real_stdout
    json.dump(out, sys.stdout)


if __name__ == "__main__":
    main()
