"""c07_py — Python half of C07: out-of-range integers, buffer length, decode in bounds."""
from __future__ import annotations

import json
import random
from typing import Any, Dict, List

import pyside
import pywire
import schema_gen as sg
from t1_py import PyT1, T1Error
from vlib import Broken, Check, run_workers


def any_value(t: sg.T, rng, in_bytearray: bool = False) -> Any:
    """A value whose integer leaves may be out of range (too large, or negative for unsigned)."""
    k = t.kind
    if k == "bool":
        return rng.random() < 0.5
    if k == "enum":
        return rng.choice([v for _, v in t.members])
    if k == "alias":
        return any_value(t.t, rng, in_bytearray)
    if k == "arr":
        et = t.t
        while et.kind == "alias":
            et = et.t
        return [any_value(t.t, rng, et.kind == "byte") for _ in range(t.cap)]
    if k == "msg":
        return {n: any_value(ft, rng) for n, _, ft in t.fields}
    n = 8 if k == "byte" else t.n
    base = rng.randrange(1 << n)
    if in_bytearray:
        return base                       # a bytearray cannot hold anything else
    r = rng.random()
    if r < 0.25:
        return base
    if r < 0.5:
        return base + (1 << n) * rng.randint(1, 5)
    if r < 0.75:
        return base - (1 << n) * rng.randint(1, 5)
    return rng.choice([-1, -(1 << 70), (1 << 70) + base, (1 << n), -(1 << n)])


def reduce_value(t: sg.T, v: Any) -> Any:
    """The in-range value with the same low bits."""
    k = t.kind
    if k in ("bool", "enum"):
        return v
    if k == "alias":
        return reduce_value(t.t, v)
    if k == "arr":
        return [reduce_value(t.t, x) for x in v]
    if k == "msg":
        return {n: reduce_value(ft, v[n]) for n, _, ft in t.fields}
    n = 8 if k == "byte" else t.n
    u = v % (1 << n)
    if k == "int" and u >= (1 << (n - 1)):
        u -= 1 << n
    return u


def run_py_half(ck: Check) -> None:
    ns = ck.n(60, 800)
    cases = []
    for i in range(ns):
        rng = random.Random(f"C07py:{ck.seed}:{i}")
        s = sg.Gen(rng, pywire.default_params(i, rng)).schema()
        wild = [any_value(s.top, rng) for _ in range(ck.n(3, 6))]
        vals = []
        for w in wild:
            vals.append(w)
            vals.append(reduce_value(s.top, w))
        cases.append((s, vals))
    jobs = [pyside.make_job(ck, 5000 + i, s, vals) for i, (s, vals) in enumerate(cases)]
    results = run_workers("run_py.py", jobs, chunk=max(4, len(jobs) // 32))
    sh = pyside.Shards(ck, "c07py", per_shard=20)
    n_eval = 0
    distinct = set()
    for i, ((s, vals), r) in enumerate(zip(cases, results)):
        if "runs" not in r:
            err = r.get("compile_error") or r.get("import_error") or r.get("worker_error") or "?"
            ck.violation(f"the compiler/runtime could not process a valid schema: {err}",
                         {"schema": sg.schema_to_json(s), "error": err}, found_input=True)
            continue
        bl = r["bytes_length"]
        defs = f"Definition t_{i} : ty := {s.coq_ty()}.\n"
        exprs = [f"(if {bl} =? nbytes t_{i} then 0 else 4)"]
        metas: List[Any] = [(i, "size", None)]
        for k in range(0, len(vals), 2):
            w, red = vals[k], vals[k + 1]
            rw, rr = r["runs"][k], r["runs"][k + 1]
            n_eval += 1
            distinct.add((s.texts[s.main], json.dumps(sg.value_to_json(s.top, w), sort_keys=True)))
            cw = sg.coq_val(s.top, w)
            impl_w = pyside.res_bytes_term(rw, "enc", "enc_exc")
            impl_r = pyside.res_bytes_term(rr, "enc", "enc_exc")
            # bit0: model != impl on the wild value; bit1: impl(wild) != Spec.wire(wild);
            # bit3: impl(wild) != impl(reduced); bit4: length != BYTES_LENGTH
            ln = len(rw.get("enc", []))
            exprs.append(f"((if res_bytes_eqb (py_encode t_{i} {cw}) {impl_w} then 0 else 1) + "
                         f"(if res_bytes_eqb (Ok (wire t_{i} {cw})) {impl_w} then 0 else 2) + "
                         f"(if res_bytes_eqb {impl_w} {impl_r} then 0 else 8) + "
                         f"(if {ln} =? nbytes t_{i} then 0 else 16))")
            metas.append((i, "wild", k))
        sh.add(defs, exprs, metas)
    out = sh.run()
    counts: Dict[str, int] = {}
    for (i, kind, k), code in out:
        counts[f"{kind}:{code}"] = counts.get(f"{kind}:{code}", 0) + 1
        if code == 0:
            continue
        s, vals = cases[i]
        if kind == "size":
            ck.violation("BYTES_LENGTH of the generated Python class differs from ceil(N/8)",
                         {"schema": sg.schema_to_json(s), "bytes_length": results[i].get("bytes_length")}, found_input=True)
        elif code & (2 | 8 | 16):
            ck.violation("an out-of-range integer changes bits outside its field / the buffer length (Python)",
                         {"schema": sg.schema_to_json(s), "value": sg.value_to_json(s.top, vals[k]),
                          "reduced_value": sg.value_to_json(s.top, vals[k + 1]),
                          "observed": results[i]["runs"][k], "observed_reduced": results[i]["runs"][k + 1], "code": code},
                         found_input=True)
        else:
            ck.broken(Broken("tie T2: model (PyRt) and implementation disagree on encoding out-of-range integers",
                             json.dumps({"schema": s.texts, "value": sg.value_to_json(s.top, vals[k])})[:2000]))
    cov = ck.coverage
    cov["evaluations"] += n_eval
    cov["distinct_nontrivial"] += len(distinct)
    cov["tie"]["python_half"] = {"schemas": len(cases), "codes": counts}
    if cases:
        s, vals = cases[0]
        cov["samples"].append({"python_half": {"schema": s.texts, "out_of_range_value": sg.value_to_json(s.top, vals[0]),
                                                "same_low_bits_in_range": sg.value_to_json(s.top, vals[1])}})
