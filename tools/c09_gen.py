"""c09_gen — inputs for the C09 failing-input SEARCH and for the T2 ties.

Every random choice comes from the `random.Random` that is passed in (derived from ck.rng).
An input is a dict {"files": {name: str | {"b64": ...}}, "main": name, "origin": str,
"symlinks": {name: target}} — `str` contents are written as UTF-8, b64 as raw bytes.
"""
from __future__ import annotations

import base64
import glob
import os
import random
import re
from typing import Any, Dict, List, Tuple

import schema_gen as sg
from vlib import REPO

Input = Dict[str, Any]

TOK_RE = re.compile(r'"(?:[^"\\\n]|\\.)*"|//[^\n]*|0x[0-9a-fA-F]+|[0-9]+|[A-Za-z_][A-Za-z0-9_]*|\n|[ \t\r]+|.',
                    re.S)

KEYWORDS = ["proto", "import", "option", "type", "const", "enum", "message", "typedef"]
VOCAB = KEYWORDS + [
    "bool", "byte", "uint1", "uint8", "uint13", "uint64", "uint65", "uint0", "int1", "int8", "int64", "int65", "int0",
    "true", "false", "yes", "no", "0", "1", "2", "7", "8", "255", "256", "65535", "65536", "0x0", "0xFF", "0xffff",
    "\"\"", "\"abc\"", "\"a\\tb\"", "\"a\\qb\"", "\"\\\\\"", "\"b.bitproto\"", "\"nope.bitproto\"", "\"main.bitproto\"",
    ":", ";", "{", "}", "[", "]", "(", ")", "=", "+", "-", "*", "/", ".", "'", "\\", "\n", "\n", "\n", " ",
    "// c", "M", "E", "A", "B", "x", "y", "b", "b.B", "max_bytes", "c.name_prefix", "c.struct_packing_alignment",
    "\"", "#", "@", "$", "%", "!", "?", ",", "<", ">", "|", "&", "~", "`", "\t", "\r", "\u00e9", "\u4e2d", "\x00",
]
INTERESTING_BYTES = [0, 9, 10, 13, 32, 34, 35, 39, 40, 41, 42, 43, 45, 46, 47, 48, 49, 57, 58, 59, 61, 65, 91, 92,
                     93, 95, 97, 123, 125, 127, 128, 191, 192, 194, 224, 237, 240, 244, 255]

IMPORTED = "proto b\nconst BK = 3\nmessage B { uint3 x = 1 }\nenum BE : uint2 { Z = 0; O = 1 }\n"


def seeds() -> List[Tuple[str, str]]:
    """(origin, text) of every .bitproto file in /repo (read-only)."""
    out = []
    for p in sorted(glob.glob(os.path.join(REPO, "**", "*.bitproto"), recursive=True)):
        try:
            out.append((os.path.relpath(p, REPO), open(p, encoding="utf-8").read()))
        except Exception:
            pass
    return out


def seed_input(origin: str, text: str, all_seeds: Dict[str, str]) -> Input:
    """A seed with the files it imports (same directory) next to it."""
    files = {"main.bitproto": text, "b.bitproto": IMPORTED}
    d = os.path.dirname(origin)
    for m in re.finditer(r'import\s+(?:[A-Za-z_][A-Za-z0-9_]*\s+)?"([^"\n]+)"', text):
        rel = os.path.normpath(os.path.join(d, m.group(1)))
        if rel in all_seeds and m.group(1) not in files:
            files[m.group(1)] = all_seeds[rel]
            # one more level
            for m2 in re.finditer(r'import\s+(?:[A-Za-z_][A-Za-z0-9_]*\s+)?"([^"\n]+)"', all_seeds[rel]):
                rel2 = os.path.normpath(os.path.join(os.path.dirname(rel), m2.group(1)))
                name2 = os.path.normpath(os.path.join(os.path.dirname(m.group(1)), m2.group(1)))
                if rel2 in all_seeds and name2 not in files:
                    files[name2] = all_seeds[rel2]
    return {"files": files, "main": "main.bitproto", "origin": origin}


def gen_schema_inputs(rng: random.Random, n: int) -> List[Input]:
    out = []
    for i in range(n):
        r = random.Random(rng.getrandbits(64))
        s = sg.Gen(r, sg.Params(max_fields=5, max_depth=3)).schema()
        out.append({"files": dict(s.texts), "main": s.main, "origin": f"schema_gen#{i}"})
    return out


def b64(bs: bytes) -> Dict[str, str]:
    return {"b64": base64.b64encode(bs).decode()}


# ---------------------------------------------------------------------------------------
# mutations
# ---------------------------------------------------------------------------------------

def mutate_bytes(rng: random.Random, text: str) -> bytes:
    bs = bytearray(text.encode("utf-8"))
    for _ in range(rng.choice([1, 1, 1, 2, 3, 5])):
        op = rng.randrange(7)
        pos = rng.randrange(len(bs) + 1) if bs else 0
        if op == 0 and bs:
            del bs[min(pos, len(bs) - 1)]
        elif op == 1:
            bs.insert(pos, rng.choice(INTERESTING_BYTES) if rng.random() < 0.8 else rng.randrange(256))
        elif op == 2 and bs:
            bs[min(pos, len(bs) - 1)] = rng.choice(INTERESTING_BYTES) if rng.random() < 0.8 else rng.randrange(256)
        elif op == 3 and bs:
            a = rng.randrange(len(bs))
            b = min(len(bs), a + rng.randrange(1, 40))
            bs[pos:pos] = bs[a:b]
        elif op == 4 and len(bs) > 2:
            a = rng.randrange(len(bs))
            b = min(len(bs), a + rng.randrange(1, 60))
            del bs[a:b]
        elif op == 5 and bs:
            a = min(pos, len(bs) - 1)
            bs[a] ^= 1 << rng.randrange(8)
        elif op == 6:
            # a blank-like character at the very end (after the last token), or at a random place
            ch = rng.choice(BLANK_LIKE).encode("utf-8") + rng.choice([b"", b"\n", b" \n", b"\t"])
            if rng.random() < 0.7:
                bs.extend(ch)
            else:
                bs[pos:pos] = ch
    return bytes(bs)


def tokens(text: str) -> List[str]:
    return TOK_RE.findall(text)


def mutate_tokens(rng: random.Random, text: str, extra_vocab: List[str]) -> str:
    ts = tokens(text)
    vocab = VOCAB + extra_vocab
    for _ in range(rng.choice([1, 1, 2, 3])):
        if not ts:
            ts = [rng.choice(vocab)]
            continue
        op = rng.randrange(6)
        i = rng.randrange(len(ts))
        if op == 0:
            del ts[i]
        elif op == 1:
            ts.insert(i, rng.choice(vocab))
        elif op == 2:
            ts[i] = rng.choice(vocab)
        elif op == 3:
            j = rng.randrange(len(ts))
            ts[i], ts[j] = ts[j], ts[i]
        elif op == 4:
            ts.insert(i, ts[rng.randrange(len(ts))])
        else:
            j = min(len(ts), i + rng.randrange(1, 12))
            ts[i:i] = ts[i:j]
    return "".join(ts)


def truncations(text: str) -> List[str]:
    ts = tokens(text)
    out = []
    acc = ""
    for t in ts:
        if not t.isspace() or t == "\n":
            out.append(acc)
        acc += t
    return out


def random_token_sequence(rng: random.Random, extra_vocab: List[str]) -> str:
    n = rng.choice([1, 2, 3, 5, 8, 13, 21, 40])
    vocab = VOCAB + extra_vocab
    parts = []
    for _ in range(n):
        parts.append(rng.choice(vocab))
        parts.append(rng.choice([" ", " ", " ", "", "\n"]))
    body = "".join(parts)
    return ("proto p\n" + body) if rng.random() < 0.6 else body


# ---------------------------------------------------------------------------------------
# directed damage (Appendix B item 14 and the import machinery), OUTSIDE the known classes
# ---------------------------------------------------------------------------------------

def directed(rng: random.Random, n: int) -> List[Input]:
    out: List[Input] = []

    def add(origin: str, main: Any, extra: Dict[str, Any] = None, symlinks=None):
        files = {"main.bitproto": main, "b.bitproto": IMPORTED}
        if extra:
            files.update(extra)
        out.append({"files": files, "main": "main.bitproto", "origin": origin, "symlinks": symlinks or {}})

    for i in range(n):
        r = rng
        k = i % 25
        depth = r.choice([1, 2, 5, 20, 80, 200])
        digits = r.choice([1, 5, 19, 20, 100, 1000, 4299, 4300])
        name = r.choice(["M", "m", "type", "E1", "_x"])
        if k == 0:
            add("unbalanced-open", "proto a\n" + "message M {\n" * depth + " uint3 x = 1\n" + "}\n" * r.randrange(depth))
        elif k == 1:
            add("unbalanced-close", "proto a\nmessage M {\n uint3 x = 1\n}" + "}" * depth + "\n")
        elif k == 2:
            ch = r.choice(["#", "@", "$", "`", "\x00", "\x7f", "\u00e9", "\u2028", "\ud7ff", "\U0001f600", "\\"])
            pos = r.choice(["proto a\n{0}", "proto a\nmessage M {{ uint3 {0} = 1 }}\n", "proto a\nconst A = {0}\n",
                            "{0}proto a\n", "proto a\nmessage M {{ uint3 x = 1 }}{0}"])
            add("stray-char", pos.format(ch))
        elif k == 3:
            esc = r.choice(["q", "x", "0", "u", " ", "a", "e", "1", "\u00e9"])
            add("bad-escape", f'proto a\nconst S = "a\\{esc}b"\n')
        elif k == 4:
            body = r.choice(['"abc', '"abc\\', '"abc\\"', '"', '"\\', '"a\nb"', '"a\\\nb"'])
            add("unterminated-string", "proto a\nconst S = " + body + r.choice(["", "\n", "\nmessage M {}\n"]))
        elif k == 5:
            add("all-escapes", 'proto a\nconst S = "' + "".join(r.choice(["\\t", "\\r", "\\n", "\\\\", "\\'", '\\"', "x", " "])
                                                            for _ in range(r.randrange(0, 60))) + '"\n')
        elif k == 6:
            add("long-int-literal-below-limit", "proto a\nconst A = " + "9" * digits + "\n")
        elif k == 7:
            add("long-uint-width-below-limit", "proto a\nmessage M { uint" + "0" * (digits - 1) + "8 x = 1 }\n")
        elif k == 8:
            add("long-hex-literal", "proto a\nenum E : uint8 { A = 0x" + "0" * r.choice([1, 100, 5000, 20000]) + "7 }\n")
        elif k == 9:
            add("long-identifier", "proto a\nmessage " + "M" * r.choice([100, 5000, 50000]) + " { uint3 x = 1 }\n")
        elif k == 10:
            add("long-string", 'proto a\nconst S = "' + "s" * r.choice([100, 5000, 100000]) + '"\n')
        elif k == 11:
            add("long-comment", "proto a\n//" + "c" * r.choice([100, 5000, 100000]) + "\nmessage M {}\n")
        elif k == 12:
            d = r.choice([10, 60, 150, 300])        # RecursionError starts at 496 (known finding recursion-depth)
            add("deep-nesting", "proto a\n" + "".join(f"message M{j} {{\n" for j in range(d)) + " uint3 x = 1\n"
                + "}\n" * d)
        elif k == 13:
            d = r.choice([10, 200, 2000])
            add("deep-parentheses", "proto a\nconst A = " + "(" * d + "1" + ")" * d + "\n")
        elif k == 14:
            d = r.choice([10, 500, 5000])
            add("long-expression", "proto a\nconst A = " + r.choice(["+", "-", "*"]).join(["3"] * d) + "\n")
        elif k == 15:
            add("many-lines", "proto a\n" + r.choice(["\n", "// c\n", "const A%d = 1\n"]) * r.choice([10, 1000, 4000]))
        elif k == 16:
            add("import-missing", 'proto a\nimport "' + r.choice(["nope.bitproto", "x/y/z.bitproto", "", " ", "..",
                                                                   "/nonexistent/q.bitproto"]) + '"\n')
        elif k == 17:
            add("import-self", 'proto a\nimport ' + r.choice(["", "me "]) + '"' + r.choice(["main.bitproto", "./main.bitproto"]) + '"\n')
        elif k == 18:
            add("import-cycle-2", 'proto a\nimport "c1.bitproto"\n',
                {"c1.bitproto": 'proto c1\nimport "main.bitproto"\n'})
        elif k == 19:
            add("import-cycle-3", 'proto a\nimport "c1.bitproto"\n',
                {"c1.bitproto": 'proto c1\nimport "c2.bitproto"\n', "c2.bitproto": 'proto c2\nimport "c1.bitproto"\n'})
        elif k == 20:
            add("import-directory", 'proto a\nimport "' + r.choice([".", "sub", "./"]) + '"\n',
                {"sub/keep.bitproto": "proto k\n"})
        elif k == 21:
            add("import-twice", 'proto a\nimport "b.bitproto"\nimport ' + r.choice(["", "x "]) + '"'
                + r.choice(["b.bitproto", "./b.bitproto", "sub/../b.bitproto"]) + '"\n', {"sub/keep.bitproto": "proto k\n"})
        elif k == 24:
            d = r.choice([5, 50, 200])
            add("alias-chain", "proto a\ntype T0 = bool[1]\n" + "".join(f"type T{j} = T{j - 1}[1]\n" for j in range(1, d))
                + f"message M {{ T{d - 1} t = 1 }}\n")
        elif k == 22:
            add("import-symlink-loop", 'proto a\nimport "loop.bitproto"\n', symlinks={"loop.bitproto": "loop.bitproto"})
        else:
            add("import-damaged-child", 'proto a\nimport "d.bitproto"\nmessage M { d.D x = 1 }\n',
                {"d.bitproto": r.choice(["", "proto d\nmessage D {", "message D {}\n", "proto d\nmessage D { uint0 x = 1 }\n",
                                         'proto d\nconst S = "\\q"\n'])})
    return out


# ---------------------------------------------------------------------------------------
# grammar coverage: small files that together reduce every alternative of every rule
# (the directed part of the search when an obligation about a semantic action breaks)
# ---------------------------------------------------------------------------------------

COVER_MAIN = """proto cov;
// a comment
import "b.bitproto"
import cc "c.bitproto";
option c.name_prefix = "p_"
option c.struct_packing_alignment = 0x1;
const T = true
const S = "s";
const K = 2
const R = K
const E1 = (K + 1) * 3 - 4 / 2
const H = 0x10
option py.module_name = S
type A = uint3
typedef int5 Bt;
typedef bool[2] Ct
type C = bool[K]'
type D = byte[2]
type F = b.B[3]
enum En : uint3 { X = 0; Y = 0x1
  // c in enum

  Z = 2
}
message M' { option max_bytes = 0
  En e = 1; A a = 2
  message N { bool type = 1 }
  enum Q : uint1 {}
  N n = 3
  b.BE be = 4;
  // c in message

  cc.CC c = 5
}
message Empty {}
message One { bool x = 1 }"""

ITEMS = {"alias": "type T = uint3", "typedef": "typedef uint3 T", "const": "const C = 1", "proto": "proto q",
         "import": 'import "b.bitproto"', "import-as": 'import x "b.bitproto"', "option": "option max_bytes = 3",
         "enum": "enum F : uint2 { Q = 0 }", "message": "message N { uint3 y = 1 }", "field": "uint3 z = 2"}


def grammar_cover() -> List[Input]:
    out: List[Input] = []

    def add(origin: str, main: str):
        out.append({"files": {"main.bitproto": main, "b.bitproto": IMPORTED,
                              "c.bitproto": "proto c\nmessage CC { bool x = 1 }\n"},
                    "main": "main.bitproto", "origin": "grammar-cover:" + origin})

    add("all-valid", COVER_MAIN)
    add("all-valid-trailing-newline", COVER_MAIN + "\n")
    for k, v in ITEMS.items():
        add("in-enum-" + k, f"proto a\nenum E : uint3 {{\n A = 0\n {v}\n}}\n")
        add("in-message-" + k, f"proto a\nmessage M {{\n uint3 x = 1\n {v}\n}}\n")
        add("top-" + k, f"proto a\n{v}\n" if k not in ("field",) else f"proto a\n{v}\n")
    add("empty-file", "")
    add("only-proto", "proto a")
    add("only-newline", "\n")
    add("extensible-under-O", "proto a\nmessage M' { uint3[2]' x = 1 }\n")
    add("bad-refs", "proto a\nconst A = Nope\n")
    add("bad-refs-2", "proto a\nmessage M { Nope x = 1 }\n")
    add("bad-refs-3", "proto a\nconst S = \"s\"\nconst A = S + 1\n")
    add("bad-refs-4", "proto a\nconst S = \"s\"\nmessage M { bool[S] x = 1 }\n")
    add("bad-refs-5", "proto a\nmessage N {}\nconst A = N\n")
    add("bad-refs-6", "proto a\nconst N = 1\nmessage M { N x = 1 }\n")
    add("dotted", "proto a\nimport \"b.bitproto\"\nmessage M { b.B.x.y z = 1 }\n")
    return out


# ---------------------------------------------------------------------------------------
# dotted references: every kind of definition as first / middle / last component, in every
# position a dotted identifier may appear (type, constant, array capacity, option / const value)
# ---------------------------------------------------------------------------------------

DOTTED_PRELUDE = ("proto a\nimport lib \"b.bitproto\"\nconst K = 2\ntype Al = uint3\n"
                  "enum Color : uint2 {\n    RED = 0\n}\n"
                  "message Pair {\n    message Inner {\n        bool v = 1\n    }\n    uint3 left = 1\n    Inner right = 2\n}\n")


def dotted_references() -> List[Input]:
    out: List[Input] = []
    paths = ["Pair.Inner", "Pair.left", "Pair.left.v", "Pair.Inner.v", "Pair.Inner.v.w", "Pair.Nope.v", "K.x", "K.x.y",
             "Al.x.y", "Color.RED", "Color.RED.v", "Color.RED.v.w", "lib.B", "lib.BK", "lib.BK.n", "lib.B.x", "lib.B.x.y",
             "lib.BE.Z", "lib.BE.Z.q", "lib.Nope.B", "Nope.Pair.Inner", "lib.lib.B", "a.Pair", "Pair.Pair.Inner"]
    for pth in paths:
        for k, use in enumerate((f"message U {{\n    {pth} f = 1\n}}\n", f"message U {{\n    bool[{pth}] f = 1\n}}\n",
                                 f"const C = {pth}\n", f"const C = 1 + {pth}\n", f"option c.name_prefix = {pth}\n",
                                 f"type T = {pth}[2]\n")):
            out.append({"files": {"main.bitproto": DOTTED_PRELUDE + use, "b.bitproto": IMPORTED}, "main": "main.bitproto",
                        "origin": f"dotted-reference:{pth}:{k}"})
    return out


# ---------------------------------------------------------------------------------------
# characters that Python's str.split()/isspace() treat as blank but the lexer does not skip
# (t_ignore is space, tab, CR), placed where only blanks / newlines follow up to the end of input
# ---------------------------------------------------------------------------------------

BLANK_LIKE = ["\x0b", "\x0c", "\x1c", "\x1d", "\x1e", "\x1f", "\x85", "\xa0", "\u1680", "\u2000", "\u2003", "\u200a",
              "\u2028", "\u2029", "\u202f", "\u205f", "\u3000", "\ufeff", "\u200b"]


def trailing_blank_like() -> List[Input]:
    out: List[Input] = []
    base = "proto a\nmessage M {\n    uint3 x = 1\n}"
    for ch in BLANK_LIKE:
        for k, tail in enumerate(("", "\n", " \t\r\n\n  ", ch + "\n" + ch)):
            for pre in ("\n", " "):
                if k in (1, 2) and pre == " ":
                    continue
                out.append({"files": {"main.bitproto": base + pre + ch + tail}, "main": "main.bitproto",
                            "origin": f"trailing-blank-like:U+{ord(ch):04X}:{k}"})
        out.append({"files": {"main.bitproto": ch}, "main": "main.bitproto",
                    "origin": f"trailing-blank-like:U+{ord(ch):04X}:alone"})
        out.append({"files": {"main.bitproto": "proto a\nconst S = \"s\" " + ch + " \n"}, "main": "main.bitproto",
                    "origin": f"trailing-blank-like:U+{ord(ch):04X}:after-string"})
    return out


# ---------------------------------------------------------------------------------------
# identifier shapes: every definition kind x names the lexer accepts ([a-zA-Z_][a-zA-Z0-9_]*)
# in the shapes the case-style converters of the renderers and the linter have to survive
# ---------------------------------------------------------------------------------------

NAME_SHAPES = ["_Frame", "Frame_", "Link__State", "_", "__", "___", "_x", "x_", "x__y", "__init__", "a", "Z", "a_b",
               "A_B", "a_1", "_1", "a1", "A1b2", "x9_", "a__1", "ABC", "ABC_DEF", "HTTPServer2", "mixedCase",
               "PascalCase", "snake_case_name", "_lead_and_trail_", "a_B_c_D", "x1_2_3", "RGB2HSV",
               "N" * 300, "long_" * 60 + "x"]


# long runs of one character class followed by another class, and repeated groups: what a
# regex with a nested / ambiguous quantifier chokes on (time doubles per character)
LONG_RUNS = [16, 24, 32, 48, 64]


def long_names(n: int) -> List[Tuple[str, str]]:
    k = max(1, n // 3)
    return [("upper-then-lower", "U" * n + "config"), ("upper-then-digit-lower", "U" * n + "9x"),
            ("letter-digits-upper", "a" + "7" * n + "B"), ("upper-digit-groups-lower", "AB1" * k + "c"),
            ("camel-groups", "Ab" * (n // 2) + "_"), ("underscores-around", "_" * n + "x" + "_" * n),
            ("upper-underscore-lower", "A" * n + "_b" + "C" * n + "d"), ("lower-then-upper", "l" * n + "X" + "9" * n + "y"),
            ("upper-digits-alternating", "A1" * (n // 2) + "b")]


def long_identifier_shapes() -> List[Input]:
    """(pattern, kind, run length) -> a one-definition schema; compiled under a budget of a few CPU seconds"""
    out: List[Input] = []
    for n in LONG_RUNS:
        for pat, nm in long_names(n):
            for kind, main in (
                    ("message", f"proto a\nmessage {nm} {{\n    uint3 x = 1\n}}\n"),
                    ("enum", f"proto a\nenum {nm} : uint3 {{\n    {nm.upper()}_V = 0\n}}\nmessage U {{\n    {nm} e = 1\n}}\n"),
                    ("field", f"proto a\nmessage U {{\n    uint3 {nm} = 1\n}}\n"),
                    ("alias-const", f"proto a\nconst {nm} = 2\ntype {nm}T = bool[{nm}]\nmessage U {{\n    {nm}T t = 1\n}}\n")):
                out.append({"files": {"main.bitproto": main}, "main": "main.bitproto", "limit": 3.0,
                            "origin": f"long-identifier:{pat}:{kind}:{n}", "family": (pat, kind), "run": n})
    return out


def identifier_shapes() -> List[Input]:
    out: List[Input] = []

    def add(kind: str, name: str, main: str):
        out.append({"files": {"main.bitproto": main, "b.bitproto": IMPORTED}, "main": "main.bitproto",
                    "origin": f"identifier-shape:{kind}:{name[:24]}"})

    for nm in NAME_SHAPES:
        add("message", nm, f"proto a\nmessage {nm} {{\n    uint3 x = 1\n}}\nmessage U {{\n    {nm} m = 1\n    {nm}[2] ms = 2\n}}\n")
        add("enum", nm, f"proto a\nenum {nm} : uint3 {{\n    {nm.upper() if nm.strip('_') else 'K'}_ZERO = 0\n}}\n"
                        f"message U {{\n    {nm} e = 1\n}}\n")
        add("alias", nm, f"proto a\ntype {nm} = uint13\ntype {nm}Arr = {nm}[3]\nmessage U {{\n    {nm} t = 1\n    {nm}Arr ts = 2\n}}\n")
        add("constant", nm, f"proto a\nconst {nm} = 7\nconst Other = {nm} * 2\nmessage U {{\n    bool[{nm}] bs = 1\n}}\n")
        add("enum-member", nm, f"proto a\nenum E : uint3 {{\n    {nm} = 0\n    OTHER = 1\n}}\nmessage U {{\n    E e = 1\n}}\n")
        add("field", nm, f"proto a\nmessage U {{\n    uint3 {nm} = 1\n    bool[2] other = 2\n}}\n")
        add("import-as", nm, f"proto a\nimport {nm} \"b.bitproto\"\nmessage U {{\n    {nm}.B x = 1\n    {nm}.BE e = 2\n}}\n")
        add("proto", nm, f"proto {nm}\nmessage U {{\n    uint3 x = 1\n}}\n")
        add("option", nm, f"proto a\noption {nm} = 1\nmessage U {{\n    option {nm}.{nm} = \"v\"\n    uint3 x = 1\n}}\n")
        add("nested", nm, f"proto a\nmessage Outer {{\n    message {nm} {{\n        enum {nm}E : uint1 {{\n            {nm}V = 0\n        }}\n"
                          f"        {nm}E e = 1\n    }}\n    {nm} f = 1\n    {nm}.{nm}E g = 2\n}}\n")
    return out


# ---------------------------------------------------------------------------------------
# inputs INSIDE the classes of the known findings (small, separate stream); the variants of
# div-zero, empty-enum and import-in-message (fixed in /repo) stay as regression inputs
# ---------------------------------------------------------------------------------------

def inside_known(rng: random.Random, n: int) -> List[Input]:
    out: List[Input] = []

    def add(origin: str, main: Any, extra=None):
        files = {"main.bitproto": main, "b.bitproto": IMPORTED}
        if extra:
            files.update(extra)
        out.append({"files": files, "main": "main.bitproto", "origin": "inside:" + origin})

    big = "7" * rng.choice([4301, 5000, 9000])
    bighex = "0x" + "f" * rng.choice([3600, 5000])
    variants = [
        ("div-zero", "proto a\nconst A = 7 / 0\n"),
        ("div-zero", "proto a\nconst Z = 3 - 3\nconst A = (1 + 2) * 4 / Z\n"),
        ("div-zero", "proto a\nconst A = 1 / (2 / 3)\n"),
        ("div-zero", "proto a\nmessage M { const A = 5 / 0x0 }\n"),
        ("empty-enum", "proto a\nenum E : uint3 {}\nmessage M { E e = 1 }\n"),
        ("empty-enum", "proto a\nenum E : uint3 {\n}\nmessage M { E[4] e = 1 }\n"),
        ("empty-enum", "proto a\nenum E : uint3 {}\ntype T = E[2]\n"),
        ("empty-enum", "proto a\nmessage M { enum E : uint1 {} E e = 2 }\n"),
        ("import-in-message", 'proto a\nmessage M {\n import "b.bitproto"\n}\n'),
        ("import-in-message", 'proto a\nmessage M { message N { import x "b.bitproto"; } }\n'),
        ("huge-literal", "proto a\nconst A = " + big + "\n"),
        ("huge-literal", "proto a\nmessage M { uint" + big + " x = 1 }\n"),
        ("huge-literal", "proto a\nmessage M { int" + big + " x = 1 }\n"),
        ("huge-literal", "proto a\nmessage M { uint8 x = " + big + " }\n"),
        ("huge-literal", "proto a\nmessage M { uint8[" + big + "] x = 1 }\n"),
        ("huge-int-str", "proto a\nconst A = " + bighex + "\n"),
        ("huge-int-str", "proto a\nmessage M { uint8[" + bighex + "] x = 1 }\n"),
        ("huge-int-str", "proto a\nconst A = " + bighex + "\nmessage M { uint8[A] x = 1 }\n"),
        ("huge-int-str", "proto a\nconst A = " + " * ".join(["99999999999999999999"] * 220) + "\n"),
        ("non-utf8-source", b64(b"proto a\n// \xff\n")),
        ("non-utf8-source", b64(b"proto a\nconst S = \"\xc3\"\n")),
        ("nul-in-path", 'proto a\nimport "b\x00.bitproto"\n'),
        ("recursion-depth", "proto a\n" + "".join(f"message M{j} {{\n" for j in range(600)) + "}\n" * 600),
        ("recursion-depth", "proto a\ntype T0 = bool[1]\n" + "".join(f"type T{j} = T{j - 1}[1]\n" for j in range(1, 400))
         + "message M { T399 t = 1 }\n"),
    ]
    for i in range(n):
        k, v = variants[i % len(variants)]
        add(k, v)
    return out


# ---------------------------------------------------------------------------------------
# T2 material
# ---------------------------------------------------------------------------------------

STR_ALPHABET = [34, 34, 92, 92, 92, 10, 116, 114, 110, 39, 97, 98, 32, 113, 48, 120, 13, 9, 0, 255, 128, 47]


def string_literal_texts(rng: random.Random, n: int) -> List[List[int]]:
    """code points (0..255) of texts that start with a quote"""
    out: List[List[int]] = [[34], [34, 34], [34, 92], [34, 92, 34], [34, 92, 34, 34], [34, 97, 92], [34, 10, 34],
                            [34, 92, 10, 34], [34, 92, 92, 34], [34, 92, 92, 92, 34], [34, 92, 113, 34],
                            [34, 97, 34, 98, 34], [34, 92, 116, 92, 114, 92, 110, 92, 92, 92, 39, 92, 34, 34]]
    while len(out) < n:
        ln = rng.choice([0, 1, 2, 3, 5, 8, 13, 30])
        body = [rng.choice(STR_ALPHABET) if rng.random() < 0.85 else rng.randrange(256) for _ in range(ln)]
        tail = [rng.choice(STR_ALPHABET) for _ in range(rng.choice([0, 0, 1, 4]))]
        close = [34] if rng.random() < 0.8 else []
        out.append([34] + body + close + tail)
    return out


class CE:
    """constant expression tree"""

    def __init__(self, op: str, a=None, b=None, v=None):
        self.op, self.a, self.b, self.v = op, a, b, v

    def text(self, parent_prec: int = 0, right: bool = False) -> str:
        if self.op == "lit":
            return self.v[0]
        if self.op == "ref":
            return self.v
        if self.op == "grp":
            return "(" + self.a.text() + ")"
        prec = 1 if self.op in "+-" else 2
        s = f"{self.a.text(prec, False)} {self.op} {self.b.text(prec, True)}"
        if prec < parent_prec or (prec == parent_prec and right):
            # would re-associate: the generator only builds trees that print without this case
            raise AssertionError("unprintable tree")
        return s

    def coq(self) -> str:
        if self.op == "lit":
            return f"(CLitE {self.v[1]})"
        if self.op == "ref":
            return f'(CRef "{self.v}"%string)'
        if self.op == "grp":
            return f"(CGroup {self.a.coq()})"
        c = {"+": "CAdd", "-": "CSub", "*": "CMul", "/": "CDiv"}[self.op]
        return f"({c} {self.a.coq()} {self.b.coq()})"


PRELUDE = ("const K = 6\nconst Z = 0\nconst NEG = 2 - 9\nconst T = true\nconst S = \"s\"\n"
           "message Msg { uint3 x = 1 }\n")
PRELUDE_ENV = ('[("K"%string, BInt 6); ("Z"%string, BInt 0); ("NEG"%string, BInt (-7)); ("T"%string, BBool true); '
               '("S"%string, BStr (asc [115]%nat)); ("Msg"%string, BNotConst)]')


def gen_cexpr(rng: random.Random, depth: int, min_prec: int = 0, right: bool = False, zero_bias: float = 0.1) -> CE:
    """A tree that prints (with the usual precedence, left associativity) back to itself."""
    if depth <= 0 or rng.random() < 0.25:
        r = rng.random()
        if r < 0.55:
            v = rng.choice([0, 1, 2, 3, 7, 10, 255, 65536]) if rng.random() > zero_bias else 0
            return CE("lit", v=(hex(v), v)) if rng.random() < 0.2 else CE("lit", v=(str(v), v))
        if r < 0.85:
            return CE("ref", v=rng.choice(["K", "K", "NEG", "Z", "T", "S", "Msg", "Undefined"]))
        return CE("grp", a=gen_cexpr(rng, depth - 1, zero_bias=zero_bias))
    op = rng.choice(["+", "-", "*", "/", "/"])
    prec = 1 if op in "+-" else 2
    if prec < min_prec or (prec == min_prec and right):
        return CE("grp", a=gen_cexpr(rng, depth - 1, zero_bias=zero_bias))
    a = gen_cexpr(rng, depth - 1, prec, False, zero_bias)
    b = gen_cexpr(rng, depth - 1, prec, True, zero_bias)
    return CE(op, a, b)


def gen_root_cexpr(rng: random.Random, depth: int, zero_bias: float) -> CE:
    """never a bare reference at the root (that is `const_value : constant_reference`)"""
    while True:
        e = gen_cexpr(rng, depth, zero_bias=zero_bias)
        if e.op != "ref":
            return e
