"""run_c10 — worker for property C10: the real compiler on a set of .bitproto files, then the
real toolchains on what it generated.

stdin : JSON list of jobs {id, dir, files{name:text}, order:[names], filter:[message names]|null,
        modes:[...] (subset of c, co, cof, py, go), wall_extra: bool}
stdout: JSON list of results:
   ast      {file: elaborated schema dump | {"parse_error": ...}}       (from the real parser)
   trad     {file: bool}   parses in traditional mode (required for -O)
   out      {mode: {file: {"names": [generated file names], "items": {outfile: parsed items}}
                           | {"error": "ExcType: message"}}}
   tool     {mode: {...toolchain verdicts...}}
Nothing reported here is trusted: the harness compares it with the Coq model's prediction.
"""
import json
import os
import re
import signal
import subprocess
import sys
import traceback

sys.path.insert(0, os.path.dirname(os.path.abspath(__file__)))
import c10_parse as cp  # noqa: E402

REPO = os.environ.get("VERIF_REPO", "/repo")
LIBC = os.path.join(REPO, "lib", "c")


def _alarm(_s, _f):
    raise TimeoutError("implementation did not return within the time limit")


signal.signal(signal.SIGALRM, _alarm)


def sh(cmd, cwd=None, timeout=60, env=None):
    try:
        p = subprocess.run(cmd, cwd=cwd, capture_output=True, text=True, timeout=timeout, env=env)
        return p.returncode, p.stdout, p.stderr
    except subprocess.TimeoutExpired:
        return 124, "", "TIMEOUT"


# ---- elaborated schema dump from the real parser's AST ------------------------------------------

def dump_type(t, root):
    from bitproto._ast import Alias, Array, Bool, Byte, Enum, Int, Message, Proto, Uint
    if isinstance(t, Bool):
        return {"b": "bool"}
    if isinstance(t, Byte):
        return {"b": "byte"}
    if isinstance(t, Uint):
        return {"b": "uint", "n": t.cap}
    if isinstance(t, Int):
        return {"b": "int", "n": t.cap}
    if isinstance(t, Array):
        return {"arr": dump_type(t.element_type, root), "cap": t.cap, "ext": bool(t.extensible)}
    if isinstance(t, (Enum, Message, Alias)):
        kind = "enum" if isinstance(t, Enum) else "msg" if isinstance(t, Message) else "alias"
        protos = [s for s in t.scope_stack if isinstance(s, Proto)]
        if not protos or protos[0] is not root:
            raise RuntimeError("reference whose scope stack does not start at the root proto")
        via = []
        for p in protos[1:]:
            via.append(p.scope_stack[-1].get_name_by_member(p))
        path = [s.name for s in t.scope_stack if isinstance(s, Message)]
        return {"ref": kind, "via": via, "file": os.path.basename(t.bound.filepath), "path": path, "name": t.name}
    raise RuntimeError(f"unknown type node {t!r}")


def dump_def(d, root):
    from bitproto._ast import Alias, Constant, Enum, EnumField, Message, MessageField, Option
    if isinstance(d, Constant):
        v = d.value
        return {"k": "const", "n": d.name, "v": v, "vt": "bool" if isinstance(v, bool) else "int" if isinstance(v, int) else "str"}
    if isinstance(d, Alias):
        return {"k": "alias", "n": d.name, "t": dump_type(d.type, root)}
    if isinstance(d, Enum):
        ms = []
        for name, m in d.members.items():
            if isinstance(m, EnumField):
                ms.append([name, m.value])
            else:
                raise RuntimeError(f"unexpected enum member {m!r}")
        return {"k": "enum", "n": d.name, "w": d.type.cap, "ms": ms}
    if isinstance(d, Message):
        nested, fs = [], []
        for name, m in d.members.items():
            if isinstance(m, MessageField):
                fs.append([m.name, m.number, dump_type(m.type, root)])
            elif isinstance(m, (Enum, Message)):
                nested.append(dump_def(m, root))
            elif isinstance(m, Option):
                continue
            else:
                raise RuntimeError(f"unexpected message member {m!r}")
        return {"k": "msg", "n": d.name, "ext": bool(d.extensible), "nested": nested, "fs": fs}
    raise RuntimeError(f"unknown definition {d!r}")


def dump_proto(proto):
    from bitproto._ast import BoundDefinition, Option, Proto
    imports, defs = [], []
    for name, m in proto.members.items():
        if isinstance(m, Proto):
            imports.append([name, os.path.basename(m.filepath)])
        elif isinstance(m, Option):
            continue
        elif isinstance(m, BoundDefinition):
            if m.bound is not proto:
                raise RuntimeError("top-level member bound to another proto")
            defs.append(dump_def(m, proto))
        else:
            raise RuntimeError(f"unexpected proto member {m!r}")
    return {
        "base": os.path.splitext(os.path.basename(proto.filepath))[0],
        "proto": proto.name,
        "imports": imports,
        "opts": {
            "c.name_prefix": proto.get_option_as_string_or_raise("c.name_prefix"),
            "c.struct_packing_alignment": proto.get_option_as_int_or_raise("c.struct_packing_alignment"),
            "py.module_name": proto.get_option_as_string_or_raise("py.module_name"),
            "go.package_path": proto.get_option_as_string_or_raise("go.package_path"),
        },
        "defs": defs,
    }


# ---- rendering ------------------------------------------------------------------------------------

MODES = {
    "c": ("c", {}), "co": ("c", {"optimization_mode": True}), "cof": ("c", {"optimization_mode": True}),
    "py": ("py", {}), "go": ("go", {}),
}


def render_all(job, res):
    from bitproto.parser import parse
    from bitproto.renderer import render
    src = os.path.join(job["dir"], "src")
    os.makedirs(src, exist_ok=True)
    for name, text in job["files"].items():
        with open(os.path.join(src, name), "w") as f:
            f.write(text)
    res["ast"], res["trad"], res["out"] = {}, {}, {}
    protos = {}
    for name in job["order"]:
        try:
            signal.alarm(30)
            protos[name] = parse(os.path.join(src, name))
            res["ast"][name] = dump_proto(protos[name])
        except BaseException as e:  # noqa
            res["ast"][name] = {"parse_error": f"{type(e).__name__}: {e}"[:400]}
        finally:
            signal.alarm(0)
        try:
            signal.alarm(30)
            parse(os.path.join(src, name), traditional_mode=True)
            res["trad"][name] = True
        except BaseException:  # noqa
            res["trad"][name] = False
        finally:
            signal.alarm(0)
    for mode in job["modes"]:
        lang, kw = MODES[mode]
        outdir = os.path.join(job["dir"], mode)
        os.makedirs(outdir, exist_ok=True)
        res["out"][mode] = {}
        for name in job["order"]:
            if name not in protos:
                continue
            if mode in ("co", "cof") and not res["trad"].get(name):
                res["out"][mode][name] = {"skipped": "not traditional"}
                continue
            kw2 = dict(kw)
            if mode == "cof":
                kw2["optimization_mode_filter_messages"] = list(job.get("filter") or [])
            try:
                signal.alarm(60)
                p = parse(os.path.join(src, name), traditional_mode=True) if mode in ("co", "cof") else protos[name]
                paths = render(p, lang, outdir=outdir, **kw2)
                items = {}
                perr = {}
                for path in paths:
                    bn = os.path.basename(path)
                    text = open(path).read()
                    try:
                        if bn.endswith(".h"):
                            items[bn] = cp.parse_c(text, True)
                        elif bn.endswith(".c"):
                            items[bn] = cp.parse_c(text, False)
                        elif bn.endswith(".py"):
                            items[bn] = cp.parse_py(text)
                        elif bn.endswith(".go"):
                            r = cp.go_check(text)
                            res.setdefault("tool", {}).setdefault("go", {})[bn] = r["errors"]
                            if r["errors"] and not r["items"]:
                                perr[bn] = "; ".join(r["errors"])[:300]      # not even tokenizable / balanced
                            else:
                                items[bn] = r["items"]
                    except cp.ParseError as e:
                        perr[bn] = str(e)[:300]
                res["out"][mode][name] = {"names": [os.path.basename(x) for x in paths], "items": items, "parse_errors": perr}
            except BaseException as e:  # noqa
                res["out"][mode][name] = {"error": f"{type(e).__name__}: {e}"[:300],
                                          "trace": traceback.format_exc()[-800:]}
            finally:
                signal.alarm(0)


# ---- C toolchain -----------------------------------------------------------------------------------

def diag(stderr, word):
    return [l for l in stderr.split("\n") if re.search(rf"\b{word}\b", l)][:6]


def runtime_object(job):
    """lib/c/bitproto.c compiled once per run (the cases directory is wiped at the start of a run)"""
    root = os.path.dirname(job["dir"])
    obj = os.path.join(root, "bitproto_runtime.o")
    if not os.path.exists(obj):
        tmp = f"{obj}.{os.getpid()}.tmp.o"
        rc, _, err = sh(["gcc", "-std=gnu99", "-O0", "-c", "-I", LIBC, os.path.join(LIBC, "bitproto.c"), "-o", tmp], timeout=120)
        if rc != 0:
            return os.path.join(LIBC, "bitproto.c")
        os.replace(tmp, obj)
    return obj


def c_tool(job, res, mode):
    d = os.path.join(job["dir"], mode)
    out = {"syntax": {}, "link": None, "probe": None, "gxx": None}
    srcs = sorted(f for f in os.listdir(d) if f.endswith("_bp.c"))
    hdrs = sorted(f for f in os.listdir(d) if f.endswith("_bp.h"))
    inc = ["-I", LIBC, "-I", d]
    full = job.get("syntax_always") or mode == "c"
    if not full and mode == "cof":
        # quick tier: the -F variant only differs from -O by omitted functions: syntax check per file
        for c in srcs:
            rc1, _, err1 = sh(["gcc", "-std=gnu99", "-fsyntax-only", "-Wall"] + inc + [os.path.join(d, c)])
            out["syntax"][c] = {"rc": rc1, "errors": diag(err1, "error"), "warnings": diag(err1, "warning")}
        return out
    # probe: sizeof / offsetof of every struct of every generated header
    layout = []
    for h in hdrs:
        for tag, mem in cp.c_struct_layout(open(os.path.join(d, h)).read()):
            if tag not in [t for t, _ in layout]:
                layout.append((tag, mem))
    probe = ["#include <stdio.h>", "#include <stddef.h>"] + [f'#include "{h}"' for h in hdrs] + ["int main(void) {"]
    for tag, mem in layout:
        probe.append(f'    printf("S {tag} %zu\\n", sizeof(struct {tag}));')
        for m in mem:
            probe.append(f'    printf("O {tag} {m} %zu\\n", offsetof(struct {tag}, {m}));')
    probe += ["    return 0;", "}"]
    with open(os.path.join(d, "probe_main.c"), "w") as f:
        f.write("\n".join(probe) + "\n")
    exe = os.path.join(d, "probe_exe")
    rc, _, err = sh(["gcc", "-std=gnu99", "-Wall", "-O0"] + inc + [os.path.join(d, c) for c in srcs]
                    + [runtime_object(job), os.path.join(d, "probe_main.c"), "-o", exe], timeout=120)
    out["link"] = {"rc": rc, "errors": diag(err, "error") + diag(err, "multiple definition") + diag(err, "undefined reference"),
                   "warnings": diag(err, "warning")}
    # per-file `gcc -fsyntax-only -Wall`: always in the thorough tier; in the quick tier only when the
    # compile+link of all sources (same flags, same diagnostics) failed, to attribute the errors
    if rc != 0 or job.get("syntax_always"):
        for c in srcs:
            rc1, _, err1 = sh(["gcc", "-std=gnu99", "-fsyntax-only", "-Wall"] + inc + [os.path.join(d, c)])
            out["syntax"][c] = {"rc": rc1, "errors": diag(err1, "error"), "warnings": diag(err1, "warning")}
    if rc == 0:
        rc2, so, se = sh([exe], timeout=20)
        if rc2 == 0:
            sizes = {}
            offs = {}
            for l in so.split("\n"):
                p = l.split()
                if p and p[0] == "S":
                    sizes[p[1]] = int(p[2])
                elif p and p[0] == "O":
                    offs[f"{p[1]}.{p[2]}"] = int(p[3])
            out["probe"] = {"sizes": sizes, "offsets": offs}
            if not full:
                return out        # quick tier: the C++ translation unit is checked for the standard-mode header
            # C++ translation unit: same layout, API callable
            tu = ["#include <cstddef>"] + [f'#include "{h}"' for h in hdrs]
            for tag, mem in layout:
                tu.append(f'static_assert(sizeof(struct {tag}) == {sizes[tag]}, "sizeof struct {tag} differs from C");')
                for m in mem:
                    tu.append(f'static_assert(offsetof(struct {tag}, {m}) == {offs[tag + "." + m]}, "offsetof {tag}.{m} differs from C");')
            k = 0
            for h in hdrs:
                for mm in re.finditer(r"^int (\w+)\(struct (\w+) \*m, unsigned char \*s\);", open(os.path.join(d, h)).read(), flags=re.M):
                    k += 1
                    tu.append(f"int call_{k}(struct {mm.group(2)} *m, unsigned char *s) {{ return {mm.group(1)}(m, s); }}")
            with open(os.path.join(d, "tu.cpp"), "w") as f:
                f.write("\n".join(tu) + "\n")
            rc3, _, err3 = sh(["g++", "-std=c++11", "-fsyntax-only", "-Wall", "-Wno-invalid-offsetof"] + inc + [os.path.join(d, "tu.cpp")])
            out["gxx"] = {"rc": rc3, "errors": diag(err3, "error")}
        else:
            out["probe"] = {"error": f"probe exited {rc2}"}
    return out


# ---- Python toolchain ------------------------------------------------------------------------------

PY_PROBE = r"""
import sys, json, importlib, dataclasses, inspect
d = sys.argv[1]
sys.path.insert(0, d)
out = {}
for mod in sys.argv[2:]:
    r = {}
    try:
        src = open(d + "/" + mod + ".py").read()
        compile(src, mod + ".py", "exec")
        r["compile"] = True
    except BaseException as e:
        r["compile"] = False
        r["error"] = type(e).__name__ + ": " + str(e)[:200]
        out[mod] = r
        continue
    try:
        m = importlib.import_module(mod)
        r["import"] = True
    except BaseException as e:
        r["import"] = False
        r["error"] = type(e).__name__ + ": " + str(e)[:200]
        out[mod] = r
        continue
    inst = {}
    for n, c in list(vars(m).items()):
        if inspect.isclass(c) and dataclasses.is_dataclass(c) and c.__module__ == mod:
            try:
                x = c()
                x2 = c()
                inst[n] = True
            except BaseException as e:
                inst[n] = type(e).__name__ + ": " + str(e)[:200]
    r["instantiate"] = inst
    out[mod] = r
print(json.dumps(out))
"""


def py_tool(job, res):
    d = os.path.join(job["dir"], "py")
    mods = sorted(f[:-3] for f in os.listdir(d) if f.endswith("_bp.py"))
    env = dict(os.environ)
    rc, so, se = sh([sys.executable, "-c", PY_PROBE, d] + mods, timeout=120, env=env)
    if rc != 0:
        return {"error": f"probe rc={rc} {se[-300:]}"}
    try:
        return json.loads(so.strip().split("\n")[-1])
    except Exception:
        return {"error": "probe output not JSON: " + so[-200:]}


def do_job(job):
    res = {"id": job["id"]}
    if job.get("kind") == "caseconv":
        from bitproto.utils import pascal_case, snake_case, upper_case
        res["conv"] = [[pascal_case(w), snake_case(w), upper_case(w)] for w in job["words"]]
        return res
    render_all(job, res)
    tool = res.setdefault("tool", {})
    for mode in job["modes"]:
        try:
            if mode in ("c", "co", "cof"):
                tool[mode] = c_tool(job, res, mode)
            elif mode == "py":
                tool["py"] = py_tool(job, res)
        except BaseException as e:  # noqa
            tool[mode] = {"error": f"{type(e).__name__}: {e}"[:300]}
    return res


def main():
    jobs = json.load(sys.stdin)
    import bitproto
    assert bitproto.__file__.startswith(REPO + "/"), bitproto.__file__
    out = []
    real = sys.stdout
    sys.stdout = sys.stderr
    for job in jobs:
        try:
            out.append(do_job(job))
        except BaseException as e:  # noqa
            out.append({"id": job.get("id"), "worker_error": f"{type(e).__name__}: {e}", "trace": traceback.format_exc()[-1000:]})
    sys.stdout = real
    json.dump(out, sys.stdout)


if __name__ == "__main__":
    main()
