"""cliside — shared code of the C17 / C20 checks: Coq terms for command lines, classification
of what the real CLI printed, splitting generated C / Go text into encoder/decoder function
chunks and the remaining declarations, corpus loading."""
from __future__ import annotations

import glob
import json
import os
import re
from typing import Any, Dict, List, Optional, Tuple

import cli_gen as cg
from vlib import VERIF, Broken, Check, coq_build

HEADER = """From Coq Require Import ZArith List String Ascii Bool.
From BP Require Import CliBase Main Lint LintSpec CliCases.
Import ListNotations.
Open Scope string_scope.
Open Scope Z_scope.
"""

MODEL_VO = ("theories/CliCases.vo",)

ASSUME_COMMON = [
    "Coq 8.16.1 kernel and its vm_compute (witnesses, finite case analyses, correspondence evaluation)",
    "tools/translate_cli.py (T0) reads _main.py / parser.py / lexer.py / linter.py / utils.py / renderers correctly; "
    "unknown shapes are rejected (fail closed); hand-modelled bodies are pinned by AST digests in coq/ref/skeletons_cli.json",
    "CPython: a process whose main() returns exits with status 0; os._exit(code) ends it with `code`; an uncaught "
    "exception prints a traceback and exits with 1; argparse semantics of the declared arguments",
    "ply (lex/yacc) is not modelled: tokenisation, LALR reductions order and lexpos bookkeeping are trusted and "
    "exercised by T2 only",
]

LANG = {"c": "LC", "go": "LGo", "py": "LPy"}
ENDIAN = {"both": "EBoth", "little": "ELittle", "big": "EBig", None: "EBoth"}


def cbool(b: bool) -> str:
    return "true" if b else "false"


def lang_term(l: Optional[str]) -> str:
    return f"(Some {LANG[l]})" if l else "None"


def zlist(xs) -> str:
    return "[" + "; ".join(str(x) if x >= 0 else f"({x})" for x in xs) + "]"


def load_corpus(prop: str) -> List[Dict[str, Any]]:
    out = []
    for p in sorted(glob.glob(os.path.join(VERIF, "corpus", prop, "*.json"))):
        try:
            j = json.load(open(p))
        except Exception as e:  # noqa
            raise Broken(f"corpus file {p} unreadable", str(e))
        j["_path"] = p
        out.append(j)
    return out


def build_model(ck: Check) -> bool:
    import shutil
    import vlib
    if any(b["what"].startswith("translator") for b in ck.broken_obligations):
        # the translation of THIS tree failed: gen/GenCli.v may be a stale translation of another tree (a mirror
        # workspace is reused between scratch checkouts); the last accepted translation stands in for the model
        shutil.copy(os.path.join(vlib.COQ, "ref", "GenCli.v"), os.path.join(vlib.COQ, "gen", "GenCli.v"))
        ck.coverage["tie"]["model_from_reference_translation"] = True
    ok, log = coq_build(list(MODEL_VO))
    if not ok:
        ck.broken(Broken("the executable CLI/lint model (theories/CliCases.vo) does not build against the "
                         "current translation", log[-2500:]))
        ck.model_ok = False
    return ok


# ---- stderr ---------------------------------------------------------------------------------

def stderr_class(run: Dict[str, Any]) -> int:
    """0 none/warnings only | 1 red 'error: ...' | 2 '-F not available' | 3 uncoloured 'error: ...' (no language)
    | 4 other text | 5 traceback"""
    if run.get("traceback"):
        return 5
    errs = [d for d in run["diags"] if d["sev"] == "error"]
    other = run["other"]
    if any(o.startswith("-F not available") for o in other):
        return 2
    raw_lines = run["stderr"].splitlines()
    red = [l for l in raw_lines if l.startswith("\x1b[31merror:")]
    if red or any(e["colored"] for e in errs):
        return 1
    if any(o.startswith("error:") for o in other) or errs:
        return 3
    if any(not o.startswith(("syntax warning", "warning:")) for o in other):
        return 4
    return 0


def error_position(run: Dict[str, Any], schema: cg.Schema) -> Tuple[int, int]:
    errs = [d for d in run["diags"] if d["sev"] == "error"]
    if not errs:
        return -1, -1
    names = {f.name: i for i, f in enumerate(schema.files)}
    return names.get(os.path.basename(errs[0]["file"]), -2), errs[0]["line"]


# ---- generated text -> function chunks ------------------------------------------------------------

C_SRC_FN = re.compile(r"^int (Encode|Decode)(\w+)\(struct (\w+) \*m, unsigned char \*s\) \{\n.*?^\}[ \t]*$", re.M | re.S)
C_HDR_FN = re.compile(r"^(?://[^\n]*\n)?int (Encode|Decode)(\w+)\(struct (\w+) \*m, unsigned char \*s\);[ \t]*$", re.M)
GO_FN = re.compile(r"^(?://[^\n]*\n)?func \(m \*(\w+)\) (Encode\(\) \[\]byte|Decode\(s \[\]byte\)) \{\n.*?^\}[ \t]*$", re.M | re.S)


def split_output(kind: str, text: str) -> Tuple[List[Tuple[str, str, str]], str]:
    """returns ([(owner name, 'Encode'|'Decode', chunk text)], residual text with chunks removed and blank lines
    collapsed).  kind in c_src / c_hdr / go."""
    chunks: List[Tuple[str, str, str]] = []
    rx = {"c_src": C_SRC_FN, "c_hdr": C_HDR_FN, "go": GO_FN}[kind]
    pieces = []
    last = 0
    for m in rx.finditer(text):
        if kind == "go":
            owner, what = m.group(1), m.group(2)[:6]
        else:
            what, owner, st = m.group(1), m.group(2), m.group(3)
            if owner != st:
                raise Broken("emitted-code splitter: function name and struct name disagree", m.group(0)[:200])
        chunks.append((owner, what, m.group(0)))
        pieces.append(text[last:m.start()])
        last = m.end()
    pieces.append(text[last:])
    residual = "\n".join(pieces)
    residual = "\n".join(l.rstrip() for l in residual.splitlines() if l.strip())
    # fail closed: nothing that looks like an encoder/decoder may be left in the residual
    if re.search(r"\b(Encode|Decode)\w*\(", residual) and kind != "go":
        raise Broken("emitted-code splitter: an encoder/decoder survives in the residual text", residual[-400:])
    if kind == "go" and re.search(r"\) (Encode|Decode)\(", residual):
        raise Broken("emitted-code splitter: a Go method survives in the residual text", residual[-400:])
    return chunks, residual


def file_kind(fn: str) -> Optional[str]:
    if fn.endswith(".c"):
        return "c_src"
    if fn.endswith(".h"):
        return "c_hdr"
    if fn.endswith(".go"):
        return "go"
    if fn.endswith(".py"):
        return "py"
    return None


def c_endian_shape(chunk: str) -> str:
    """which --endian variant a generated optimization-mode C function is"""
    if "#ifndef BP_BIG_ENDIAN" in chunk and "#else" in chunk and "#endif" in chunk:
        return "both"
    if "#if" in chunk or "#else" in chunk:
        return "?"
    return "little" if "(unsigned char *)&" in chunk else "big"
