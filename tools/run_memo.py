"""run_memo — worker for C18: drive the REAL memoisation machinery of the compiler
(bitproto.utils.frozen / cache / conditional_cache, bitproto._ast.cache_if_frozen,
Scope.push_member) with operation histories and report what happened.

stdin : JSON list of jobs
          {"kind": "history", "id": .., "ops": [[op, ...], ...]}
          {"kind": "tables"}
stdout: JSON list of results (same length).

A history job is a list of abstract operations over driver NAMES:
    ["alloc", n, tag, val, [dep names]]   n = TNode(tag, val, kids=deps)
    ["setval", n, v]                      n.val = v            (frozen.__setattr__)
    ["push", n, d]                        n.push_member(d)     (Scope.push_member)
    ["freeze", n]                         n.freeze()           (frozen.freeze)
    ["call", f, n, x]                     n.f<f>(x)            (through the real decorators)
    ["drop", n]                           the driver forgets n
The result is the LOG of what really happened, in completion order: every operation with the
real id() of allocated objects, nested calls made by a method on its children, and a
["reclaim", addr] entry whenever an object actually died (weakref callback), each with the
observed outcome ("ok" | "err" | "bad" | ["res", v] | ["res", null]) and, for calls, whether the
underlying function was served from the memo table ("hit"), computed and stored ("miss") or
computed without the table ("direct") — read from functools' own cache_info().
Nothing here is trusted: the log is re-evaluated in Coq against the model (theories/Memo.v).
"""
import gc
import json
import signal
import sys
import weakref
from dataclasses import dataclass


def _alarm(_s, _f):
    raise TimeoutError("implementation did not return within the time limit")


signal.signal(signal.SIGALRM, _alarm)

import bitproto  # noqa: E402
import bitproto._ast as A  # noqa: E402
import bitproto.utils as U  # noqa: E402
from bitproto._ast import Node, Scope, cache_if_frozen  # noqa: E402
from bitproto.errors import InternalError  # noqa: E402
from bitproto.utils import cache, frozen  # noqa: E402

P = 2147483647
PENDING = []          # frames of calls in progress (innermost last)
LOG = []
NAME_OF = {}          # id(obj) -> driver name (live objects)


def _mark():
    """called first thing by every method body: the innermost call in progress really executed"""
    if PENDING:
        PENDING[-1]["executed"] = True


def _kids(n):
    return list(n.kids) + list(n.members.values())


def digest(n):
    def go(ks):
        acc = 17
        for k in reversed(ks):
            acc = (digest(k) + 131 * acc) % P
        return acc
    return (n.tag * 3 + n.val * 5 + (1 if n.is_frozen() else 0) + 11 * go(_kids(n))) % P


@frozen(post_init=False)
@dataclass
class TNode(Scope):
    """A freezable AST node like Message/Enum/Proto: Scope gives the real push_member guard,
    @frozen the real freeze/__setattr__/__delattr__ and the identity hash."""
    tag: int = 0
    val: int = 0
    kids: tuple = ()

    @cache_if_frozen
    def f0(self, x):                      # reads everything below the node
        _mark()
        return (digest(self) + x) % P

    @cache_if_frozen
    def f1(self, x):                      # may raise
        _mark()
        if (self.val + x) % 3 == 0:
            raise ValueError("f1")
        return self.val * x + len(_kids(self))

    @cache
    def f2(self, x):                      # unconditional cache: class-level style data only
        _mark()
        return self.tag * 7 + x

    @cache_if_frozen
    def f3(self, x):                      # calls itself on the children (like Message.nbits)
        _mark()
        return self.val * x + sum(k.f3(x) for k in _kids(self))


def _lru_of(fn):
    """the functools cache object behind a decorated method"""
    if hasattr(fn, "cache_info"):
        return fn
    for cell in (fn.__closure__ or ()):
        try:
            v = cell.cell_contents
        except ValueError:
            continue
        if hasattr(v, "cache_info") and hasattr(v, "__wrapped__"):
            return v
    return None      # not functools any more: only "served from a table" vs "body executed" is observable


ORIG = {}
LRU = {}
for _i, _nm in enumerate(("f0", "f1", "f2", "f3")):
    ORIG[_i] = TNode.__dict__[_nm]
    LRU[_i] = _lru_of(ORIG[_i])


def _shim(fid):
    orig = ORIG[fid]
    lru = LRU[fid]

    def shim(self, x):
        frame = {"h": 0, "m": 0, "fid": fid, "executed": False}   # h/m: calls nested in this one (same table)
        PENDING.append(frame)
        before = lru.cache_info() if lru is not None else None
        out = None
        try:
            r = orig(self, x)
            out = ["res", r]
            return r
        except ValueError:
            out = ["res", None]
            raise
        finally:
            PENDING.pop()
            if lru is None:
                aux = "exec" if frame["executed"] else "hit"
            else:
                after = lru.cache_info()
                th, tm = after.hits - before.hits, after.misses - before.misses
                dh, dm = th - frame["h"], tm - frame["m"]
                for fr in PENDING:
                    if fr["fid"] == fid:
                        fr["h"] += dh
                        fr["m"] += dm
                aux = {(1, 0): "hit", (0, 1): "miss", (0, 0): "direct"}.get((dh, dm), "?%d,%d" % (dh, dm))
                if (aux == "hit") == frame["executed"]:
                    aux = "?inconsistent"          # functools says hit but the body ran, or the reverse
            LOG.append({"op": ["call", fid, NAME_OF.get(id(self), -1), x], "out": out, "aux": aux})
    return shim


for _i, _nm in enumerate(("f0", "f1", "f2", "f3")):
    setattr(TNode, _nm, _shim(_i))


def run_history(job):
    global LOG
    LOG = []
    NAME_OF.clear()
    handles = {}
    used = set()
    refs = []
    seq = [0]

    def log(op, out, **kw):
        seq[0] += 1
        LOG.append(dict(op=op, out=out, seq=seq[0], **kw))

    def on_death(addr):
        def cb(_r):
            NAME_OF.pop(addr, None)
            seq[0] += 1
            LOG.append({"op": ["reclaim", addr], "out": "ok", "seq": seq[0]})
        return cb

    def subtree_has_handles(o, seen):
        if id(o) in seen:
            return True
        seen.add(id(o))
        nm = NAME_OF.get(id(o))
        if nm is None or nm not in handles:
            return False
        return all(subtree_has_handles(k, seen) for k in _kids(o))

    signal.alarm(60)
    try:
        for op in job["ops"]:
            k = op[0]
            if k == "alloc":
                _, n, tag, val, deps = op
                if n in used or any(d not in handles for d in deps):
                    log(["alloc", n, 0, tag, val, deps], "bad")
                    continue
                o = TNode(tag=tag, val=val, kids=tuple(handles[d] for d in deps))
                used.add(n)
                handles[n] = o
                NAME_OF[id(o)] = n
                refs.append(weakref.ref(o, on_death(id(o))))
                log(["alloc", n, id(o), tag, val, deps], "ok")
                del o
            elif k == "setval":
                _, n, v = op
                if n not in handles:
                    log(op, "bad")
                    continue
                try:
                    handles[n].val = v
                    log(op, "ok")
                except AttributeError:
                    log(op, "err")
            elif k == "push":
                _, n, d = op
                if n not in handles or d not in handles:
                    log(op, "bad")
                    continue
                try:
                    handles[n].push_member(handles[d], name="m%d" % len(handles[n].members))
                    log(op, "ok")
                except InternalError:
                    log(op, "err")
            elif k == "freeze":
                _, n = op
                if n not in handles:
                    log(op, "bad")
                    continue
                try:
                    handles[n].freeze()
                    log(op, "ok")
                except AttributeError:
                    log(op, "err")
            elif k == "call":
                _, f, n, x = op
                if n not in handles:
                    log(op, "bad")
                    continue
                if f == 3 and not subtree_has_handles(handles[n], set()):
                    continue      # the model only knows calls through driver names: skipped, not logged
                try:
                    getattr(handles[n], "f%d" % f)(x)      # the shim logs this call and the nested ones
                except ValueError:
                    pass
            elif k == "drop":
                _, n = op
                if n not in handles:
                    log(op, "bad")
                    continue
                log(op, "ok")
                del handles[n]
            else:
                raise ValueError("unknown op " + str(k))
        # end of history: the driver forgets everything, full collection
        for n in sorted(handles):
            log(["drop", n], "ok")
            del handles[n]
        gc.collect()
    finally:
        signal.alarm(0)
    alive = sorted(a for a in [id(r()) for r in refs if r() is not None])
    out = [{"op": e["op"], "out": e["out"], "aux": e.get("aux")} for e in LOG]
    return {"id": job.get("id"), "log": out, "alive": alive}


def run_tables(_job):
    """Truth tables of the real decision functions."""
    rows = []

    @dataclass
    class Falsy(Node):
        def __bool__(self):
            return False

    @frozen(post_init=False)
    @dataclass
    class FalsyF(Node):
        def __bool__(self):
            return False

    saved = A._ENABLE_CACHE_ON_AST_FROZEN
    try:
        for enable in (True, False):
            A._ENABLE_CACHE_ON_AST_FROZEN = enable
            # args empty
            rows.append([enable, False, False, False, False, bool(A.cache_if_frozen_condition(None, [], {}))])
            cases = []
            fz = TNode(); fz.freeze()
            cases.append((True, True, True, fz))
            cases.append((True, True, False, TNode()))
            ff = FalsyF(); ff.freeze()
            cases.append((False, True, True, ff))
            cases.append((False, True, False, Falsy()))

            class Plain:
                __frozen__ = True

            class PlainU:
                __frozen__ = False
            cases.append((True, False, True, Plain()))
            cases.append((True, False, False, PlainU()))
            cases.append((False, False, False, None))
            for truthy, isnode, fr, obj in cases:
                rows.append([enable, True, truthy, isnode, fr,
                             bool(A.cache_if_frozen_condition(None, [obj], {}))])
    finally:
        A._ENABLE_CACHE_ON_AST_FROZEN = saved
    # frozen: setattr / delattr / freeze / push_member on frozen and unfrozen nodes
    dec = []
    for fr in (False, True):
        def mk():
            o = TNode(tag=1, val=2)
            if fr:
                o.freeze()
            return o
        o = mk()
        try:
            o.val = 3
            dec.append(["setattr", fr, False])
        except AttributeError:
            dec.append(["setattr", fr, True])
        o = mk()
        try:
            del o.val
            dec.append(["delattr", fr, False])
        except AttributeError:
            dec.append(["delattr", fr, True])
        o = mk()
        try:
            o.freeze()
            dec.append(["freeze", fr, False])
        except AttributeError:
            dec.append(["freeze", fr, True])
        o = mk()
        try:
            o.push_member(TNode(), name="x")
            dec.append(["push", fr, False])
        except InternalError:
            dec.append(["push", fr, True])
    # identity hashing of every concrete AST class, and equal-valued distinct nodes are distinct keys
    hashes = []
    for cname in sorted(dir(A)):
        c = getattr(A, cname)
        if isinstance(c, type) and issubclass(c, Node) and "__setattr__" in c.__dict__:
            kw = {"Array": dict(element_type=A.Uint(cap=1), cap=1), "Int": dict(cap=1), "Uint": dict(cap=1),
                  "MessageField": dict(number=1)}.get(cname, {})
            try:
                a, b = c(**kw), c(**kw)
                same_val = bool(a == b)
                hashes.append([cname, hash(a) == hash("__safe_hash__id__{0}".format(id(a))), hash(a) != hash(b),
                               same_val])
            except Exception as e:   # noqa
                hashes.append([cname, False, False, "ERR " + type(e).__name__])
    # equal-valued distinct frozen nodes do not share a memo entry
    u1, u2 = A.Array(element_type=A.Uint(cap=3), cap=2), A.Array(element_type=A.Uint(cap=3), cap=2)
    lru = _lru_of(A.Array.__dict__["nbits"])
    if lru is None:
        share = [bool(u1 == u2), u1 is u2, u1.nbits(), u2.nbits(), 0, 2]
    else:
        i0 = lru.cache_info()
        share = [bool(u1 == u2), u1 is u2, u1.nbits(), u2.nbits()]
        i1 = lru.cache_info()
        share += [i1.hits - i0.hits, i1.misses - i0.misses]
    # a memo key keeps its node alive
    t = TNode(tag=1, val=1); t.freeze(); ORIG[0](t, 0)
    w = weakref.ref(t)
    del t
    gc.collect()
    pinned = w() is not None
    return {"cond_rows": rows, "decisions": dec, "hashes": hashes, "share": share, "pinned": pinned,
            "file": bitproto.__file__}


def main():
    jobs = json.load(sys.stdin)
    out = []
    for j in jobs:
        try:
            if j.get("kind") == "tables":
                out.append(run_tables(j))
            else:
                out.append(run_history(j))
        except BaseException as e:   # noqa
            import traceback
            out.append({"id": j.get("id"), "error": type(e).__name__ + ": " + str(e),
                        "trace": traceback.format_exc()[-1500:]})
    json.dump(out, sys.stdout)


if __name__ == "__main__":
    main()
