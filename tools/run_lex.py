"""run_lex — worker: the REAL tokenizer (bitproto.lexer.Lexer of the tree under test, through
vlib.IMPL_ENV) on input texts.

stdin : JSON list of jobs {"cps": [code points]}    (or {"probe": true})
stdout: JSON list of {"toks": [[type, value, lineno, lexpos, endpos], ...], "end": {...}, "epos": int}
  type  : the token type as a string
  value : ["T", [cps]] | ["I", "<hex>"] | ["B", 0/1] | ["N", class, cap|null, [cps], lineno] | ["?", repr]
  end   : {"k":"done"} | {"k":"err","cls":..,"parser_error":bool,"token":[cps],"line":n} | {"k":"crash","exn":..}
  epos  : lexer.lexpos when the loop stopped
Never trusted: compared in Coq with Lex.lex (model) and LexSpec.spec_lex (statement)."""
import json
import signal
import sys


def _alarm(_s, _f):
    raise TimeoutError("the tokenizer did not return within the time limit")


signal.signal(signal.SIGALRM, _alarm)


def enc_value(v, A):
    if isinstance(v, bool):
        return ["B", int(v)]
    if isinstance(v, int):
        return ["I", hex(v)]
    if isinstance(v, str):
        return ["T", [ord(c) for c in v]]
    if isinstance(v, A.Node):
        cap = getattr(v, "cap", None)
        return ["N", type(v).__name__, cap if isinstance(cap, int) else None, [ord(c) for c in v.token], v.lineno]
    return ["?", repr(v)[:80]]


def one(job, Lexer, A, E):
    if job.get("probe"):
        return {"keywords": list(Lexer.keywords), "literals": Lexer.literals, "ignore": Lexer.t_ignore}
    text = "".join(chr(c) for c in job["cps"])
    toks = []
    lx = Lexer()
    signal.alarm(20)
    try:
        lx.input(text)
        while True:
            t = lx.token()
            if t is None:
                end = {"k": "done"}
                break
            toks.append([t.type, enc_value(t.value, A), t.lineno, t.lexpos, lx.lexer.lexpos])
            if len(toks) > 4 * len(text) + 8:
                end = {"k": "crash", "exn": "NoProgress"}
                break
    except E.ParserError as e:
        tok = e.token if isinstance(e.token, str) else ""
        end = {"k": "err", "cls": type(e).__name__, "token": [ord(c) for c in tok], "line": e.lineno}
    except TimeoutError:
        end = {"k": "crash", "exn": "Timeout"}
    except BaseException as e:  # noqa
        end = {"k": "crash", "exn": type(e).__name__}
    finally:
        signal.alarm(0)
    return {"toks": toks, "end": end, "epos": lx.lexer.lexpos}


def main():
    jobs = json.load(sys.stdin)
    import bitproto
    import bitproto._ast as A
    import bitproto.errors as E
    from bitproto.lexer import Lexer
    import os
    repo = os.environ.get("VERIF_REPO", "/repo")
    assert bitproto.__file__.startswith(repo + "/"), bitproto.__file__
    json.dump([one(j, Lexer, A, E) for j in jobs], sys.stdout)


if __name__ == "__main__":
    main()
