"""lexstage — the TEXT-LEVEL stage shared by C08, C09 and C20: the tokenizer
(bitproto.lexer.Lexer + ply.lex.Lexer.token) inside the model.

    lex_stage(ck, prop_file, sizes_quick, sizes_thorough, label)

(i)   ck.try_prove(prop_file): T0 (tools/translate_lexer.py -> coq/gen/GenLexer.v), the Coq closure
      of coq/props/<prop_file>, grep gate, Print Assumptions;
(ii)  T2: the real Lexer (tools/run_lex.py through vlib.run_workers) on generated texts; Coq case
      files (theories/LexCase.v) compare, per input, implementation vs MODEL (Lex.lex: tie) and
      implementation vs STATEMENTS (line numbers, tiling, the direct scanner LexSpec.spec_lex);
(iii) coverage / assumptions.

Input streams: (a) texts of generated valid schemas (front_gen with trivia, schema_gen) and the
.bitproto files of the repository; (b) token-level and character-level mutations of them;
(c) random strings over an alphabet biased to the interesting characters; (d) a boundary
catalogue, partly derived from the implementation's CURRENT keyword / literal / ignore tables.
Failing inputs are shrunk (batch delta debugging against the same failing bit).
"""
from __future__ import annotations

import glob
import json
import os
import random
import re
import time
from collections import Counter
from concurrent.futures import ThreadPoolExecutor
from typing import Any, Dict, List, Optional, Sequence, Tuple

import vlib
from vlib import Broken, Check, coq_build, coq_eval_file, parse_zlist, run_workers

MODEL_VO = ("theories/LexCase.vo",)
HEADER = """From Coq Require Import String NArith ZArith List Bool.
From BP Require Import TotalBase LexBase Lex LexSpec LexCase.
From BPGen Require Import GenLexer.
Import ListNotations.
Open Scope Z_scope.
"""
PYEXN = {"IndexError", "KeyError", "ValueError", "ZeroDivisionError", "AttributeError", "TypeError",
         "UnicodeDecodeError"}
BITS = {1: "model Lex.lex <> implementation (tie)", 2: "line numbers (C20)", 4: "tiling (C08)",
        8: "direct scanner LexSpec.spec_lex <> implementation (C08/C09/C20 statement)"}
MAX_COQC = 6

ALPHA = ['"', '"', "\\", "\\", "\n", "\n", "/", "/", "0", "1", "9", "x", "x", "_", "'", "\t", "\r", " ", " ",
         "a", "b", "f", "F", "g", "u", "i", "n", "t", "e", "l", "o", "s", "y", "r", "X", "A", "Z", "z",
         ":", ";", "{", "}", "[", "]", "(", ")", "=", ".", "+", "-", "*", ",", "#", "@", "\x00", "\x0b", "\x0c",
         "\x1c", "\x1d", "\x1e", "\x1f", "\u3000", "\u2003", "\x7f", "\x85", "\u00e9", "\u00b2", "\u0663", "\u4e2d", "\u2028", "\u00a0", "\u00d7", "\U0001d7d8", "\ud800"]
WORDS = ["bool", "byte", "uint", "int", "uint8", "int16", "uint64", "uint65", "uint0", "int0", "uint08", "true",
         "false", "yes", "no", "proto", "import", "option", "type", "const", "enum", "message", "typedef",
         "0x1F", "0x", "0xg", "0X1f", "007", "12", "0", "x", "_", "Aa_1", "//", "/", "\"s\"", "\"a\\\"b\"", "\"\\n\"",
         "\"\\q\"", "\"", "'", "\\", "a.b", "[3]", "{", "}", "=", ";", ":", "+", "-", "*", "\n", " ", "\t", "\r\n"]


def cps_of(s: str) -> List[int]:
    return [ord(c) for c in s]


# --------------------------------------------------------------------------------------
# inputs
# --------------------------------------------------------------------------------------

def schema_texts(rng: random.Random, n: int) -> List[Tuple[str, str]]:
    out: List[Tuple[str, str]] = []
    try:
        import front_gen as fg
        for i in range(n):
            r = random.Random(rng.getrandbits(64))
            files, _b = fg.gen_valid(r)
            texts = fg.render(files, r, fg.Trivia())
            for k, t in texts.items():
                out.append((f"front_gen#{i}:{k}", t))
    except Exception as e:  # noqa  (the generator belongs to another module)
        out.append(("front_gen:unavailable", f"// {type(e).__name__}\n"))
    try:
        import schema_gen as sg
        for i in range(max(1, n // 3)):
            r = random.Random(rng.getrandbits(64))
            s = sg.Gen(r, sg.Params(max_fields=5, max_depth=3)).schema()
            for k, t in s.texts.items():
                out.append((f"schema_gen#{i}:{k}", t))
    except Exception as e:  # noqa
        out.append(("schema_gen:unavailable", f"// {type(e).__name__}\n"))
    return out


def repo_texts() -> List[Tuple[str, str]]:
    out = []
    for p in sorted(glob.glob(os.path.join(vlib.REPO, "**", "*.bitproto"), recursive=True)):
        try:
            out.append(("repo:" + os.path.relpath(p, vlib.REPO), open(p, encoding="utf-8").read()))
        except Exception:  # noqa
            pass
    return out


TOK_RE = re.compile(r'"(?:[^"\\\n]|\\.)*"|//[^\n]*|[A-Za-z_][A-Za-z0-9_]*|0x[0-9a-fA-F]+|[0-9]+|\s+|.', re.S)


def window(text: str, rng: random.Random, width: int) -> str:
    if len(text) <= width:
        return text
    a = rng.randrange(len(text) - width + 1)
    return text[a:a + width]


def mutate_tokens(rng: random.Random, text: str, vocab: List[str]) -> str:
    ts = TOK_RE.findall(text)
    for _ in range(rng.choice([1, 1, 2, 3])):
        if not ts:
            ts = [rng.choice(vocab)]
            continue
        op = rng.randrange(7)
        i = rng.randrange(len(ts))
        if op == 0:
            del ts[i]
        elif op == 1:
            ts.insert(i, rng.choice(vocab))
        elif op == 2:
            ts[i] = rng.choice(vocab)
        elif op == 3:
            j = rng.randrange(len(ts))
            ts[i], ts[j] = ts[j], ts[i]
        elif op == 4:
            ts.insert(i, ts[rng.randrange(len(ts))])
        elif op == 5:                                   # glue two tokens: drop the separator
            if ts[i].isspace():
                del ts[i]
        else:
            ts[i] = ts[i] + rng.choice(vocab)           # glue a word onto a token
    return "".join(ts)


def mutate_chars(rng: random.Random, text: str) -> str:
    cs = list(text)
    for _ in range(rng.choice([1, 1, 1, 2, 3, 5])):
        op = rng.randrange(5)
        pos = rng.randrange(len(cs) + 1) if cs else 0
        if op == 0 and cs:
            del cs[min(pos, len(cs) - 1)]
        elif op == 1:
            cs.insert(pos, rng.choice(ALPHA))
        elif op == 2 and cs:
            cs[min(pos, len(cs) - 1)] = rng.choice(ALPHA)
        elif op == 3 and cs:
            a = rng.randrange(len(cs))
            cs[pos:pos] = cs[a:a + rng.randrange(1, 12)]
        elif op == 4 and len(cs) > 2:
            a = rng.randrange(len(cs))
            del cs[a:a + rng.randrange(1, 20)]
    return "".join(cs)


def random_string(rng: random.Random) -> str:
    n = rng.choice([0, 1, 2, 3, 4, 5, 6, 8, 10, 14, 20, 30, 45])
    if rng.random() < 0.35:
        return "".join(rng.choice(WORDS) + rng.choice(["", "", " ", "\n"]) for _ in range(max(1, n // 3)))
    return "".join(rng.choice(ALPHA) if rng.random() < 0.85 else rng.choice(WORDS) for _ in range(n))


def catalogue(vocab: Dict[str, Any], rng: random.Random) -> List[Tuple[str, str]]:
    """Boundary catalogue; `vocab` = keyword / literal / ignore tables of the implementation under test."""
    out: List[Tuple[str, str]] = []

    def add(tag: str, s: str) -> None:
        out.append((f"catalogue:{tag}", s))

    add("empty", "")
    for s in (" ", "\t", "\r", " \t\r \t", "\n", "\n\n\n", " \n \n", "\r\n", "\r\n\r\n", "a\r\nb\r\nc", "\r", "\x0b", "\x0c"):
        add("ignored-and-newlines", s)
    for s in ('"', '"abc', '"abc\n"', '"\\', '"a\\', '"a\\\n"', '"\\"', '"\\\\"', '"\\\\\\"', '""', '"" ""', '"a"b"',
              '"a\\"b"', '"\\n\\t\\r\\\\\\\'\\""', '"\\q"', '"\\x"', '"a\\', '"\u00e9\u4e2d"', '"\\\u00e9"', '"//"',
              '"a" // "b"', '"\t"', '"\r"', '"a\rb"', "'a'", '"a\\\r\n"', '"""', '" "" "', '"a\\"', '"\\""'):
        add("string", s)
    for s in ("0x", "0xg", "0x1F", "0x1f", "0X1F", "0x1Fg", "0x1F_", "00x1", "0x0x0", "0", "00", "007", "1_000", "12ab",
              "1e5", "9" * 50, "1.5", "1 .5", "-1", "0xDEADBEEFdeadbeef0123456789", "0x" + "f" * 300, "1x", "0b1", "0o7",
              "\u0663", "1\u0663", "\u00b2", "1\u00b2", "0x1\u00e9"):
        add("number", s)
    for w in ("bool", "byte", "uint", "int", "uint8", "uint08", "uint0", "int0", "uint64", "uint65", "int64", "int65",
              "uint1", "int16", "int1", "uint99999999999999999999", "true", "false", "yes", "no", "True", "YES", "Bool", "BYTE",
              "uint8x", "uintx8", "uint_8", "int8_t", "uint8_t", "boolean", "bytes", "yesno", "notrue", "truefalse"):
        add("typeword", w)
        pres = ("1", "0x1", "_", "x", ".", "\u00e9", "\u0663", "\n", "-", '"a"')
        sufs = ("1", "_", "x", ".", "\u00e9", "\u00b2", "[", " x", "\n", "//", "-", '"a"', "\u4e2d")
        if w not in ("bool", "byte", "uint8", "int16", "true", "no"):     # full product for these, a sample for the rest
            pres = rng.sample(pres, 3)
            sufs = rng.sample(sufs, 4)
        for pre in pres:
            add("typeword-prefixed", pre + w)
        for suf in sufs:
            add("typeword-suffixed", w + suf)
    for kw in vocab.get("keywords", []):
        for s in (kw, kw + "1", "1" + kw, " " + kw + " ", kw + "x", "_" + kw, kw.upper(), kw.capitalize(), kw + "." + kw,
                  kw + "\u00e9", kw + "\n" + kw):
            add("keyword", s)
    for s in ("protocol", "important", "options", "types", "constant", "enums", "messages", "typedefs", "struct", "union",
              "package", "syntax", "service", "required", "repeated", "map", "extend", "oneof"):
        add("identifier-near-keyword", s)
    for c in vocab.get("literals", ""):
        add("literal", c)
        add("literal", "a" + c + "b")
        add("literal", c + c)
    for c in vocab.get("ignore", ""):
        add("ignore", "a" + c + "b")
        add("ignore", c + "a" + c)
        add("ignore", "a\n" + c + "b" + c + "\n" + "c")
    for s in ("//", "// x", "//x\n", "//\n//\n", "/", "/ /", "/x/", "///", "a//b\nc", "a/b", "a / b // c", "/*x*/", "//\r\n",
              "// \u00e9\u4e2d\n", "x // y // z", "//" + "y" * 200, "/\n/", "a//"):
        add("comment-or-divide", s)
    for s in ("+", "-", "*", "+-*/", "a+b*c-d/e", "++", "--", "**", "(1+2)*3", "<", ">", "<=", "%", "&", "|", "^", "~", "!",
              "?", ",", "#", "@", "$", "`", "\x00", "\x7f", "\x85", "\u2028", "\u00a0", "\ufeffproto a", "\ud800"):
        add("operator-or-invalid", s)
    # characters str.split() / str.isspace() treat as blanks but the lexer does not ignore: alone, before blanks, at the end
    for c in ("\x0b", "\x0c", "\x1c", "\x1d", "\x1e", "\x1f", "\x85", "\u00a0", "\u1680", "\u2000", "\u2028", "\u2029",
              "\u202f", "\u205f", "\u3000", "\ufeff", "\u200b"):
        for s in (c, c + " ", c + " \n\t ", "a " + c, "a\n" + c + "\n", c + "a", " " + c + c):
            add("unicode-blank", s)
    # escapes inside strings followed by more tokens (line numbers after a string)
    for s in ('"\\n" x', '"a\\nb\\n" x\ny', 'x = "\\n\\n"\ny @', '"\\n"\n"\\n"\n@', '"\\t\\r\\n" uint99', '"\\n" "\\q"',
              '// "\\n"\nx', '"\\\\n" x @'):
        add("string-then-token", s)
    for w in ("uint8_value", "int32_count", "uint3x", "uint8x = 1", "int8 x", "int8x", "uint16_t a", "boolx", "byte_", "bytes8",
              "truex", "nox", "yes1", "false_"):
        add("typeword-suffixed", w)
    add("long-identifier", "a" * 3000)
    add("long-identifier", "_" + "aB3_" * 600 + " x")
    add("long-digits-4300", "1" * 4300)
    add("long-digits-4301", "1" * 4301)
    add("long-zeros-4301", "0" * 4301)
    add("long-width-4300", "uint" + "0" * 4298 + "64")
    add("long-width-4301", "uint" + "0" * 4299 + "64")
    add("long-width-4301", "int" + "1" * 4301)
    add("long-hex", "0x" + "a" * 4400)
    add("long-comment", "//" + " x" * 1500 + "\nA")
    add("long-string", '"' + "ab\\\"" * 500 + '"')
    add("many-lines", "a\n" * 400 + "@")
    add("lines-error", "\n\n\n  @")
    add("lines-error", "x\n\"abc\ny")
    add("lines-error", "x\n\n\"\\q\"")
    add("lines-error", "a\n//c\n  uint99 b")
    add("schema-line", 'message M { uint3 a = 1; bool[4] b = 2 } // end\n')
    add("schema-line", 'option c.name_prefix = "x_"\nconst A = 0x1F + 2 * (3 - 1) / 1\n')
    add("schema-line", "enum E : uint8 { A = 1B = 2 }")
    add("schema-line", "type T = uint8[3']\nimport lib \"./a.bitproto\"\n")
    return out


def gen_inputs(ck: Check, sizes: Dict[str, int]) -> List[Tuple[str, List[int]]]:
    rng = random.Random(f"lex:{ck.prop}:{ck.seed}")
    res = run_workers("run_lex.py", [{"probe": True}], chunk=1, timeout=120)
    vocab = res[0] if res and "keywords" in res[0] else {}
    if not vocab:
        ck.broken(Broken("lexer stage: cannot read the implementation's keyword/literal tables", str(res)[:500]))
    words = WORDS + list(vocab.get("keywords", []))
    out: List[Tuple[str, str]] = []
    base = schema_texts(rng, sizes["schemas"]) + repo_texts()
    rng.shuffle(base)
    full = base[:sizes["texts"]]
    out.extend((o, t if len(t) <= 2500 else window(t, rng, 2500)) for o, t in full)
    for i in range(sizes["mut"]):
        o, t = base[rng.randrange(len(base))]
        w = window(t, rng, rng.choice([40, 80, 160, 240]))
        if i % 2 == 0:
            out.append(("mut-token:" + o, mutate_tokens(rng, w, words)))
        else:
            out.append(("mut-char:" + o, mutate_chars(rng, w)))
    for i in range(sizes["random"]):
        out.append(("random", random_string(rng)))
    out.extend(catalogue(vocab, rng))
    for j in corpus():
        out.append(("corpus:" + os.path.basename(j["_path"]), "".join(chr(c) for c in j["cps"])))
    rp = getattr(ck, "replay_file", None)
    if rp and os.path.exists(rp):          # ./check C0x --replay <file>: a replay written by this stage is run first
        try:
            j = json.load(open(rp))
            if j.get("stage") == "lexer" and isinstance(j.get("cps"), list):
                out.insert(0, ("replay:" + os.path.basename(rp), "".join(chr(int(c)) for c in j["cps"])))
        except Exception:  # noqa
            pass
    seen = set()
    uniq: List[Tuple[str, List[int]]] = []
    for o, t in out:
        if t not in seen:
            seen.add(t)
            uniq.append((o, cps_of(t)))
    return uniq


def corpus() -> List[Dict[str, Any]]:
    out = []
    for p in sorted(glob.glob(os.path.join(vlib.VERIF, "corpus", "lexer", "*.json"))):
        try:
            j = json.load(open(p))
            j["_path"] = p
            if isinstance(j.get("cps"), list):
                out.append(j)
        except Exception as e:  # noqa
            raise Broken(f"corpus file {p} unreadable", str(e))
    return out


# --------------------------------------------------------------------------------------
# Coq terms
# --------------------------------------------------------------------------------------

def c_cps(l: Sequence[int]) -> str:
    # Coq's list notation is quadratic in the length of a literal: long lists are written in chunks
    l = [int(c) for c in l]
    if len(l) <= 48:
        return "[" + ";".join(str(c) for c in l) + "]%N"
    return "(concat [" + ";".join("[" + ";".join(str(c) for c in l[i:i + 48]) + "]" for i in range(0, len(l), 48)) + "])%N"


def c_type(t: Any) -> str:
    if isinstance(t, str) and re.match(r"^[A-Za-z_]{1,40}$", t):
        return f'(tn "{t}")'
    if isinstance(t, str):
        return c_cps(cps_of(t))
    return "[1114112]%N"


def c_z(v: Any) -> str:
    try:
        z = int(v)
    except Exception:  # noqa
        return "(-7)"
    return f"({z})" if z < 0 else str(z)


def c_value(v: Any) -> str:
    k = v[0] if isinstance(v, list) and v else "?"
    if k == "T":
        return f"(VText {c_cps(v[1])})"
    if k == "I":
        h = v[1]
        return f"(VInt (-{h[1:]}))" if h.startswith("-") else f"(VInt {h})"
    if k == "B":
        return f"(VBool {'true' if v[1] else 'false'})"
    if k == "N" and re.match(r"^[A-Za-z]+$", str(v[1])):
        cap = f"(Some {c_z(v[2])})" if v[2] is not None else "None"
        return f'(VNode "{v[1]}" {cap} {c_cps(v[3])} {c_z(v[4])})'
    return '(VNode "?" None [] (-1))'


def c_end(e: Dict[str, Any]) -> str:
    k = e.get("k")
    if k == "done":
        return "LDone"
    if k == "err" and re.match(r"^[A-Za-z]+$", str(e.get("cls"))):
        tok = e.get("token") or []
        if e["cls"] == "LexerError":
            c = tok[0] if len(tok) == 1 else 1114112 + len(tok)
            return f'(LError "LexerError" {c}%N {c_z(e.get("line"))})'
        return f'(LActErr "{e["cls"]}" {c_z(e.get("line"))})'
    if k == "crash" and e.get("exn") in PYEXN:
        return f"(LCrash {e['exn']})"
    return "(LCrash OtherExn)"


def case_expr(cps: List[int], obs: Dict[str, Any]) -> str:
    toks = []
    for t in obs.get("toks", []):
        toks.append(f"mkTok {c_type(t[0])} {c_value(t[1])} {c_z(t[2])} {c_z(t[3])} {c_z(t[4])}")
    return (f"(case_code {c_cps(cps)} [" + ";\n  ".join(toks) + f"] {c_end(obs.get('end', {}))} "
            f"{c_z(obs.get('epos', 0))})")


def evaluate(ck: Check, tag: str, inputs: List[List[int]]) -> Tuple[List[Dict[str, Any]], List[int]]:
    """Run the implementation on the inputs, then the case files.  -> (observations, codes)"""
    obs = run_workers("run_lex.py", [{"cps": c} for c in inputs], chunk=40, timeout=240)
    for o in obs:
        if "worker_error" in o:
            o.update(toks=[], end={"k": "crash", "exn": "Worker"}, epos=0)
    exprs = [case_expr(c, o) for c, o in zip(inputs, obs)]
    # case files: <= ~250 KB each; the very long inputs (big-number arithmetic in the VM) in two files of their own
    groups: List[List[int]] = []
    small = [i for i, e in enumerate(exprs) if len(e) <= 12_000]
    bigs = [i for i, e in enumerate(exprs) if len(e) > 12_000]
    cur: List[int] = []
    size = 0
    for i in small:
        if cur and (size + len(exprs[i]) > 250_000 or len(cur) >= 450):
            groups.append(cur)
            cur, size = [], 0
        cur.append(i)
        size += len(exprs[i])
    if cur:
        groups.append(cur)
    if bigs:
        groups.append(bigs[0::2])
        if len(bigs) > 1:
            groups.append(bigs[1::2])
    files = [(write_cases(ck, tag, k, [exprs[i] for i in g]), g) for k, g in enumerate(groups)]
    codes: List[int] = [0] * len(exprs)
    with ThreadPoolExecutor(max_workers=MAX_COQC) as ex:
        outs = list(ex.map(lambda f: _eval(f[0]), files))
    for (path, g), out in zip(files, outs):
        if isinstance(out, Broken):
            raise out
        got = parse_zlist(out, path)
        if len(got) != len(g):
            raise Broken(f"case file {os.path.basename(path)}: {len(g)} cases but {len(got)} results", out[-1000:])
        for i, c in zip(g, got):
            codes[i] = c
    return obs, codes


def _eval(path: str):
    try:
        return coq_eval_file(path, 600)
    except Broken as b:
        return b


def write_cases(ck: Check, tag: str, k: int, exprs: List[str]) -> str:
    path = os.path.join(ck.dir, f"lex_{tag}_{k}.v")
    with open(path, "w") as f:
        # one definition per case: elaborating all cases inside one list literal is superlinear
        f.write(HEADER + "".join(f"Definition k{i} : Z := {e}.\n" for i, e in enumerate(exprs))
                + "Definition results : list Z :=\n [" + "; ".join(f"k{i}" for i in range(len(exprs)))
                + "].\nEval vm_compute in results.\n")
    return path


# --------------------------------------------------------------------------------------
# shrinking
# --------------------------------------------------------------------------------------

def shrink(ck: Check, cps: List[int], mask: int, rounds: int = 10) -> Tuple[List[int], Dict[str, Any], int]:
    best = list(cps)
    bobs: Dict[str, Any] = {}
    bcode = 0
    chunk = max(1, len(best) // 2)
    for r in range(rounds):
        cands: List[List[int]] = []
        n = len(best)
        if n <= 1:
            break
        step = max(1, chunk)
        for a in range(0, n, step):
            c = best[:a] + best[a + step:]
            if c != best and len(cands) < 80:
                cands.append(c)
        if step == 1 and len(cands) < 80:
            for a in range(n):          # simplify a character
                if best[a] not in (97, 32) and len(cands) < 80:
                    cands.append(best[:a] + [97] + best[a + 1:])
        try:
            obs, codes = evaluate(ck, f"shrink{r}", cands)
        except Broken:
            break
        hit = [(len(c), i) for i, (c, k) in enumerate(zip(cands, codes)) if k & mask and len(c) < len(best) or
               (k & mask and len(c) == len(best) and c != best and sum(c) < sum(best))]
        if hit:
            _, i = min(hit)
            best, bobs, bcode = cands[i], obs[i], codes[i]
            chunk = max(1, min(chunk, len(best) // 2))
        elif chunk > 1:
            chunk = chunk // 2
        else:
            break
    return best, bobs, bcode


# --------------------------------------------------------------------------------------
# the stage
# --------------------------------------------------------------------------------------

def _sizes(x: Any) -> Dict[str, int]:
    d = dict(schemas=10, texts=20, mut=400, random=400)
    if isinstance(x, dict):
        d.update(x)
    elif isinstance(x, (int, float)):
        f = float(x)
        d = {k: max(1, int(v * f)) for k, v in d.items()}
    return d


def show(cps: List[int]) -> str:
    return "".join(chr(c) for c in cps).encode("unicode_escape").decode()[:300]


def lex_stage(ck: Check, prop_file: str, sizes_quick: Any = 1, sizes_thorough: Any = 8, label: str = "") -> None:
    t0 = time.time()
    label = label or ck.prop
    prev_tr = list(ck.coverage.get("translated") or [])
    prev_gen = ck.coverage["tie"].get("gen_files")
    prev_ok = ck.model_ok
    ck.try_prove(prop_file, model_vo=MODEL_VO)
    lex_model_ok = ck.model_ok
    ck.model_ok = prev_ok and ck.model_ok
    ck.coverage["translated"] = prev_tr + [t for t in (ck.coverage.get("translated") or []) if t not in prev_tr]
    if prev_gen is not None:
        cur = ck.coverage["tie"].get("gen_files")
        ck.coverage["tie"]["gen_files"] = sorted(set(prev_gen) | set(cur or [])) if isinstance(prev_gen, list) and isinstance(cur, list) else "all"
    t_proof = time.time() - t0
    # when the CURRENT lexer.py cannot be translated, the model must be the last ACCEPTED translation (coq/ref),
    # not whatever an earlier run left in coq/gen
    try:
        import translate_lexer
        translate_lexer.gen_lexer()
    except Broken:
        import shutil
        ref = os.path.join(vlib.COQ, "ref", "GenLexer.v")
        if os.path.exists(ref):
            shutil.copy(ref, os.path.join(vlib.COQ, "gen", "GenLexer.v"))
            ck.coverage["tie"]["lexer_model_from_reference_translation"] = True
            lex_model_ok = True
    if lex_model_ok:
        ok, log = coq_build(list(MODEL_VO))
        if not ok:
            ck.broken(Broken("the executable tokenizer model (theories/LexCase.vo) does not build against the current "
                             "translation", log[-2500:]))
            lex_model_ok = False
    if not lex_model_ok:
        ck.broken(Broken("lexer stage: no executable model — the T2 stage cannot run", ""))
        return
    sizes = _sizes(sizes_quick if ck.quick else sizes_thorough)
    t1 = time.time()
    inputs = gen_inputs(ck, sizes)
    try:
        obs, codes = evaluate(ck, "t2", [c for _, c in inputs])
    except Broken as b:
        ck.broken(b)
        return
    t_t2 = time.time() - t1

    # ---- report
    origin_counts = Counter(o.split(":")[0].split("#")[0] for o, _ in inputs)
    end_counts: Counter = Counter()
    type_counts: Counter = Counter()
    sigs = set()
    nonascii = 0
    for (o, c), ob in zip(inputs, obs):
        e = ob.get("end", {})
        end_counts[e.get("k", "?") + (":" + str(e.get("cls") or e.get("exn")) if e.get("k") != "done" else "")] += 1
        for t in ob.get("toks", []):
            type_counts[t[0] if len(t[0]) > 1 else "literal"] += 1
        if ob.get("toks"):
            sigs.add((tuple(t[0] for t in ob["toks"][:40]), e.get("k"), str(e.get("cls"))))
        if any(x > 127 for x in c):
            nonascii += 1
    lens = [len(c) for _, c in inputs]
    failing = [(i, k) for i, k in enumerate(codes) if k != 0]
    reported_bits = 0
    for i, k in failing:
        if k & ~reported_bits == 0 and reported_bits:
            continue
        newbits = k & ~reported_bits
        reported_bits |= k
        origin, cps = inputs[i]
        mask = newbits
        small, sobs, scode = shrink(ck, cps, mask)
        if not scode:
            small, sobs, scode = cps, obs[i], k
        what_bits = [BITS[b] for b in (1, 2, 4, 8) if scode & b]
        replay = {"stage": "lexer", "origin": origin, "input": show(small), "cps": small, "code": scode,
                  "failing": what_bits, "implementation": {"tokens": [[t[0], t[1], t[2], t[3]] for t in sobs.get("toks", [])][:30],
                                                           "end": sobs.get("end"), "stopped_at": sobs.get("epos")},
                  "original_input": show(cps) if len(cps) < 400 else show(cps[:400]) + "...",
                  "how": "PYTHONPATH=$VERIF_REPO/compiler python -c 'from bitproto.lexer import Lexer; l=Lexer(); "
                         "l.input(<input>); print([l.token() for _ in range(n)])'"}
        if scode & ~1:
            ck.violation(f"{label} (text level): the tokenizer disagrees with the stated token language on "
                         f"{show(small)!r}: " + "; ".join(BITS[b] for b in (2, 4, 8) if scode & b), replay, found_input=True)
        if scode & 1:
            ck.broken(Broken(f"lexer stage: model Lex.lex and implementation disagree on {show(small)!r}",
                             json.dumps(replay)[:2500]))
            if not (scode & ~1):
                # the model is generated from the current source: a disagreement is a modelling gap, but the input is concrete
                ck.violation(f"{label} (text level): tie broken on {show(small)!r} (model vs implementation)", replay,
                             found_input=True)
    if label == "C09":
        for (o, c), ob, k in zip(inputs, obs, codes):
            if k == 0 and ob.get("end", {}).get("k") == "crash" and ob["end"].get("exn") == "ValueError":
                ck.violation("C09 (text level): int() of more than 4300 digits inside a token rule",
                             {"stage": "lexer", "origin": o, "input": show(c[:60]) + f"... ({len(c)} characters)"},
                             found_input=True, key="huge-literal")
                break
    cov = ck.coverage
    cov["evaluations"] = int(cov.get("evaluations") or 0) + len(inputs)
    cov["distinct_nontrivial"] = int(cov.get("distinct_nontrivial") or 0) + len(sigs)
    cov.setdefault("distribution", {})["lexer_stage"] = {
        "inputs": len(inputs), "by_stream": dict(origin_counts), "length": {"min": min(lens), "median": sorted(lens)[len(lens) // 2],
                                                                           "max": max(lens), "total_chars": sum(lens)},
        "with_non_ascii": nonascii, "end": dict(end_counts), "token_types": dict(type_counts),
        "distinct_token_sequences": len(sigs), "failing": len(failing),
        "sizes": sizes, "proof_s": round(t_proof, 1), "t2_s": round(t_t2, 1)}
    cov["tie"]["lexer_stage"] = ("T0 tools/translate_lexer.py -> coq/gen/GenLexer.v (rule order cross-checked against the master "
                                 "regex of the real ply lexer object; ply.lex token loop pinned by digest); T2 tools/run_lex.py: "
                                 f"{len(inputs)} texts, model Lex.lex = implementation on every one (tokens: type, value, lineno, "
                                 "lexpos, end; or the error)")
    samples = cov.get("samples")
    if isinstance(samples, list):
        for (o, c), ob in list(zip(inputs, obs))[:3]:
            samples.append({"lexer_input": show(c)[:120], "origin": o,
                            "tokens": [[t[0], t[2], t[3]] for t in ob.get("toks", [])][:8], "end": ob.get("end")})
    rule = cov.get("rule") or ""
    cov["rule"] = (rule + " | " if rule else "") + (
        "text level: per input, implementation tokens == Lex.lex (model) and == LexSpec.spec_lex (direct scanner); "
        "lineno = 1 + newlines before lexpos; lexemes + skipped characters tile the input")
    ck.assumptions.extend([
        "text level: CPython's re engine implements the backtracking semantics modelled by Lex.mres for the constructs used "
        "(literals, classes, ., sequence, ordered alternation, greedy */+, lazy *?, \\b); Match.lastindex is the outermost group",
        "text level: ply.lex (3.11) token() loop as modelled in Lex.lex_items (source pinned by digest in coq/ref/skeletons_lexer.json)",
        "text level: the word-character table uni_word is read from the interpreter; theorems hold for every such table",
    ])
