"""translate_go — tie T0 for the Go runtime (lib/go/bitproto.go) and for the two compiler
functions that decide Go integer types and sizes.

A mini Go tokenizer + typed expression/statement translator, fail-closed:

* pure helpers (getMask, smartShift, getNbitsToCopy, min, Bool2byte, Byte2bool) are
  symbolically executed into one Gallina term;
* encodeSingleByte / decodeSingleByte: temporaries are substituted, the two effects
  (BpGetByte + `ctx.s[..] |= d`, resp. `ctx.s[..]` load + BpSetByte) are recognised and
  their argument expressions emitted (enc_rshift/enc_index/enc_d, dec_index/dec_lshift/dec_d);
* Array.Process / MessageProcessor.Process: the `ito := ...` formula and the `if ito >= ctx.i`
  test are translated; everything else of those functions and every other top-level
  declaration of the file is pinned by a digest of its normalised token stream
  (comments and layout removed) and compared with coq/ref/skeletons_go.json.

Go's typed semantics are made explicit in the output:
  byte / uint16 arithmetic (+ - * <<) wraps mod 2^8 / 2^16, int is 64-bit two's complement
  (wrap_s 64 at + - * <<), `/` and `%` truncate toward zero (Z.quot / Z.rem), `>>` on a
  signed operand is arithmetic (Z.shiftr), conversions T(x) wrap to T.
Recorded side conditions (Go would panic, the Gallina term is total): shift counts are
non-negative; divisors are non-zero.
"""
from __future__ import annotations

import ast
import hashlib
import os
import re
from typing import Any, Dict, List, Optional, Sequence, Tuple

import vlib
from vlib import Broken

import translate

GO_SRC = "lib/go/bitproto.go"

# --------------------------------------------------------------------------------------
# tokenizer
# --------------------------------------------------------------------------------------

_OPS = ["<<=", ">>=", "&^=", "...", "&&", "||", "<-", "++", "--", "==", "!=", "<=", ">=", ":=",
        "+=", "-=", "*=", "/=", "%=", "&=", "|=", "^=", "<<", ">>", "&^",
        "+", "-", "*", "/", "%", "&", "|", "^", "<", ">", "=", "!", "(", ")", "[", "]", "{", "}",
        ",", ";", ".", ":"]
_TOK = re.compile(
    r"(?P<ws>[ \t\r]+)|(?P<nl>\n)|(?P<lc>//[^\n]*)|(?P<bc>/\*.*?\*/)|"
    r"(?P<id>[A-Za-z_][A-Za-z0-9_]*)|(?P<int>0[xX][0-9a-fA-F]+|[0-9]+)|"
    r"(?P<str>\"(?:[^\"\\\n]|\\.)*\"|`[^`]*`)|(?P<op>" + "|".join(re.escape(o) for o in _OPS) + ")",
    re.S)
_SEMI_AFTER_KW = {"break", "continue", "fallthrough", "return"}
_KEYWORDS = {"break", "case", "chan", "const", "continue", "default", "defer", "else", "fallthrough",
             "for", "func", "go", "goto", "if", "import", "interface", "map", "package", "range",
             "return", "select", "struct", "switch", "type", "var"}

Tok = Tuple[str, str]     # (kind, text): kind in id kw int str op


def tokenize(src: str, what: str = GO_SRC) -> List[Tok]:
    """Go tokens with automatic semicolon insertion (Go spec, 'Semicolons' rule 1)."""
    out: List[Tok] = []
    pos = 0

    def semi_needed() -> bool:
        if not out:
            return False
        k, t = out[-1]
        if k in ("id", "int", "str"):
            return True
        if k == "kw":
            return t in _SEMI_AFTER_KW
        return t in ("++", "--", ")", "]", "}")

    while pos < len(src):
        m = _TOK.match(src, pos)
        if not m:
            raise Broken(f"translator: {what}: cannot tokenize", src[pos:pos + 60])
        pos = m.end()
        k = m.lastgroup
        if k in ("ws",):
            continue
        if k == "lc" or (k == "bc" and "\n" not in m.group(0)):
            continue
        if k == "nl" or k == "bc":
            if semi_needed():
                out.append(("op", ";"))
            continue
        t = m.group(0)
        if k == "id" and t in _KEYWORDS:
            k = "kw"
        out.append((k, t))
    if semi_needed():
        out.append(("op", ";"))
    return out


def _match(toks: List[Tok], i: int, open_: str, close: str) -> int:
    """index of the token closing the bracket opened at i"""
    assert toks[i][1] == open_
    depth = 0
    for j in range(i, len(toks)):
        if toks[j][0] == "op":
            if toks[j][1] == open_:
                depth += 1
            elif toks[j][1] == close:
                depth -= 1
                if depth == 0:
                    return j
    raise Broken("translator: unbalanced brackets in " + GO_SRC)


class Decl:
    def __init__(self, kind: str, key: str, toks: List[Tok]):
        self.kind, self.key, self.toks = kind, key, toks


def split_decls(toks: List[Tok]) -> List[Decl]:
    """Top-level declarations: package, import, var, const, type, func."""
    out: List[Decl] = []
    i = 0
    n = len(toks)
    while i < n:
        k, t = toks[i]
        if (k, t) == ("op", ";"):
            i += 1
            continue
        if k != "kw" or t not in ("package", "import", "var", "const", "type", "func"):
            raise Broken(f"translator: {GO_SRC}: unexpected top-level token {t!r}")
        j = i + 1
        # scan to the terminating ';' at bracket depth 0
        depth = 0
        while j < n:
            kk, tt = toks[j]
            if kk == "op" and tt in "([{":
                depth += 1
            elif kk == "op" and tt in ")]}":
                depth -= 1
            elif kk == "op" and tt == ";" and depth == 0:
                break
            j += 1
        body = toks[i:j]
        if t == "func":
            p = 1
            recv = ""
            if body[p][1] == "(":
                q = _match(body, p, "(", ")")
                rt = [x[1] for x in body[p + 1:q] if x[0] == "id"]
                recv = rt[-1] + "."
                p = q + 1
            key = "func " + recv + body[p][1]
        elif t == "type":
            key = "type " + body[1][1]
        elif t in ("var", "const"):
            key = t + " " + (body[1][1] if body[1][0] == "id" else "(" + ",".join(
                x[1] for x in body if x[0] == "id")[:60] + ")")
        else:
            key = t
        out.append(Decl(t, key, body))
        i = j + 1
    return out


def digest(toks: Sequence[Tok]) -> str:
    return hashlib.sha256("\x1f".join(f"{k}:{t}" for k, t in toks).encode()).hexdigest()[:32]


# --------------------------------------------------------------------------------------
# expression parser (Go precedence) and typed translation
# --------------------------------------------------------------------------------------

PREC = {"||": 1, "&&": 2, "==": 3, "!=": 3, "<": 3, "<=": 3, ">": 3, ">=": 3,
        "+": 4, "-": 4, "|": 4, "^": 4, "*": 5, "/": 5, "%": 5, "<<": 5, ">>": 5, "&": 5, "&^": 5}
INT_TYPES = {"int": ("s", 64), "byte": ("u", 8), "uint8": ("u", 8), "uint16": ("u", 16),
             "uint32": ("u", 32), "uint64": ("u", 64), "int8": ("s", 8), "int16": ("s", 16),
             "int32": ("s", 32), "int64": ("s", 64)}


class P:
    """Recursive-descent parser over a token slice."""

    def __init__(self, toks: Sequence[Tok], what: str, composite: bool = False):
        self.t = list(toks)
        self.i = 0
        self.what = what
        self.composite = composite      # accept `&x` and empty composite literals `T{}`

    def fail(self, why: str) -> None:
        ctx = " ".join(x[1] for x in self.t[max(0, self.i - 6):self.i + 6])
        raise Broken(f"translator: {self.what}: unsupported Go construct ({why})", ctx)

    def peek(self, k: int = 0) -> Tok:
        return self.t[self.i + k] if self.i + k < len(self.t) else ("eof", "")

    def eat(self, text: Optional[str] = None) -> Tok:
        tok = self.peek()
        if text is not None and tok[1] != text:
            self.fail(f"expected {text!r}, got {tok[1]!r}")
        self.i += 1
        return tok

    def at_end(self) -> bool:
        return self.i >= len(self.t)

    def expr(self, minprec: int = 1):
        left = self.unary()
        while True:
            k, t = self.peek()
            if k == "op" and t in PREC and PREC[t] >= minprec:
                self.eat()
                right = self.expr(PREC[t] + 1)
                left = ("bin", t, left, right)
            else:
                return left

    def unary(self):
        k, t = self.peek()
        if k == "op" and (t in ("-", "!", "^", "+") or (self.composite and t == "&")):
            self.eat()
            return ("un", t, self.unary())
        return self.postfix(self.primary())

    def primary(self):
        k, t = self.peek()
        if k == "int":
            self.eat()
            return ("int", int(t, 0))
        if k == "id":
            self.eat()
            return ("name", t)
        if (k, t) == ("op", "("):
            self.eat()
            e = self.expr()
            self.eat(")")
            return ("paren", e)
        self.fail(f"primary expression starting with {t!r}")

    def postfix(self, e):
        while True:
            k, t = self.peek()
            if (k, t) == ("op", "."):
                self.eat()
                kk, nm = self.eat()
                if kk != "id":
                    self.fail("selector")
                e = ("sel", e, nm)
            elif (k, t) == ("op", "("):
                self.eat()
                args = []
                while self.peek()[1] != ")":
                    args.append(self.expr())
                    if self.peek()[1] == ",":
                        self.eat()
                self.eat(")")
                e = ("call", e, args)
            elif (k, t) == ("op", "["):
                self.eat()
                idx = self.expr()
                self.eat("]")
                e = ("index", e, idx)
            elif self.composite and (k, t) == ("op", "{") and self.peek(1) == ("op", "}") \
                    and e[0] in ("name", "sel"):
                self.eat()
                self.eat()
                e = ("lit", e)
            else:
                return e


def unparse(e) -> str:
    k = e[0]
    if k == "int":
        return str(e[1])
    if k == "name":
        return e[1]
    if k == "paren":
        return "(" + unparse(e[1]) + ")"
    if k == "sel":
        return unparse(e[1]) + "." + e[2]
    if k == "call":
        return unparse(e[1]) + "(" + ", ".join(unparse(a) for a in e[2]) + ")"
    if k == "index":
        return unparse(e[1]) + "[" + unparse(e[2]) + "]"
    if k == "lit":
        return unparse(e[1]) + "{}"
    if k == "un":
        return e[1] + unparse(e[2])
    return unparse(e[2]) + " " + e[1] + " " + unparse(e[3])


UNTYPED = "untyped"


class GoTr:
    """Typed translation of Go integer / boolean expressions to Gallina.
    env: name -> (gallina term, go type); sel: 'ctx.i' -> (term, type);
    funcs: go function name -> (coq name, [param types], result type)."""

    def __init__(self, what: str, funcs: Dict[str, Tuple[str, List[str], str]],
                 sel: Optional[Dict[str, Tuple[str, str]]] = None):
        self.what = what
        self.funcs = funcs
        self.sel = sel or {}

    def fail(self, e, why: str) -> None:
        raise Broken(f"translator: {self.what}: unsupported Go expression ({why})", unparse(e)[:200])

    # ---- types -------------------------------------------------------------------------
    def typeof(self, e, env) -> str:
        k = e[0]
        if k == "int":
            return UNTYPED
        if k == "name":
            if e[1] in env:
                return env[e[1]][1]
            if e[1] in ("true", "false"):
                return "bool"
            self.fail(e, f"unbound name {e[1]}")
        if k == "paren":
            return self.typeof(e[1], env)
        if k == "sel":
            key = unparse(e)
            if key in self.sel:
                return self.sel[key][1]
            self.fail(e, f"selector {key}")
        if k == "call":
            f = e[1]
            if f[0] == "name" and f[1] in INT_TYPES and len(e[2]) == 1:
                return f[1]
            if f[0] == "name" and f[1] in self.funcs:
                return self.funcs[f[1]][2]
            self.fail(e, "call")
        if k == "un":
            return "bool" if e[1] == "!" else self.typeof(e[2], env)
        if k == "bin":
            op = e[1]
            if op in ("==", "!=", "<", "<=", ">", ">=", "&&", "||"):
                return "bool"
            if op in ("<<", ">>"):
                return self.typeof(e[2], env)
            return self.unify(e, self.typeof(e[2], env), self.typeof(e[3], env))
        self.fail(e, "typeof")
        return ""

    def unify(self, e, a: str, b: str) -> str:
        if a == UNTYPED:
            return b
        if b == UNTYPED or a == b:
            return a
        if {a, b} == {"byte", "uint8"}:
            return "byte"
        self.fail(e, f"mismatched operand types {a} and {b} (Go would not compile)")
        return ""

    @staticmethod
    def wrap(t: str, term: str) -> str:
        s, w = INT_TYPES[t]
        return f"(wrap_{s} {w} {term})"

    # ---- integer expressions ---------------------------------------------------------------
    def z(self, e, env, want: str) -> str:
        """Gallina Z term of e evaluated at Go type `want` (an integer type)."""
        if want not in INT_TYPES:
            self.fail(e, f"integer expression expected at type {want}")
        k = e[0]
        if k == "int":
            s, w = INT_TYPES[want]
            lo, hi = (0, 2 ** w - 1) if s == "u" else (-2 ** (w - 1), 2 ** (w - 1) - 1)
            if not lo <= e[1] <= hi:
                self.fail(e, f"constant overflows {want}")
            return str(e[1])
        if k == "paren":
            return self.z(e[1], env, want)
        t = self.typeof(e, env)
        if t != UNTYPED and t != want and {t, want} != {"byte", "uint8"}:
            self.fail(e, f"expression of type {t} used at type {want} (Go would not compile)")
        if k == "name":
            return env[e[1]][0]
        if k == "sel":
            return self.sel[unparse(e)][0]
        if k == "call":
            f = e[1]
            if f[0] == "name" and f[1] in INT_TYPES:
                arg = e[2][0]
                ta = self.typeof(arg, env)
                if ta == UNTYPED:
                    return self.z(arg, env, f[1])
                if ta not in INT_TYPES:
                    self.fail(e, f"conversion from {ta}")
                inner = self.z(arg, env, ta)
                sa, wa = INT_TYPES[ta]
                st, wt = INT_TYPES[f[1]]
                # value-preserving when the target covers the source range
                if (sa == st and wt >= wa) or (sa == "u" and st == "s" and wt > wa):
                    return inner
                return self.wrap(f[1], inner)
            if f[0] == "name" and f[1] in self.funcs:
                cname, ptypes, _ = self.funcs[f[1]]
                if len(ptypes) != len(e[2]):
                    self.fail(e, "arity")
                return "(" + " ".join([cname] + [self.z(a, env, pt) for a, pt in zip(e[2], ptypes)]) + ")"
            self.fail(e, "call")
        if k == "un":
            if e[1] == "-":
                return self.wrap(want, f"(- {self.z(e[2], env, want)})")
            if e[1] == "+":
                return self.z(e[2], env, want)
            if e[1] == "^":
                s, w = INT_TYPES[want]
                inner = self.z(e[2], env, want)
                return f"(Z.lnot {inner})" if s == "s" else self.wrap(want, f"(Z.lnot {inner})")
            self.fail(e, "unary")
        if k == "bin":
            op = e[1]
            if op in ("<<", ">>"):
                tc = self.typeof(e[3], env)
                cnt = self.z(e[3], env, "int" if tc == UNTYPED else tc)
                a = self.z(e[2], env, want)
                if op == "<<":
                    return self.wrap(want, f"(Z.shiftl {a} {cnt})")
                return f"(Z.shiftr {a} {cnt})"
            a = self.z(e[2], env, want)
            b = self.z(e[3], env, want)
            if op in ("+", "-", "*"):
                return self.wrap(want, f"({a} {op} {b})")
            if op == "/":
                return self.wrap(want, f"(Z.quot {a} {b})") if INT_TYPES[want][0] == "s" else f"(Z.quot {a} {b})"
            if op == "%":
                return f"(Z.rem {a} {b})"
            if op == "&":
                return f"(Z.land {a} {b})"
            if op == "|":
                return f"(Z.lor {a} {b})"
            if op == "^":
                return f"(Z.lxor {a} {b})"
            if op == "&^":
                return f"(Z.ldiff {a} {b})"
        self.fail(e, "integer expression")
        return ""

    def zt(self, e, env, default: str = "int") -> Tuple[str, str]:
        """(term, type) of an integer expression; untyped constants take `default`."""
        t = self.typeof(e, env)
        if t == UNTYPED:
            t = default
        return self.z(e, env, t), t

    # ---- boolean expressions ---------------------------------------------------------------
    CMP = {"<": "<?", ">": ">?", "<=": "<=?", ">=": ">=?", "==": "=?"}

    def b(self, e, env) -> str:
        k = e[0]
        if k == "paren":
            return self.b(e[1], env)
        if k == "name" and e[1] in ("true", "false"):
            return e[1]
        if k == "name" and e[1] in env and env[e[1]][1] == "bool":
            return env[e[1]][0]
        if k == "un" and e[1] == "!":
            return f"(negb {self.b(e[2], env)})"
        if k == "bin" and e[1] in ("&&", "||"):
            return f"({self.b(e[2], env)} {e[1]} {self.b(e[3], env)})"
        if k == "bin" and (e[1] in self.CMP or e[1] == "!="):
            t = self.unify(e, self.typeof(e[2], env), self.typeof(e[3], env))
            if t == UNTYPED:
                t = "int"
            a, bb = self.z(e[2], env, t), self.z(e[3], env, t)
            if e[1] == "!=":
                return f"(negb ({a} =? {bb}))"
            return f"({a} {self.CMP[e[1]]} {bb})"
        self.fail(e, "boolean expression")
        return ""


# --------------------------------------------------------------------------------------
# statements
# --------------------------------------------------------------------------------------

def split_stmts(toks: Sequence[Tok]) -> List[List[Tok]]:
    """Split a block body (without its braces) into statements at depth-0 ';'."""
    out, cur, depth = [], [], 0
    for tok in toks:
        k, t = tok
        if k == "op" and t in "([{":
            depth += 1
        elif k == "op" and t in ")]}":
            depth -= 1
        if k == "op" and t == ";" and depth == 0:
            if cur:
                out.append(cur)
            cur = []
        else:
            cur.append(tok)
    if cur:
        out.append(cur)
    return out


class Func:
    def __init__(self, d: Decl):
        t = d.toks
        self.key = d.key
        p = 1
        self.recv: Optional[Tuple[str, str]] = None
        if t[p][1] == "(":
            q = _match(t, p, "(", ")")
            ids = [x[1] for x in t[p + 1:q] if x[0] == "id"]
            self.recv = (ids[0], ids[-1])
            p = q + 1
        self.name = t[p][1]
        p += 1
        q = _match(t, p, "(", ")")
        self.params = self._params(t[p + 1:q])
        p = q + 1
        b = next(i for i in range(p, len(t)) if t[i][1] == "{")
        self.result = "".join(x[1] for x in t[p:b])
        self.body = t[b + 1:_match(t, b, "{", "}")]

    @staticmethod
    def _params(toks: Sequence[Tok]) -> List[Tuple[str, str]]:
        groups, cur = [], []
        for tok in toks:
            if tok == ("op", ","):
                groups.append(cur)
                cur = []
            else:
                cur.append(tok)
        if cur:
            groups.append(cur)
        out: List[Tuple[str, str]] = []
        pending: List[str] = []
        for g in groups:
            if len(g) == 1:
                pending.append(g[0][1])
            else:
                ty = "".join(x[1] for x in g[1:])
                for nm in pending + [g[0][1]]:
                    out.append((nm, ty))
                pending = []
        if pending:
            raise Broken("translator: parameter list without types")
        return out


def exec_pure(tr: GoTr, stmts: List[List[Tok]], env: Dict[str, Tuple[str, str]], ret: str) -> str:
    """Symbolic execution of `if c { .. } [else { .. }]` (branches may fall through to the
    following statements), `x := e`, `x = e` (reassignment), `return e`."""
    if not stmts:
        raise Broken(f"translator: {tr.what}: a path falls off the end without return")
    s, rest = stmts[0], stmts[1:]
    if s[0] == ("kw", "return"):
        p = P(s[1:], tr.what)
        e = p.expr()
        if not p.at_end():
            p.fail("trailing tokens after return expression")
        return tr.b(e, env) if ret == "bool" else tr.z(e, env, ret)
    if s[0] == ("kw", "if"):
        b = next(i for i in range(len(s)) if s[i][1] == "{")
        p = P(s[1:b], tr.what)
        cond = p.expr()
        if not p.at_end():
            p.fail("if with init statement")
        e1 = _match(s, b, "{", "}")
        then = split_stmts(s[b + 1:e1])
        els: List[List[Tok]] = []
        if e1 + 1 < len(s):
            if s[e1 + 1] != ("kw", "else") or s[e1 + 2][1] != "{":
                raise Broken(f"translator: {tr.what}: unsupported else form")
            e2 = _match(s, e1 + 2, "{", "}")
            if e2 != len(s) - 1:
                raise Broken(f"translator: {tr.what}: tokens after else block")
            els = split_stmts(s[e1 + 3:e2])
        return (f"(if {tr.b(cond, env)} then {exec_pure(tr, then + rest, env, ret)} "
                f"else {exec_pure(tr, els + rest, env, ret)})")
    if len(s) >= 3 and s[0][0] == "id" and s[1] == ("op", ":="):
        p = P(s[2:], tr.what)
        e = p.expr()
        if not p.at_end():
            p.fail("trailing tokens in short variable declaration")
        env2 = dict(env)
        if tr.typeof(e, env) == "bool":
            env2[s[0][1]] = (tr.b(e, env), "bool")
        else:
            env2[s[0][1]] = tr.zt(e, env)
        return exec_pure(tr, rest, env2, ret)
    if len(s) >= 3 and s[0][0] == "id" and s[1] == ("op", "=") and s[0][1] in env:
        # reassignment of a local / parameter: the new value is evaluated at the variable's type
        p = P(s[2:], tr.what)
        e = p.expr()
        if not p.at_end():
            p.fail("trailing tokens in assignment")
        vt = env[s[0][1]][1]
        env2 = dict(env)
        env2[s[0][1]] = (tr.b(e, env), "bool") if vt == "bool" else (tr.z(e, env, vt), vt)
        return exec_pure(tr, rest, env2, ret)
    raise Broken(f"translator: {tr.what}: unsupported Go statement", " ".join(x[1] for x in s)[:200])


COQ_TY = {"bool": "bool"}


def pure_go(funcs: Dict[str, Func], table: Dict[str, Tuple[str, List[str], str]], name: str,
            coq_name: str, params: List[Tuple[str, str]], result: str) -> str:
    f = funcs.get("func " + name)
    if f is None:
        raise Broken(f"translator: {GO_SRC}: function {name} not found")
    if f.params != params or f.result != result:
        raise Broken(f"translator: {name}: signature {f.params} -> {f.result!r} != expected {params} -> {result!r}")
    tr = GoTr(name, table)
    env = {p: (p, t) for p, t in params}
    body = exec_pure(tr, split_stmts(f.body), env, result)
    ps = " ".join(f"({p} : {'bool' if t == 'bool' else 'Z'})" for p, t in params)
    return f"Definition {coq_name} {ps} : {'bool' if result == 'bool' else 'Z'} := {body}."


HEADER = """(* GENERATED by tools/translate_go.py from lib/go/bitproto.go and
   compiler/bitproto/{_ast.py,renderer/formatter.py} - do not edit.
   Go typed semantics are explicit: wrap_u w / wrap_s w at every operation where Go wraps
   (byte is wrap_u 8, int is wrap_s 64), Z.quot / Z.rem for Go's truncating / and %. *)
From Coq Require Import ZArith Bool.
Open Scope Z_scope.

Definition wrap_u (w x : Z) : Z := x mod 2 ^ w.
Definition wrap_s (w x : Z) : Z := (x + 2 ^ (w - 1)) mod 2 ^ w - 2 ^ (w - 1).
"""


def struct_fields(d: Decl) -> Dict[str, str]:
    """type X struct { a T; b, c U } -> {a: T, ...} (types as token text)."""
    t = d.toks
    if len(t) < 4 or t[2] != ("kw", "struct"):
        raise Broken(f"translator: {d.key} is not a struct")
    b = 3
    out: Dict[str, str] = {}
    for st in split_stmts(t[b + 1:_match(t, b, "{", "}")]):
        names, i = [], 0
        while i < len(st) and st[i][0] == "id":
            names.append(st[i][1])
            if i + 1 < len(st) and st[i + 1] == ("op", ","):
                i += 2
            else:
                i += 1
                break
        ty = "".join(x[1] for x in st[i:])
        for nm in names:
            out[nm] = ty
    return out


def gen_go() -> Tuple[str, Dict[str, str]]:
    src = open(os.path.join(vlib.REPO, GO_SRC)).read()
    toks = tokenize(src)
    decls = split_decls(toks)
    keys = [d.key for d in decls]
    if len(set(keys)) != len(keys):
        raise Broken(f"translator: {GO_SRC}: duplicate top-level declaration keys")
    by_key = {d.key: d for d in decls}
    funcs = {d.key: Func(d) for d in decls if d.kind == "func"}
    skel: Dict[str, str] = {}
    out = [HEADER]

    table: Dict[str, Tuple[str, List[str], str]] = {}
    translated = set()

    def pure(name, coq_name, params, result):
        out.append(pure_go(funcs, table, name, coq_name, params, result))
        table[name] = (coq_name, [t for _, t in params], result)
        translated.add("func " + name)

    pure("min", "go_min", [("a", "int"), ("b", "int")], "int")
    pure("getMask", "getMask", [("k", "int"), ("c", "int")], "int")
    pure("smartShift", "smartShift", [("n", "byte"), ("k", "int")], "byte")
    pure("getNbitsToCopy", "getNbitsToCopy", [("i", "int"), ("j", "int"), ("n", "int")], "int")
    pure("Bool2byte", "Bool2byte", [("b", "bool")], "byte")
    pure("Byte2bool", "Byte2bool", [("b", "byte")], "bool")

    # ---- field types used by the selector map -------------------------------------------------
    ctxf = struct_fields(by_key["type ProcessContext"])
    if ctxf.get("i") != "int" or ctxf.get("s") != "[]byte" or ctxf.get("isEncode") != "bool":
        raise Broken("translator: ProcessContext fields are not {isEncode bool; i int; s []byte}", str(ctxf))
    arrf = struct_fields(by_key["type Array"])
    if arrf.get("capacity") != "int":
        raise Broken("translator: Array.capacity is not int", str(arrf))
    acc_if = " ".join(x[1] for x in by_key["type Accessor"].toks)
    if "BpGetByte ( di * DataIndexer , rshift int ) byte" not in acc_if or \
            "BpSetByte ( di * DataIndexer , lshift int , b byte )" not in acc_if:
        raise Broken("translator: Accessor interface signature changed", acc_if[:400])

    sel = {"ctx.i": ("ci", "int")}

    def single_byte(name: str, enc: bool) -> None:
        f = funcs.get("func " + name)
        if f is None:
            raise Broken(f"translator: {name} not found")
        want = [("ctx", "*ProcessContext"), ("di", "*DataIndexer"), ("accessor", "Accessor"),
                ("j", "int"), ("c", "int")]
        if f.params != want or f.result != "":
            raise Broken(f"translator: {name}: unexpected signature", str(f.params))
        tr = GoTr(name, table, sel)
        env: Dict[str, Tuple[str, str]] = {"j": ("j", "int"), "c": ("c", "int")}
        seen = []
        for s in split_stmts(f.body):
            txt = " ".join(x[1] for x in s)
            if len(s) >= 3 and s[0][0] == "id" and s[1] == ("op", ":="):
                p = P(s[2:], name)
                e = p.expr()
                if not p.at_end():
                    p.fail("trailing tokens")
                if enc and e[0] == "call" and unparse(e[1]) == "accessor.BpGetByte" and len(e[2]) == 2 \
                        and unparse(e[2][0]) == "di":
                    out.append(f"Definition enc_rshift (j : Z) : Z := {tr.z(e[2][1], env, 'int')}.")
                    env[s[0][1]] = ("b", "byte")
                    seen.append("get")
                elif (not enc) and e[0] == "index" and unparse(e[1]) == "ctx.s":
                    out.append(f"Definition dec_index (ci : Z) : Z := {tr.z(e[2], env, 'int')}.")
                    env[s[0][1]] = ("b", "byte")
                    seen.append("load")
                else:
                    env[s[0][1]] = tr.zt(e, env)
            elif enc and "|=" in [x[1] for x in s]:
                k = [x[1] for x in s].index("|=")
                pl = P(s[:k], name)
                lhs = pl.expr()
                pr = P(s[k + 1:], name)
                rhs = pr.expr()
                if not (pl.at_end() and pr.at_end() and lhs[0] == "index" and unparse(lhs[1]) == "ctx.s"):
                    raise Broken(f"translator: {name}: unexpected |= statement", txt)
                out.append(f"Definition enc_index (ci : Z) : Z := {tr.z(lhs[2], env, 'int')}.")
                out.append(f"Definition enc_d (b ci j c : Z) : Z := {tr.z(rhs, env, 'byte')}.")
                seen.append("store")
            else:
                p = P(s, name)
                e = p.expr()
                if (not enc) and p.at_end() and e[0] == "call" and unparse(e[1]) == "accessor.BpSetByte" \
                        and len(e[2]) == 3 and unparse(e[2][0]) == "di":
                    out.append(f"Definition dec_lshift (j : Z) : Z := {tr.z(e[2][1], env, 'int')}.")
                    out.append(f"Definition dec_d (b ci j c : Z) : Z := {tr.z(e[2][2], env, 'byte')}.")
                    seen.append("set")
                else:
                    raise Broken(f"translator: {name}: unsupported statement", txt)
        exp = ["get", "store"] if enc else ["load", "set"]
        if seen != exp:
            raise Broken(f"translator: {name}: effects {seen} are not {exp}")
        translated.add("func " + name)

    single_byte("encodeSingleByte", True)
    single_byte("decodeSingleByte", False)

    # ---- ito formulas: masked out of the Process skeletons ----------------------------------------
    def ito_of(key: str, coq_name: str, params: List[str], sel2: Dict[str, Tuple[str, str]]) -> str:
        f = funcs.get(key)
        if f is None:
            raise Broken(f"translator: {key} not found")
        body = list(f.body)
        # `ahead := uint16(0)` fixes the type of ahead
        txt = " ".join(x[1] for x in body)
        if "i := ctx . i ;" not in txt or "ahead := uint16 ( 0 ) ;" not in txt:
            raise Broken(f"translator: {key}: `i := ctx.i` / `ahead := uint16(0)` not found")
        idx = [i for i in range(len(body) - 1) if body[i] == ("id", "ito") and body[i + 1] == ("op", ":=")]
        if len(idx) != 1:
            raise Broken(f"translator: {key}: expected exactly one `ito := ...`")
        a = idx[0]
        e_end = next(i for i in range(a, len(body)) if body[i] == ("op", ";"))
        tr = GoTr(key, table, sel2)
        env = {"i": ("i", "int"), "ahead": ("ahead", "uint16")}
        p = P(body[a + 2:e_end], key)
        e = p.expr()
        if not p.at_end():
            p.fail("trailing tokens in ito formula")
        out.append(f"Definition {coq_name} ({' '.join(params)} : Z) : Z := {tr.z(e, env, 'int')}.")
        # the test: `if <cond> {` directly after
        if body[e_end + 1] != ("kw", "if"):
            raise Broken(f"translator: {key}: `ito := ...` is not followed by an if")
        b = next(i for i in range(e_end + 1, len(body)) if body[i][1] == "{")
        pc = P(body[e_end + 2:b], key)
        cond = pc.expr()
        if not pc.at_end():
            pc.fail("ito test")
        tk = GoTr(key, table, {"ctx.i": ("ci", "int")}).b(cond, {"ito": ("ito", "int")})
        masked = body[:a + 2] + [("mask", "ITO")] + body[e_end:e_end + 2] + [("mask", "TEST")] + body[b:]
        d = by_key[key]
        head = d.toks[:len(d.toks) - len(f.body) - 1]
        skel[f"bitproto.go:{key}"] = digest(list(head) + masked + [("op", "}")])
        return tk

    tk1 = ito_of("func Array.Process", "array_ito", ["i", "ahead", "cap", "ci"],
                 {"ctx.i": ("ci", "int"), "t.capacity": ("cap", "int")})
    tk2 = ito_of("func MessageProcessor.Process", "message_ito", ["i", "ahead"], {})
    if tk1 != tk2:
        raise Broken("translator: Array.Process and MessageProcessor.Process test `ito` differently", f"{tk1} / {tk2}")
    out.append(f"Definition ito_taken (ito ci : Z) : bool := {tk1}.")
    translated.update({"func Array.Process", "func MessageProcessor.Process"})

    # ---- every other top-level declaration: pinned -------------------------------------------------
    for d in decls:
        if d.key in translated:
            continue
        skel[f"bitproto.go:{d.key}"] = digest(d.toks)

    # ---- compiler: Type.nbytes and Formatter.get_nbits_of_integer ----------------------------------
    out.append("")
    out.append("(* compiler/bitproto/_ast.py: Type.nbytes ; renderer/formatter.py: Formatter.get_nbits_of_integer *)")
    out.extend(gen_compiler_bits(skel))
    return "\n".join(out) + "\n", skel


class TrC(translate.Tr):
    """Tr + `x in (a, b, ...)`, `self.nbits()` and `t.nbytes()`."""

    def __init__(self, fname: str, calls: Dict[str, str]):
        super().__init__(fname)
        self.calls = calls

    def z(self, e, env):
        if isinstance(e, ast.Call) and not e.args and not e.keywords and ast.unparse(e) in self.calls:
            return self.calls[ast.unparse(e)]
        return super().z(e, env)

    def b(self, e, env):
        if isinstance(e, ast.Compare) and len(e.ops) == 1 and isinstance(e.ops[0], ast.In) \
                and isinstance(e.comparators[0], ast.Tuple) and e.comparators[0].elts:
            a = self.z(e.left, env)
            return "(" + " || ".join(f"({a} =? {self.z(x, env)})" for x in e.comparators[0].elts) + ")"
        return super().b(e, env)


def gen_compiler_bits(skel: Dict[str, str]) -> List[str]:
    out = []
    tree = ast.parse(open(os.path.join(vlib.REPO, "compiler/bitproto/_ast.py")).read())
    fn = translate.find_func(tree, "nbytes", "Type")
    tr = TrC("Type.nbytes", {"self.nbits()": "nbits"})
    out.append(f"Definition type_nbytes (nbits : Z) : Z := {tr.body(fn.body, {})}.")
    tree2 = ast.parse(open(os.path.join(vlib.REPO, "compiler/bitproto/renderer/formatter.py")).read())
    fn2 = translate.find_func(tree2, "get_nbits_of_integer", "Formatter")
    tr2 = TrC("Formatter.get_nbits_of_integer", {"t.nbytes()": "(type_nbytes nbits)"})
    out.append(f"Definition get_nbits_of_integer (nbits : Z) : Z := {tr2.body(fn2.body, {})}.")
    # the Go formatter must not override it, and must build type names from it
    gsrc = open(os.path.join(vlib.REPO, "compiler/bitproto/renderer/impls/go/formatter.py")).read()
    gtree = ast.parse(gsrc)
    cls = next((n for n in gtree.body if isinstance(n, ast.ClassDef) and n.name == "GoFormatter"), None)
    if cls is None:
        raise Broken("translator: GoFormatter not found")
    names = {n.name for n in cls.body if isinstance(n, ast.FunctionDef)}
    if "get_nbits_of_integer" in names or "format_type" in names:
        raise Broken("translator: GoFormatter overrides get_nbits_of_integer / format_type")
    pin_renderer(skel)
    return out


PINNED_FILES = ["compiler/bitproto/renderer/impls/go/formatter.py",
                "compiler/bitproto/renderer/impls/go/renderer.py",
                "compiler/bitproto/renderer/formatter.py",
                "compiler/bitproto/renderer/block.py",
                "compiler/bitproto/renderer/renderer.py"]


def _opmode_name(name: str) -> bool:
    n = name.lower()
    return "op_mode" in n or "opmode" in n


def pin_renderer(skel: Dict[str, str]) -> None:
    """The model of the emitted Go text (GoRt.go_cls_of / go_proc_of / go_type_of) is written by
    hand after the Go renderer, the Go formatter and the shared formatter / block functions they
    call.  T1 ties it to the text of the SAMPLED schemas only, so every function of those files
    (optimization-mode ones excepted: property C04) is pinned by an AST digest, together with
    the list of functions per class and the non-function statements (module constants, class
    attributes): any edit there is at least a broken tie."""
    for rel in PINNED_FILES:
        tree = ast.parse(open(os.path.join(vlib.REPO, rel)).read())
        short = rel.split("bitproto/", 1)[1]

        def scope(body, prefix: str) -> None:
            names, other = [], []
            for n in body:
                if isinstance(n, (ast.FunctionDef, ast.AsyncFunctionDef)):
                    if _opmode_name(n.name):
                        continue
                    names.append(n.name)
                    skel[f"{short}:{prefix}{n.name}"] = hashlib.sha256(
                        translate.skeleton_digest(n).encode()).hexdigest()[:32]
                elif isinstance(n, ast.ClassDef):
                    if _opmode_name(n.name):
                        continue
                    names.append("class " + n.name)
                    other.append("bases " + n.name + " " + ",".join(ast.dump(b) for b in n.bases))
                    scope(n.body, prefix + n.name + ".")
                elif isinstance(n, (ast.Import, ast.ImportFrom)):
                    continue
                elif isinstance(n, ast.Expr) and isinstance(n.value, ast.Constant) and isinstance(n.value.value, str):
                    continue                       # docstring
                else:
                    other.append(ast.dump(n))
            skel[f"{short}:{prefix}<members>"] = hashlib.sha256(
                ("|".join(names) + "#" + "|".join(other)).encode()).hexdigest()[:32]

        scope(tree.body, "")


GENERATORS = {"GenGo.v": gen_go}


if __name__ == "__main__":
    text, sk = gen_go()
    print(text)
    for k, v in sorted(sk.items()):
        print(k, v[:40])
