"""translate_c09 — tie T0 for C09 (compilation is total): regenerate coq/gen/GenC09.v from
/repo's current lexer.py / parser.py / grammars.py / errors.py / _main.py / options.py and
the three formatters.

What is translated (fail closed: anything not recognised raises vlib.Broken):
  * the token regexes of the lexer rules (docstrings, parsed with CPython's own regex
    parser under ply's flags) as `Re.re` terms;
  * Lexer.escaping_chars;
  * the string-escape LOOP of t_STRING_LITERAL, statement by statement, into a fuel
    recursion over `list ascii` in the outcome monad (index errors, key errors and the
    bitproto error are explicit);
  * the integer conversions of the lexer rules (`int(x)`, `int(x, 16)`, slice offsets);
  * the four constant-arithmetic actions of parser.py;
  * the `*_item_unsupported` dispatch tables (class, error, WHICH p[k] is handed to
    from_token);
  * for every semantic action: every p[k] / p.lineno(k) / p.lexpos(k) / helper access with
    the production lengths under which it is executed (static index analysis);
  * p_error / t_error: what every path ends in;
  * the error class hierarchy, the except clauses of _main.main, the classes raised by the
    front end;
  * option descriptors; `fields()[0]` in the Python formatter; `format_int_value` of the
    three formatters;
  * CPython's integer/string conversion digit limit (read from the interpreter that runs
    the implementation).
"""
from __future__ import annotations

import ast
import os
import re
import subprocess
import warnings
from typing import Any, Dict, List, Optional, Sequence, Set, Tuple

from translate import Tr, find_func, skeleton_digest, strip_doc
from vlib import IMPL_ENV, PY, REPO, Broken

try:  # CPython >= 3.11
    import re._parser as sre_parse  # type: ignore
    import re._constants as sre_c  # type: ignore
except ImportError:  # pragma: no cover
    import sre_parse  # type: ignore
    import sre_constants as sre_c  # type: ignore


def _src(rel: str) -> Tuple[str, ast.Module]:
    path = os.path.join(REPO, rel)
    try:
        src = open(path).read()
    except OSError as e:
        raise Broken(f"translator(C09): cannot read {rel}", str(e))
    try:
        return src, ast.parse(src)
    except SyntaxError as e:
        raise Broken(f"translator(C09): {rel} does not parse", str(e))


def cstr(s: str) -> str:
    if any(ord(c) < 32 or ord(c) > 126 or c == '"' for c in s):
        raise Broken("translator(C09): non-printable text in a name", repr(s))
    return '"' + s + '"%string'


def clist(items: Sequence[str]) -> str:
    return "[" + "; ".join(items) + "]"


def ccomment(s: str) -> str:
    """Text that is safe inside a Coq comment (no comment brackets, no string quotes)."""
    return s.replace("(*", "( *").replace("*)", "* )").replace('"', "''")


def cascii(ch: str) -> str:
    if len(ch) != 1 or ord(ch) > 255:
        raise Broken("translator(C09): character outside Latin-1 in a table", repr(ch))
    return f"(ascii_of_nat {ord(ch)})"


# --------------------------------------------------------------------------------------
# regexes
# --------------------------------------------------------------------------------------

def _seq(terms: List[str]) -> str:
    if not terms:
        return "REps"
    out = terms[-1]
    for t in reversed(terms[:-1]):
        out = f"(RSeq {t} {out})"
    return out


def sre_items(items, top: bool, notes: List[str], what: str) -> str:
    terms: List[str] = []
    items = list(items)
    for idx, (op, av) in enumerate(items):
        name = str(op)
        if name == "LITERAL":
            if av > 255:
                raise Broken(f"translator(C09): {what}: literal outside Latin-1")
            terms.append(f"(RChar {av})")
        elif name == "NOT_LITERAL":
            terms.append(f"(RNotChar {av})")
        elif name == "ANY":
            terms.append("RAny")
        elif name == "IN":
            neg = False
            cs = []
            for (o2, a2) in av:
                n2 = str(o2)
                if n2 == "NEGATE":
                    neg = True
                elif n2 == "LITERAL":
                    cs.append(f"CLit {a2}")
                elif n2 == "RANGE":
                    cs.append(f"CRange {a2[0]} {a2[1]}")
                else:
                    raise Broken(f"translator(C09): {what}: unsupported set item {n2}")
            terms.append(f"(RIn {'true' if neg else 'false'} {clist(cs)})")
        elif name == "SUBPATTERN":
            group, add_flags, del_flags, p = av
            if add_flags or del_flags:
                raise Broken(f"translator(C09): {what}: inline flags are not supported")
            terms.append(sre_items(p, False, notes, what))
        elif name == "BRANCH":
            _, alts = av
            ts = [sre_items(a, False, notes, what) for a in alts]
            out = ts[-1]
            for t in reversed(ts[:-1]):
                out = f"(RAlt {t} {out})"
            terms.append(out)
        elif name in ("MAX_REPEAT", "MIN_REPEAT"):
            lo, hi, p = av
            body = sre_items(p, False, notes, what)
            if name == "MIN_REPEAT":
                notes.append(f"{what}: non-greedy repeat — same LANGUAGE as the greedy one")
            if hi != sre_c.MAXREPEAT:
                raise Broken(f"translator(C09): {what}: bounded repeat is not supported")
            if lo == 0:
                terms.append(f"(RStar {body})")
            elif lo == 1:
                terms.append(f"(RPlus {body})")
            else:
                raise Broken(f"translator(C09): {what}: repeat with lower bound {lo}")
        elif name == "AT" and str(av) == "AT_BOUNDARY" and top and idx in (0, len(items) - 1):
            notes.append(f"{what}: \\b at the {'start' if idx == 0 else 'end'} is a zero-width context "
                         f"condition; it does not change the language of the token TEXT")
        else:
            raise Broken(f"translator(C09): {what}: unsupported regex construct {name} {av!r}"[:300])
    return _seq(terms)


def regex_term(pattern: str, flags: int, what: str, notes: List[str]) -> str:
    with warnings.catch_warnings():
        warnings.simplefilter("ignore")
        try:
            p = sre_parse.parse(pattern, flags)
        except Exception as e:  # noqa
            raise Broken(f"translator(C09): {what}: regex does not parse", str(e))
    return sre_items(p, True, notes, what)


# --------------------------------------------------------------------------------------
# the escape loop (statement-by-statement translation into the outcome monad)
# --------------------------------------------------------------------------------------

class LoopTr:
    """Statements over the state (i : Z, val : list ascii) and the constant s."""

    def __init__(self, parser_errors: Set[str]):
        self.parser_errors = parser_errors

    def fail(self, node: ast.AST, why: str) -> None:
        raise Broken(f"translator(C09): t_STRING_LITERAL: unsupported statement ({why})",
                     ast.unparse(node)[:300])

    @staticmethod
    def is_s_i(e: ast.expr) -> bool:
        return (isinstance(e, ast.Subscript) and isinstance(e.value, ast.Name) and e.value.id == "s"
                and isinstance(e.slice, ast.Name) and e.slice.id == "i")

    @staticmethod
    def is_table(e: ast.expr) -> bool:
        return ast.unparse(e) in ("Lexer.escaping_chars", "self.escaping_chars")

    def stmts(self, body: List[ast.stmt], kont: str) -> str:
        if not body:
            return kont
        s, rest = body[0], body[1:]
        if isinstance(s, ast.AugAssign) and isinstance(s.op, ast.Add) and isinstance(s.target, ast.Name):
            if s.target.id == "i" and isinstance(s.value, ast.Constant) and isinstance(s.value.value, int) \
                    and not isinstance(s.value.value, bool):
                return f"let i := (i + {s.value.value}) in\n      {self.stmts(rest, kont)}"
            if s.target.id == "val":
                v = s.value
                if self.is_s_i(v):
                    return (f"bind (py_idx s i) (fun c => let val := (val ++ [c]) in\n      "
                            f"{self.stmts(rest, kont)})")
                if isinstance(v, ast.Subscript) and self.is_table(v.value) and self.is_s_i(v.slice):
                    return (f"bind (py_idx s i) (fun c => bind (py_dict_get escaping_chars c) "
                            f"(fun v => let val := (val ++ v) in\n      {self.stmts(rest, kont)}))")
            self.fail(s, "augmented assignment")
        if isinstance(s, ast.If):
            t = s.test
            a = self.stmts(s.body + rest, kont)
            b = self.stmts(s.orelse + rest, kont)
            if isinstance(t, ast.Compare) and len(t.ops) == 1 and self.is_s_i(t.left):
                op, rhs = t.ops[0], t.comparators[0]
                if isinstance(op, ast.Eq) and isinstance(rhs, ast.Constant) and isinstance(rhs.value, str) \
                        and len(rhs.value) == 1:
                    return (f"bind (py_idx s i) (fun c =>\n      if Ascii.eqb c {cascii(rhs.value)} then\n      "
                            f"{a}\n      else\n      {b})")
                if isinstance(op, ast.In) and self.is_table(rhs):
                    return (f"bind (py_idx s i) (fun c =>\n      if table_mem escaping_chars c then\n      "
                            f"{a}\n      else\n      {b})")
            self.fail(s, "condition")
        if isinstance(s, ast.Raise) and s.exc is not None:
            exc = s.exc
            name = None
            if isinstance(exc, ast.Call) and isinstance(exc.func, ast.Name):
                name = exc.func.id
            elif isinstance(exc, ast.Name):
                name = exc.id
            if name in self.parser_errors:
                return f"ParserError {cstr(name)}"
            self.fail(s, "raise of something that is not a ParserError subclass")
        self.fail(s, type(s).__name__)
        return ""


def gen_escape_loop(fn: ast.FunctionDef, parser_errors: Set[str]) -> Tuple[List[str], str]:
    body = strip_doc(fn)
    # s: str = t.value[1:-1] ; i: int = 0 ; val: str = "" ; while ... ; t.value = val ; return t
    if len(body) != 6:
        raise Broken("translator(C09): t_STRING_LITERAL: expected 6 statements "
                     "(s, i, val, while, t.value = val, return t)", ast.unparse(fn)[:600])

    def tgt_val(st):
        if isinstance(st, ast.AnnAssign) and isinstance(st.target, ast.Name) and st.value is not None:
            return st.target.id, st.value
        if isinstance(st, ast.Assign) and len(st.targets) == 1 and isinstance(st.targets[0], ast.Name):
            return st.targets[0].id, st.value
        raise Broken("translator(C09): t_STRING_LITERAL: unexpected initialisation", ast.unparse(st))

    n0, v0 = tgt_val(body[0])
    n1, v1 = tgt_val(body[1])
    n2, v2 = tgt_val(body[2])
    if (n0, ast.unparse(v0)) != ("s", "t.value[1:-1]"):
        raise Broken("translator(C09): t_STRING_LITERAL: the token body is no longer t.value[1:-1]",
                     ast.unparse(body[0]))
    if (n1, n2) != ("i", "val") or not (isinstance(v1, ast.Constant) and isinstance(v1.value, int)) \
            or not (isinstance(v2, ast.Constant) and v2.value == ""):
        raise Broken("translator(C09): t_STRING_LITERAL: initial state is not (i = <int>, val = \"\")",
                     ast.unparse(body[1]) + " / " + ast.unparse(body[2]))
    w = body[3]
    if not (isinstance(w, ast.While) and not w.orelse and ast.unparse(w.test) == "i < len(s)"):
        raise Broken("translator(C09): t_STRING_LITERAL: loop header is not `while i < len(s)`",
                     ast.unparse(w)[:200])
    if ast.unparse(body[4]) != "t.value = val" or ast.unparse(body[5]) != "return t":
        raise Broken("translator(C09): t_STRING_LITERAL: the loop result is not stored with "
                     "`t.value = val; return t`", ast.unparse(body[4]) + " / " + ast.unparse(body[5]))
    lt = LoopTr(parser_errors)
    step = lt.stmts(list(w.body), "escape_loop fuel s i val")
    out = [
        f"(* lexer.py:{fn.lineno}-{fn.end_lineno}  t_STRING_LITERAL: s = t.value[1:-1] *)",
        "Definition token_body (tv : list ascii) : list ascii := py_slice 1 1 tv.",
        f"(* lexer.py:{w.lineno}-{w.end_lineno}  the escape loop, one iteration per unit of fuel *)",
        "Fixpoint escape_loop (fuel : nat) (s : list ascii) (i : Z) (val : list ascii) {struct fuel}",
        "  : outcome (list ascii) :=",
        "  match fuel with",
        "  | O => Crash FuelExhausted",
        "  | S fuel =>",
        "      if i <? zlen s then",
        f"      {step}",
        "      else Ok val",
        "  end.",
        "Definition unescape_token (tv : list ascii) : outcome (list ascii) :=",
        f"  let s := token_body tv in escape_loop (S (length s)) s {v1.value} [].",
    ]
    return out, skeleton_digest(fn, [])


# --------------------------------------------------------------------------------------
# integer conversions of the lexer rules
# --------------------------------------------------------------------------------------

def conv_expr(e: ast.expr, what: str) -> str:
    """int(t.value) | int(t.value, 16) | int(t.value[k:])"""
    if not (isinstance(e, ast.Call) and isinstance(e.func, ast.Name) and e.func.id == "int" and not e.keywords
            and 1 <= len(e.args) <= 2):
        raise Broken(f"translator(C09): {what}: conversion is not int(...)", ast.unparse(e))
    base = 10
    if len(e.args) == 2:
        b = e.args[1]
        if not (isinstance(b, ast.Constant) and isinstance(b.value, int)):
            raise Broken(f"translator(C09): {what}: non-literal base", ast.unparse(e))
        base = b.value
    a = e.args[0]
    if ast.unparse(a) == "t.value":
        arg = "tv"
    elif (isinstance(a, ast.Subscript) and ast.unparse(a.value) == "t.value" and isinstance(a.slice, ast.Slice)
          and a.slice.upper is None and a.slice.step is None and isinstance(a.slice.lower, ast.Constant)
          and isinstance(a.slice.lower.value, int) and a.slice.lower.value >= 0):
        arg = f"(py_slice_from {a.slice.lower.value} tv)"
    else:
        raise Broken(f"translator(C09): {what}: unsupported argument of int()", ast.unparse(e))
    return f"py_int {base} py_int_max_str_digits {arg}"


def gen_conversion(tree, rule: str, var: str, coq_name: str, parser_errors: Set[str]) -> str:
    """Find the statement `<var> = int(...)` in the rule (plain, or inside
    try/except ValueError -> raise <ParserError subclass>)."""
    fn = find_func(tree, rule, "Lexer")
    for st in strip_doc(fn):
        tgt = val = None
        if isinstance(st, ast.AnnAssign):
            tgt, val = st.target, st.value
        elif isinstance(st, ast.Assign) and len(st.targets) == 1:
            tgt, val = st.targets[0], st.value
        if tgt is not None and ast.unparse(tgt) == var and val is not None and "int(" in ast.unparse(val):
            return (f"(* lexer.py:{st.lineno}  {rule}: {ccomment(ast.unparse(st))} *)\n"
                    f"Definition {coq_name} (tv : list ascii) : outcome Z := {conv_expr(val, rule)}.")
        if isinstance(st, ast.Try) and len(st.body) == 1 and len(st.handlers) == 1 and not st.orelse \
                and not st.finalbody:
            inner = st.body[0]
            h = st.handlers[0]
            itgt = ival = None
            if isinstance(inner, ast.AnnAssign):
                itgt, ival = inner.target, inner.value
            elif isinstance(inner, ast.Assign) and len(inner.targets) == 1:
                itgt, ival = inner.targets[0], inner.value
            if itgt is not None and ast.unparse(itgt) == var and ival is not None:
                if not (isinstance(h.type, ast.Name) and h.type.id == "ValueError" and len(h.body) == 1
                        and isinstance(h.body[0], ast.Raise) and isinstance(h.body[0].exc, ast.Call)
                        and isinstance(h.body[0].exc.func, ast.Name)
                        and h.body[0].exc.func.id in parser_errors):
                    raise Broken(f"translator(C09): {rule}: unsupported exception handler", ast.unparse(st)[:300])
                return (f"(* lexer.py:{st.lineno}  {rule}: int() guarded by except ValueError *)\n"
                        f"Definition {coq_name} (tv : list ascii) : outcome Z := "
                        f"py_catch_value_error ({conv_expr(ival, rule)}) {cstr(h.body[0].exc.func.id)}.")
    raise Broken(f"translator(C09): {rule}: no statement `{var} = int(...)` found", ast.unparse(fn)[:400])


# --------------------------------------------------------------------------------------
# parser.py: arithmetic actions
# --------------------------------------------------------------------------------------

def gen_calc(tree, name: str, parser_errors: Set[str]) -> str:
    fn = find_func(tree, "p_calculation_expression_" + name, "Parser")
    body = strip_doc(fn)
    guards: List[str] = []

    class Sub(ast.NodeTransformer):
        def visit_Subscript(self, node):
            if isinstance(node.value, ast.Name) and node.value.id == "p" and isinstance(node.slice, ast.Constant):
                return ast.copy_location(ast.Name(id=f"p{node.slice.value}", ctx=ast.Load()), node)
            return self.generic_visit(node)

    tr = Tr("p_calculation_expression_" + name)
    env = {"p1": "p1", "p3": "p3"}
    while body and isinstance(body[0], ast.If):
        st = body[0]
        if st.orelse or len(st.body) != 1 or not isinstance(st.body[0], ast.Raise):
            raise Broken(f"translator(C09): p_calculation_expression_{name}: unsupported guard", ast.unparse(st)[:300])
        exc = st.body[0].exc
        cls = exc.func.id if isinstance(exc, ast.Call) and isinstance(exc.func, ast.Name) else None
        if cls not in parser_errors:
            raise Broken(f"translator(C09): p_calculation_expression_{name}: guard raises {cls}, "
                         "not a ParserError subclass")
        test = Sub().visit(ast.parse(ast.unparse(st.test), mode="eval").body)
        guards.append(f"if {tr.b(test, env)} then ParserError {cstr(cls)} else ")
        body = body[1:]
    if len(body) != 1 or not isinstance(body[0], ast.Assign) or ast.unparse(body[0].targets[0]) != "p[0]":
        raise Broken(f"translator(C09): p_calculation_expression_{name}: body is not `p[0] = <expr>`",
                     ast.unparse(fn)[:300])
    e = body[0].value
    if isinstance(e, ast.Call) and isinstance(e.func, ast.Name) and e.func.id == "int" and len(e.args) == 1:
        e = e.args[0]          # int(x) on an int is the identity
    if not (isinstance(e, ast.BinOp) and ast.unparse(e.left) == "p[1]" and ast.unparse(e.right) == "p[3]"):
        raise Broken(f"translator(C09): p_calculation_expression_{name}: not a binary operation on p[1], p[3]",
                     ast.unparse(body[0]))
    ops = {ast.Add: "Ok (p1 + p3)", ast.Sub: "Ok (p1 - p3)", ast.Mult: "Ok (p1 * p3)",
           ast.FloorDiv: "py_floordiv p1 p3"}
    if type(e.op) not in ops:
        raise Broken(f"translator(C09): p_calculation_expression_{name}: unsupported operator "
                     f"{type(e.op).__name__} (true division of integers goes through float)")
    return (f"(* parser.py:{body[0].lineno}  {ccomment(ast.unparse(body[0]))} *)\n"
            f"Definition calc_{name} (p1 p3 : Z) : outcome Z := {''.join(guards)}{ops[type(e.op)]}.")


# --------------------------------------------------------------------------------------
# parser.py: *_item_unsupported dispatch
# --------------------------------------------------------------------------------------

def gen_unsupported(tree, fname: str, coq_name: str) -> str:
    fn = find_func(tree, fname, "Parser")
    body = strip_doc(fn)
    rows = []
    for st in body[:-1]:
        ok = (isinstance(st, ast.If) and not st.orelse and len(st.body) == 1 and isinstance(st.body[0], ast.Raise)
              and isinstance(st.test, ast.Call) and ast.unparse(st.test.func) == "isinstance"
              and len(st.test.args) == 2 and ast.unparse(st.test.args[0]) == "p[1]"
              and isinstance(st.test.args[1], ast.Name))
        if not ok:
            raise Broken(f"translator(C09): {fname}: unsupported branch", ast.unparse(st)[:300])
        exc = st.body[0].exc
        if (isinstance(exc, ast.Call) and isinstance(exc.func, ast.Name) and not exc.args
                and all(kw.arg in ("lineno", "filepath", "token", "message") for kw in exc.keywords)
                and all(isinstance(kw.value, ast.Constant) or ast.unparse(kw.value) == "self.current_filepath()"
                        or (isinstance(kw.value, ast.Call) and ast.unparse(kw.value.func) == "p.lineno")
                        for kw in exc.keywords)):
            # built directly from the position of the statement: no attribute of p[k] is read
            # (the p.lineno(k) index is covered by the index analysis of the action)
            rows.append(f"({cstr(st.test.args[1].id)}, {cstr(exc.func.id)}, None) "
                        f"(* parser.py:{st.body[0].lineno} *)")
            continue
        if not (isinstance(exc, ast.Call) and isinstance(exc.func, ast.Attribute) and exc.func.attr == "from_token"
                and isinstance(exc.func.value, ast.Name) and not exc.args and len(exc.keywords) == 1
                and exc.keywords[0].arg == "token"):
            raise Broken(f"translator(C09): {fname}: branch does not raise X.from_token(token=...)",
                         ast.unparse(st)[:300])
        tok = exc.keywords[0].value
        if not (isinstance(tok, ast.Subscript) and ast.unparse(tok.value) == "p" and isinstance(tok.slice, ast.Constant)
                and isinstance(tok.slice.value, int)):
            raise Broken(f"translator(C09): {fname}: from_token argument is not p[k]", ast.unparse(st)[:300])
        rows.append(f"({cstr(st.test.args[1].id)}, {cstr(exc.func.value.id)}, Some {tok.slice.value}) "
                    f"(* parser.py:{st.body[0].lineno} *)")
    last = body[-1]
    if not (isinstance(last, ast.Raise) and isinstance(last.exc, ast.Call) and isinstance(last.exc.func, ast.Name)):
        raise Broken(f"translator(C09): {fname}: does not end with a raise", ast.unparse(last)[:200])
    for st in body:
        for n in ast.walk(st):
            if isinstance(n, ast.Assign) and any(ast.unparse(t) == "p[0]" for t in n.targets):
                raise Broken(f"translator(C09): {fname}: assigns p[0] (the model takes p[0] to be None here)")
    return (f"(* parser.py:{fn.lineno}-{fn.end_lineno}  (isinstance class of p[1], error raised, Some k: the p[k] "
            f"given to from_token / None: the error is built from the statement's own position) *)\n"
            f"Definition {coq_name} : list (string * string * option Z) :=\n  [ " + "\n  ; ".join(rows) + " ].\n"
            f"Definition {coq_name}_final : string := {cstr(last.exc.func.id)}.")


# --------------------------------------------------------------------------------------
# parser.py: static index analysis of every semantic action
# --------------------------------------------------------------------------------------

def parse_grammar(tree_g: ast.Module) -> Dict[str, Tuple[str, List[List[str]]]]:
    rules: Dict[str, Tuple[str, List[List[str]]]] = {}
    for n in tree_g.body:
        if isinstance(n, ast.Assign) and isinstance(n.targets[0], ast.Name) and n.targets[0].id.startswith("r_") \
                and isinstance(n.value, ast.Constant) and isinstance(n.value.value, str):
            text = n.value.value.strip()
            if ":" not in text:
                raise Broken("translator(C09): grammar rule without ':'", text)
            head, rhs = text.split(":", 1)
            # quoted literal tokens may contain ':' or '|'
            toks = re.findall(r"'[^']*'|\"[^\"]*\"|\||[^\s|]+", rhs)
            alts: List[List[str]] = [[]]
            for t in toks:
                if t == "|":
                    alts.append([])
                else:
                    alts[-1].append(t)
            rules[n.targets[0].id] = (head.strip(), alts)
    return rules


class Access:
    def __init__(self, kind: str, k: Any, lens: Optional[Set[int]], line: int):
        self.kind, self.k, self.lens, self.line = kind, k, lens, line


def analyse_action(cls_body: Dict[str, ast.FunctionDef], fn: ast.FunctionDef, all_lens: Set[int],
                   binding: Optional[Dict[str, int]] = None, depth: int = 0) -> List[Access]:
    """All accesses to the production object `p` with the set of len(p) under which each is
    executed.  `binding` maps index parameters of a helper to the integers it is called with."""
    binding = binding or {}
    out: List[Access] = []
    cond_vars: Dict[str, Set[int]] = {}

    def idx_of(e: ast.expr) -> Any:
        if isinstance(e, ast.Constant) and isinstance(e.value, int) and not isinstance(e.value, bool):
            return e.value
        if isinstance(e, ast.Name) and e.id in binding:
            return binding[e.id]
        if (isinstance(e, ast.BinOp) and isinstance(e.op, ast.Sub) and ast.unparse(e.left) == "len(p)"
                and isinstance(e.right, ast.Constant) and isinstance(e.right.value, int)):
            return ("len-", e.right.value)
        raise Broken(f"translator(C09): {fn.name}: index of p is not a literal", ast.unparse(e))

    def cond_lens(t: ast.expr, cur: Set[int]) -> Tuple[Set[int], Set[int]]:
        """(lens where t may be true, lens where t may be false), within cur"""
        if (isinstance(t, ast.Compare) and len(t.ops) == 1 and isinstance(t.ops[0], ast.Eq)
                and ast.unparse(t.left) == "len(p)" and isinstance(t.comparators[0], ast.Constant)):
            n = t.comparators[0].value
            return cur & {n}, cur - {n}
        if isinstance(t, ast.Name) and t.id in cond_vars:
            return cur & cond_vars[t.id], cur - cond_vars[t.id]
        if isinstance(t, ast.BoolOp) and isinstance(t.op, ast.And):
            tr = set(cur)
            for v in t.values:
                tr &= cond_lens(v, cur)[0]
            return tr, set(cur)
        return set(cur), set(cur)

    def expr(e: ast.AST, cur: Set[int]) -> None:
        if isinstance(e, ast.IfExp):
            a, b = cond_lens(e.test, cur)
            expr(e.test, cur)
            expr(e.body, a)
            expr(e.orelse, b)
            return
        if isinstance(e, ast.Subscript) and isinstance(e.value, ast.Name) and e.value.id == "p":
            out.append(Access("item", idx_of(e.slice), set(cur), e.lineno))
            return
        if isinstance(e, ast.Call):
            f = e.func
            if isinstance(f, ast.Attribute) and isinstance(f.value, ast.Name) and f.value.id == "p":
                if f.attr in ("lineno", "lexpos", "set_lineno", "set_lexpos"):
                    out.append(Access(f.attr, idx_of(e.args[0]), set(cur), e.lineno))
                    for a in e.args[1:]:
                        expr(a, cur)
                    return
                if f.attr in ("value",):
                    return
                raise Broken(f"translator(C09): {fn.name}: unknown method p.{f.attr}", ast.unparse(e))
            if (isinstance(f, ast.Attribute) and isinstance(f.value, ast.Name) and f.value.id == "self"
                    and any(isinstance(a, ast.Name) and a.id == "p" for a in e.args)):
                helper = cls_body.get(f.attr)
                if helper is None or depth > 3:
                    raise Broken(f"translator(C09): {fn.name}: p is passed to unknown helper {f.attr}")
                params = [a.arg for a in helper.args.args if a.arg != "self"]
                defaults = helper.args.defaults
                bind2: Dict[str, int] = {}
                for pn, d in zip(params[len(params) - len(defaults):], defaults):
                    if isinstance(d, ast.Constant) and isinstance(d.value, int):
                        bind2[pn] = d.value
                for pn, a in zip(params, e.args):
                    if isinstance(a, ast.Name) and a.id == "p":
                        if pn != "p":
                            raise Broken(f"translator(C09): helper {f.attr} receives p under another name")
                    else:
                        bind2[pn] = idx_of(a)
                for kw in e.keywords:
                    bind2[kw.arg] = idx_of(kw.value)
                for acc in analyse_action(cls_body, helper, set(cur), bind2, depth + 1):
                    lens = set(cur) if acc.lens is None else (acc.lens & cur)
                    out.append(Access(acc.kind + "@" + f.attr, acc.k, lens, e.lineno))
                return
        if isinstance(e, ast.Name) and e.id == "p" and isinstance(getattr(e, "ctx", None), ast.Load):
            # bare use of p other than the recognised forms: len(p), isinstance(p, ..), p is None
            return
        for ch in ast.iter_child_nodes(e):
            expr(ch, cur)

    def stmts(body: List[ast.stmt], cur: Set[int]) -> None:
        for st in body:
            if isinstance(st, ast.If):
                a, b = cond_lens(st.test, cur)
                expr(st.test, cur)
                stmts(st.body, a)
                stmts(st.orelse, b)
            elif isinstance(st, (ast.For, ast.While, ast.With, ast.Try)):
                for ch in ast.iter_child_nodes(st):
                    if isinstance(ch, ast.stmt):
                        stmts([ch], cur)
                    else:
                        expr(ch, cur)
            else:
                if isinstance(st, ast.Assign) and len(st.targets) == 1 and isinstance(st.targets[0], ast.Name):
                    tr, _ = cond_lens(st.value, all_lens)
                    if isinstance(st.value, ast.Compare) and ast.unparse(st.value.left) == "len(p)":
                        cond_vars[st.targets[0].id] = tr
                expr(st, cur)

    stmts(strip_doc(fn), set(all_lens))
    return out


def gen_actions(tree_p: ast.Module, tree_g: ast.Module) -> Tuple[str, int, int]:
    rules = parse_grammar(tree_g)
    cls = None
    for n in tree_p.body:
        if isinstance(n, ast.ClassDef) and n.name == "Parser":
            cls = n
    if cls is None:
        raise Broken("translator(C09): class Parser not found")
    methods = {n.name: n for n in cls.body if isinstance(n, ast.FunctionDef)}
    rows = []
    n_acc = 0
    seen_rules = set()
    for name, fn in methods.items():
        if not name.startswith("p_") or name == "p_error":
            continue
        rule = None
        for d in fn.decorator_list:
            if isinstance(d, ast.Call) and ast.unparse(d.func) == "override_docstring" and len(d.args) == 1 \
                    and isinstance(d.args[0], ast.Name):
                rule = d.args[0].id
        if rule is None or rule not in rules:
            raise Broken(f"translator(C09): {name}: grammar rule of the action not found")
        seen_rules.add(rule)
        head, alts = rules[rule]
        lens = sorted({len(a) + 1 for a in alts})
        accs = analyse_action(methods, fn, set(lens))
        n_acc += len(accs)
        items = []
        for a in accs:
            k = f"(KConst {a.k})" if isinstance(a.k, int) else f"(KLenMinus {a.k[1]})"
            items.append(f"({k}, {clist(str(x) + '%nat' for x in sorted(a.lens))}, {a.line}%nat)")
        rows.append(f"  ({cstr(name)}, {fn.lineno}%nat, {clist(str(x) + '%nat' for x in lens)},\n     "
                    + clist(items) + ")")
    missing = set(rules) - seen_rules
    if missing:
        raise Broken("translator(C09): grammar rules without a semantic action: " + ", ".join(sorted(missing)))
    text = ("(* parser.py: for every semantic action: (name, line, the values len(p) can take = 1 + length of\n"
            "   each alternative, every access to p with the len(p) values under which it is executed) *)\n"
            "Definition actions : list (string * nat * list nat * list (pindex * list nat * nat)) :=\n[ "
            + "\n; ".join(r.strip() for r in rows) + " ].")
    return text, len(rows), n_acc


# --------------------------------------------------------------------------------------
# error hooks, hierarchy, _main
# --------------------------------------------------------------------------------------

def hook_paths(fn: ast.FunctionDef) -> List[Tuple[str, bool, int]]:
    """Every path of an error hook: (class raised | '<returns>', formats the token VALUE with str(), line)."""
    out: List[Tuple[str, bool, int]] = []

    def walk(body: List[ast.stmt]) -> bool:
        """returns True when every path through body ends in a raise"""
        for st in body:
            if isinstance(st, ast.Raise) and st.exc is not None:
                exc = st.exc
                name = exc.func.id if isinstance(exc, ast.Call) and isinstance(exc.func, ast.Name) else \
                    (exc.id if isinstance(exc, ast.Name) else None)
                if name is None:
                    raise Broken(f"translator(C09): {fn.name}: unsupported raise", ast.unparse(st)[:200])
                uses_str = any(isinstance(n, ast.Call) and isinstance(n.func, ast.Name) and n.func.id == "str"
                               and "value" in ast.unparse(n) for n in ast.walk(exc))
                out.append((name, uses_str, st.lineno))
                return True
            if isinstance(st, ast.If):
                a = walk(st.body)
                b = walk(st.orelse) if st.orelse else False
                if a and b:
                    return True
                continue
            if isinstance(st, ast.Return):
                out.append(("<returns>", False, st.lineno))
                return True
            if isinstance(st, (ast.Assign, ast.AnnAssign, ast.Expr)):
                continue
            raise Broken(f"translator(C09): {fn.name}: unsupported statement", ast.unparse(st)[:200])
        return False

    if not walk(strip_doc(fn)):
        out.append(("<returns>", False, fn.end_lineno or fn.lineno))
    return out


def gen_hierarchy(tree_e: ast.Module) -> Tuple[str, Dict[str, List[str]]]:
    h: Dict[str, List[str]] = {}
    for n in tree_e.body:
        if isinstance(n, ast.ClassDef):
            h[n.name] = [ast.unparse(b) for b in n.bases]
    rows = [f"({cstr(k)}, {clist(cstr(b) for b in v)})" for k, v in h.items()]
    return ("(* errors.py: class -> bases *)\nDefinition error_classes : list (string * list string) :=\n  [ "
            + "\n  ; ".join(rows) + " ]."), h


def subclasses_of(h: Dict[str, List[str]], root: str) -> Set[str]:
    out = {root}
    changed = True
    while changed:
        changed = False
        for k, bases in h.items():
            if k not in out and any(b in out for b in bases):
                out.add(k)
                changed = True
    return out


def gen_main(tree_m: ast.Module) -> str:
    fn = find_func(tree_m, "main")
    got: Dict[str, List[str]] = {}
    for st in fn.body:
        if isinstance(st, ast.Try):
            calls = {ast.unparse(n.func) for b in st.body for n in ast.walk(b) if isinstance(n, ast.Call)}
            key = "parse" if "parse" in calls else ("render" if "render" in calls else None)
            if key is None:
                continue
            types: List[str] = []
            for h in st.handlers:
                if h.type is None:
                    types.append("BaseException")
                elif isinstance(h.type, ast.Tuple):
                    types.extend(ast.unparse(e) for e in h.type.elts)
                else:
                    types.append(ast.unparse(h.type))
                if not any(isinstance(n, ast.Call) and ast.unparse(n.func) == "fatal" for b in h.body
                           for n in ast.walk(b)):
                    raise Broken("translator(C09): _main.main: an except clause does not end in fatal(...)")
            got[key] = types
    for key in ("parse", "render"):
        if key not in got:
            raise Broken(f"translator(C09): _main.main: no try/except around {key}(...)")
    unguarded = []
    for st in fn.body:
        if not isinstance(st, ast.Try):
            for n in ast.walk(st):
                if isinstance(n, ast.Call) and ast.unparse(n.func) in ("parse", "render"):
                    unguarded.append(ast.unparse(n.func))
    if unguarded:
        raise Broken("translator(C09): _main.main calls " + ", ".join(unguarded) + " outside try/except")
    return (f"(* _main.py:{fn.lineno}-{fn.end_lineno}  exception classes turned into a diagnostic *)\n"
            f"Definition main_parse_caught : list string := {clist(cstr(t) for t in got['parse'])}.\n"
            f"Definition main_render_caught : list string := {clist(cstr(t) for t in got['render'])}.")


def raised_classes(tree: ast.Module) -> List[str]:
    out = set()
    for n in ast.walk(tree):
        if isinstance(n, ast.Raise) and n.exc is not None:
            e = n.exc
            if isinstance(e, ast.Call):
                e = e.func
            if isinstance(e, ast.Attribute) and e.attr == "from_token":
                e = e.value
            if isinstance(e, ast.Name):
                out.add(e.id)
            else:
                raise Broken("translator(C09): unsupported raise form", ast.unparse(n)[:200])
    return sorted(out)


# --------------------------------------------------------------------------------------
# options, formatters, interpreter limit
# --------------------------------------------------------------------------------------

def gen_options(tree_o: ast.Module) -> str:
    rows = []
    for n in tree_o.body:
        tgt = n.target if isinstance(n, ast.AnnAssign) else (n.targets[0] if isinstance(n, ast.Assign) else None)
        if tgt is None or not isinstance(tgt, ast.Name) or tgt.id not in ("MESSAGE_OPTIONS", "PROTO_OPTTIONS"):
            continue
        scope = "message" if tgt.id == "MESSAGE_OPTIONS" else "proto"
        if not isinstance(n.value, ast.Tuple):
            raise Broken("translator(C09): options table is not a tuple")
        for d in n.value.elts:
            if not (isinstance(d, ast.Call) and ast.unparse(d.func) == "OptionDescriptor" and len(d.args) >= 2):
                raise Broken("translator(C09): unsupported option descriptor", ast.unparse(d)[:200])
            name, default = d.args[0], d.args[1]
            validator = d.args[2] if len(d.args) > 2 else ast.Constant(value=None)
            if not (isinstance(name, ast.Constant) and isinstance(default, ast.Constant)):
                raise Broken("translator(C09): unsupported option descriptor", ast.unparse(d)[:200])
            dv = default.value
            kind = "OBool" if isinstance(dv, bool) else ("OInt" if isinstance(dv, int) else
                                                          ("OStr" if isinstance(dv, str) else None))
            if kind is None:
                raise Broken("translator(C09): option default of unsupported type", ast.unparse(d)[:200])
            if isinstance(validator, ast.Constant) and validator.value is None:
                v = "None"
            elif isinstance(validator, ast.Lambda) and len(validator.args.args) == 1 and kind == "OInt":
                arg = validator.args.args[0].arg
                v = f"(Some (fun {arg} : Z => {Tr('option validator').b(validator.body, {arg: arg})}))"
            else:
                raise Broken("translator(C09): unsupported option validator", ast.unparse(d)[:200])
            rows.append(f"({cstr(scope)}, {cstr(name.value)}, {kind}, {v}) (* options.py:{d.lineno} *)")
    if not rows:
        raise Broken("translator(C09): no option descriptors found")
    return ("Definition option_descriptors : list (string * string * okind * option (Z -> bool)) :=\n  [ "
            + "\n  ; ".join(rows) + " ].")


def gen_formatters() -> List[str]:
    out = []
    _, t = _src("compiler/bitproto/renderer/impls/py/formatter.py")
    fn = find_func(t, "format_default_value_enum", "PyFormatter")
    body = strip_doc(fn)
    txt = ast.unparse(fn)
    if len(body) == 1 and isinstance(body[0], ast.Return) and "t.fields()[0]" in ast.unparse(body[0]):
        guarded = False
    elif (len(body) == 2 and isinstance(body[0], ast.If) and ast.unparse(body[0].test) in
          ("not t.fields()", "len(t.fields()) == 0", "not fields") and isinstance(body[0].body[-1], ast.Return)
          and isinstance(body[1], ast.Return) and "t.fields()[0]" in ast.unparse(body[1])
          and "[0]" not in ast.unparse(body[0])):
        guarded = True
    else:
        raise Broken("translator(C09): PyFormatter.format_default_value_enum has an unrecognised shape", txt[:400])
    out.append(f"(* renderer/impls/py/formatter.py:{fn.lineno}-{fn.end_lineno}  t.fields()[0]; guarded by an "
               f"emptiness test: {guarded} *)\n"
               f"Definition py_enum_default_guarded : bool := {'true' if guarded else 'false'}.")
    sites = []
    guarded_all = []
    for lang, cls, rel in (("c", "CFormatter", "c"), ("go", "GoFormatter", "go"), ("py", "PyFormatter", "py")):
        _, t2 = _src(f"compiler/bitproto/renderer/impls/{rel}/formatter.py")
        f2 = find_func(t2, "format_int_value", cls)
        b2 = strip_doc(f2)
        plain = ("'{0}'.format(value)", "str(value)", "f'{value}'")
        if len(b2) == 1 and isinstance(b2[0], ast.Return) and ast.unparse(b2[0].value) in plain:
            guarded_all.append(False)
        elif (len(b2) == 1 and isinstance(b2[0], ast.Try) and len(b2[0].body) == 1
              and isinstance(b2[0].body[0], ast.Return) and ast.unparse(b2[0].body[0].value) in plain
              and len(b2[0].handlers) == 1 and isinstance(b2[0].handlers[0].type, ast.Name)
              and b2[0].handlers[0].type.id == "ValueError" and len(b2[0].handlers[0].body) == 1
              and isinstance(b2[0].handlers[0].body[0], ast.Raise)
              and isinstance(b2[0].handlers[0].body[0].exc, ast.Call)
              and ast.unparse(b2[0].handlers[0].body[0].exc.func) == "RendererError"
              and not b2[0].orelse and not b2[0].finalbody):
            guarded_all.append(True)
        else:
            raise Broken(f"translator(C09): {cls}.format_int_value has an unrecognised shape", ast.unparse(f2)[:300])
        sites.append(f"({cstr(lang)}, {f2.lineno}%nat)")
    if len(set(guarded_all)) != 1:
        raise Broken("translator(C09): the three format_int_value implementations differ in how they treat ValueError")
    out.append("(* format_int_value of the three formatters is a plain decimal conversion (str of an int);\n"
               "   guarded: a ValueError is turned into a RendererError *)\n"
               f"Definition format_int_value_sites : list (string * nat) := {clist(sites)}.\n"
               f"Definition format_int_value_guarded : bool := {'true' if guarded_all[0] else 'false'}.")
    return out


def gen_name_funcs(t_utils: ast.Module) -> List[str]:
    """utils.py: the case-style converters the renderers and the linter apply to ACCEPTED names
    (pascal_case, snake_case, upper_case, keep_case and the module-level helpers they call).
    Static analysis of their partial operations: `v[<int>]` on a possibly empty string and
    `m.group(..)` on a possibly-None match object must be dominated by a test of v / m
    (`if v:`, `x if v else y`, or an earlier `if not v: return/continue/raise`)."""
    funcs = {n.name: n for n in t_utils.body if isinstance(n, ast.FunctionDef)}
    roots = ["pascal_case", "snake_case", "upper_case", "keep_case"]
    for r in roots:
        if r not in funcs:
            raise Broken(f"translator(C09): utils.{r} not found")
    todo, seen = list(roots), []
    while todo:
        f = todo.pop()
        if f in seen:
            continue
        seen.append(f)
        for n in ast.walk(funcs[f]):
            if isinstance(n, ast.Call) and isinstance(n.func, ast.Name) and n.func.id in funcs:
                todo.append(n.func.id)
            if isinstance(n, ast.Name) and n.id in funcs and n.id not in seen:
                todo.append(n.id)
    unguarded: List[str] = []

    def tested(test: ast.expr) -> Set[str]:
        """names known to be truthy when `test` holds"""
        if isinstance(test, ast.Name):
            return {test.id}
        if isinstance(test, ast.BoolOp) and isinstance(test.op, ast.And):
            out: Set[str] = set()
            for v in test.values:
                out |= tested(v)
            return out
        if (isinstance(test, ast.Compare) and len(test.ops) == 1 and isinstance(test.ops[0], (ast.Gt, ast.GtE))
                and isinstance(test.left, ast.Call) and ast.unparse(test.left.func) == "len"
                and isinstance(test.left.args[0], ast.Name)):
            return {test.left.args[0].id}
        if isinstance(test, ast.Compare) and len(test.ops) == 1 and isinstance(test.ops[0], ast.IsNot) \
                and isinstance(test.left, ast.Name):
            return {test.left.id}
        return set()

    def refuted(test: ast.expr) -> Set[str]:
        """names known to be truthy when `test` is FALSE (`not v`)"""
        if isinstance(test, ast.UnaryOp) and isinstance(test.op, ast.Not):
            return tested(test.operand)
        if isinstance(test, ast.BoolOp) and isinstance(test.op, ast.Or):
            out: Set[str] = set()
            for v in test.values:
                out |= refuted(v)
            return out
        return set()

    def leaves(body: List[ast.stmt]) -> bool:
        return bool(body) and isinstance(body[-1], (ast.Return, ast.Continue, ast.Raise, ast.Break))

    def expr(fname: str, e: ast.AST, ok: Set[str]) -> None:
        if isinstance(e, ast.IfExp):
            expr(fname, e.test, ok)
            expr(fname, e.body, ok | tested(e.test))
            expr(fname, e.orelse, ok | refuted(e.test))
            return
        if isinstance(e, ast.BoolOp) and isinstance(e.op, ast.And):
            acc = set(ok)
            for v in e.values:
                expr(fname, v, acc)
                acc |= tested(v)
            return
        if isinstance(e, ast.Subscript) and isinstance(e.value, ast.Name) and isinstance(e.slice, ast.Constant) \
                and isinstance(e.slice.value, int) and e.value.id not in ok:
            unguarded.append(f"{fname}:{ast.unparse(e)}@{e.lineno}")
        if isinstance(e, ast.Call) and isinstance(e.func, ast.Attribute) and e.func.attr in ("group", "start", "end") \
                and isinstance(e.func.value, ast.Name) and e.func.value.id not in ok:
            unguarded.append(f"{fname}:{ast.unparse(e)}@{e.lineno}")
        for ch in ast.iter_child_nodes(e):
            expr(fname, ch, ok)

    def block(fname: str, body: List[ast.stmt], ok: Set[str]) -> None:
        ok = set(ok)
        for st in body:
            if isinstance(st, ast.If):
                expr(fname, st.test, ok)
                block(fname, st.body, ok | tested(st.test))
                block(fname, st.orelse, ok | refuted(st.test))
                if leaves(st.body) and not st.orelse:
                    ok |= refuted(st.test)
            elif isinstance(st, (ast.For, ast.While)):
                expr(fname, st.iter if isinstance(st, ast.For) else st.test, ok)
                inner = set(ok)
                if isinstance(st, ast.For):
                    for n in ast.walk(st.target):
                        if isinstance(n, ast.Name):
                            inner.discard(n.id)
                block(fname, st.body, inner)
                block(fname, st.orelse, ok)
            elif isinstance(st, (ast.Assign, ast.AnnAssign, ast.AugAssign)):
                if st.value is not None:
                    expr(fname, st.value, ok)
                tg = st.targets if isinstance(st, ast.Assign) else [st.target]
                for t in tg:
                    for n in ast.walk(t):
                        if isinstance(n, ast.Name):
                            ok.discard(n.id)
            elif isinstance(st, (ast.Return, ast.Expr)):
                if st.value is not None:
                    expr(fname, st.value, ok)
            elif isinstance(st, (ast.Continue, ast.Break, ast.Pass)):
                pass
            elif isinstance(st, ast.FunctionDef):
                block(fname + "." + st.name, strip_doc(st), set())
            else:
                raise Broken(f"translator(C09): utils.{fname}: unsupported statement {type(st).__name__}",
                             ast.unparse(st)[:200])

    for f in sorted(seen):
        block(f, strip_doc(funcs[f]), set())
    return ["(* utils.py: case-style converters applied to accepted names by the renderers and the linter;\n"
            "   partial operations (v[k] on a possibly empty string, m.group() on a possibly-None match) that are\n"
            "   NOT dominated by a test of v / m *)\n"
            f"Definition name_funcs_analysed : list string := {clist(cstr(f) for f in sorted(seen))}.\n"
            f"Definition name_funcs_unguarded : list string := {clist(cstr(u) for u in unguarded)}."]


def gen_name_regexes(rels: Sequence[str]) -> Tuple[List[str], int]:
    """Every regular expression the name converters / the linter compile (module-level
    `X = re.compile(r"...")`), as Re.re terms with their anchors split off.  Any other use of the
    `re` module in these files (inline patterns, flags) is rejected: it would escape the
    flatness check of theories/ReLinear.v."""
    rows = []
    notes: List[str] = []
    for rel in rels:
        _, tree = _src(rel)
        base = os.path.basename(rel)
        compiled: Dict[str, int] = {}
        for n in tree.body:
            if isinstance(n, ast.Assign) and len(n.targets) == 1 and isinstance(n.targets[0], ast.Name) \
                    and isinstance(n.value, ast.Call) and ast.unparse(n.value.func) == "re.compile":
                c = n.value
                if len(c.args) != 1 or c.keywords or not (isinstance(c.args[0], ast.Constant)
                                                           and isinstance(c.args[0].value, str)):
                    raise Broken(f"translator(C09): {base}: re.compile with flags or a non-literal pattern",
                                 ast.unparse(n)[:200])
                name = n.targets[0].id
                pat = c.args[0].value
                with warnings.catch_warnings():
                    warnings.simplefilter("ignore")
                    try:
                        items = list(sre_parse.parse(pat, 0))
                    except Exception as e:  # noqa
                        raise Broken(f"translator(C09): {base}:{name}: regex does not parse", str(e))
                a0 = a1 = False
                if items and str(items[0][0]) == "AT" and str(items[0][1]) == "AT_BEGINNING":
                    a0, items = True, items[1:]
                if items and str(items[-1][0]) == "AT" and str(items[-1][1]) == "AT_END":
                    a1, items = True, items[:-1]
                term = sre_items(items, True, notes, f"{base}:{name}")
                compiled[name] = n.lineno
                rows.append(f"({cstr(name)}, ({'true' if a0 else 'false'}, {'true' if a1 else 'false'}), {term}) "
                            f"(* {base}:{n.lineno}  " + ccomment(repr(pat)) + " *)")
        for n in ast.walk(tree):
            if isinstance(n, ast.Attribute) and isinstance(n.value, ast.Name) and n.value.id == "re" \
                    and n.attr not in ("compile",):
                raise Broken(f"translator(C09): {base}: use of re.{n.attr} outside a module-level re.compile "
                             f"(line {n.lineno})")
            if isinstance(n, ast.Call) and ast.unparse(n.func) == "re.compile" and not any(
                    isinstance(m, ast.Assign) and m.value is n for m in tree.body):
                raise Broken(f"translator(C09): {base}: re.compile that is not a module-level assignment "
                             f"(line {n.lineno})")
    text = ("(* every regex compiled by utils.py / linter.py: (name, (anchored at start, anchored at end), regex) *)\n"
            "Definition name_regexes : list (string * (bool * bool) * re) :=\n  [ " + "\n  ; ".join(rows) + " ].")
    return [text], len(rows)


def gen_source_reading(t_par: ast.Module, parser_errors: Set[str]) -> List[str]:
    """Parser.parse (how the file is read) and p_import (is a NUL in the path refused first?)"""
    out = []
    fn = find_func(t_par, "parse", "Parser")
    body = strip_doc(fn)
    txt = ast.unparse(fn)
    plain = (len(body) == 1 and isinstance(body[0], ast.With)
             and ast.unparse(body[0].items[0].context_expr) in ("open(filepath)", "open(filepath, encoding='utf-8')")
             and len(body[0].body) == 1 and isinstance(body[0].body[0], ast.Return))
    guarded = False
    if not plain:
        ok = (len(body) == 2 and isinstance(body[0], ast.Try) and len(body[0].handlers) == 1
              and isinstance(body[0].handlers[0].type, ast.Name) and body[0].handlers[0].type.id == "UnicodeDecodeError"
              and len(body[0].handlers[0].body) == 1 and isinstance(body[0].handlers[0].body[0], ast.Raise)
              and isinstance(body[0].handlers[0].body[0].exc, ast.Call)
              and isinstance(body[0].handlers[0].body[0].exc.func, ast.Name)
              and body[0].handlers[0].body[0].exc.func.id in parser_errors
              and "open(filepath" in ast.unparse(body[0]) and isinstance(body[1], ast.Return))
        if not ok:
            raise Broken("translator(C09): Parser.parse has an unrecognised shape", txt[:400])
        guarded = True
    out.append(f"(* parser.py:{fn.lineno}-{fn.end_lineno}  Parser.parse reads the file with open().read(); a "
               f"UnicodeDecodeError is turned into a ParserError: {guarded} *)\n"
               f"Definition parse_catches_decode_error : bool := {'true' if guarded else 'false'}.")
    fi = find_func(t_par, "p_import", "Parser")
    nul = False
    for st in strip_doc(fi):
        if isinstance(st, ast.If) and "'\\x00' in importing_path" in ast.unparse(st.test) and len(st.body) == 1 \
                and isinstance(st.body[0], ast.Raise) and isinstance(st.body[0].exc, ast.Call) \
                and isinstance(st.body[0].exc.func, ast.Name) and st.body[0].exc.func.id in parser_errors:
            nul = True
            break
        if any(isinstance(n, ast.Call) and ast.unparse(n.func) in ("self._check_parsing_file", "self.parse_child")
               for n in ast.walk(st)):
            break
    out.append(f"(* parser.py:{fi.lineno}  p_import refuses a NUL in the path before touching the file system: {nul} *)\n"
               f"Definition import_path_guarded : bool := {'true' if nul else 'false'}.")
    return out


def gen_cap_validators(t_ast: ast.Module, parser_errors: Set[str]) -> List[str]:
    """Uint / Int.validate_post_freeze in _ast.py: `if not (<cond on self.cap>): raise X.from_token(...)`"""
    out = []
    for cls, coq in (("Uint", "uint_cap_check"), ("Int", "int_cap_check")):
        fn = find_func(t_ast, "validate_post_freeze", cls)
        body = strip_doc(fn)
        if not (len(body) == 2 and isinstance(body[0], ast.If) and ast.unparse(body[0].test) == "self._is_missing"
                and isinstance(body[0].body[0], ast.Return) and isinstance(body[1], ast.If)
                and isinstance(body[1].test, ast.UnaryOp) and isinstance(body[1].test.op, ast.Not)
                and len(body[1].body) == 1 and isinstance(body[1].body[0], ast.Raise) and not body[1].orelse):
            raise Broken(f"translator(C09): _ast.{cls}.validate_post_freeze has an unrecognised shape",
                         ast.unparse(fn)[:300])
        exc = body[1].body[0].exc
        name = exc.func.value.id if (isinstance(exc, ast.Call) and isinstance(exc.func, ast.Attribute)
                                     and isinstance(exc.func.value, ast.Name)) else None
        if name not in parser_errors:
            raise Broken(f"translator(C09): _ast.{cls}.validate_post_freeze raises {name}")
        cond = Tr(f"{cls}.validate_post_freeze", attr_map={"self.cap": "cap"}).b(body[1].test.operand, {})
        out.append(f"(* _ast.py:{body[1].lineno}  {cls}.validate_post_freeze (runs when the token rule builds the type) *)\n"
                   f"Definition {coq} (cap : Z) : outcome Z := if {cond} then Ok cap else ParserError {cstr(name)}.")
    return out


def interpreter_limit() -> int:
    try:
        p = subprocess.run([PY, "-c", "import sys; print(sys.get_int_max_str_digits())"], env=IMPL_ENV,
                           capture_output=True, text=True, timeout=60)
        return int(p.stdout.strip())
    except Exception as e:  # noqa
        raise Broken("translator(C09): cannot read sys.get_int_max_str_digits() of the implementation's interpreter",
                     str(e))


# --------------------------------------------------------------------------------------
# driver
# --------------------------------------------------------------------------------------

def gen_c09() -> Tuple[str, Dict[str, str]]:
    _, t_lex = _src("compiler/bitproto/lexer.py")
    _, t_par = _src("compiler/bitproto/parser.py")
    _, t_gra = _src("compiler/bitproto/grammars.py")
    _, t_err = _src("compiler/bitproto/errors.py")
    _, t_main = _src("compiler/bitproto/_main.py")
    _, t_opt = _src("compiler/bitproto/options.py")
    _, t_ast = _src("compiler/bitproto/_ast.py")
    skel: Dict[str, str] = {}
    notes: List[str] = []
    out = ["(* GENERATED by tools/translate_c09.py from compiler/bitproto/{lexer,parser,grammars,errors,_main,"
           "options}.py and the formatters — do not edit *)",
           "From Coq Require Import String Ascii ZArith List Bool.",
           "From BP Require Import Re TotalBase.",
           "Import ListNotations.", "Open Scope Z_scope.", ""]

    hier_text, h = gen_hierarchy(t_err)
    parser_errors = subclasses_of(h, "ParserError")
    out.append(hier_text)
    out.append(gen_main(t_main))

    # ---- lexer: flags, regexes, table
    init = find_func(t_lex, "__init__", "Lexer")
    lex_calls = [n for n in ast.walk(init) if isinstance(n, ast.Call) and ast.unparse(n.func) == "lex.lex"]
    if len(lex_calls) != 1 or [k.arg for k in lex_calls[0].keywords] != ["object"] or lex_calls[0].args:
        raise Broken("translator(C09): Lexer.__init__ no longer calls lex.lex(object=self) "
                     "(the regex flags of the token rules are unknown)")
    flags = re.VERBOSE      # ply.lex.lex(reflags=int(re.VERBOSE)) by default
    try:
        import inspect
        from ply import lex as plylex  # type: ignore
        dflt = inspect.signature(plylex.lex).parameters["reflags"].default
        if int(dflt) != int(re.VERBOSE):
            raise Broken("translator(C09): ply.lex.lex default reflags is not re.VERBOSE", str(dflt))
    except ImportError:
        raise Broken("translator(C09): ply is not importable")
    for rule, coq_name in (("t_STRING_LITERAL", "string_literal_re"), ("t_INT_LITERAL", "int_literal_re"),
                           ("t_HEX_LITERAL", "hex_literal_re"), ("t_UINT_TYPE", "uint_type_re"),
                           ("t_INT_TYPE", "int_type_re")):
        fn = find_func(t_lex, rule, "Lexer")
        doc = ast.get_docstring(fn, clean=False)
        if doc is None:
            raise Broken(f"translator(C09): {rule} has no regex docstring")
        out.append(f"(* lexer.py:{fn.lineno}  {rule}: " + ccomment(f"r{doc!r}") + " under re.VERBOSE *)")
        out.append(f"Definition {coq_name} : re := {regex_term(doc, flags, rule, notes)}.")
    cls = [n for n in t_lex.body if isinstance(n, ast.ClassDef) and n.name == "Lexer"][0]
    table = None
    for n in cls.body:
        tgt = n.target if isinstance(n, ast.AnnAssign) else (n.targets[0] if isinstance(n, ast.Assign) else None)
        if tgt is not None and isinstance(tgt, ast.Name) and tgt.id == "escaping_chars":
            table = n
    if table is None or not isinstance(table.value, ast.Dict):
        raise Broken("translator(C09): Lexer.escaping_chars is not a dict literal")
    rows = []
    for k, v in zip(table.value.keys, table.value.values):
        if not (isinstance(k, ast.Constant) and isinstance(k.value, str) and len(k.value) == 1
                and isinstance(v, ast.Constant) and isinstance(v.value, str)):
            raise Broken("translator(C09): Lexer.escaping_chars has a non single-character key or non-string value")
        rows.append(f"({cascii(k.value)}, {clist(cascii(c) for c in v.value)})")
    out.append(f"(* lexer.py:{table.lineno}-{table.end_lineno}  Lexer.escaping_chars *)")
    out.append("Definition escaping_chars : list (ascii * list ascii) :=\n  " + clist(rows) + ".")

    # ---- escape loop
    fn = find_func(t_lex, "t_STRING_LITERAL", "Lexer")
    loop_lines, _ = gen_escape_loop(fn, parser_errors)
    out.extend(loop_lines)

    # ---- integer conversions
    out.append(f"(* sys.get_int_max_str_digits() of {PY} *)")
    out.append(f"Definition py_int_max_str_digits : Z := {interpreter_limit()}.")
    out.append(gen_conversion(t_lex, "t_INT_LITERAL", "t.value", "lex_int_literal", parser_errors))
    out.append(gen_conversion(t_lex, "t_HEX_LITERAL", "t.value", "lex_hex_literal", parser_errors))
    out.append(gen_conversion(t_lex, "t_UINT_TYPE", "cap", "lex_uint_cap", parser_errors))
    out.append(gen_conversion(t_lex, "t_INT_TYPE", "cap", "lex_int_cap", parser_errors))

    out.extend(gen_cap_validators(t_ast, parser_errors))

    # ---- error hooks
    for hook, owner, tree in (("t_error", "Lexer", t_lex), ("p_error", "Parser", t_par)):
        paths = hook_paths(find_func(tree, hook, owner))
        out.append(f"(* {hook}: what each path ends in: (class raised or <returns>, the diagnostic formats the "
                   f"token VALUE with str(), line) *)")
        out.append(f"Definition {hook}_paths : list (string * bool * nat) := "
                   + clist(f"({cstr(c)}, {'true' if u else 'false'}, {ln}%nat)" for c, u, ln in paths) + ".")

    # ---- parser actions
    for nm in ("plus", "minus", "times", "divide"):
        out.append(gen_calc(t_par, nm, parser_errors))
    out.append(gen_unsupported(t_par, "p_message_item_unsupported", "message_item_unsupported"))
    out.append(gen_unsupported(t_par, "p_enum_item_unsupported", "enum_item_unsupported"))
    fn_at = find_func(t_par, "p_array_type", "Parser")
    fmt_cap = any(isinstance(n, ast.Call) and isinstance(n.func, ast.Attribute) and n.func.attr == "format"
                  and any(ast.unparse(a) == "p[3]" for a in n.args) for n in ast.walk(fn_at))
    out.append(f"(* parser.py:{fn_at.lineno}  p_array_type formats the capacity p[3] (an int) into the token text *)")
    out.append(f"Definition array_type_formats_cap : bool := {'true' if fmt_cap else 'false'}.")
    act_text, n_actions, n_acc = gen_actions(t_par, t_gra)
    out.append(act_text)

    # ---- raised classes
    for nm, tr_ in (("lexer_raises", t_lex), ("parser_raises", t_par), ("ast_raises", t_ast)):
        out.append(f"Definition {nm} : list string := {clist(cstr(c) for c in raised_classes(tr_))}.")

    out.append(gen_options(t_opt))
    out.extend(gen_formatters())
    out.extend(gen_source_reading(t_par, parser_errors))
    _, t_utils = _src("compiler/bitproto/utils.py")
    out.extend(gen_name_funcs(t_utils))
    rx, n_rx = gen_name_regexes(["compiler/bitproto/utils.py", "compiler/bitproto/linter.py"])
    out.extend(rx)
    out.append("(* the token regexes translated above, in the same table shape *)\n"
               "Definition token_regexes : list (string * (bool * bool) * re) :=\n  [ "
               + "\n  ; ".join(f"({cstr(r)}, (true, false), {c})" for r, c in
                                (("t_STRING_LITERAL", "string_literal_re"), ("t_INT_LITERAL", "int_literal_re"),
                                 ("t_HEX_LITERAL", "hex_literal_re"), ("t_UINT_TYPE", "uint_type_re"),
                                 ("t_INT_TYPE", "int_type_re"))) + " ].")
    out.append("")
    out.append("(* notes of the translator:")
    for n in sorted(set(notes)):
        out.append("   - " + n.replace("*)", "* )"))
    out.append(f"   - {n_actions} semantic actions, {n_acc} accesses to p analysed *)")
    return "\n".join(out) + "\n", skel


GENERATORS = {"GenC09.v": gen_c09}


if __name__ == "__main__":
    import sys
    text, _ = gen_c09()
    sys.stdout.write(text)
