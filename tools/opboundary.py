"""opboundary — deterministic boundary catalogue for the optimization-mode stages (C04, and the -O
stages of C06 / C07 / C14; consumed by tools/opwire.py).  Traditional schemas at the edges where a
statement generator is tempted to take a short cut and which the random generator practically
never reaches:

  A  large arrays: capacities 32, 64, 255, 256, 300 of EVERY whole-byte element width
     (8, 16, 24, 32, 40, 48, 56, 64; unsigned, signed, enum, alias), starting on a byte boundary and
     not, in the middle and as the LAST field (a copy that is too long then runs past BYTES_LENGTH
     into the guard bytes), also inside an array of messages;
  B  large arrays (>= 256) of elements NARROWER than a byte (bool, uintN/intN N < 8, narrow enum),
     byte-aligned and not, next to byte[..] of the same capacity;
  N  field names that are the identifiers the generated code itself uses (s, m, i, k, n, si, di,
     ctx, v, ...), as scalars and as ARRAY fields, inside messages that are array elements of a
     whole number of bytes (so that any textual post-processing of statements meets `.s[N]`);
  S  definitions with the SAME simple name in different scopes and different storage widths
     (message-scoped enums / messages), the narrower one declared first and last.

`cases(prop, seed, quick)` returns [(schema, values, origin, named)].  The classes N, S, B and the
capacity-32 row of A are always present; the remaining (capacity x width x placement) points of A
rotate with (prop, seed) in the quick tier and are all present in the thorough tier.

Cost: the large schemas (A, B) unroll into thousands of statements.  All of them are always
COMPILED AND EXECUTED (T2: bytes against Spec.wire, decoded struct against the stored values, guard
zones); the statement-by-statement comparison with the plan (T1), whose cost is the elaboration of
the statement literals in Coq, is applied in the quick tier to a quarter of them that rotates with
(prop, seed) — origins of the others carry the marker T2_ONLY — and to all in the thorough tier."""
from __future__ import annotations

import hashlib
import random
from typing import Any, List, Tuple

import schema_gen as sg

T = sg.T
T2_ONLY = " (t2-only)"
WIDTHS = (8, 16, 24, 32, 40, 48, 56, 64)
CAPS = (32, 64, 255, 256, 300)
# identifiers of the generated C / Go / Python code and of the formatters' templates
IDENTS = ["s", "m", "i", "k", "n", "si", "di", "ctx", "v", "j", "c", "b", "r", "p", "x", "fi", "sh", "mask",
          "it", "nb", "bp", "ret", "buf", "dst", "src", "tmp", "idx", "cap", "sz", "ut"]


def u(n: int) -> T:
    return T("uint", n=n)


def si(n: int) -> T:
    return T("int", n=n)


def arr(cap: int, t: T) -> T:
    return T("arr", cap=cap, t=t)


def msg(name: str, fields, nested=()) -> T:
    m = T("msg", name=name, fields=list(fields))
    for d in nested:
        d.parent = m
        m.nested.append(d)
    return m


def build(top: T, base: str) -> Tuple[sg.Schema, List[T]]:
    """one file; definitions that carry a parent stay nested in it, the others become top-level in
    dependency order"""
    named: List[T] = []

    def walk(t: T) -> None:
        if t.kind in ("alias", "arr"):
            walk(t.t)
        elif t.kind == "msg":
            for d in t.nested:
                walk(d)
            for _, _, ft in t.fields:
                walk(ft)
        if t.name and not any(t is x for x in named):
            named.append(t)
    walk(top)
    f = sg.SFile(0, base, base)
    for d in named:
        d.file = 0
        if d.parent is None:
            f.defs.append(d)
    g = sg.Gen(random.Random(0), sg.Params(allow_ext=False))
    g.files = [f]
    g.named = list(named)
    s = sg.Schema([f], top)
    s.texts = sg.render_files(g, s)
    return s, named


def _values(top: T, rng, n: int) -> List[Any]:
    modes = ["random", "ones", "min", "max", "random", "zero", "random", "random"]
    return [sg.gen_value(top, rng, modes[k % len(modes)]) for k in range(n)]


# ---- class A ---------------------------------------------------------------------------------

def big_array_row(w: int, cap: int) -> T:
    """uintW[cap] first (byte aligned), a 5-bit pad, intW[cap] (bit offset 5), a 3-bit pad,
    intW[cap] byte aligned as the LAST field"""
    return msg(f"Ta{w}c{cap}", [(1, "fa", arr(cap, u(w))), (2, "fp", u(5)), (3, "fb", arr(cap, si(w))),
                                (4, "fq", u(3)), (5, "fc", arr(cap, si(w)))])


def big_array_point(w: int, cap: int, variant: int) -> T:
    """one array of capacity cap and width w; variant selects sign / wrapping / placement"""
    name = f"Tb{w}c{cap}v{variant}"
    if variant == 0:        # signed, byte aligned, last
        return msg(name, [(1, "fh", u(16)), (2, "fa", arr(cap, si(w)))])
    if variant == 1:        # unsigned, bit offset 3, last
        return msg(name, [(1, "fh", u(3)), (2, "fa", arr(cap, u(w)))])
    if variant == 2:        # alias of the integer as element, aligned, followed by a field
        al = T("alias", name=f"Tal{w}", t=si(w))
        return msg(name, [(1, "fa", arr(cap, al)), (2, "ft", u(7))])
    if variant == 3:        # enum over the width, aligned, last
        en = T("enum", n=w, name=f"Ten{w}", members=[("KZ", 0), ("KT", 1 << (w - 1)), ("KM", (1 << w) - 1), ("KO", 1)])
        return msg(name, [(1, "fa", arr(cap, en))])
    if variant == 4:        # alias to the whole array
        al = T("alias", name=f"Taa{w}", t=arr(cap, u(w)))
        return msg(name, [(1, "fa", al), (2, "ft", T("bool"))])
    # the array lives in a message that is itself an array element
    inner = msg(f"Tin{w}", [(1, "fa", arr(cap, si(w))), (2, "fb", u(8))])
    return msg(name, [(1, "fh", T("bool")), (2, "fe", arr(2, inner))])


# ---- class B ---------------------------------------------------------------------------------

def narrow_rows() -> List[Tuple[T, str]]:
    e3 = T("enum", n=3, name="Tne", members=[("KA", 0), ("KB", 5), ("KC", 7)])
    out = [
        (msg("Tn0", [(1, "fa", arr(256, T("bool"))), (2, "fb", arr(256, si(6))), (3, "fc", arr(256, u(3))),
                     (4, "fd", arr(256, e3)), (5, "fe", arr(256, T("byte")))]), "narrow[256] aligned"),
        (msg("Tn1", [(1, "fh", u(5)), (2, "fa", arr(300, T("bool"))), (3, "fb", arr(257, si(7))), (4, "fc", arr(300, u(1)))]),
         "narrow[300] unaligned"),
    ]
    return out


def narrow_points() -> List[Tuple[T, str]]:
    out = []
    for n in (1, 2, 4, 5, 7):
        for cap in (255, 256, 300):
            out.append((msg(f"Tnp{n}c{cap}", [(1, "fa", arr(cap, si(n) if n % 2 else u(n))), (2, "ft", u(9))]),
                        f"int{n}[{cap}]"))
    al = T("alias", name="Tnb", t=T("bool"))
    out.append((msg("Tnq", [(1, "fa", arr(256, al)), (2, "fb", arr(256, T("alias", name="Tnc", t=u(6))))]),
                "alias-narrow[256]"))
    return out


# ---- class N ---------------------------------------------------------------------------------

def name_rows() -> List[Tuple[T, str]]:
    # an array of whole-byte messages whose members are ARRAYS / scalars called like the code's variables
    item = msg("Titem", [(1, "s", arr(2, u(8))), (2, "m", si(12)), (3, "i", u(4)), (4, "k", arr(3, u(8)))])        # 56 bits
    box = msg("Tbox", [(1, "n", u(5)), (2, "items", arr(3, item)), (3, "v", si(11))])
    deep_in = msg("Tdin", [(1, "s", arr(3, T("byte"))), (2, "si", arr(2, si(4)))])                                # 32 bits
    deep = msg("Tdeep", [(1, "ctx", deep_in), (2, "di", u(16))])                                                     # 48 bits
    deepbox = msg("Tdbox", [(1, "m", arr(2, deep)), (2, "s", arr(4, u(16))), (3, "i", arr(2, arr_elem_alias()))])
    # every identifier once, kinds cycling
    kinds = [lambda: u(12), lambda: si(7), lambda: T("bool"), lambda: arr(2, T("byte")), lambda: u(24), lambda: si(40),
             lambda: arr(3, si(5)), lambda: u(1), lambda: arr(2, u(16)), lambda: si(33)]
    fields = [(n + 1, nm, kinds[n % len(kinds)]()) for n, nm in enumerate(IDENTS)]
    allnames = msg("Tnames", fields)
    elem = msg("Tel", [(n + 1, nm, kinds[(n + 3) % len(kinds)]()) for n, nm in enumerate(IDENTS[:7])] + [(9, "pad", u(6))])
    pad = (-elem.nbits()) % 8
    if pad:
        elem.fields[-1] = (9, "pad", u(6 + pad))
    arrnames = msg("Tarrn", [(1, "s", arr(3, elem)), (2, "m", u(3))])
    return [(box, "array of whole-byte messages with array members s, k"),
            (deepbox, "nested: array member s two levels below an array element"),
            (allnames, "every generated identifier as a field name"),
            (arrnames, "array named s of messages whose members are named like generated identifiers")]


def arr_elem_alias() -> T:
    return T("alias", name="Tsal", t=arr(2, u(8)))


# ---- class S ---------------------------------------------------------------------------------

def scope_rows() -> List[Tuple[T, str]]:
    out = []
    for k, (wa, wb) in enumerate([(3, 40), (9, 33), (40, 3), (5, 17)]):
        ka = T("enum", n=wa, name="Kind", members=[("KA", 0), ("KB", (1 << wa) - 1), ("KC", 1 << (wa - 1))])
        kb = T("enum", n=wb, name="Kind", members=[("KD", 0), ("KE", (1 << wb) - 1), ("KF", 1 << (wb - 1)),
                                                    ("KG", (1 << (wb - 1)) | 5)])
        it_a = msg("Item", [(1, "fa", u(wa))])
        it_b = msg("Item", [(1, "fa", si(wb)), (2, "fb", T("bool"))])
        small = msg(f"Tsm{k}", [(1, "flag", T("bool")), (2, "kind", ka), (3, "it", it_a), (4, "tail", u(4))], nested=[ka, it_a])
        big = msg(f"Tbg{k}", [(1, "flag", T("bool")), (2, "kind", kb), (3, "it", arr(2, it_b)), (4, "kinds", arr(2, kb)),
                               (5, "tail", u(7))], nested=[kb, it_b])
        top = msg(f"Tsc{k}", [(1, "fa", small), (2, "fb", big), (3, "fc", arr(2, small))])
        out.append((top, f"same-named nested enum/message Kind uint{wa} then uint{wb}"))
    return out


# ---- the catalogue ---------------------------------------------------------------------------

def cases(prop: str, seed: int, quick: bool, n_values: int = 3, rotating: int = 3):
    out = []
    rng = random.Random(f"opboundary:{prop}:{seed}")

    def add(top: T, base: str, origin: str, nv: int = n_values, large: bool = False) -> None:
        s, named = build(top, base)
        if large and quick:
            h = int(hashlib.sha256(f"{prop}:{seed}:{base}".encode()).hexdigest(), 16)
            if h % 4 != 0:
                origin += T2_ONLY
        out.append((s, _values(top, random.Random(f"opboundary:{seed}:{base}"), nv), "opboundary:" + origin, named))

    # C04 owns the statement generator: it takes every class in full.  The -O stages of C06 / C07 /
    # C14 (whose own halves dominate their run time) take the whole capacity-32 row of A, which is
    # where their claims (big-endian branch, containment, every width) meet the large-array short
    # cuts, and one representative of each other class, rotating with the seed.
    full = (prop == "C04") or not quick
    pick = (lambda rows: rows) if full else (lambda rows: [rows[(seed + len(prop)) % len(rows)]])
    for k, (top, what) in enumerate(pick(scope_rows())):
        add(top, f"obscope{k}", f"S:{what}")
    for k, (top, what) in enumerate(pick(name_rows())):
        add(top, f"obname{k}", f"N:{what}")
    for k, (top, what) in enumerate(pick(narrow_rows())):
        add(top, f"obnarrow{k}", f"B:{what}", 2, True)
    for w in WIDTHS:
        add(big_array_row(w, 32), f"obrow{w}", f"A:uint{w}[32] aligned, int{w}[32] at bit 5, int{w}[32] aligned last", 2, True)
    points = [(w, cap, var) for cap in CAPS for w in WIDTHS for var in range(6) if not (cap == 32 and var in (0, 1))]
    extra_narrow = narrow_points()
    if quick:
        # rotate: every (prop, seed) takes another slice; widths 24/40/48/56 and each capacity recur often
        rng.shuffle(points)
        points = sorted(points[:rotating if full else 1], key=lambda p: p)
        rng.shuffle(extra_narrow)
        extra_narrow = extra_narrow[:1] if full else []
    for (w, cap, var) in points:
        add(big_array_point(w, cap, var), f"obpt{w}c{cap}v{var}", f"A:width {w} cap {cap} variant {var}", 2, True)
    for k, (top, what) in enumerate(extra_narrow):
        add(top, f"obnp{k}", f"B:{what}", 2, True)
    return out
